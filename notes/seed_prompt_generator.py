import json,sys,os,glob
props={}
for l in open('/verif/properties.jsonl'):
    p=json.loads(l); props[p['id']]=p
HEAD='''You are helping to evaluate a verification effort on the Go code base tendermint/tendermint (v0.34.24 with a number of bug-fix commits). You get ONE semantic property of the system (below) and your own scratch git worktree of the repository at WT. Work ONLY inside WT and write your deliverables to OUT/ — do not read or touch /verif or /repo, and do not commit.

Shell environment for every command (no network): `export GOFLAGS=-mod=mod GOPROXY=off GOSUMDB=off GOTOOLCHAIN=local` (go 1.23.5).

'''
TAIL='''Do NOT use `git stash` anywhere (other worktrees share the stash); switch between the two states with `git apply` / `git apply -R` of your patch. Prefer a change whose effect needs a particular schedule of concurrent actors, a crash or fault at a particular point, a history of several operations, or a boundary configuration — not merely an odd single input. Keep the demonstration fast (seconds) and deterministic if you can. The machine is loaded: known flaky repository tests (consensus TestByzantinePrevoteEquivocation, TestMempoolProgressAfterCreateEmptyBlocksInterval, light Example*/TestProvider, p2p TestNetAddress*) may fail independently of your change.

YOUR TASK
Produce a realistic, subtle change to the tendermint source (non-test .go files in WT) that BREAKS this property while
 (a) still compiling (`go build ./...`), and
 (b) keeping the repository's own existing tests of every package you touched (and of obviously dependent packages, e.g. consensus if you touch types used by it — use judgement, run at least the touched packages' `go test -count=1 ./<pkg>/`) green, and
 (c) needing something SPECIFIC to manifest: a particular interleaving / message order, a crash or fault at a particular point, a multi-step sequence of operations, an unusual (boundary) input, or two cooperating sites that each look fine alone. NOT a change that ordinary use would expose at once (if a happy-path run of a node or the package's basic tests would already fail, it is not what we want).
Think like a plausible bug a maintainer could introduce in a refactoring or an "optimisation": an off-by-one at a boundary, a check moved after the action it guards, a condition weakened for one case, state updated before it is persisted, a cache used where it is stale, an early return, a comparison on the wrong field. Keep the patch small (typically 1–15 lines). Prefer a site in the files the property anchors in.

Then write a DEMONSTRATION: a Go test (a new _test.go file placed in the right package directory of WT) or a small program that exercises exactly the triggering situation, FAILS with your change applied and PASSES on the unchanged code. Verify both directions yourself (apply / revert the patch with `git apply` and `git apply -R`).

DELIVERABLES in OUT/ :
 - patch.diff : `git -C WT diff -- . ':(exclude)*_test.go'` of the source change only (must apply with `git apply` on a clean checkout of the same commit)
 - the demonstration file(s), plus demo.txt with the exact commands to run it and the observed output in both directions
 - meta.json : {"property": "<id>", "summary": "<one sentence: what the change does>", "needs": "<what specific situation is needed for it to manifest>", "files_touched": [...], "repo_tests_run": ["<commands you ran and that passed with the change>"]}
Leave WT with your change and demo applied (do not clean it up). Final answer: a short summary of the change, why it breaks the property, what it needs to manifest, and what you verified.
'''
for pid in sys.argv[1:]:
    p=props[pid]
    wt='/tmp/seed9-%s'%pid; out='/tmp/seed9-out-%s'%pid
    a=p['anchors']
    body='THE PROPERTY\nProperty %s — %s\n\nStatement: %s\n\nQuantifier (%s): %s\n\nWhy the existing tests cannot settle it: %s\n\nCode anchors: files %s; mechanisms: %s\n\n\n\n'%(
        pid,p['title'],p['statement'],', '.join(p['quantifier']['over']),p['quantifier']['text'],p['why_tests_cant'],', '.join(a['files']),
        '; '.join('%s (%s)'%(m['name'],m['where']) for m in a.get('mechanism',[])))
    earlier='EARLIER CHANGES for this property, written by others — yours must differ from ALL of them in site AND mechanism (another function, preferably another file among the anchors or their direct callees/callers, and another kind of trigger):\n'
    for d in sorted(glob.glob('/verif/seeded/%s*/meta.json'%pid)):
        m=json.load(open(d))
        earlier+='- %s (needed: %s)\n'%(m.get('summary','')[:420],m.get('needs','')[:160])
    txt=(HEAD+body+earlier+'\n'+TAIL).replace('WT',wt).replace('OUT',out)
    open('/tmp/seed9-prompt-%s.txt'%pid,'w').write(txt)
    os.makedirs(out,exist_ok=True)
