package merkle

// C10 (Merkle half) — a proof verifies against a root only for the item that really sits at the
// stated index of a tree with the stated number of leaves; no other (item, index, total, path)
// combination verifies.
//
// Exhaustive enumeration, for every tree size n in the bound and three leaf-content profiles, of
// every claim (item bytes, Index, Total, LeafHash, Aunts) that can be put together from
//   - the genuine proofs (every (Index,Total) relabelling on a grid that contains every alias of
//     every direction path, every prefix/suffix of the aunt list),
//   - every transplant (item of leaf a, leaf hash of leaf b, aunt list of leaf c, index, total),
//   - every single mutation of item / leaf hash / one aunt / the aunt list (bit flips, truncation,
//     replacement by ANY node hash of the tree, drop, duplicate, insert, swap, reverse),
//   - every inner node presented as a leaf (second-preimage shapes that only the 0x00/0x01 domain
//     separation stops),
// executed on the real Proof.Verify (=> computeHashFromAunts, leafHash, innerHash) with the real
// root of ProofsFromByteSlices, and judged against a structural reference that never hashes to
// decide: the harness knows which bytes sit at which position and which sibling hashes lie on
// which path, because it built the tree itself (own RFC-6962 implementation on crypto/sha256).
//
// What is demanded of Verify ALONE (see notes/C10.md for the reasoning): on acceptance
//   (1) the item is a real leaf of the tree,                                   [always]
//   (2) if the stated Total equals the real leaf count, the item sits at exactly the stated Index,
//   (3) LeafHash and Aunts are bytewise the genuine ones of such a position p, and the left/right
//       direction path that (Index,Total) dictates equals the direction path of (p,n).
// An RFC-6962 root does not commit to the leaf count, so a claim (Index',Total') with Total' != n
// whose direction path equals that of (p,n) verifies in ANY verifier with the signature
// Verify(root, leaf): it is counted as diag_alias_total_accepted, not as a violation; binding the
// total is demanded where the consumer holds a committed total (types.PartSet.AddPart, part "parts").

import (
	"bytes"
	"crypto/sha256"
	"encoding/binary"
	"fmt"
	"math"
	"strings"
	"testing"
	"time"

	"github.com/tendermint/tendermint/internal/verif/vr"
)

// ---------------------------------------------------------------------------------------------
// reference tree (independent of the code under test)

func c10Sum(bs ...[]byte) []byte {
	h := sha256.New()
	for _, b := range bs {
		h.Write(b)
	}
	return h.Sum(nil)
}

func c10RefLeaf(item []byte) []byte   { return c10Sum([]byte{0}, item) }
func c10RefInner(l, r []byte) []byte  { return c10Sum([]byte{1}, l, r) }
func c10Clone(b []byte) []byte        { return append([]byte(nil), b...) }
func c10CloneList(l [][]byte) [][]byte { // deep copy; nil stays nil
	if l == nil {
		return nil
	}
	out := make([][]byte, len(l))
	for i := range l {
		if l[i] != nil {
			out[i] = append([]byte{}, l[i]...)
		}
	}
	return out
}

// largest power of two strictly smaller than n (n >= 2); overflow-free for n up to MaxInt64.
func c10Split(n int64) int64 {
	p := int64(1)
	for p <= (n-1)/2 {
		p *= 2
	}
	if p == n {
		p /= 2
	}
	return p
}

// c10Dirs returns the direction path of leaf `index` in a tree of `total` leaves, leaf upward:
// 'L' = the node on the path is a left child (its sibling, the aunt, is on the right).
func c10Dirs(index, total int64) (string, bool) {
	if total <= 0 || index < 0 || index >= total {
		return "", false
	}
	top := []byte{}
	for total > 1 {
		k := c10Split(total)
		if index < k {
			top = append(top, 'L')
			total = k
		} else {
			top = append(top, 'R')
			index -= k
			total -= k
		}
	}
	for i, j := 0, len(top)-1; i < j; i, j = i+1, j-1 {
		top[i], top[j] = top[j], top[i]
	}
	return string(top), true
}

type c10Inner struct {
	hash, left, right []byte
	aunts             [][]byte // from this node's sibling up to a child of the root
	dirs              string   // direction path of this node, upward
	lo, hi            int      // leaf range [lo,hi)
}

type c10Tree struct {
	n       int
	profile int
	items   [][]byte
	leaf    [][]byte   // reference leaf hashes
	aunts   [][][]byte // reference aunts per leaf, leaf's sibling first
	dirs    []string
	root    []byte
	inner   []c10Inner
	pool    [][]byte // every node hash of the tree (leaves, inner nodes, root), deduplicated
	// from the code under test
	realRoot   []byte
	realProofs []*Proof
	agrees     bool // real root and real proofs equal the reference
}

func c10Items(n, profile int) [][]byte {
	items := make([][]byte, n)
	for i := range items {
		switch profile {
		case 0: // distinct short items
			items[i] = []byte{'i', byte(i)}
		case 1: // repeated contents: position, not content, distinguishes leaves
			items[i] = []byte{byte(i % 3)}
		default: // shapes that probe the domain separation
			switch i {
			case 0:
				items[i] = []byte{}
			case 1:
				items[i] = []byte{0}
			case 2:
				items[i] = []byte{1}
			case 3:
				items[i] = c10RefLeaf([]byte{}) // a leaf whose content is a node hash
			case 4: // content = left||right of inner node (0,1): the unprefixed preimage shape
				items[i] = append(c10RefLeaf([]byte{}), c10RefLeaf([]byte{0})...)
			case 5: // content = 0x01||left||right: the exact inner-node preimage
				items[i] = append([]byte{1}, append(c10RefLeaf([]byte{}), c10RefLeaf([]byte{0})...)...)
			default:
				items[i] = []byte{0, byte(i)}
			}
		}
	}
	return items
}

func c10Build(n, profile int) *c10Tree {
	t := &c10Tree{n: n, profile: profile, items: c10Items(n, profile)}
	t.leaf = make([][]byte, n)
	t.aunts = make([][][]byte, n)
	t.dirs = make([]string, n)
	for i := range t.items {
		t.leaf[i] = c10RefLeaf(t.items[i])
		t.dirs[i], _ = c10Dirs(int64(i), int64(n))
	}
	// recursive construction; returns the subtree hash; `up` = aunts from this subtree's sibling upward
	var rec func(lo, hi int) []byte
	type frame struct{ lo, hi int }
	hashes := map[frame][]byte{}
	rec = func(lo, hi int) []byte {
		if hi-lo == 1 {
			hashes[frame{lo, hi}] = t.leaf[lo]
			return t.leaf[lo]
		}
		k := int(c10Split(int64(hi - lo)))
		l := rec(lo, lo+k)
		r := rec(lo+k, hi)
		h := c10RefInner(l, r)
		hashes[frame{lo, hi}] = h
		return h
	}
	if n == 0 {
		t.root = c10Sum()
	} else {
		t.root = rec(0, n)
	}
	// second pass: aunts (top-down, then reversed)
	var walk func(lo, hi int, upAunts [][]byte, upDirs string)
	walk = func(lo, hi int, upAunts [][]byte, upDirs string) {
		rev := func(a [][]byte) [][]byte {
			out := make([][]byte, len(a))
			for i := range a {
				out[len(a)-1-i] = a[i]
			}
			return out
		}
		revs := func(s string) string {
			b := []byte(s)
			for i, j := 0, len(b)-1; i < j; i, j = i+1, j-1 {
				b[i], b[j] = b[j], b[i]
			}
			return string(b)
		}
		if hi-lo == 1 {
			t.aunts[lo] = rev(upAunts)
			if revs(upDirs) != t.dirs[lo] {
				panic("C10 reference: direction path functions disagree")
			}
			return
		}
		k := int(c10Split(int64(hi - lo)))
		l, r := hashes[frame{lo, lo + k}], hashes[frame{lo + k, hi}]
		t.inner = append(t.inner, c10Inner{hash: hashes[frame{lo, hi}], left: l, right: r, aunts: rev(upAunts), dirs: revs(upDirs), lo: lo, hi: hi})
		walk(lo, lo+k, append(append([][]byte{}, upAunts...), r), upDirs+"L")
		walk(lo+k, hi, append(append([][]byte{}, upAunts...), l), upDirs+"R")
	}
	if n > 0 {
		walk(0, n, nil, "")
	}
	seen := map[string]bool{}
	for _, h := range hashes {
		if !seen[string(h)] {
			seen[string(h)] = true
		}
	}
	// deterministic pool order: leaves, then inner nodes in construction order
	add := func(h []byte) {
		if seen[string(h)] {
			seen[string(h)] = false
			t.pool = append(t.pool, h)
		}
	}
	for _, h := range t.leaf {
		add(h)
	}
	for _, in := range t.inner {
		add(in.hash)
	}
	// code under test
	t.realRoot, t.realProofs = ProofsFromByteSlices(c10CloneList(t.items))
	t.agrees = bytes.Equal(t.realRoot, t.root) && len(t.realProofs) == n
	for i := 0; t.agrees && i < n; i++ {
		p := t.realProofs[i]
		t.agrees = p.Index == int64(i) && p.Total == int64(n) && bytes.Equal(p.LeafHash, t.leaf[i]) && c10EqList(p.Aunts, t.aunts[i])
	}
	return t
}

func c10EqList(a, b [][]byte) bool {
	if len(a) != len(b) {
		return false
	}
	for i := range a {
		if !bytes.Equal(a[i], b[i]) {
			return false
		}
	}
	return true
}

// ---------------------------------------------------------------------------------------------
// claims

type c10Claim struct {
	N        int      `json:"n"`
	Profile  int      `json:"profile"`
	Family   string   `json:"family"`
	Desc     string   `json:"desc"`
	Item     []byte   `json:"item"`
	Index    int64    `json:"index"`
	Total    int64    `json:"total"`
	LeafHash []byte   `json:"leaf_hash"`
	Aunts    [][]byte `json:"aunts"`
	NilRoot  bool     `json:"nil_root,omitempty"` // verify against an empty root instead of the tree's
}

func (c *c10Claim) id() uint64 {
	h := sha256.New()
	var b [8]byte
	w := func(x []byte) {
		binary.LittleEndian.PutUint64(b[:], uint64(len(x)))
		h.Write(b[:])
		h.Write(x)
	}
	binary.LittleEndian.PutUint64(b[:], uint64(c.N)<<8|uint64(c.Profile)<<1|map[bool]uint64{false: 0, true: 1}[c.NilRoot])
	h.Write(b[:])
	binary.LittleEndian.PutUint64(b[:], uint64(c.Index))
	h.Write(b[:])
	binary.LittleEndian.PutUint64(b[:], uint64(c.Total))
	h.Write(b[:])
	w(c.Item)
	w(c.LeafHash)
	binary.LittleEndian.PutUint64(b[:], uint64(len(c.Aunts)))
	h.Write(b[:])
	for _, a := range c.Aunts {
		w(a)
	}
	return binary.LittleEndian.Uint64(h.Sum(nil)[:8])
}

func c10SafeVerify(p *Proof, root, item []byte) (err error, panicked bool) {
	defer func() {
		if x := recover(); x != nil {
			err, panicked = fmt.Errorf("panic: %v", x), true
		}
	}()
	return p.Verify(root, item), false
}

// c10Judge runs one claim on the real code and judges it. class is the outcome class.
func c10Judge(r *vr.Report, t *c10Tree, c *c10Claim) (key, what, class string) {
	root := t.realRoot
	if c.NilRoot {
		root = nil
	}
	p := &Proof{Total: c.Total, Index: c.Index, LeafHash: c10Clone(c.LeafHash), Aunts: c10CloneList(c.Aunts)}
	if c.LeafHash == nil {
		p.LeafHash = nil
	}
	err, panicked := c10SafeVerify(p, root, c10Clone(c.Item))
	if panicked {
		// a panic is not a successful verification: outside the statement, recorded as a diagnostic
		r.Add("diag_verify_panics", 1)
		r.Note(fmt.Sprintf("Verify panicked: %v on n=%d %s", err, t.n, c.Desc))
		return "", "", "panic(diag)"
	}
	if err != nil {
		m := err.Error()
		switch {
		case strings.HasPrefix(m, "invalid leaf hash"):
			class = "reject:leaf-hash"
		case strings.HasPrefix(m, "invalid root hash"):
			class = "reject:root"
		case strings.Contains(m, "total"):
			class = "reject:total"
		case strings.Contains(m, "index"):
			class = "reject:index"
		default:
			class = "reject:other"
		}
		// completeness is not part of the statement: diagnostic only
		if !c.NilRoot && c.Family == "genuine" {
			r.Add("diag_genuine_proof_rejected", 1)
		}
		return "", "", class
	}
	// accepted
	if c.NilRoot {
		// an empty root is not the root of any tree; the statement quantifies over mutations of the
		// proof and the item, not of the commitment. Recorded, not judged.
		r.Add("diag_empty_root_accepts_malformed_proof", 1)
		return "", "", "accept:empty-root(diag)"
	}
	dirs, okd := c10Dirs(c.Index, c.Total)
	member := false
	for _, it := range t.items {
		if bytes.Equal(it, c.Item) {
			member = true
		}
	}
	if !member {
		return "crypto/merkle/proof.go:Verify:accepts-item-not-in-tree",
			fmt.Sprintf("n=%d profile=%d: Verify accepted item %X which is no leaf of the tree (index=%d total=%d, %d aunts; %s)", t.n, t.profile, c.Item, c.Index, c.Total, len(c.Aunts), c.Desc), "accept"
	}
	if c.Total == int64(t.n) && (c.Index < 0 || c.Index >= int64(t.n) || !bytes.Equal(t.items[c.Index], c.Item)) {
		return "crypto/merkle/proof.go:Verify:accepts-wrong-index-at-true-total",
			fmt.Sprintf("n=%d profile=%d: Verify accepted item %X at index %d of %d, but that position holds another item (%s)", t.n, t.profile, c.Item, c.Index, c.Total, c.Desc), "accept"
	}
	if !t.agrees {
		r.Cap("real ProofsFromByteSlices output differs from the RFC-6962 reference: path-level oracle not applicable")
		return "", "", "accept:unjudged-path"
	}
	if !okd {
		return "crypto/merkle/proof.go:Verify:accepts-impossible-index-total",
			fmt.Sprintf("n=%d: Verify accepted index=%d total=%d (%s)", t.n, c.Index, c.Total, c.Desc), "accept"
	}
	samePath, sameAunts := false, false
	for p0 := range t.items {
		if !bytes.Equal(t.items[p0], c.Item) {
			continue
		}
		if c10EqList(t.aunts[p0], c.Aunts) && bytes.Equal(t.leaf[p0], c.LeafHash) {
			sameAunts = true
			if t.dirs[p0] == dirs {
				samePath = true
			}
		}
	}
	if !sameAunts {
		return "crypto/merkle/proof.go:Verify:accepts-non-genuine-path-hashes",
			fmt.Sprintf("n=%d profile=%d: Verify accepted item %X with leaf hash/aunts that are not those of any position holding it (index=%d total=%d; %s)", t.n, t.profile, c.Item, c.Index, c.Total, c.Desc), "accept"
	}
	if !samePath {
		return "crypto/merkle/proof.go:Verify:accepts-other-direction-path",
			fmt.Sprintf("n=%d profile=%d: Verify accepted item %X under index=%d total=%d whose left/right path %q is not the path of any position holding it (%s)", t.n, t.profile, c.Item, c.Index, c.Total, dirs, c.Desc), "accept"
	}
	if c.Total != int64(t.n) {
		r.Add("diag_alias_total_accepted", 1)
		return "", "", "accept:alias-total(diag)"
	}
	return "", "", "accept:genuine-position"
}

// c10Grid is the (Index,Total) grid: every pair with -1 <= Total <= maxT, -1 <= Index <= Total,
// plus extreme values. It contains every alias of every direction path of depth <= log2(maxT).
func c10Grid(n int, i int, maxT int64, f func(index, total int64)) {
	for tot := int64(-1); tot <= maxT; tot++ {
		for idx := int64(-1); idx <= tot+1; idx++ {
			f(idx, tot)
		}
	}
	for _, tot := range []int64{1 << 31, 1<<31 + int64(n), 1<<32 + 1, 1<<32 + int64(n), 1 << 62, math.MaxInt64, math.MinInt64} {
		for _, idx := range []int64{0, int64(i), tot - 1, tot - int64(n-i), tot, math.MinInt64} {
			f(idx, tot)
		}
	}
}

func c10Flip(b []byte, pos int, mask byte) []byte {
	o := c10Clone(b)
	o[pos] ^= mask
	return o
}

// c10Enumerate generates every claim of the bound for one tree, simplest first.
func c10Enumerate(t *c10Tree, thorough bool, emit func(c *c10Claim) bool) {
	n := t.n
	ok := true
	mk := func(fam, desc string, item []byte, idx, tot int64, lh []byte, aunts [][]byte) {
		if !ok {
			return
		}
		ok = emit(&c10Claim{N: n, Profile: t.profile, Family: fam, Desc: desc, Item: item, Index: idx, Total: tot, LeafHash: lh, Aunts: aunts})
	}
	maxT := int64(2*n + 3)
	if maxT < 12 {
		maxT = 12
	}
	if thorough {
		maxT = int64(4*n + 8)
	}
	if n == 0 {
		// nothing is in the tree: every claim must be rejected
		for _, item := range [][]byte{{}, {0}, []byte("x")} {
			for _, aunts := range [][][]byte{nil, {}, {c10RefLeaf(nil)}, {t.root}} {
				for _, lh := range [][]byte{c10RefLeaf(item), t.root, nil} {
					c10Grid(0, 0, 6, func(idx, tot int64) {
						mk("empty-tree", "claim against the empty tree", item, idx, tot, lh, aunts)
					})
				}
			}
		}
		return
	}
	// F0 genuine
	for i := 0; i < n; i++ {
		mk("genuine", fmt.Sprintf("genuine proof of leaf %d", i), t.items[i], int64(i), int64(n), t.leaf[i], t.aunts[i])
	}
	// F1 relabel grid x aunt prefixes/suffixes
	for i := 0; i < n && ok; i++ {
		variants := [][][]byte{t.aunts[i]}
		for k := 0; k < len(t.aunts[i]); k++ {
			variants = append(variants, t.aunts[i][:k], t.aunts[i][k+1:])
		}
		for vi, av := range variants {
			c10Grid(n, i, maxT, func(idx, tot int64) {
				mk("relabel", fmt.Sprintf("item+leafhash of leaf %d, aunt-list variant %d (0=genuine, odd=prefix, even=suffix), relabelled", i, vi), t.items[i], idx, tot, t.leaf[i], av)
			})
		}
	}
	// F2 full transplant
	for a := 0; a < n && ok; a++ {
		for b := 0; b < n; b++ {
			for c := 0; c < n; c++ {
				for idx := int64(0); idx <= int64(n); idx++ {
					for tot := int64(1); tot <= int64(n)+2; tot++ {
						mk("transplant", fmt.Sprintf("item of leaf %d, leaf hash of leaf %d, aunts of leaf %d", a, b, c), t.items[a], idx, tot, t.leaf[b], t.aunts[c])
					}
				}
			}
		}
	}
	// F3 single mutations of each genuine proof, at the true (index,total) and at every accepted alias in the grid
	for i := 0; i < n && ok; i++ {
		type it struct{ idx, tot int64 }
		labels := []it{{int64(i), int64(n)}}
		for tot := int64(1); tot <= maxT; tot++ {
			for idx := int64(0); idx < tot; idx++ {
				if d, _ := c10Dirs(idx, tot); d == t.dirs[i] && tot != int64(n) {
					labels = append(labels, it{idx, tot})
				}
			}
		}
		if !thorough && len(labels) > 3 {
			labels = labels[:3]
		}
		item, lh, aunts := t.items[i], t.leaf[i], t.aunts[i]
		for _, lb := range labels {
			m := func(desc string, item []byte, lh []byte, aunts [][]byte) {
				mk("mutation", fmt.Sprintf("leaf %d as (%d,%d): %s", i, lb.idx, lb.tot, desc), item, lb.idx, lb.tot, lh, aunts)
			}
			// item bytes
			for p := range item {
				m(fmt.Sprintf("item byte %d ^1", p), c10Flip(item, p, 1), lh, aunts)
				m(fmt.Sprintf("item byte %d ^0x80", p), c10Flip(item, p, 0x80), lh, aunts)
			}
			if len(item) > 0 {
				m("item truncated", item[:len(item)-1], lh, aunts)
				m("item first byte dropped", item[1:], lh, aunts)
			}
			m("item + 0x00", append(c10Clone(item), 0), lh, aunts)
			m("0x00 + item", append([]byte{0}, item...), lh, aunts)
			m("0x01 + item", append([]byte{1}, item...), lh, aunts)
			m("item doubled", append(c10Clone(item), item...), lh, aunts)
			m("item = leaf hash", lh, lh, aunts)
			m("item nil", nil, lh, aunts)
			// same item mutations with the leaf hash recomputed by the attacker
			for _, it2 := range [][]byte{append(c10Clone(item), 0), append([]byte{0}, item...), append([]byte{1}, item...), lh, nil} {
				m("item mutated, leaf hash recomputed", it2, c10RefLeaf(it2), aunts)
			}
			// leaf hash
			for p := range lh {
				m(fmt.Sprintf("leaf hash byte %d ^1", p), item, c10Flip(lh, p, 1), aunts)
			}
			m("leaf hash truncated", item, lh[:31], aunts)
			m("leaf hash extended", item, append(c10Clone(lh), 0), aunts)
			m("leaf hash nil", item, nil, aunts)
			m("leaf hash = unprefixed sha256(item)", item, c10Sum(item), aunts)
			m("leaf hash = inner-prefixed sha256(item)", item, c10Sum([]byte{1}, item), aunts)
			for pi, ph := range t.pool {
				m(fmt.Sprintf("leaf hash = node hash #%d", pi), item, ph, aunts)
			}
			// one aunt
			for k := range aunts {
				for p := 0; p < 32; p++ {
					m(fmt.Sprintf("aunt %d byte %d ^1", k, p), item, lh, c10With(aunts, k, c10Flip(aunts[k], p, 1)))
				}
				for pi, ph := range t.pool {
					m(fmt.Sprintf("aunt %d = node hash #%d", k, pi), item, lh, c10With(aunts, k, ph))
				}
				m(fmt.Sprintf("aunt %d truncated", k), item, lh, c10With(aunts, k, aunts[k][:31]))
				m(fmt.Sprintf("aunt %d extended", k), item, lh, c10With(aunts, k, append(c10Clone(aunts[k]), 0)))
				m(fmt.Sprintf("aunt %d empty", k), item, lh, c10With(aunts, k, []byte{}))
				m(fmt.Sprintf("aunt %d nil", k), item, lh, c10With(aunts, k, nil))
				m(fmt.Sprintf("aunt %d = leaf hash", k), item, lh, c10With(aunts, k, lh))
				m(fmt.Sprintf("aunt %d = root", k), item, lh, c10With(aunts, k, t.root))
				// list edits
				m(fmt.Sprintf("aunt %d dropped", k), item, lh, append(append([][]byte{}, aunts[:k]...), aunts[k+1:]...))
				m(fmt.Sprintf("aunt %d duplicated", k), item, lh, append(append(append([][]byte{}, aunts[:k+1]...), aunts[k]), aunts[k+1:]...))
				for k2 := k + 1; k2 < len(aunts); k2++ {
					sw := append([][]byte{}, aunts...)
					sw[k], sw[k2] = sw[k2], sw[k]
					m(fmt.Sprintf("aunts %d and %d swapped", k, k2), item, lh, sw)
				}
			}
			for pos := 0; pos <= len(aunts); pos++ {
				for pi, ph := range append(append([][]byte{}, t.pool...), t.root, []byte{}, nil) {
					ins := append(append(append([][]byte{}, aunts[:pos]...), ph), aunts[pos:]...)
					m(fmt.Sprintf("node hash #%d inserted at aunt position %d", pi, pos), item, lh, ins)
				}
			}
			rv := make([][]byte, len(aunts))
			for k := range aunts {
				rv[len(aunts)-1-k] = aunts[k]
			}
			m("aunts reversed", item, lh, rv)
			m("aunts nil", item, lh, nil)
			m("aunts empty", item, lh, [][]byte{})
		}
	}
	// F4 inner nodes presented as leaves
	for vi, v := range t.inner {
		if !ok {
			break
		}
		lr := append(c10Clone(v.left), v.right...)
		for ii, item := range [][]byte{lr, append([]byte{1}, lr...), v.hash, v.left} {
			for li, lh := range [][]byte{v.hash, c10RefLeaf(item), c10Sum(item)} {
				c10Grid(n, v.lo, maxT, func(idx, tot int64) {
					mk("inner-as-leaf", fmt.Sprintf("inner node #%d over leaves [%d,%d) presented as a leaf (item shape %d, leaf hash shape %d) with its own upper path", vi, v.lo, v.hi, ii, li), item, idx, tot, lh, v.aunts)
				})
			}
		}
	}
	// F5 empty root: claims whose shape makes computeHashFromAunts return nil
	for i := 0; i < n && ok; i++ {
		for _, lab := range [][2]int64{{int64(i), int64(n)}, {0, 0}, {int64(n), int64(n)}, {0, 1}} {
			for _, aunts := range [][][]byte{t.aunts[i], nil, {t.root}} {
				if !ok {
					break
				}
				ok = emit(&c10Claim{N: n, Profile: t.profile, Family: "empty-root", Desc: fmt.Sprintf("leaf %d against an empty root", i), Item: t.items[i],
					Index: lab[0], Total: lab[1], LeafHash: t.leaf[i], Aunts: aunts, NilRoot: true})
			}
		}
	}
}

func c10With(aunts [][]byte, k int, v []byte) [][]byte {
	o := append([][]byte{}, aunts...)
	o[k] = v
	return o
}

func TestVerifC10Proof(t *testing.T) {
	r := vr.Start("C10", "proof", 100*time.Second, 20*time.Minute)
	defer r.Finish()
	r.Rule = "per tree size n and leaf-content profile: every claim (item, Index, Total, LeafHash, Aunts) from the families genuine / relabel-grid x aunt prefix+suffix / " +
		"full transplant (item a, leaf hash b, aunts c, index, total) / single mutation of item, leaf hash, one aunt (incl. replacement by every node hash of the tree) or the aunt list / " +
		"inner-node-as-leaf / empty root; claims are deduplicated by content hash (distinct by construction of the key); non-trivial = differs from a genuine proof"
	r.Assume("SHA-256 is collision resistant (the structural reference decides membership and paths by position, never by comparing recomputed roots)")
	r.Assume("the reference tree is the harness's own RFC 6962 implementation; the real ProofsFromByteSlices output is compared with it per tree (diag_real_tree_differs_from_reference)")
	r.Assume("acceptance of (Index',Total') with Total' != n and the same left/right path as the true position is not judged at Verify alone (root does not commit to n): counted as diag_alias_total_accepted")

	var rc c10Claim
	if rep, skip := r.ReplayCase(&rc); skip {
		return
	} else if rep {
		tr := c10Build(rc.N, rc.Profile)
		r.Eval()
		if k, w, _ := c10Judge(r, tr, &rc); k != "" {
			r.Violation(k, w, rc)
		}
		return
	}
	maxN := vr.Pick(12, 20)
	seen := map[uint64]struct{}{}
	gen := 0
	stop := false
	for n := 0; n <= maxN && !stop; n++ {
		for profile := 0; profile < 3 && !stop; profile++ {
			if n == 0 && profile > 0 {
				continue
			}
			tr := c10Build(n, profile)
			if !tr.agrees {
				r.Add("diag_real_tree_differs_from_reference", 1)
			}
			if h1, h2 := HashFromByteSlices(c10CloneList(tr.items)), HashFromByteSlicesIterative(c10CloneList(tr.items)); !bytes.Equal(h1, tr.realRoot) || !bytes.Equal(h2, tr.realRoot) {
				r.Add("diag_root_functions_disagree", 1)
			}
			c10Enumerate(tr, vr.Thorough(), func(c *c10Claim) bool {
				gen++
				if gen%8192 == 0 && r.Deadline(fmt.Sprintf("C10 proof claims, reached n=%d profile=%d", n, profile)) {
					stop = true
					return false
				}
				id := c.id()
				if !r.Mine(int(id & 0x3fffffff)) {
					return true
				}
				if _, dup := seen[id]; dup {
					r.Add("duplicate_claims_skipped", 1)
					return true
				}
				seen[id] = struct{}{}
				r.Eval()
				if c.Family != "genuine" {
					r.NTCount(1)
				}
				key, what, class := c10Judge(r, tr, c)
				if key != "" {
					first := fmt.Errorf("%s", key)
					if !vr.Confirm(3, first, func() error {
						k2, _, _ := c10Judge(r, tr, c)
						if k2 == "" {
							return nil
						}
						return fmt.Errorf("%s", k2)
					}) {
						panic("C10 proof harness nondeterministic on " + c.Desc)
					}
					r.Violation(key, what, c)
				}
				r.Outcome(c.Family + "/" + class)
				if class == "accept:alias-total(diag)" || (c.Family == "inner-as-leaf" && len(seen)%5000 == 0) || len(seen)%200000 == 1 {
					r.Sample(map[string]interface{}{"n": n, "profile": profile, "family": c.Family, "desc": c.Desc, "index": c.Index, "total": c.Total, "n_aunts": len(c.Aunts), "outcome": class})
				}
				return true
			})
		}
		if !stop {
			r.Bound = fmt.Sprintf("tree sizes 0..%d x 3 leaf profiles, all families, (Index,Total) grid up to Total=max(12,2n+3) (thorough 4n+8) plus int64 extremes", n)
		}
	}
	if r.Shard == 0 {
		r.Set("claims_generated_before_dedup_and_sharding", gen)
	}
}
