package pex

// C17 part "pex" — hostile-but-decodable messages against the real PEX reactor over a real
// address book.
//
// Case = (book routability mode, whether we asked this peer for addresses, message). Messages:
// 1..3 PexRequests in a row (flood), PexAddrs with lists built from a per-address boundary menu
// (ID shape x IP shape x port), lists of length 0/1/2 and a 300-address list, undecodable payloads.
// Reactor.Receive runs under the connection's recover (panic = peer error, allowed).
// Oracle: the address book lock is free afterwards; the book holds at most the number of addresses
// the peer sent; the consumers that run in unprotected goroutines in production (ensurePeers picks
// via PickAddress, saveRoutine via Save, and the mark/select operations) do not panic on what the
// peer made the book hold.

import (
	"fmt"
	"math"
	"net"
	"os"
	"path/filepath"
	"sync"
	"sync/atomic"
	"testing"
	"time"

	"github.com/gogo/protobuf/proto"

	"github.com/tendermint/tendermint/config"
	"github.com/tendermint/tendermint/internal/verif/vr"
	"github.com/tendermint/tendermint/libs/log"
	"github.com/tendermint/tendermint/libs/service"
	"github.com/tendermint/tendermint/p2p"
	tmconn "github.com/tendermint/tendermint/p2p/conn"
	tmp2p "github.com/tendermint/tendermint/proto/tendermint/p2p"
)

type c17Peer struct {
	id      p2p.ID
	mtx     sync.Mutex
	kv      map[string]interface{}
	stopped int32
	sent    int32
}

var _ p2p.Peer = (*c17Peer)(nil)
var _ service.Service = (*c17Peer)(nil)

const c17PeerID = "aabbccddeeff00112233445566778899aabbccdd"

func newC17Peer() *c17Peer                         { return &c17Peer{id: p2p.ID(c17PeerID), kv: map[string]interface{}{}} }
func (p *c17Peer) Start() error                    { return nil }
func (p *c17Peer) OnStart() error                  { return nil }
func (p *c17Peer) Stop() error                     { atomic.AddInt32(&p.stopped, 1); return nil }
func (p *c17Peer) OnStop()                         {}
func (p *c17Peer) Reset() error                    { return nil }
func (p *c17Peer) OnReset() error                  { return nil }
func (p *c17Peer) Quit() <-chan struct{}           { return make(chan struct{}) }
func (p *c17Peer) String() string                  { return "c17Peer{" + string(p.id) + "}" }
func (p *c17Peer) SetLogger(log.Logger)            {}
func (p *c17Peer) IsRunning() bool                 { return atomic.LoadInt32(&p.stopped) == 0 }
func (p *c17Peer) FlushStop()                      {}
func (p *c17Peer) ID() p2p.ID                      { return p.id }
func (p *c17Peer) RemoteIP() net.IP                { return net.IPv4(45, 33, 12, 17) }
func (p *c17Peer) RemoteAddr() net.Addr            { return &net.TCPAddr{IP: p.RemoteIP(), Port: 26656} }
func (p *c17Peer) IsOutbound() bool                { return false }
func (p *c17Peer) IsPersistent() bool              { return false }
func (p *c17Peer) CloseConn() error                { return nil }
func (p *c17Peer) NodeInfo() p2p.NodeInfo {
	return p2p.DefaultNodeInfo{DefaultNodeID: p.id, ListenAddr: "45.33.12.17:26656"}
}
func (p *c17Peer) Status() tmconn.ConnectionStatus { return tmconn.ConnectionStatus{} }
func (p *c17Peer) SocketAddr() *p2p.NetAddress {
	a := p2p.NewNetAddressIPPort(p.RemoteIP(), 26656)
	a.ID = p.id
	return a
}
func (p *c17Peer) Send(byte, []byte) bool      { atomic.AddInt32(&p.sent, 1); return true }
func (p *c17Peer) TrySend(byte, []byte) bool   { atomic.AddInt32(&p.sent, 1); return true }
func (p *c17Peer) Set(k string, v interface{}) { p.mtx.Lock(); p.kv[k] = v; p.mtx.Unlock() }
func (p *c17Peer) Get(k string) interface{}    { p.mtx.Lock(); defer p.mtx.Unlock(); return p.kv[k] }
func (p *c17Peer) SetRemovalFailed()           {}
func (p *c17Peer) GetRemovalFailed() bool      { return false }

type c17PAddr struct {
	ID   int `json:"id"`
	IP   int `json:"ip"`
	Port int `json:"port"`
}

var c17PIDs = []string{"0123456789abcdef0123456789abcdef01234567", "", "0123", "zz23456789abcdef0123456789abcdef0123456z", "0123456789abcdef0123456789abcdef0123456789", c17PeerID}
var c17PIPs = []string{"45.33.12.99", "0.0.0.0", "127.0.0.1", "10.0.0.1", "::1", "2001:db8::1", "2a00:1450:4001::1", "", "not-an-ip", "256.1.1.1", "255.255.255.255", "45.33.12.17"}
var c17PPorts = []uint32{0, 1, 26656, 65535, 65536, math.MaxUint32}

type c17PCase struct {
	Strict    bool       `json:"strict"`
	Seed      bool       `json:"seed_mode"`
	Requested bool       `json:"requested"`
	Kind      int        `json:"kind"` // 0 PexAddrs, 1 n PexRequests, 2 empty oneof, 3 garbage
	N         int        `json:"n"`
	Addrs     []c17PAddr `json:"addrs"`
	Many      bool       `json:"many"` // 300 distinct valid addresses follow the listed ones
}

func c17PProto(a c17PAddr) tmp2p.NetAddress {
	return tmp2p.NetAddress{ID: c17PIDs[a.ID], IP: c17PIPs[a.IP], Port: c17PPorts[a.Port]}
}

func c17PRun(dir string, c c17PCase, k int) (key, what, outcome string) {
	file := filepath.Join(dir, fmt.Sprintf("book-%d.json", k))
	defer os.Remove(file)
	book := NewAddrBook(file, c.Strict)
	book.SetLogger(log.NewNopLogger())
	r := NewReactor(book, &ReactorConfig{SeedMode: c.Seed})
	r.SetLogger(log.NewNopLogger())
	tr := p2p.NewMultiplexTransport(p2p.DefaultNodeInfo{}, p2p.NodeKey{}, tmconn.DefaultMConnConfig())
	sw := p2p.NewSwitch(config.DefaultP2PConfig(), tr)
	sw.SetLogger(log.NewNopLogger())
	sw.AddReactor("PEX", r)
	peer := newC17Peer()
	if c.Requested {
		r.RequestAddrs(peer)
	}
	nSent := 0
	var payloads [][]byte
	switch c.Kind {
	case 0:
		m := &tmp2p.PexAddrs{}
		for _, a := range c.Addrs {
			m.Addrs = append(m.Addrs, c17PProto(a))
		}
		if c.Many {
			for i := 0; i < 300; i++ {
				m.Addrs = append(m.Addrs, tmp2p.NetAddress{ID: fmt.Sprintf("%040x", i+1), IP: fmt.Sprintf("%d.%d.%d.7", 50+i%100, 1+i/100, i%250), Port: 26656})
			}
		}
		nSent = len(m.Addrs)
		bz, err := proto.Marshal(m.Wrap())
		if err != nil {
			panic(err)
		}
		payloads = append(payloads, bz)
	case 1:
		bz, _ := proto.Marshal((&tmp2p.PexRequest{}).Wrap())
		for i := 0; i < c.N; i++ {
			payloads = append(payloads, bz)
		}
	case 2:
		bz, _ := proto.Marshal(&tmp2p.Message{})
		payloads = append(payloads, bz)
	default:
		payloads = append(payloads, []byte{0x0a, 0xff, 0xff, 0xff, 0x0f, 0x01})
	}
	recvPanics := 0
	for _, bz := range payloads {
		func() {
			defer func() {
				if x := recover(); x != nil {
					recvPanics++
				}
			}()
			r.Receive(PexChannel, peer, bz)
		}()
	}
	desc := fmt.Sprintf("%+v", c)
	ab := book.(*addrBook)
	if !ab.mtx.TryLock() {
		return "p2p/pex:addrbook-mutex-left-locked-after-Receive", "address book lock still held after Receive: " + desc, ""
	}
	ab.mtx.Unlock()
	if book.Size() > nSent {
		return "p2p/pex:book-holds-more-than-the-peer-sent", fmt.Sprintf("book size %d after %d addresses: %s", book.Size(), nSent, desc), ""
	}
	size := book.Size()
	var cons string
	func() {
		defer func() {
			if x := recover(); x != nil {
				cons = fmt.Sprint(x)
			}
		}()
		for _, bias := range []int{0, 30, 100} {
			if a := book.PickAddress(bias); a != nil {
				book.MarkAttempt(a)
				_ = book.IsGood(a)
				_ = book.IsBanned(a)
			}
			_ = book.GetSelectionWithBias(bias)
		}
		for _, a := range book.GetSelection() {
			book.MarkGood(a.ID)
			book.MarkBad(a, time.Minute)
		}
		book.ReinstateBadPeers()
		_ = book.NeedMoreAddrs()
		if book.Size() > 0 {
			book.Save()
		}
	}()
	if cons != "" {
		return "p2p/pex:addrbook-consumer-panics-after-hostile-addrs", "PickAddress/GetSelection/Mark*/Save panicked (ensurePeersRoutine and saveRoutine are bare goroutines): " + cons + ": " + desc, ""
	}
	out := "accepted"
	if recvPanics > 0 {
		out = "recv-panic(peer-error)"
	} else if atomic.LoadInt32(&peer.stopped) > 0 {
		out = "peer-stopped"
	}
	return "", "", fmt.Sprintf("kind%d:%s:book=%d:replies=%d", c.Kind, out, size, atomic.LoadInt32(&peer.sent))
}

func TestVerifC17Pex(t *testing.T) {
	r := vr.Start("C17", "pex", 40*time.Second, 5*time.Minute)
	defer r.Finish()
	r.Rule = "odometer over (routability-strict, seed mode, solicited or not, message): PexRequest x{1,2,3}, undecodable kinds, PexAddrs with every single address of the (6 ID shapes x 12 IP shapes x 6 ports) menu, every ordered pair over a reduced menu, and the same followed by 300 distinct valid addresses"
	dir, err := os.MkdirTemp("", "c17-pex")
	if err != nil {
		panic(err)
	}
	defer os.RemoveAll(dir)
	var rc c17PCase
	if rep, skip := r.ReplayCase(&rc); skip {
		return
	} else if rep {
		r.Eval()
		if k, w, _ := c17PRun(dir, rc, 0); k != "" {
			r.Violation(k, w, rc)
		}
		return
	}
	var msgs []c17PCase
	for n := 1; n <= 3; n++ {
		msgs = append(msgs, c17PCase{Kind: 1, N: n})
	}
	msgs = append(msgs, c17PCase{Kind: 2}, c17PCase{Kind: 3}, c17PCase{Kind: 0}, c17PCase{Kind: 0, Many: true})
	var singles []c17PAddr
	for id := range c17PIDs {
		for ip := range c17PIPs {
			for port := range c17PPorts {
				a := c17PAddr{id, ip, port}
				singles = append(singles, a)
				msgs = append(msgs, c17PCase{Kind: 0, Addrs: []c17PAddr{a}})
			}
		}
	}
	reduced := []c17PAddr{{0, 0, 2}, {0, 0, 0}, {1, 0, 2}, {3, 0, 2}, {0, 2, 2}, {0, 5, 2}, {0, 8, 2}, {0, 0, 4}, {5, 11, 2}, {0, 6, 2}}
	for _, a := range reduced {
		for _, b := range reduced {
			msgs = append(msgs, c17PCase{Kind: 0, Addrs: []c17PAddr{a, b}})
		}
		msgs = append(msgs, c17PCase{Kind: 0, Addrs: []c17PAddr{a}, Many: true})
	}
	k := 0
	for _, strict := range []bool{true, false} {
		for _, seed := range []bool{false, true} {
			for _, req := range []bool{false, true} {
				for _, m := range msgs {
					k++
					if !r.Mine(k) {
						continue
					}
					if k%64 == 0 && r.Deadline("C17 pex enumeration") {
						return
					}
					c := m
					c.Strict, c.Seed, c.Requested = strict, seed, req
					r.Eval()
					r.NTCount(1)
					key, what, out := c17PRun(dir, c, k)
					if key != "" {
						if !vr.Confirm(3, fmt.Errorf("%s", key), func() error {
							k2, _, _ := c17PRun(dir, c, k)
							if k2 == "" {
								return nil
							}
							return fmt.Errorf("%s", k2)
						}) {
							r.Cap("unstable failure " + key)
							continue
						}
						r.Violation(key, what, c)
						r.Outcome("violation")
						continue
					}
					r.Outcome(out)
					if k%701 == 1 {
						r.Sample(c)
					}
				}
			}
		}
	}
	r.Bound = fmt.Sprintf("2 x 2 x 2 reactor states x %d messages", len(msgs))
	if r.Shard == 0 {
		r.Set("cases_enumerated_total", k)
	}
}
