package p2p

// C16 part "upgrade" — Transport.upgrade's identity checks on top of the secret connection.
//
// The local node L runs the real MultiplexTransport.upgrade on one end of a net.Pipe; the other end
// is played by the harness: an honest node, or an attacker that is a full protocol participant (its
// own, independent implementation of the secret-connection handshake, written from the protocol
// description with x/crypto primitives only). Enumerated: how L got the connection (inbound, or
// dialed with the id of V / of M / of L itself / empty / V's id in upper case) x what the remote
// does (which key it authenticates with and how, which node id it then reports).
//
// Oracle (exactly the property): upgrade may succeed only if the remote proved possession of the key
// K it presented over this exchange, the id L dialed (if any) is K's id, and the node id under which
// the peer is returned is K's id.

import (
	"bytes"
	"crypto/cipher"
	"crypto/rand"
	"crypto/sha256"
	"encoding/binary"
	"fmt"
	"io"
	"net"
	"strings"
	"testing"
	"time"

	gogotypes "github.com/gogo/protobuf/types"
	"github.com/gtank/merlin"
	"golang.org/x/crypto/chacha20poly1305"
	"golang.org/x/crypto/curve25519"
	"golang.org/x/crypto/hkdf"

	"github.com/tendermint/tendermint/crypto"
	"github.com/tendermint/tendermint/crypto/ed25519"
	cryptoenc "github.com/tendermint/tendermint/crypto/encoding"
	"github.com/tendermint/tendermint/internal/verif/vr"
	"github.com/tendermint/tendermint/libs/protoio"
	"github.com/tendermint/tendermint/p2p/conn"
	tmp2p "github.com/tendermint/tendermint/proto/tendermint/p2p"
)

type c16UpCase struct {
	Dial   string `json:"dial"`   // inbound | V | M | L | empty | V-upper
	Remote string `json:"remote"` // see c16UpRemotes
}

var (
	c16UpKeyL = ed25519.GenPrivKeyFromSecret([]byte("verif-c16-up-local"))
	c16UpKeyV = ed25519.GenPrivKeyFromSecret([]byte("verif-c16-up-victim"))
	c16UpKeyM = ed25519.GenPrivKeyFromSecret([]byte("verif-c16-up-attacker"))
)

var c16UpDials = []string{"inbound", "V", "M", "L", "empty", "V-upper"}

// remote behaviours: <how it authenticates>/<node id it reports>
var c16UpRemotes = []string{
	"real-V/V",          // honest V using the repository's own MakeSecretConnection
	"V/V",               // honest V, independent implementation
	"M/M",               // attacker under its own identity
	"M/V",               // authenticates as M, reports V's id
	"M/L",               // authenticates as M, reports L's id
	"L/L",               // a node holding L's key (self connection)
	"reflect/L",         // sends L's own key and signature back to it, reports L's id
	"reflect/V",         // same, reports V's id
	"reflect/M",         // same, reports M's id
	"V-key-M-sig/V",     // presents V's key with M's signature
	"V-key-stale-sig/V", // presents V's key with a signature V made over another challenge
	"M-wrong-ch/M",      // M's key, signature over another challenge
}

// ---- independent implementation of the secret-connection protocol (attacker side) ----

type c16UpSess struct {
	c         net.Conn
	send      cipher.AEAD
	recv      cipher.AEAD
	sendCtr   uint64
	recvCtr   uint64
	challenge [32]byte
	recvBuf   []byte
}

func c16UpNonce(c uint64) []byte {
	n := make([]byte, 12)
	binary.LittleEndian.PutUint64(n[4:], c)
	return n
}

func c16UpHandshakeKeys(c net.Conn) (*c16UpSess, error) {
	var priv, pub [32]byte
	if _, err := io.ReadFull(rand.Reader, priv[:]); err != nil {
		return nil, err
	}
	curve25519.ScalarBaseMult(&pub, &priv)
	// the honest side writes and reads in parallel, so read-then-write cannot deadlock on a synchronous pipe
	var bv gogotypes.BytesValue
	if _, err := protoio.NewDelimitedReader(c, 1024).ReadMsg(&bv); err != nil {
		return nil, err
	}
	if _, err := protoio.NewDelimitedWriter(c).WriteMsg(&gogotypes.BytesValue{Value: pub[:]}); err != nil {
		return nil, err
	}
	var rem [32]byte
	copy(rem[:], bv.Value)
	lo, hi := pub, rem
	locIsLeast := true
	if bytes.Compare(pub[:], rem[:]) >= 0 {
		lo, hi, locIsLeast = rem, pub, false
	}
	dh, err := curve25519.X25519(priv[:], rem[:])
	if err != nil {
		return nil, err
	}
	tr := merlin.NewTranscript("TENDERMINT_SECRET_CONNECTION_TRANSCRIPT_HASH")
	tr.AppendMessage([]byte("EPHEMERAL_LOWER_PUBLIC_KEY"), lo[:])
	tr.AppendMessage([]byte("EPHEMERAL_UPPER_PUBLIC_KEY"), hi[:])
	tr.AppendMessage([]byte("DH_SECRET"), dh)
	kdf := hkdf.New(sha256.New, dh, nil, []byte("TENDERMINT_SECRET_CONNECTION_KEY_AND_CHALLENGE_GEN"))
	var res [96]byte
	if _, err := io.ReadFull(kdf, res[:]); err != nil {
		return nil, err
	}
	recvKey, sendKey := res[0:32], res[32:64]
	if !locIsLeast {
		recvKey, sendKey = res[32:64], res[0:32]
	}
	s := &c16UpSess{c: c}
	copy(s.challenge[:], tr.ExtractBytes([]byte("SECRET_CONNECTION_MAC"), 32))
	if s.send, err = chacha20poly1305.New(sendKey); err != nil {
		return nil, err
	}
	if s.recv, err = chacha20poly1305.New(recvKey); err != nil {
		return nil, err
	}
	return s, nil
}

func (s *c16UpSess) writeMsg(payload []byte) error {
	for len(payload) > 0 {
		chunk := payload
		if len(chunk) > 1024 {
			chunk = chunk[:1024]
		}
		payload = payload[len(chunk):]
		frame := make([]byte, 1028)
		binary.LittleEndian.PutUint32(frame, uint32(len(chunk)))
		copy(frame[4:], chunk)
		sealed := s.send.Seal(nil, c16UpNonce(s.sendCtr), frame, nil)
		s.sendCtr++
		if _, err := s.c.Write(sealed); err != nil {
			return err
		}
	}
	return nil
}

func (s *c16UpSess) readFrame() ([]byte, error) {
	sealed := make([]byte, 1044)
	if _, err := io.ReadFull(s.c, sealed); err != nil {
		return nil, err
	}
	frame, err := s.recv.Open(nil, c16UpNonce(s.recvCtr), sealed, nil)
	if err != nil {
		return nil, err
	}
	s.recvCtr++
	l := binary.LittleEndian.Uint32(frame)
	if l > 1024 {
		return nil, fmt.Errorf("bad chunk length")
	}
	return frame[4 : 4+l], nil
}

func c16UpAuthMsg(pk crypto.PubKey, sig []byte) []byte {
	pb, err := cryptoenc.PubKeyToProto(pk)
	if err != nil {
		panic(err)
	}
	bz, err := protoio.MarshalDelimited(&tmp2p.AuthSigMessage{PubKey: pb, Sig: sig})
	if err != nil {
		panic(err)
	}
	return bz
}

func c16UpNodeInfo(id ID, moniker string) DefaultNodeInfo {
	return DefaultNodeInfo{
		ProtocolVersion: defaultProtocolVersion,
		DefaultNodeID:   id,
		ListenAddr:      "127.0.0.1:26656",
		Network:         "verif-c16",
		Version:         "1.2.3-rc0-deadbeef",
		Channels:        []byte{0x01},
		Moniker:         moniker,
		Other:           DefaultNodeInfoOther{TxIndex: "on", RPCAddress: "127.0.0.1:26657"},
	}
}

func c16UpKeyOf(name string) crypto.PrivKey {
	switch name {
	case "V":
		return c16UpKeyV
	case "M":
		return c16UpKeyM
	case "L":
		return c16UpKeyL
	}
	panic("unknown identity " + name)
}

// c16UpRemote plays the remote end. It returns when its script is over or the pipe was closed.
func c16UpRemote(c net.Conn, behaviour string) error {
	parts := strings.Split(behaviour, "/")
	auth, report := parts[0], parts[1]
	reportID := PubKeyToID(c16UpKeyOf(report).PubKey())
	ni := c16UpNodeInfo(reportID, "remote")
	niBytes, err := protoio.MarshalDelimited(ni.ToProto())
	if err != nil {
		panic(err)
	}
	drain := func(r io.Reader) {
		go func() {
			buf := make([]byte, 4096)
			for {
				if _, err := r.Read(buf); err != nil {
					return
				}
			}
		}()
	}
	if auth == "real-V" {
		sc, err := conn.MakeSecretConnection(c, c16UpKeyV)
		if err != nil {
			return err
		}
		drain(sc)
		_, err = sc.Write(niBytes)
		return err
	}
	s, err := c16UpHandshakeKeys(c)
	if err != nil {
		return err
	}
	// the honest side sends its auth frame and reads ours in parallel: read first, then write
	theirs, err := s.readFrame()
	if err != nil {
		return err
	}
	sign := func(k crypto.PrivKey, msg []byte) []byte {
		sig, err := k.Sign(msg)
		if err != nil {
			panic(err)
		}
		return sig
	}
	other := sha256.Sum256(s.challenge[:])
	var msg []byte
	switch auth {
	case "V", "M", "L":
		k := c16UpKeyOf(auth)
		msg = c16UpAuthMsg(k.PubKey(), sign(k, s.challenge[:]))
	case "reflect":
		msg = theirs // L's own key and L's own signature over this very challenge
	case "V-key-M-sig":
		msg = c16UpAuthMsg(c16UpKeyV.PubKey(), sign(c16UpKeyM, s.challenge[:]))
	case "V-key-stale-sig":
		msg = c16UpAuthMsg(c16UpKeyV.PubKey(), sign(c16UpKeyV, other[:]))
	case "M-wrong-ch":
		msg = c16UpAuthMsg(c16UpKeyM.PubKey(), sign(c16UpKeyM, other[:]))
	default:
		panic("unknown behaviour " + behaviour)
	}
	if err := s.writeMsg(msg); err != nil {
		return err
	}
	go func() { // read (and discard) whatever L sends next: its node info
		for {
			if _, err := s.readFrame(); err != nil {
				return
			}
		}
	}()
	return s.writeMsg(niBytes)
}

// what the remote legitimately proved: the identity name whose private key it holds and used to
// sign this exchange's challenge; "" if it proved nothing.
func c16UpProven(behaviour string) string {
	switch strings.Split(behaviour, "/")[0] {
	case "real-V", "V":
		return "V"
	case "M":
		return "M"
	case "L":
		return "L"
	}
	return ""
}

type c16UpResult struct {
	ok        bool
	errClass  string
	connID    ID
	infoID    ID
	stuck     bool
	remoteErr error
}

func c16UpRun(c c16UpCase) (res c16UpResult) {
	mt := NewMultiplexTransport(c16UpNodeInfo(PubKeyToID(c16UpKeyL.PubKey()), "local"), NodeKey{PrivKey: c16UpKeyL}, conn.DefaultMConnConfig())
	mt.handshakeTimeout = 2 * time.Minute // never the deciding factor: every remote script either answers or closes
	local, remote := net.Pipe()
	defer local.Close()
	defer remote.Close()
	var dialed *NetAddress
	mk := func(id ID) *NetAddress { return &NetAddress{ID: id, IP: net.IPv4(127, 0, 0, 1), Port: 26656} }
	switch c.Dial {
	case "inbound":
	case "V", "M", "L":
		dialed = mk(PubKeyToID(c16UpKeyOf(c.Dial).PubKey()))
	case "empty":
		dialed = mk("")
	case "V-upper":
		dialed = mk(ID(strings.ToUpper(string(PubKeyToID(c16UpKeyV.PubKey())))))
	default:
		panic("unknown dial mode " + c.Dial)
	}
	done := make(chan error, 1)
	go func() {
		err := c16UpRemote(remote, c.Remote)
		if err != nil {
			remote.Close() // a remote that gives up hangs up
		}
		done <- err
	}()
	type out struct {
		sc  *conn.SecretConnection
		ni  NodeInfo
		err error
	}
	upc := make(chan out, 1)
	go func() {
		sc, ni, err := mt.upgrade(local, dialed)
		upc <- out{sc, ni, err}
	}()
	var o out
	select {
	case o = <-upc:
	case <-time.After(3 * time.Minute):
		res.stuck = true
		return
	}
	if o.err == nil {
		res.ok = true
		res.connID = PubKeyToID(o.sc.RemotePubKey())
		res.infoID = o.ni.ID()
	} else {
		res.errClass = c16UpErrClass(o.err)
	}
	local.Close()
	remote.Close()
	select {
	case res.remoteErr = <-done:
	case <-time.After(3 * time.Minute):
		res.stuck = true
	}
	return
}

func c16UpErrClass(err error) string {
	s := err.Error()
	for _, c := range []string{"dialed ID", "NodeInfo.ID", "self ID", "secret conn failed", "handshake failed", "incompatible", "i/o timeout"} {
		if strings.Contains(s, c) {
			return c
		}
	}
	if r, ok := err.(ErrRejected); ok && r.IsSelf() {
		return "self ID"
	}
	return "other: " + s
}

func c16UpJudge(c c16UpCase, res c16UpResult) (key, what string) {
	if !res.ok {
		return "", ""
	}
	proven := c16UpProven(c.Remote)
	if proven == "" {
		return "p2p/transport.go:upgrade:accepts-peer-that-proved-no-key:" + strings.Split(c.Remote, "/")[0],
			fmt.Sprintf("upgrade succeeded (conn id %s, node id %s) although the remote (%s) never proved possession of a key over this exchange", res.connID, res.infoID, c.Remote)
	}
	provenID := PubKeyToID(c16UpKeyOf(proven).PubKey())
	if res.connID != provenID {
		return "p2p/transport.go:upgrade:authenticated-key-is-not-the-proven-one", fmt.Sprintf("conn id %s, but the remote proved %s (%s)", res.connID, proven, provenID)
	}
	if res.infoID != provenID {
		return "p2p/transport.go:upgrade:node-id-differs-from-authenticated-key",
			fmt.Sprintf("peer returned under node id %s while the authenticated key is %s's (%s)", res.infoID, proven, provenID)
	}
	if c.Dial != "inbound" {
		var want ID
		switch c.Dial {
		case "V", "M", "L":
			want = PubKeyToID(c16UpKeyOf(c.Dial).PubKey())
		case "V-upper":
			want = PubKeyToID(c16UpKeyV.PubKey()) // the same key, written differently
		}
		if want != provenID {
			return "p2p/transport.go:upgrade:dialed-id-does-not-match-authenticated-key",
				fmt.Sprintf("dialed %q (%s) but the connection is authenticated for %s (%s) and was accepted", c.Dial, want, proven, provenID)
		}
	}
	return "", ""
}

func TestVerifC16Upgrade(t *testing.T) {
	r := vr.Start("C16", "upgrade", 100*time.Second, 10*time.Minute)
	defer r.Finish()
	r.Rule = "product of (how the local node obtained the connection: inbound / dialed id of V, M, itself, empty, V in upper case) x (remote behaviour: authenticating key and method x reported node id); " +
		"non-trivial = every pair except an honest peer on an inbound or correctly dialed connection"
	r.Assume("the attacker is a full participant with its own implementation of the handshake; it holds M's key only")
	var rc c16UpCase
	if rep, skip := r.ReplayCase(&rc); skip {
		return
	} else if rep {
		r.Eval()
		if key, what := c16UpJudge(rc, c16UpRun(rc)); key != "" {
			r.Violation(key, what, rc)
		}
		return
	}
	k := 0
	accepted := 0
	reps := vr.Pick(2, 20) // the cases are few and cheap: repeat them (fresh ephemeral keys, both key orders occur)
	for rep := 0; rep < reps; rep++ {
		for _, d := range c16UpDials {
			for _, rm := range c16UpRemotes {
				k++
				if !r.Mine(k) {
					continue
				}
				if r.Deadline("upgrade enumeration") {
					return
				}
				c := c16UpCase{Dial: d, Remote: rm}
				res := c16UpRun(c)
				if res.stuck {
					r.Cap("an upgrade case did not finish (inconclusive)")
					continue
				}
				r.Eval()
				honest := (rm == "real-V/V" || rm == "V/V") && (d == "inbound" || d == "V")
				if !honest && rep == 0 {
					r.NTCount(1)
				}
				if key, what := c16UpJudge(c, res); key != "" {
					first := fmt.Errorf("%s", key)
					if vr.Confirm(3, first, func() error {
						k2, _ := c16UpJudge(c, c16UpRun(c))
						if k2 == "" {
							return nil
						}
						return fmt.Errorf("%s", k2)
					}) {
						r.Violation(key, what, c)
					} else {
						r.Cap("a failing upgrade case did not reproduce 3 times: " + key)
					}
				}
				if res.ok {
					accepted++
					r.Outcome("accepted:" + d + ":" + rm)
				} else {
					r.Outcome("rejected:" + res.errClass)
				}
				if honest && !res.ok {
					r.Cap(fmt.Sprintf("honest peer rejected (%s, %s): %s — acceptance side of the enumeration is vacuous", d, rm, res.errClass))
				}
				if rep == 0 && (k%7 == 1) {
					r.Sample(map[string]interface{}{"case": c, "accepted": res.ok, "error_class": res.errClass})
				}
			}
		}
	}
	r.Set("accepted_cases", int64(accepted))
	r.Bound = fmt.Sprintf("%d dial modes x %d remote behaviours, %d repetitions with fresh ephemeral keys", len(c16UpDials), len(c16UpRemotes), reps)
}
