package conn

// C17 part "hostile" — one real MConnection (the node) whose remote end is a raw writer speaking
// the wire protocol (uvarint length + tmp2p.Packet). Every sequence over an alphabet of packets a
// correct sender can produce ("legit": PacketMsg on two channels x EOF x size, ping, pong) up to
// length L, and every (legit prefix, hostile item, optional legit suffix) combination, plus every
// truncation point of representative items followed by the peer closing.
//
// Lock-step without time: after every item the harness waits until the node's recvRoutine is
// blocked in Read on an empty pipe (it has processed everything) or the node has reported an error.
//
// Oracle (second sentence of the property, for the connection layer, exactly):
//   - the node never buffers more than a channel's RecvMessageCapacity: len(ch.recving) is read
//     after every item (the recv routine is blocked then, and the pipe's mutex orders the read);
//   - input never crashes the process (a panic outside the connection's recover would kill the
//     test binary = harness fault by construction; a recovered panic is an onError = disconnect,
//     which the statement allows; it is counted as a diagnostic);
//   - never wedges: at the end either the node is still serving (a valid probe message on an
//     unused channel is delivered intact) or onError fired and both routines exited; after the
//     peer closes, the node always reports an error and both routines exit;
//   - a length prefix must not make the node allocate what it claims (serial sub-run with
//     runtime.MemStats).
// From the first sentence: while the stream is one a correct sender could have produced and stays
// within the capacities, the node must not drop the connection and must deliver exactly the
// concatenation of each message's packets (reference model below).
// Everything else the reference model predicts (which hostile items kill the connection) is only
// a diagnostic: the statement allows, but does not demand, a disconnect.

import (
	"bytes"
	"encoding/binary"
	"fmt"
	"math"
	"runtime"
	"sync"
	"sync/atomic"
	"testing"
	"time"

	"github.com/gogo/protobuf/proto"

	"github.com/tendermint/tendermint/internal/verif/vr"
	"github.com/tendermint/tendermint/libs/log"
	tmp2p "github.com/tendermint/tendermint/proto/tendermint/p2p"
)

const (
	c17HPayload = 16
)

var c17HCaps = []int{100, 32, 16} // RecvMessageCapacity of channels 1,2,3

// ---- wire items ----

type c17Item struct {
	Name  string `json:"name"`
	bytes []byte
	// reference-model meaning
	kind  int // 0 packet msg on known channel, 1 ping, 2 pong, 3 must-not-be-served (hostile framing / unknown channel ...), 4 incomplete frame (node waits for more)
	ch    int // channel index for kind 0
	eof   bool
	data  []byte
	legit bool // a correct sender can emit it (subject to capacity, which the model tracks)
	flood int  // number of pings in a flood item
}

func c17Frame(body []byte) []byte {
	var l [binary.MaxVarintLen64]byte
	n := binary.PutUvarint(l[:], uint64(len(body)))
	return append(append([]byte{}, l[:n]...), body...)
}

func c17PacketBytes(pb proto.Message) []byte {
	bz, err := proto.Marshal(mustWrapPacket(pb))
	if err != nil {
		panic(err)
	}
	return c17Frame(bz)
}

func c17Data(tag byte, n int) []byte {
	b := make([]byte, n)
	for i := range b {
		b[i] = tag + byte(i*3)
	}
	return b
}

func c17MsgItem(chID int32, eof bool, size int, tag byte) c17Item {
	d := c17Data(tag, size)
	it := c17Item{Name: fmt.Sprintf("msg(ch=%d,eof=%v,len=%d)", chID, eof, size), eof: eof, data: d,
		bytes: c17PacketBytes(&tmp2p.PacketMsg{ChannelID: chID, EOF: eof, Data: d})}
	if chID >= 1 && chID <= 3 {
		it.kind, it.ch = 0, int(chID-1)
		it.legit = size <= c17HPayload
	} else {
		it.kind = 3
	}
	return it
}

func c17LegitItems() []c17Item {
	var its []c17Item
	tag := byte(1)
	for _, ch := range []int32{1, 2} {
		for _, eof := range []bool{false, true} {
			for _, sz := range []int{0, 1, c17HPayload - 1, c17HPayload} {
				its = append(its, c17MsgItem(ch, eof, sz, tag))
				tag += 13
			}
		}
	}
	its = append(its, c17Item{Name: "ping", kind: 1, legit: true, bytes: c17PacketBytes(&tmp2p.PacketPing{}), flood: 1})
	its = append(its, c17Item{Name: "pong", kind: 2, legit: true, bytes: c17PacketBytes(&tmp2p.PacketPong{})})
	return its
}

func c17Uvarint(v uint64) []byte {
	var l [binary.MaxVarintLen64]byte
	n := binary.PutUvarint(l[:], v)
	return append([]byte{}, l[:n]...)
}

func c17HostileItems(maxPacket int) []c17Item {
	var its []c17Item
	add := func(name string, kind int, b []byte) {
		its = append(its, c17Item{Name: name, kind: kind, bytes: b})
	}
	// unknown / negative / > 255 channel ids (0x101 and 0x10002 alias known channels when cast to byte)
	for _, id := range []int32{0, 4, 0x7f, 255, -1, -255, math.MinInt32, 256, 0x101, 0x10002, 0xff01, math.MaxInt32} {
		for _, eof := range []bool{true, false} {
			it := c17MsgItem(id, eof, 1, 0x55)
			it.Name = "unknown-" + it.Name
			its = append(its, it)
		}
	}
	// data larger than the payload size but still inside the frame limit / outside it
	for _, ch := range []int32{1, 2, 3} {
		for _, sz := range []int{c17HPayload + 1, c17HPayload + 2, c17HPayload + 3, c17HPayload + 8, c17HCaps[ch-1], c17HCaps[ch-1] + 1} {
			for _, eof := range []bool{true, false} {
				it := c17MsgItem(ch, eof, sz, 0x77)
				it.Name = "big-" + it.Name
				if len(it.bytes)-1 > maxPacket { // 1-byte length prefix for these sizes
					it.kind = 3
				}
				its = append(its, it)
			}
		}
	}
	// length prefixes
	for _, l := range []uint64{uint64(maxPacket) + 1, 1 << 20, 1<<31 - 1, 1 << 31, 1 << 32, 1<<63 - 1, 1 << 63, math.MaxUint64} {
		add(fmt.Sprintf("lenprefix(%d)+4bytes", l), 3, append(c17Uvarint(l), 1, 2, 3, 4))
	}
	add("lenprefix(max)+4bytes", 4, append(c17Uvarint(uint64(maxPacket)), 0x1a, 2, 3, 4))
	// varints
	add("varint-overflow(10x0xff,0x01)", 3, append(bytes.Repeat([]byte{0xff}, 10), 0x01))
	add("varint-11-continuation-bytes", 3, bytes.Repeat([]byte{0x80}, 11))
	add("varint-1-continuation-byte", 4, []byte{0x80})
	add("varint-9-continuation-bytes", 4, bytes.Repeat([]byte{0x80}, 9))
	add("varint-non-minimal-zero(0x80,0x00)", 3, []byte{0x80, 0x00}) // = length 0 -> empty Sum
	// empty / unknown Sum
	add("empty-sum(len0)", 3, c17Frame(nil))
	add("only-unknown-field(15)", 3, c17Frame([]byte{0x78, 0x05}))
	add("unknown-field-then-ping", 1, c17Frame([]byte{0x78, 0x05, 0x0a, 0x00}))
	its[len(its)-1].flood = 1
	// garbage bodies
	add("garbage(ff ff ff)", 3, c17Frame([]byte{0xff, 0xff, 0xff}))
	add("nested-len-beyond-body", 3, c17Frame([]byte{0x1a, 0x7f, 0x08, 0x01}))
	add("wrong-wiretype-for-msg", 3, c17Frame([]byte{0x18, 0x01}))
	add("group-wiretype", 3, c17Frame([]byte{0x1b, 0x1c}))
	add("msg-with-channel-as-bytes", 3, c17Frame([]byte{0x1a, 0x03, 0x0a, 0x01, 0x01}))
	add("msg-channel-varint-10-bytes-overflow", 3, c17Frame(append([]byte{0x1a, 0x0c, 0x08}, append(bytes.Repeat([]byte{0xff}, 10), 0x7f)...)))
	// both ping and msg set: the last oneof member wins
	{
		msg, _ := proto.Marshal(&tmp2p.PacketMsg{ChannelID: 3, EOF: true, Data: []byte("zz")})
		body := append([]byte{0x0a, 0x00, 0x1a, byte(len(msg))}, msg...)
		it := c17Item{Name: "ping-then-msg-in-one-packet(ch3)", kind: 0, ch: 2, eof: true, data: []byte("zz"), bytes: c17Frame(body)}
		its = append(its, it)
		body2 := append(append([]byte{0x1a, byte(len(msg))}, msg...), 0x0a, 0x00)
		its = append(its, c17Item{Name: "msg-then-ping-in-one-packet", kind: 1, bytes: c17Frame(body2), flood: 1})
	}
	// two Data fields in one PacketMsg (gogoproto: the last one replaces)
	{
		body := []byte{0x08, 0x03, 0x10, 0x01, 0x1a, 0x02, 'a', 'b', 0x1a, 0x03, 'c', 'd', 'e'}
		its = append(its, c17Item{Name: "msg-with-two-data-fields(ch3)", kind: 0, ch: 2, eof: true, data: []byte("cde"),
			bytes: c17Frame(append([]byte{0x1a, byte(len(body))}, body...))})
	}
	// floods
	for _, n := range []int{10, 1000, 20000} {
		its = append(its, c17Item{Name: fmt.Sprintf("ping-flood(%d)", n), kind: 1, flood: n,
			bytes: bytes.Repeat(c17PacketBytes(&tmp2p.PacketPing{}), n)})
		its = append(its, c17Item{Name: fmt.Sprintf("pong-flood(%d)", n), kind: 2,
			bytes: bytes.Repeat(c17PacketBytes(&tmp2p.PacketPong{}), n)})
	}
	// empty non-EOF packet flood: never completes a message, must not grow anything
	its = append(its, c17Item{Name: "empty-noneof-flood(5000,ch1)", kind: 5,
		bytes: bytes.Repeat(c17PacketBytes(&tmp2p.PacketMsg{ChannelID: 1, EOF: false}), 5000)})
	return its
}

// ---- case ----

type c17HCase struct {
	Legit   []int `json:"legit"`   // indices into the legit alphabet (prefix)
	Hostile int   `json:"hostile"` // index into the hostile alphabet, -1 = none
	Cut     int   `json:"cut"`     // >0: only the first Cut bytes of the last item are sent, then the peer closes
	Suffix  int   `json:"suffix"`  // legit item sent after the hostile one, -1 = none
	Chunk   int   `json:"chunk"`
	Names   string `json:"names,omitempty"`
}

type c17HEnv struct {
	legit, hostile []c17Item
	maxPacket      int
}

func newC17HEnv() *c17HEnv {
	cfg := c17Config(c17Profile{Payload: c17HPayload})
	m := NewMConnectionWithConfig(newC17Conn(newC17Pipe(0, nil, nil), newC17Pipe(0, nil, nil)), c17HDescs(), nil, nil, cfg)
	e := &c17HEnv{legit: c17LegitItems(), maxPacket: m._maxPacketMsgSize}
	e.hostile = c17HostileItems(e.maxPacket)
	return e
}

func c17HDescs() []*ChannelDescriptor {
	var ds []*ChannelDescriptor
	for i, id := range c17ChanIDs {
		ds = append(ds, &ChannelDescriptor{ID: id, Priority: c17ChanPrio[i], SendQueueCapacity: 1,
			RecvBufferCapacity: 8, RecvMessageCapacity: c17HCaps[i]})
	}
	return ds
}

func (e *c17HEnv) items(c c17HCase) []c17Item {
	var its []c17Item
	for _, i := range c.Legit {
		its = append(its, e.legit[i])
	}
	if c.Hostile >= 0 {
		its = append(its, e.hostile[c.Hostile])
	}
	if c.Suffix >= 0 {
		its = append(its, e.legit[c.Suffix])
	}
	return its
}

type c17HResult struct {
	key, what    string
	outcome      string
	inconclusive string
	diags        []string
}

func (e *c17HEnv) run(c c17HCase) (res c17HResult) {
	its := e.items(c)
	sink := newC17Sink()
	in := newC17Pipe(c.Chunk, nil, sink.signal) // peer -> node
	out := newC17Pipe(0, nil, nil)               // node -> peer
	nodeConn := newC17Conn(in, out)
	cfg := c17Config(c17Profile{Payload: c17HPayload})
	n := NewMConnectionWithConfig(nodeConn, c17HDescs(), sink.onReceive, sink.onError, cfg)
	n.SetLogger(log.NewNopLogger())
	if err := n.Start(); err != nil {
		panic(err)
	}
	defer func() {
		if n.IsRunning() {
			_ = n.Stop()
		}
		nodeConn.Close()
	}()
	dead := func() bool { return sink.errored() }
	settle := func() bool {
		return c17WaitFor(sink.ev, c17Timeout, func() bool { return dead() || in.drained() }) == nil
	}
	checkBuf := func(after string) bool {
		// The recv routine is blocked in Read (or has exited): nobody writes recving now.
		for i, ch := range n.channels {
			if len(ch.recving) > ch.desc.RecvMessageCapacity {
				res.key = "p2p/conn/connection.go:recvPacketMsg:recving-exceeds-RecvMessageCapacity"
				res.what = fmt.Sprintf("after %s: channel %#x buffers %d bytes, capacity %d", after, c17ChanIDs[i], len(ch.recving), ch.desc.RecvMessageCapacity)
				return false
			}
		}
		return true
	}
	if !settle() {
		res.inconclusive = "node did not reach its first Read"
		return
	}

	// reference model
	mBuf := make([][]byte, 3)
	mAlive, mLegit, mMid := true, true, false
	var mDeliver [3][][]byte
	pings := 0
	diedLegit := ""
	for idx, it := range its {
		b := it.bytes
		last := idx == len(its)-1
		cut := last && c.Cut > 0 && c.Cut < len(b)
		if cut {
			b = b[:c.Cut]
		}
		if mAlive && !mMid {
			switch {
			case cut:
				mMid = true
				mLegit = false
				pings += it.flood // upper bound: a cut flood still contains complete pings
			case it.kind == 0:
				if !it.legit {
					mLegit = false
				}
				if len(mBuf[it.ch])+len(it.data) > c17HCaps[it.ch] {
					mAlive = false
					mLegit = false
				} else {
					mBuf[it.ch] = append(mBuf[it.ch], it.data...)
					if it.eof {
						mDeliver[it.ch] = append(mDeliver[it.ch], mBuf[it.ch])
						mBuf[it.ch] = nil
					}
				}
			case it.kind == 1:
				pings += it.flood
				if !it.legit {
					mLegit = false
				}
			case it.kind == 2, it.kind == 5:
				if !it.legit {
					mLegit = false
				}
			case it.kind == 3:
				mAlive, mLegit = false, false
			case it.kind == 4:
				mMid, mLegit = true, false
			}
		}
		wasDead := dead()
		in.Write(b)
		if !settle() {
			res.inconclusive = "node neither consumed the item nor failed: " + it.Name
			return
		}
		if !checkBuf(it.Name) {
			return
		}
		if !wasDead && dead() && mLegit && diedLegit == "" {
			diedLegit = it.Name
		}
	}
	if diedLegit != "" {
		sink.lock()
		errs := fmt.Sprint(sink.errs)
		sink.unlock()
		res.key = "p2p/conn/connection.go:recvRoutine:legitimate-traffic-dropped-the-connection"
		res.what = fmt.Sprintf("the node reported %s after %s although the stream so far is one a correct sender produces and every message is within RecvMessageCapacity", errs, diedLegit)
		return
	}
	nodeAlive := !dead()
	if nodeAlive != mAlive && !mMid { // after a truncation the model does not predict whether the fragment already fails
		res.diags = append(res.diags, fmt.Sprintf("diag_model_alive=%v_node_alive=%v", mAlive, nodeAlive))
	}
	// still serving? probe on channel 3 unless the node is (per the model) in the middle of a frame
	probe := []byte("PROBE-ch3")
	probed := false
	if nodeAlive && !mMid && len(mBuf[2]) == 0 {
		probed = true
		in.Write(c17PacketBytes(&tmp2p.PacketMsg{ChannelID: 3, EOF: true, Data: probe}))
		if !settle() {
			res.inconclusive = "node did not consume the probe"
			return
		}
		if !checkBuf("probe") {
			return
		}
		if mAlive {
			mDeliver[2] = append(mDeliver[2], probe)
		}
	}
	// the peer goes away: the node must notice and both routines must exit
	in.closeWrite()
	if err := c17WaitFor(sink.ev, c17Timeout, func() bool { return dead() && c17SendDone(n) && c17RecvExited(n) }); err != nil {
		res.inconclusive = "node routines did not exit after the peer closed"
		return
	}
	if !nodeConn.isClosed() {
		res.diags = append(res.diags, "diag_conn_not_closed_after_error")
	}
	sink.lock()
	defer sink.unlock()
	for _, e := range sink.errs {
		if bytes.Contains([]byte(e), []byte("recovered from panic")) {
			res.diags = append(res.diags, "diag_recovered_panic")
		}
	}
	// delivered payloads vs model (only meaningful where the model and the node agree the stream was served)
	if mAlive && nodeAlive {
		for i := 0; i < 3; i++ {
			if k, w := c17Compare(c17ChanIDs[i], mDeliver[i], sink.recv[c17ChanIDs[i]]); k != "" {
				if mLegit {
					res.key, res.what = k, "raw legit packet stream: "+w
					return
				}
				if probed && i == 2 {
					res.key = "p2p/conn/connection.go:recvRoutine:connection-up-but-not-serving"
					res.what = "after hostile input the node reported no error, yet a valid message on an untouched channel was not delivered intact: " + w
					return
				}
				res.diags = append(res.diags, "diag_model_delivery_mismatch_on_hostile_stream")
			}
		}
	}
	// pongs written back: never more than pings received
	if pongs := bytes.Count(out.take(), c17PacketBytes(&tmp2p.PacketPong{})); pongs > pings {
		res.diags = append(res.diags, "diag_more_pongs_than_pings")
	}
	res.outcome = fmt.Sprintf("modelAlive=%v:nodeAlive=%v:mid=%v:delivered=%d", mAlive, nodeAlive, mMid, sink.n)
	return
}

// c17HAlloc: serial sub-run for the length-prefix items: the node must not allocate what the prefix claims.
func (e *c17HEnv) allocCheck(r *vr.Report) {
	for hi, it := range e.hostile {
		if it.kind != 3 || len(it.Name) < 9 || it.Name[:9] != "lenprefix" {
			continue
		}
		claimed, _ := binary.Uvarint(it.bytes)
		if claimed < 1<<20 {
			continue
		}
		var m0, m1 runtime.MemStats
		runtime.GC()
		runtime.ReadMemStats(&m0)
		res := e.run(c17HCase{Hostile: hi, Suffix: -1})
		runtime.ReadMemStats(&m1)
		r.Eval()
		r.NTCount(1)
		delta := m1.TotalAlloc - m0.TotalAlloc
		r.Outcome("alloc-check:" + res.outcome)
		if delta >= 1<<20 && delta >= claimed/2 {
			r.Violation("libs/protoio/reader.go:ReadMsg:length-prefix-drives-allocation",
				fmt.Sprintf("%s made the process allocate %d bytes", it.Name, delta), c17HCase{Hostile: hi, Suffix: -1, Names: it.Name})
		}
		if res.key != "" {
			r.Violation(res.key, res.what, c17HCase{Hostile: hi, Suffix: -1, Names: it.Name})
		}
	}
}

func TestVerifC17Hostile(t *testing.T) {
	r := vr.Start("C17", "hostile", 80*time.Second, 15*time.Minute)
	defer r.Finish()
	r.Rule = "odometer over (sequence of legit wire items up to length L) and (legit prefix of length<=2, hostile item, optional legit suffix, read chunking), " +
		"plus every truncation point of every item after a legit prefix of length<=1; each tuple is one execution of a real MConnection fed by a raw writer; " +
		"non-trivial = contains a hostile item, a truncation, a capacity overflow or at least two items"
	r.Assume("a peer that stalls in the middle of a frame is handled by the ping/pong timeout, which is configured out here (ping interval 1000h); the harness closes the stream instead")
	e := newC17HEnv()
	if r.Shard == 0 {
		r.Set("alphabet_legit", len(e.legit))
	}
	if r.Shard == 0 {
		r.Set("alphabet_hostile", len(e.hostile))
	}
	var rc c17HCase
	if rep, skip := r.ReplayCase(&rc); skip {
		return
	} else if rep {
		r.Eval()
		res := e.run(rc)
		if res.inconclusive != "" {
			r.Cap(res.inconclusive)
		}
		if res.key != "" {
			r.Violation(res.key, res.what, rc)
		}
		return
	}
	if r.Shard == 0 {
		e.allocCheck(r)
	}
	var stopFlag int32
	jobs := make(chan c17HCase, 256)
	var wg sync.WaitGroup
	process := func(c c17HCase, sample bool) {
		r.Eval()
		if c.Hostile >= 0 || c.Cut > 0 || len(c.Legit) >= 2 {
			r.NTCount(1)
		}
		res := e.run(c)
		if res.inconclusive != "" {
			r.Cap(res.inconclusive)
			r.Outcome("inconclusive")
			return
		}
		for _, d := range res.diags {
			r.Add(d, 1)
		}
		if res.key != "" {
			first := fmt.Errorf("%s", res.key)
			if !vr.Confirm(3, first, func() error {
				r2 := e.run(c)
				if r2.key == "" {
					return nil
				}
				return fmt.Errorf("%s", r2.key)
			}) {
				r.Note(fmt.Sprintf("unstable failure %s on %+v: %s", res.key, c, res.what))
				r.Cap("a failing case did not fail identically on 3 re-runs; see notes")
				r.Outcome("unstable:" + res.key)
				return
			}
			names := ""
			for _, it := range e.items(c) {
				names += it.Name + " "
			}
			c.Names = names
			r.Violation(res.key, res.what, c)
			r.Outcome("violation:" + res.key)
			return
		}
		r.Outcome(res.outcome)
		if sample {
			names := ""
			for _, it := range e.items(c) {
				names += it.Name + " "
			}
			c.Names = names
			r.Sample(c)
		}
	}
	for w := 0; w < 12; w++ {
		wg.Add(1)
		go func() {
			defer wg.Done()
			n := 0
			for c := range jobs {
				n++
				process(c, n%3001 == 7)
			}
		}()
	}
	k := 0
	stop := false
	try := func(c c17HCase) bool {
		if stop {
			return false
		}
		k++
		if !r.Mine(k) {
			return true
		}
		if k%64 == 0 && (atomic.LoadInt32(&stopFlag) != 0 || r.Deadline("C17 hostile enumeration")) {
			stop = true
			return false
		}
		jobs <- c
		return true
	}
	defer func() {
		close(jobs)
		wg.Wait()
	}()

	nl := len(e.legit)
	var prefixes [][]int
	prefixes = append(prefixes, []int{})
	for a := 0; a < nl; a++ {
		prefixes = append(prefixes, []int{a})
	}
	n1 := len(prefixes)
	for a := 0; a < nl; a++ {
		for b := 0; b < nl; b++ {
			prefixes = append(prefixes, []int{a, b})
		}
	}
	// A. hostile item after every legit prefix of length <= 2, with and without a legit suffix
	for _, chunk := range []int{0, 1} {
		for hi := range e.hostile {
			for _, pf := range prefixes {
				if !try(c17HCase{Legit: pf, Hostile: hi, Suffix: -1, Chunk: chunk}) {
					break
				}
			}
		}
	}
	for hi := range e.hostile {
		for _, pf := range prefixes[:n1] {
			for sf := 0; sf < nl; sf++ {
				if !try(c17HCase{Legit: pf, Hostile: hi, Suffix: sf}) {
					break
				}
			}
		}
	}
	if !stop {
		r.Bound = fmt.Sprintf("A: %d hostile items x %d legit prefixes (len<=2) x chunk{0,1}, and x %d prefixes (len<=1) x %d suffixes", len(e.hostile), len(prefixes), n1, nl)
	}
	// B. every truncation point of every item (legit and hostile) after a legit prefix of length <= 1, then the peer closes
	for _, pf := range prefixes[:n1] {
		for hi, it := range e.hostile {
			lim := len(it.bytes)
			if lim > 40 {
				lim = 40
			}
			for cut := 1; cut < lim; cut++ {
				if !try(c17HCase{Legit: pf, Hostile: hi, Suffix: -1, Cut: cut}) {
					break
				}
			}
		}
		for li, it := range e.legit {
			for cut := 1; cut < len(it.bytes); cut++ {
				if !try(c17HCase{Legit: append(append([]int{}, pf...), li), Hostile: -1, Suffix: -1, Cut: cut}) {
					break
				}
			}
		}
	}
	if !stop {
		r.Bound += "; B: every cut point (first 40 bytes) of every item after prefixes of len<=1"
	}
	// C. all legit sequences up to length L against the reference model
	L := vr.Pick(4, 5)
	for n := 1; n <= L && !stop; n++ {
		idx := make([]int, n)
		for {
			if !try(c17HCase{Legit: append([]int{}, idx...), Hostile: -1, Suffix: -1, Chunk: (k % 2)}) {
				break
			}
			j := n - 1
			for j >= 0 {
				idx[j]++
				if idx[j] < nl {
					break
				}
				idx[j] = 0
				j--
			}
			if j < 0 {
				break
			}
		}
		if !stop {
			r.Bound += fmt.Sprintf("; C: all legit sequences of length %d", n)
		}
	}
	if r.Shard == 0 {
		r.Set("cases_enumerated_total", k)
	}
}
