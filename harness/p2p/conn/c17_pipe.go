package conn

// C17 — shared helpers of the p2p/conn parts: an in-memory, one-directional byte pipe with
// harness-chosen fragmentation of the byte stream and an observable "reader is blocked on an empty
// pipe" state, and a net.Conn made of two such pipes.
//
// Write never blocks (unbounded buffer owned by the harness), Read blocks until at least one byte
// is available or the pipe is closed. A Read never crosses a split point (absolute stream offset)
// and never returns more than `chunk` bytes (0 = no limit), so the fragmentation seen by the
// bufio.Reader of the MConnection is chosen by the harness, independent of the sender's flush
// timing (sender timing can only add further fragmentation).

import (
	"errors"
	"io"
	"net"
	"sync"
	"time"
)

type c17Pipe struct {
	mtx     sync.Mutex
	cond    *sync.Cond
	buf     []byte
	off     int64 // bytes handed to the reader so far
	written int64
	chunk   int
	splits  []int64
	wclosed bool // writer side closed: reader gets EOF after draining
	rclosed bool // reader side closed: Read fails immediately
	blocked bool // a Read is waiting on an empty pipe
	reads   int64
	record  bool   // keep a copy of everything written
	log     []byte
	notify  func() // called (without the lock) whenever the reader becomes blocked or the pipe changes state
}

func newC17Pipe(chunk int, splits []int64, notify func()) *c17Pipe {
	p := &c17Pipe{chunk: chunk, splits: splits, notify: notify}
	p.cond = sync.NewCond(&p.mtx)
	return p
}

func (p *c17Pipe) Read(b []byte) (int, error) {
	if len(b) == 0 {
		return 0, nil
	}
	p.mtx.Lock()
	for len(p.buf) == 0 && !p.wclosed && !p.rclosed {
		p.blocked = true
		if p.notify != nil {
			p.mtx.Unlock()
			p.notify()
			p.mtx.Lock()
			if len(p.buf) != 0 || p.wclosed || p.rclosed {
				break
			}
		}
		p.cond.Wait()
	}
	p.blocked = false
	if p.rclosed {
		p.mtx.Unlock()
		return 0, io.ErrClosedPipe
	}
	if len(p.buf) == 0 { // wclosed
		p.mtx.Unlock()
		return 0, io.EOF
	}
	n := len(b)
	if n > len(p.buf) {
		n = len(p.buf)
	}
	if p.chunk > 0 && n > p.chunk {
		n = p.chunk
	}
	for _, s := range p.splits {
		if s > p.off && s-p.off < int64(n) {
			n = int(s - p.off)
		}
	}
	copy(b, p.buf[:n])
	p.buf = p.buf[n:]
	p.off += int64(n)
	p.reads++
	p.mtx.Unlock()
	return n, nil
}

func (p *c17Pipe) Write(b []byte) (int, error) {
	p.mtx.Lock()
	if p.wclosed || p.rclosed {
		p.mtx.Unlock()
		return 0, io.ErrClosedPipe
	}
	p.buf = append(p.buf, b...)
	if p.record {
		p.log = append(p.log, b...)
	}
	p.written += int64(len(b))
	p.cond.Broadcast()
	p.mtx.Unlock()
	return len(b), nil
}

func (p *c17Pipe) closeWrite() {
	p.mtx.Lock()
	p.wclosed = true
	p.cond.Broadcast()
	p.mtx.Unlock()
	if p.notify != nil {
		p.notify()
	}
}

func (p *c17Pipe) closeRead() {
	p.mtx.Lock()
	p.rclosed = true
	p.cond.Broadcast()
	p.mtx.Unlock()
	if p.notify != nil {
		p.notify()
	}
}

// drained reports whether every byte written so far has been handed to the reader and the reader
// is blocked waiting for more: everything the writer produced has been consumed and processed up
// to the next Read call.
func (p *c17Pipe) drained() bool {
	p.mtx.Lock()
	defer p.mtx.Unlock()
	return len(p.buf) == 0 && p.blocked
}

func (p *c17Pipe) stats() (written, off, reads int64) {
	p.mtx.Lock()
	defer p.mtx.Unlock()
	return p.written, p.off, p.reads
}

// take removes and returns everything buffered (used by the raw peer of the hostile part to look
// at what the node wrote back).
func (p *c17Pipe) take() []byte {
	p.mtx.Lock()
	defer p.mtx.Unlock()
	b := p.buf
	p.buf = nil
	p.off += int64(len(b))
	return b
}

type c17Addr struct{}

func (c17Addr) Network() string { return "c17" }
func (c17Addr) String() string  { return "c17-pipe" }

// c17Conn is one endpoint: reads from r, writes to w.
type c17Conn struct {
	r, w   *c17Pipe
	once   sync.Once
	closed chan struct{}
}

func newC17Conn(r, w *c17Pipe) *c17Conn { return &c17Conn{r: r, w: w, closed: make(chan struct{})} }

func (c *c17Conn) Read(b []byte) (int, error)  { return c.r.Read(b) }
func (c *c17Conn) Write(b []byte) (int, error) { return c.w.Write(b) }
func (c *c17Conn) Close() error {
	c.once.Do(func() {
		close(c.closed)
		c.w.closeWrite()
		c.r.closeRead()
	})
	return nil
}
func (c *c17Conn) isClosed() bool {
	select {
	case <-c.closed:
		return true
	default:
		return false
	}
}
func (c *c17Conn) LocalAddr() net.Addr                { return c17Addr{} }
func (c *c17Conn) RemoteAddr() net.Addr               { return c17Addr{} }
func (c *c17Conn) SetDeadline(t time.Time) error      { return nil }
func (c *c17Conn) SetReadDeadline(t time.Time) error  { return nil }
func (c *c17Conn) SetWriteDeadline(t time.Time) error { return nil }

var errC17Timeout = errors.New("c17: condition not reached within the generous timeout (inconclusive)")

// c17WaitFor waits until cond() holds; ev is signalled (non-blocking) by every state change the
// condition may depend on. The timeout only ever produces an inconclusive result.
func c17WaitFor(ev chan struct{}, timeout time.Duration, cond func() bool) error {
	if cond() {
		return nil
	}
	t := time.NewTimer(timeout)
	defer t.Stop()
	// A coarse re-check tick guards against a state change that has no notification hook
	// (e.g. a goroutine exiting); it is a poll of a condition, not an expectation about time.
	tick := time.NewTicker(200 * time.Microsecond)
	defer tick.Stop()
	for {
		select {
		case <-ev:
		case <-tick.C:
		case <-t.C:
			if cond() {
				return nil
			}
			return errC17Timeout
		}
		if cond() {
			return nil
		}
	}
}
