package conn

// C16 — shared machinery of the secret-connection harness parts (package conn, internal test).
//
// c16End is one endpoint's socket of an in-memory duplex whose "wire" is the harness: everything an
// endpoint writes is appended to `out` (never blocks: the adversary's buffer is unbounded), and the
// endpoint only ever reads what the harness put into `in`. The adversary therefore sees every byte,
// decides what the other side receives (replace / drop / duplicate / reorder / truncate / flip), and
// when a stream ends (EOF). Waiting is only ever on conditions (bytes written, handshake returned);
// a watchdog turns a stuck case into an inconclusive one, never into a violation.

import (
	"bytes"
	"crypto/cipher"
	"encoding/binary"
	"errors"
	"fmt"
	"io"
	"sync"
	"time"

	gogotypes "github.com/gogo/protobuf/types"
	"github.com/gtank/merlin"
	"golang.org/x/crypto/chacha20poly1305"

	"github.com/tendermint/tendermint/crypto"
	"github.com/tendermint/tendermint/crypto/ed25519"
	cryptoenc "github.com/tendermint/tendermint/crypto/encoding"
	"github.com/tendermint/tendermint/libs/protoio"
	tmp2p "github.com/tendermint/tendermint/proto/tendermint/p2p"
)

const (
	c16SealedSize = totalFrameSize + aeadSizeOverhead // 1044
	c16Watchdog   = 90 * time.Second
)

var errC16Injected = errors.New("c16: injected write fault")

// c16WriteFault describes what the transport does with the k-th data-plane Write call of an endpoint.
type c16WriteFault struct {
	At      int // index of the conn.Write call (counted from the moment the fault plan is installed)
	Partial int // bytes actually put on the wire before the error (0..len); -1 = all bytes, still reports an error
}

type c16End struct {
	mu   sync.Mutex
	cond *sync.Cond
	name string

	in     []byte
	inEOF  bool
	closed bool
	frag   int // >0: a Read call returns at most this many bytes (transport fragmentation)

	out       []byte   // every byte presented to Write, in order (faulted writes included)
	outCalls  [][]byte // one entry per Write call (what was presented)
	wire      []byte   // bytes that really went on the wire (differs from out only under write faults)
	wireOff   int      // harness cursor into wire: bytes before it were already taken by the adversary
	faults    []c16WriteFault
	faultBase int // len(outCalls) when the fault plan was installed

	done    bool // the handshake goroutine of this endpoint has returned
	aborted bool // watchdog fired
	sc      *SecretConnection
	err     error
	panicV  interface{}
}

func newC16End(name string) *c16End {
	e := &c16End{name: name}
	e.cond = sync.NewCond(&e.mu)
	return e
}

func (e *c16End) Read(p []byte) (int, error) {
	e.mu.Lock()
	defer e.mu.Unlock()
	for len(e.in) == 0 && !e.inEOF && !e.closed {
		e.cond.Wait()
	}
	if len(e.in) > 0 {
		if e.frag > 0 && len(p) > e.frag {
			p = p[:e.frag]
		}
		n := copy(p, e.in)
		e.in = e.in[n:]
		return n, nil
	}
	return 0, io.EOF
}

func (e *c16End) Write(p []byte) (int, error) {
	e.mu.Lock()
	defer e.mu.Unlock()
	if e.closed {
		return 0, io.ErrClosedPipe
	}
	cp := append([]byte(nil), p...)
	k := len(e.outCalls) - e.faultBase
	e.outCalls = append(e.outCalls, cp)
	e.out = append(e.out, cp...)
	for _, f := range e.faults {
		if f.At == k {
			n := f.Partial
			if n < 0 || n > len(cp) {
				n = len(cp)
			}
			e.wire = append(e.wire, cp[:n]...)
			e.cond.Broadcast()
			return n, errC16Injected
		}
	}
	e.wire = append(e.wire, cp...)
	e.cond.Broadcast()
	return len(p), nil
}

func (e *c16End) Close() error {
	e.mu.Lock()
	e.closed = true
	e.cond.Broadcast()
	e.mu.Unlock()
	return nil
}

// deliver hands bytes to the endpoint's reader.
func (e *c16End) deliver(b []byte) {
	e.mu.Lock()
	e.in = append(e.in, b...)
	e.cond.Broadcast()
	e.mu.Unlock()
}

// finish ends the endpoint's inbound stream: after the buffered bytes the reader sees EOF.
func (e *c16End) finish() {
	e.mu.Lock()
	e.inEOF = true
	e.cond.Broadcast()
	e.mu.Unlock()
}

// reopen clears an EOF mark (data-plane cases reuse the endpoint after the handshake).
func (e *c16End) resetIn() {
	e.mu.Lock()
	e.in, e.inEOF = nil, false
	e.mu.Unlock()
}

// takeWire returns the bytes put on the wire since the last call.
func (e *c16End) takeWire() []byte {
	e.mu.Lock()
	defer e.mu.Unlock()
	b := append([]byte(nil), e.wire[e.wireOff:]...)
	e.wireOff = len(e.wire)
	return b
}

func (e *c16End) setFaults(f []c16WriteFault) {
	e.mu.Lock()
	e.faults = f
	e.faultBase = len(e.outCalls)
	e.mu.Unlock()
}

func (e *c16End) callsSince(base int) [][]byte {
	e.mu.Lock()
	defer e.mu.Unlock()
	return append([][]byte(nil), e.outCalls[base:]...)
}

func (e *c16End) nCalls() int {
	e.mu.Lock()
	defer e.mu.Unlock()
	return len(e.outCalls)
}

func (e *c16End) pendingIn() int {
	e.mu.Lock()
	defer e.mu.Unlock()
	return len(e.in)
}

// waitOut blocks until the endpoint has written at least n bytes in total, or its handshake call
// has returned, or the watchdog fired. ok is false when the bytes never came.
func (e *c16End) waitOut(n int) (ok bool) {
	e.mu.Lock()
	defer e.mu.Unlock()
	for len(e.out) < n && !e.done && !e.aborted {
		e.cond.Wait()
	}
	return len(e.out) >= n
}

func (e *c16End) outSlice(from, to int) []byte {
	e.mu.Lock()
	defer e.mu.Unlock()
	return append([]byte(nil), e.out[from:to]...)
}

func (e *c16End) outLen() int {
	e.mu.Lock()
	defer e.mu.Unlock()
	return len(e.out)
}

func (e *c16End) waitDone() (ok bool) {
	e.mu.Lock()
	defer e.mu.Unlock()
	for !e.done && !e.aborted {
		e.cond.Wait()
	}
	return e.done
}

func (e *c16End) abort() {
	e.mu.Lock()
	e.aborted = true
	e.closed = true
	e.cond.Broadcast()
	e.mu.Unlock()
}

// startHandshake runs the real MakeSecretConnection on this endpoint in its own goroutine.
func (e *c16End) startHandshake(key crypto.PrivKey) {
	go func() {
		var sc *SecretConnection
		var err error
		var pv interface{}
		func() {
			defer func() {
				if x := recover(); x != nil {
					pv = x
				}
			}()
			sc, err = MakeSecretConnection(e, key)
		}()
		e.mu.Lock()
		e.sc, e.err, e.panicV, e.done = sc, err, pv, true
		e.cond.Broadcast()
		e.mu.Unlock()
	}()
}

// readEphMsg waits for the endpoint's first handshake message (a varint-delimited BytesValue) and
// returns its raw bytes and the 32-byte key it carries.
func (e *c16End) readEphMsg() (raw []byte, key [32]byte, ok bool) {
	if !e.waitOut(1) {
		return nil, key, false
	}
	// the length prefix is a single byte for every message this side can produce (34 < 128)
	hdr := e.outSlice(0, 1)
	total := 1 + int(hdr[0])
	if hdr[0] >= 0x80 || !e.waitOut(total) {
		return nil, key, false
	}
	raw = e.outSlice(0, total)
	var bv gogotypes.BytesValue
	if err := protoio.UnmarshalDelimited(raw, &bv); err != nil || len(bv.Value) != 32 {
		return nil, key, false
	}
	copy(key[:], bv.Value)
	return raw, key, true
}

// c16ParseEphAsReceiver: the 32 bytes the receiving endpoint will use, by the protocol's own rule
// (protobuf BytesValue, copied into a 32-byte array: shorter values are zero-padded, longer cut).
func c16ParseEphAsReceiver(msg []byte) (k [32]byte, ok bool) {
	var bv gogotypes.BytesValue
	if err := protoio.UnmarshalDelimited(msg, &bv); err != nil {
		return k, false
	}
	copy(k[:], bv.Value)
	return k, true
}

func c16EphMsg(value []byte) []byte {
	bz, err := protoio.MarshalDelimited(&gogotypes.BytesValue{Value: value})
	if err != nil {
		panic(err)
	}
	return bz
}

// ---------------------------------------------------------------------------------------------
// The attacker's own protocol implementation (what any participant can compute from its own
// ephemeral private key and the other side's public key). Written from the protocol description;
// it uses the package's helper functions for the primitives so that it stays a *participant* of
// whatever protocol the tree under test speaks.

type c16Session struct {
	challenge [32]byte
	sendAead  cipher.AEAD
	recvAead  cipher.AEAD
	ok        bool
}

func c16Derive(locPub, locPriv, remPub *[32]byte) (s c16Session) {
	defer func() {
		if recover() != nil {
			s.ok = false
		}
	}()
	lo, hi := sort32(locPub, remPub)
	tr := merlin.NewTranscript("TENDERMINT_SECRET_CONNECTION_TRANSCRIPT_HASH")
	tr.AppendMessage(labelEphemeralLowerPublicKey, lo[:])
	tr.AppendMessage(labelEphemeralUpperPublicKey, hi[:])
	locIsLeast := bytes.Equal(locPub[:], lo[:])
	dh, err := computeDHSecret(remPub, locPriv)
	if err != nil {
		return s
	}
	tr.AppendMessage(labelDHSecret, dh[:])
	recvSecret, sendSecret := deriveSecrets(dh, locIsLeast)
	copy(s.challenge[:], tr.ExtractBytes(labelSecretConnectionMac, 32))
	if s.sendAead, err = chacha20poly1305.New(sendSecret[:]); err != nil {
		return s
	}
	if s.recvAead, err = chacha20poly1305.New(recvSecret[:]); err != nil {
		return s
	}
	s.ok = true
	return s
}

// c16DeriveZero: the session anybody can compute if the endpoint accepted locPub although X25519 with it yields the
// all-zero shared secret (a small-order point): no private key is involved.
func c16DeriveZero(locPub, remPub *[32]byte) (s c16Session) {
	defer func() {
		if recover() != nil {
			s.ok = false
		}
	}()
	lo, hi := sort32(locPub, remPub)
	tr := merlin.NewTranscript("TENDERMINT_SECRET_CONNECTION_TRANSCRIPT_HASH")
	tr.AppendMessage(labelEphemeralLowerPublicKey, lo[:])
	tr.AppendMessage(labelEphemeralUpperPublicKey, hi[:])
	locIsLeast := bytes.Equal(locPub[:], lo[:])
	dh := new([32]byte)
	tr.AppendMessage(labelDHSecret, dh[:])
	recvSecret, sendSecret := deriveSecrets(dh, locIsLeast)
	copy(s.challenge[:], tr.ExtractBytes(labelSecretConnectionMac, 32))
	var err error
	if s.sendAead, err = chacha20poly1305.New(sendSecret[:]); err != nil {
		return s
	}
	if s.recvAead, err = chacha20poly1305.New(recvSecret[:]); err != nil {
		return s
	}
	s.ok = true
	return s
}

func c16Nonce(counter uint64) []byte {
	n := make([]byte, aeadNonceSize)
	binary.LittleEndian.PutUint64(n[4:], counter)
	return n
}

// c16SealFrame builds one wire frame the way the protocol describes it.
func c16SealFrame(aead cipher.AEAD, counter uint64, payload []byte) []byte {
	if len(payload) > dataMaxSize {
		panic("payload too large for one frame")
	}
	frame := make([]byte, totalFrameSize)
	binary.LittleEndian.PutUint32(frame, uint32(len(payload)))
	copy(frame[dataLenSize:], payload)
	return aead.Seal(nil, c16Nonce(counter), frame, nil)
}

// c16OpenFrame returns the payload of a sealed frame if it opens under (aead, counter).
func c16OpenFrame(aead cipher.AEAD, counter uint64, sealed []byte) ([]byte, bool) {
	if len(sealed) != c16SealedSize {
		return nil, false
	}
	frame, err := aead.Open(nil, c16Nonce(counter), sealed, nil)
	if err != nil {
		return nil, false
	}
	l := binary.LittleEndian.Uint32(frame)
	if l > dataMaxSize {
		return nil, false
	}
	return frame[dataLenSize : dataLenSize+l], true
}

func c16AuthPayload(pk crypto.PubKey, sig []byte) []byte {
	pb, err := cryptoenc.PubKeyToProto(pk)
	if err != nil {
		panic(err)
	}
	bz, err := protoio.MarshalDelimited(&tmp2p.AuthSigMessage{PubKey: pb, Sig: sig})
	if err != nil {
		panic(err)
	}
	return bz
}

func c16ParseAuth(payload []byte) (crypto.PubKey, []byte, bool) {
	var pba tmp2p.AuthSigMessage
	if err := protoio.UnmarshalDelimited(payload, &pba); err != nil {
		return nil, nil, false
	}
	pk, err := cryptoenc.PubKeyFromProto(pba.PubKey)
	if err != nil {
		return nil, nil, false
	}
	return pk, pba.Sig, true
}

// ---------------------------------------------------------------------------------------------
// honest pair: two real endpoints, pass-through wire. Used by the data-plane parts.

type c16Pair struct {
	a, b         *c16End
	scA, scB     *SecretConnection
	ephA, ephB   [32]byte
	authA, authB []byte // the sealed handshake frames as seen on the wire (A's is what A sent)
	aIsLo        bool
	hsLenA       int // bytes A wrote during the handshake (data frames start here in a.out)
	hsLenB       int
}

var (
	c16KeyA = ed25519.GenPrivKeyFromSecret([]byte("verif-c16-node-A"))
	c16KeyB = ed25519.GenPrivKeyFromSecret([]byte("verif-c16-node-B"))
	c16KeyM = ed25519.GenPrivKeyFromSecret([]byte("verif-c16-attacker-M"))
	c16KeyO = ed25519.GenPrivKeyFromSecret([]byte("verif-c16-other-O"))
)

var errC16Stuck = errors.New("c16: watchdog fired (inconclusive)")

// newC16Pair runs an unmodified handshake between A and B. role: 0 = A holds the lower ephemeral
// key, 1 = B does, -1 = whatever comes. Ephemeral keys are fresh random values, so the role is
// obtained by repeating the (cheap) handshake until it matches.
func newC16Pair(role int) (*c16Pair, error) {
	for try := 0; try < 200; try++ {
		p, err := c16PairOnce()
		if err != nil {
			return nil, err
		}
		if role < 0 || (role == 0) == p.aIsLo {
			return p, nil
		}
		p.close()
	}
	return nil, fmt.Errorf("could not obtain role %d in 200 handshakes", role)
}

func c16PairOnce() (*c16Pair, error) {
	p := &c16Pair{a: newC16End("A"), b: newC16End("B")}
	wd := time.AfterFunc(c16Watchdog, func() { p.a.abort(); p.b.abort() })
	defer wd.Stop()
	p.a.startHandshake(c16KeyA)
	p.b.startHandshake(c16KeyB)
	rawA, ka, okA := p.a.readEphMsg()
	rawB, kb, okB := p.b.readEphMsg()
	if !okA || !okB {
		p.close()
		if p.a.aborted || p.b.aborted {
			return nil, errC16Stuck
		}
		return nil, fmt.Errorf("honest endpoint did not produce a well-formed ephemeral key message")
	}
	p.ephA, p.ephB = ka, kb
	p.aIsLo = bytes.Compare(ka[:], kb[:]) < 0
	p.b.deliver(rawA)
	p.a.deliver(rawB)
	la, lb := len(rawA), len(rawB)
	okA = p.a.waitOut(la + c16SealedSize)
	okB = p.b.waitOut(lb + c16SealedSize)
	if !okA || !okB {
		p.close()
		if p.a.aborted || p.b.aborted {
			return nil, errC16Stuck
		}
		return nil, fmt.Errorf("honest endpoint did not send its auth frame: A err=%v B err=%v", p.a.err, p.b.err)
	}
	p.authA = p.a.outSlice(la, la+c16SealedSize)
	p.authB = p.b.outSlice(lb, lb+c16SealedSize)
	p.b.deliver(p.authA)
	p.a.deliver(p.authB)
	if !p.a.waitDone() || !p.b.waitDone() {
		p.close()
		return nil, errC16Stuck
	}
	if p.a.err != nil || p.b.err != nil || p.a.sc == nil || p.b.sc == nil || p.a.panicV != nil || p.b.panicV != nil {
		p.close()
		return nil, fmt.Errorf("honest handshake failed: A err=%v panic=%v, B err=%v panic=%v", p.a.err, p.a.panicV, p.b.err, p.b.panicV)
	}
	p.scA, p.scB = p.a.sc, p.b.sc
	p.hsLenA, p.hsLenB = p.a.outLen(), p.b.outLen()
	return p, nil
}

func (p *c16Pair) close() {
	p.a.Close()
	p.b.Close()
}

// c16Pattern: the byte at offset i of the plaintext stream of direction dir. Every 1024-aligned
// chunk differs from every other one and from the other direction, so any reordering, replay or
// cross-direction splice shows up as a non-prefix.
func c16Pattern(dir int, off, n int) []byte {
	out := make([]byte, n)
	for j := 0; j < n; j++ {
		i := off + j
		out[j] = byte(i) ^ byte((i>>8)*37+11) ^ byte((i>>10)*101) ^ byte(dir*0x5b)
	}
	return out
}

func c16Safe(f func()) (pv interface{}) {
	defer func() {
		if x := recover(); x != nil {
			pv = x
		}
	}()
	f()
	return nil
}
