package conn

// C16 parts "stream" and "tamper" — the data plane of an established secret connection.
//
// stream : every write-size pattern (<= 3 writes from a boundary menu) in both directions at once x
//          read-buffer size x interleaving of reads and writes x transport fragmentation x key order,
//          on an untouched wire; plus every single/double transport write fault x how much of the
//          frame got out x retry behaviour; plus the nonce counter started at every byte-carry
//          boundary up to 2^64-1. Oracles: the reader gets exactly the written bytes in order; every
//          sealed frame that was ever handed to the transport opens under a distinct (key, counter).
// tamper : every frame-level edit of the ciphertext stream (drop / duplicate anywhere / swap /
//          cross-direction and cross-session and handshake-frame splices / truncation at every byte
//          of the last frame / one-bit flip at every byte of every frame / one byte removed or
//          inserted at every offset of a frame) x read-buffer size. The reader keeps reading after
//          errors until the stream ends. Oracle: everything it ever returns is a prefix of what was
//          written, and a modified stream is never read to its end without an error (a stream cut
//          exactly at a frame boundary ends in EOF, which yields no altered plaintext).
//
// Everything after the handshake runs in one goroutine: writes never block (unbounded wire), and the
// reader's inbound stream is marked finished, so a Read that finds nothing returns EOF instead of
// blocking. No timing is involved anywhere.

import (
	"bytes"
	"crypto/cipher"
	"encoding/binary"
	"errors"
	"fmt"
	"io"
	"math"
	"testing"
	"time"

	"github.com/tendermint/tendermint/internal/verif/vr"
)

type c16Edit struct {
	Op   string `json:"op"`
	I    int    `json:"i"`
	J    int    `json:"j"`
	Pos  int    `json:"pos"`
	Mask int    `json:"mask"`
}

type c16DataCase struct {
	Kind    string          `json:"kind"` // roundtrip | wfault | counter | tamper
	Role    int             `json:"role"`
	WA      []int           `json:"writes_a,omitempty"` // write sizes of the tampered / faulted direction (A->B in roundtrip)
	WB      []int           `json:"writes_b,omitempty"`
	Rb      int             `json:"read_buf,omitempty"`
	Mode    int             `json:"mode,omitempty"`
	Frag    int             `json:"frag,omitempty"`
	Dir     int             `json:"dir,omitempty"` // 0: A writes / B reads, 1: the reverse
	Edit    *c16Edit        `json:"edit,omitempty"`
	Faults  []c16WriteFault `json:"faults,omitempty"`
	Retry   bool            `json:"retry,omitempty"`
	Counter uint64          `json:"counter,omitempty"`
}

const c16Stuck = "\x00stuck"

type c16DataEnv struct {
	prevFrames [2][][]byte // data frames of an earlier session, per direction
}

func newC16DataEnv() (*c16DataEnv, error) {
	p, err := newC16Pair(-1)
	if err != nil {
		return nil, err
	}
	defer p.close()
	p.a.takeWire()
	p.b.takeWire()
	e := &c16DataEnv{}
	for d, sc := range []*SecretConnection{p.scA, p.scB} {
		if _, err := sc.Write(c16Pattern(d, 0, 1030)); err != nil {
			return nil, err
		}
		end := p.a
		if d == 1 {
			end = p.b
		}
		e.prevFrames[d] = c16Split(end.takeWire())
	}
	return e, nil
}

func c16Split(b []byte) (frames [][]byte) {
	for len(b) > 0 {
		n := c16SealedSize
		if n > len(b) {
			n = len(b)
		}
		frames = append(frames, b[:n])
		b = b[n:]
	}
	return
}

func c16Join(frames [][]byte) []byte {
	var out []byte
	for _, f := range frames {
		out = append(out, f...)
	}
	return out
}

func c16Sum(v []int) (s int) {
	for _, x := range v {
		s += x
	}
	return
}

func c16PairFor(role int) (*c16Pair, string, string) {
	p, err := newC16Pair(role)
	if err == errC16Stuck {
		return nil, c16Stuck, ""
	}
	if err != nil {
		return nil, "MakeSecretConnection:honest-pair-fails", err.Error()
	}
	p.a.takeWire()
	p.b.takeWire()
	p.a.finish() // from here on a Read that finds no input returns EOF instead of blocking
	p.b.finish()
	return p, "", ""
}

// c16Audit finds, for every frame, the counter under which it opens with the given key.
func c16Audit(aead cipher.AEAD, frames [][]byte, candidates []uint64) (ctr []uint64, found []bool, payload [][]byte) {
	ctr, found, payload = make([]uint64, len(frames)), make([]bool, len(frames)), make([][]byte, len(frames))
	for i, f := range frames {
		for _, c := range candidates {
			if pl, ok := c16OpenFrame(aead, c, f); ok {
				ctr[i], found[i], payload[i] = c, true, pl
				break
			}
		}
	}
	return
}

func c16Range(from, n uint64) (l []uint64) {
	for i := uint64(0); i < n; i++ {
		l = append(l, from+i)
	}
	return
}

type c16Flow struct {
	dir      int
	w, r     *SecretConnection
	wEnd     *c16End
	rEnd     *c16End
	written  int
	read     int
	frames   [][]byte
	zeroRead int
}

func (f *c16Flow) write(n int) (key, what string) {
	data := c16Pattern(f.dir, f.written, n)
	var wn int
	var werr error
	if pv := c16Safe(func() { wn, werr = f.w.Write(data) }); pv != nil {
		return "Write:panics", fmt.Sprint(pv)
	}
	if werr != nil || wn != n {
		return "Write:fails-on-healthy-transport", fmt.Sprintf("Write(%d bytes) = %d, %v", n, wn, werr)
	}
	f.written += n
	wire := f.wEnd.takeWire()
	f.frames = append(f.frames, c16Split(wire)...)
	f.rEnd.deliver(wire)
	return "", ""
}

func (f *c16Flow) readOnce(rb int) (key, what string) {
	if f.read >= f.written {
		return "", ""
	}
	buf := make([]byte, rb)
	var n int
	var err error
	if pv := c16Safe(func() { n, err = f.r.Read(buf) }); pv != nil {
		return "Read:panics", fmt.Sprint(pv)
	}
	if err != nil {
		return "Read:error-on-untouched-stream", fmt.Sprintf("dir %d: after %d of %d bytes Read returned %v", f.dir, f.read, f.written, err)
	}
	if n > f.written-f.read || !bytes.Equal(buf[:n], c16Pattern(f.dir, f.read, n)) {
		return "Read:yields-wrong-bytes-on-untouched-stream", fmt.Sprintf("dir %d: bytes at stream offset %d (read of %d) differ from what was written", f.dir, f.read, n)
	}
	f.read += n
	if n == 0 {
		f.zeroRead++
		if f.zeroRead > 8 {
			return "Read:no-progress-on-untouched-stream", fmt.Sprintf("dir %d: Read keeps returning 0, nil with %d bytes outstanding", f.dir, f.written-f.read)
		}
	}
	return "", ""
}

func (f *c16Flow) drain(rb int) (key, what string) {
	for f.read < f.written {
		if key, what = f.readOnce(rb); key != "" {
			return
		}
	}
	return "", ""
}

// nonceCheck: frame k of a direction must open under a counter no other frame of that key used.
func c16NonceCheck(sendKey, otherKey cipher.AEAD, frames [][]byte, first uint64) (key, what string, unidentified int) {
	cand := c16Range(0, uint64(len(frames))+6)
	if first > 8 {
		cand = append(c16Range(first-2, uint64(len(frames))+6), cand...)
	}
	ctr, found, _ := c16Audit(sendKey, frames, cand)
	seen := map[uint64]int{}
	for i := range frames {
		if !found[i] {
			unidentified++
			continue
		}
		if j, dup := seen[ctr[i]]; dup {
			return "Write:nonce-used-twice", fmt.Sprintf("sealed frames #%d and #%d of one direction both open under counter %d of the same key", j, i, ctr[i]), unidentified
		}
		seen[ctr[i]] = i
		if _, ok := c16OpenFrame(otherKey, ctr[i], frames[i]); ok {
			return "deriveSecrets:both-directions-share-key-and-nonce", fmt.Sprintf("frame #%d (counter %d) also opens under the other direction's sending key: the two directions use the same (key, nonce) pairs", i, ctr[i]), unidentified
		}
	}
	return "", "", unidentified
}

func c16RunRoundtrip(r *vr.Report, c c16DataCase) (key, what string) {
	p, k, w := c16PairFor(c.Role)
	if k != "" {
		return k, w
	}
	defer p.close()
	p.a.frag, p.b.frag = c.Frag, c.Frag
	ab := &c16Flow{dir: 0, w: p.scA, r: p.scB, wEnd: p.a, rEnd: p.b}
	ba := &c16Flow{dir: 1, w: p.scB, r: p.scA, wEnd: p.b, rEnd: p.a}
	steps := []func() (string, string){}
	n := len(c.WA)
	if len(c.WB) > n {
		n = len(c.WB)
	}
	wr := func(f *c16Flow, l []int, i int) func() (string, string) {
		return func() (string, string) {
			if i < len(l) {
				return f.write(l[i])
			}
			return "", ""
		}
	}
	rd := func(f *c16Flow) func() (string, string) { return func() (string, string) { return f.readOnce(c.Rb) } }
	for i := 0; i < n; i++ {
		switch c.Mode {
		case 0:
			steps = append(steps, wr(ab, c.WA, i))
		case 1: // a partial read on B, then B writes (both use B's buffers), and the mirror image
			steps = append(steps, wr(ab, c.WA, i), rd(ab), wr(ba, c.WB, i), rd(ba))
		case 2:
			steps = append(steps, wr(ba, c.WB, i), wr(ab, c.WA, i), rd(ba), rd(ab), rd(ab))
		}
	}
	if c.Mode == 0 {
		for i := 0; i < n; i++ {
			steps = append(steps, wr(ba, c.WB, i))
		}
	}
	for _, s := range steps {
		if key, what = s(); key != "" {
			return
		}
	}
	order := []*c16Flow{ab, ba}
	if c.Mode == 2 {
		order = []*c16Flow{ba, ab}
	}
	for _, f := range order {
		if key, what = f.drain(c.Rb); key != "" {
			return
		}
	}
	for _, f := range order {
		if f.rEnd.pendingIn() != 0 || len(f.r.recvBuffer) != 0 {
			r.Add("diag_leftover_after_full_read", 1)
		}
		other := ba
		if f == ba {
			other = ab
		}
		var un int
		if key, what, un = c16NonceCheck(f.w.sendAead, other.w.sendAead, f.frames, 1); key != "" {
			return
		}
		if un > 0 {
			r.Add("diag_frames_with_unidentified_nonce", int64(un))
		}
		r.Add("frames_nonce_checked", int64(len(f.frames)))
	}
	return "", ""
}

// readAll reads until the stream ends, continuing after errors, and returns everything Read ever
// handed out plus the errors it returned (in order) and the output length at the first error.
func c16ReadAll(sc *SecretConnection, rb int, frames int) (out []byte, errs []error, firstErrAt int, pv interface{}) {
	firstErrAt = -1
	buf := make([]byte, rb)
	consecutive := 0
	for iter := 0; iter < 20000; iter++ {
		var n int
		var err error
		if pv = c16Safe(func() { n, err = sc.Read(buf) }); pv != nil {
			return
		}
		if n > 0 {
			out = append(out, buf[:n]...)
		}
		if err != nil {
			if firstErrAt < 0 {
				firstErrAt = len(out)
			}
			errs = append(errs, err)
			consecutive++
			if err == io.EOF || errors.Is(err, io.ErrUnexpectedEOF) || consecutive > frames+6 {
				return
			}
		} else {
			consecutive = 0
		}
	}
	return
}

func c16ReadErrClass(errs []error) string {
	if len(errs) == 0 {
		return "no-error"
	}
	return c16ErrClass(errs[0], nil)
}

func (env *c16DataEnv) applyEdit(e *c16Edit, F [][]byte, cross [][]byte, auth []byte, prev [][]byte) []byte {
	cp := func() [][]byte { return append([][]byte(nil), F...) }
	ins := func(l [][]byte, j int, f []byte) [][]byte {
		out := append([][]byte(nil), l[:j]...)
		out = append(out, f)
		return append(out, l[j:]...)
	}
	switch e.Op {
	case "none":
		return c16Join(F)
	case "drop":
		l := cp()
		return c16Join(append(l[:e.I], l[e.I+1:]...))
	case "dup":
		return c16Join(ins(cp(), e.J, F[e.I]))
	case "swap":
		l := cp()
		l[e.I], l[e.J] = l[e.J], l[e.I]
		return c16Join(l)
	case "cross-replace":
		l := cp()
		l[e.I] = cross[e.J]
		return c16Join(l)
	case "cross-insert":
		return c16Join(ins(cp(), e.I, cross[e.J]))
	case "auth-insert":
		return c16Join(ins(cp(), e.I, auth))
	case "prev-replace":
		l := cp()
		l[e.I] = prev[e.J]
		return c16Join(l)
	case "trunc":
		s := c16Join(F)
		return s[:e.Pos]
	case "flip":
		s := c16Join(F)
		s[e.I*c16SealedSize+e.Pos] ^= byte(e.Mask)
		return s
	case "delbyte":
		s := c16Join(F)
		at := e.I*c16SealedSize + e.Pos
		return append(append([]byte(nil), s[:at]...), s[at+1:]...)
	case "insbyte":
		s := c16Join(F)
		at := e.I*c16SealedSize + e.Pos
		out := append([]byte(nil), s[:at]...)
		out = append(out, byte(e.Mask))
		return append(out, s[at:]...)
	}
	panic("unknown edit " + e.Op)
}

func (env *c16DataEnv) runTamper(r *vr.Report, c c16DataCase) (key, what, outcome string) {
	if c.Edit == nil {
		c.Edit = &c16Edit{Op: "none"}
	}
	p, k, w := c16PairFor(c.Role)
	if k != "" {
		return k, w, ""
	}
	defer p.close()
	wsc, rsc, wEnd, rEnd, auth := p.scA, p.scB, p.a, p.b, p.authA
	if c.Dir == 1 {
		wsc, rsc, wEnd, rEnd, auth = p.scB, p.scA, p.b, p.a, p.authB
	}
	// traffic of the opposite direction (never delivered): material for cross-direction splices
	if _, err := rsc.Write(c16Pattern(1-c.Dir, 0, 1030)); err != nil {
		return "Write:fails-on-healthy-transport", err.Error(), ""
	}
	cross := c16Split(rEnd.takeWire())
	var plain []byte
	for _, n := range c.WA {
		data := c16Pattern(c.Dir, len(plain), n)
		if wn, err := wsc.Write(data); err != nil || wn != n {
			return "Write:fails-on-healthy-transport", fmt.Sprintf("Write(%d) = %d, %v", n, wn, err), ""
		}
		plain = append(plain, data...)
	}
	orig := wEnd.takeWire()
	F := c16Split(orig)
	if len(orig)%c16SealedSize != 0 || len(cross) != 2 {
		return "Write:emits-partial-frames", fmt.Sprintf("%d bytes on the wire for writes %v", len(orig), c.WA), ""
	}
	edited := env.applyEdit(c.Edit, F, cross, auth, env.prevFrames[c.Dir])
	rEnd.deliver(edited)
	out, errs, firstErrAt, pv := c16ReadAll(rsc, c.Rb, len(edited)/c16SealedSize+1)
	if pv != nil {
		return "Read:panics:" + c.Edit.Op, fmt.Sprint(pv), ""
	}
	changed := !bytes.Equal(edited, orig)
	cutAtBoundary := len(edited) < len(orig) && len(edited)%c16SealedSize == 0 && bytes.HasPrefix(orig, edited)
	outcome = c.Edit.Op + ":" + c16ReadErrClass(errs)
	if !bytes.HasPrefix(plain, out) {
		cls := "before-any-error"
		if firstErrAt >= 0 && bytes.HasPrefix(plain, out[:firstErrAt]) {
			cls = "after-an-error"
		}
		return "Read:yields-plaintext-that-is-not-a-prefix-of-what-was-written:" + cls + ":" + c.Edit.Op,
			fmt.Sprintf("edit %+v on a %d-frame stream: reader returned %d bytes, the first %d match the written stream", *c.Edit, len(F), len(out), c16CommonPrefix(plain, out)), outcome
	}
	nonEOF := false
	for _, e := range errs {
		if e != io.EOF {
			nonEOF = true
		}
	}
	if changed && !cutAtBoundary && !nonEOF {
		return "Read:modified-stream-is-read-to-its-end-without-error:" + c.Edit.Op,
			fmt.Sprintf("edit %+v on a %d-frame stream: reader returned %d of %d bytes and only %v", *c.Edit, len(F), len(out), len(plain), errs), outcome
	}
	if !changed && (len(out) != len(plain) || nonEOF) {
		return "Read:error-on-untouched-stream", fmt.Sprintf("untouched %d-frame stream: got %d of %d bytes, errors %v", len(F), len(out), len(plain), errs), outcome
	}
	if cutAtBoundary {
		outcome += ":cut-at-frame-boundary"
	}
	if len(out) > 0 {
		outcome += ":some-plaintext-first"
	}
	return "", "", outcome
}

func c16EditPtr(e c16Edit) *c16Edit { return &e }

func c16CommonPrefix(a, b []byte) int {
	i := 0
	for i < len(a) && i < len(b) && a[i] == b[i] {
		i++
	}
	return i
}

func (env *c16DataEnv) runWFault(r *vr.Report, c c16DataCase) (key, what, outcome string) {
	p, k, w := c16PairFor(c.Role)
	if k != "" {
		return k, w, ""
	}
	defer p.close()
	base := p.a.nCalls()
	p.a.setFaults(c.Faults)
	off, failures := 0, 0
	for _, n := range c.WA {
		data := c16Pattern(0, off, n)
		off += n
		for len(data) > 0 {
			var wn int
			var err error
			if pv := c16Safe(func() { wn, err = p.scA.Write(data) }); pv != nil {
				return "Write:panics", fmt.Sprint(pv), ""
			}
			if err == nil {
				break
			}
			failures++
			if !c.Retry || wn < 0 || wn > len(data) {
				break
			}
			data = data[wn:] // the application retries what Write said was not written
		}
	}
	calls := p.a.callsSince(base)
	ctr, found, payload := c16Audit(p.scA.sendAead, calls, c16Range(0, uint64(len(calls))+8))
	seen := map[uint64]int{}
	var sealedPlain []byte
	for i := range calls {
		if !found[i] {
			r.Add("diag_frames_with_unidentified_nonce", 1)
			continue
		}
		if j, dup := seen[ctr[i]]; dup {
			return "Write:nonce-used-twice-after-failed-transport-write",
				fmt.Sprintf("frames handed to the transport in calls #%d and #%d both open under counter %d (payloads equal: %v); faults %+v retry=%v",
					j, i, ctr[i], bytes.Equal(payload[i], payload[j]), c.Faults, c.Retry), ""
		}
		seen[ctr[i]] = i
		sealedPlain = append(sealedPlain, payload[i]...)
	}
	p.b.deliver(p.a.takeWire())
	out, errs, _, pv := c16ReadAll(p.scB, c.Rb, len(calls)+1)
	if pv != nil {
		return "Read:panics:wfault", fmt.Sprint(pv), ""
	}
	if !bytes.HasPrefix(sealedPlain, out) {
		return "Read:yields-plaintext-that-is-not-a-prefix-of-what-was-sealed:after-write-fault",
			fmt.Sprintf("faults %+v retry=%v: reader returned %d bytes, first %d match", c.Faults, c.Retry, len(out), c16CommonPrefix(sealedPlain, out)), ""
	}
	outcome = fmt.Sprintf("wfault:failures=%d:read=%s", failures, c16ReadErrClass(errs))
	return "", "", outcome
}

func (env *c16DataEnv) runCounter(r *vr.Report, c c16DataCase) (key, what, outcome string) {
	p, k, w := c16PairFor(c.Role)
	if k != "" {
		return k, w, ""
	}
	defer p.close()
	binary.LittleEndian.PutUint64(p.scA.sendNonce[4:], c.Counter)
	binary.LittleEndian.PutUint64(p.scB.recvNonce[4:], c.Counter)
	base := p.a.nCalls()
	var plain []byte
	panicked := false
	for _, n := range c.WA {
		data := c16Pattern(0, len(plain), n)
		plain = append(plain, data...) // what the writer attempted, in order
		var err error
		if pv := c16Safe(func() { _, err = p.scA.Write(data) }); pv != nil {
			panicked = true
			break
		}
		if err != nil {
			return "Write:fails-on-healthy-transport", err.Error(), ""
		}
	}
	calls := p.a.callsSince(base)
	cand := c16Range(c.Counter, 8) // wraps around past 2^64-1 on purpose: candidates include 0,1,..
	cand = append(cand, c16Range(0, 4)...)
	ctr, found, _ := c16Audit(p.scA.sendAead, calls, cand)
	seen := map[uint64]bool{}
	for i := range calls {
		if !found[i] {
			r.Add("diag_frames_with_unidentified_nonce", 1)
			continue
		}
		if seen[ctr[i]] || ctr[i] < c.Counter {
			return "incrNonce:counter-wraps-or-repeats", fmt.Sprintf("starting at counter %d, frame #%d was sealed under counter %d", c.Counter, i, ctr[i]), ""
		}
		seen[ctr[i]] = true
	}
	frames := uint64(0)
	for _, n := range c.WA {
		frames += uint64((n + dataMaxSize - 1) / dataMaxSize)
	}
	overflowNeeded := c.Counter > math.MaxUint64-frames
	if panicked && !overflowNeeded {
		return "Write:panics-without-counter-overflow", fmt.Sprintf("starting at counter %d, %d frames", c.Counter, frames), ""
	}
	p.b.deliver(p.a.takeWire())
	out, errs, _, pv := c16ReadAll(p.scB, c.Rb, len(calls)+1)
	if pv != nil {
		outcome = "counter:reader-panics-at-overflow"
		if !overflowNeeded {
			return "Read:panics-without-counter-overflow", fmt.Sprint(pv), ""
		}
	}
	if !bytes.HasPrefix(plain, out) {
		return "Read:yields-wrong-bytes-on-untouched-stream", fmt.Sprintf("counter start %d: %d bytes read, %d match", c.Counter, len(out), c16CommonPrefix(plain, out)), ""
	}
	if !panicked && pv == nil && (len(out) != len(plain) || len(errs) != 1 || errs[0] != io.EOF) {
		return "Read:error-on-untouched-stream", fmt.Sprintf("counter start %d: read %d of %d bytes, errors %v", c.Counter, len(out), len(plain), errs), ""
	}
	if outcome == "" {
		outcome = fmt.Sprintf("counter:writer-panic=%v", panicked)
	}
	return "", "", outcome
}

var c16SizeMenu = []int{1, 1023, 1024, 1025, 2048, 2049, 3*1024 + 7}

func c16EachPattern(maxLen int, f func([]int) bool) bool {
	for l := 1; l <= maxLen; l++ {
		idx := make([]int, l)
		for {
			p := make([]int, l)
			for i := range idx {
				p[i] = c16SizeMenu[idx[i]]
			}
			if !f(p) {
				return false
			}
			i := l - 1
			for ; i >= 0; i-- {
				idx[i]++
				if idx[i] < len(c16SizeMenu) {
					break
				}
				idx[i] = 0
			}
			if i < 0 {
				break
			}
		}
	}
	return true
}

func c16Reverse(p []int) []int {
	out := make([]int, len(p))
	for i := range p {
		out[len(p)-1-i] = p[i]
	}
	return out
}

type c16Driver struct {
	r    *vr.Report
	env  *c16DataEnv
	k    int
	what string
}

func (d *c16Driver) runCase(c c16DataCase) (key, what, outcome string) {
	switch c.Kind {
	case "roundtrip":
		key, what = c16RunRoundtrip(d.r, c)
		return key, what, fmt.Sprintf("roundtrip:mode%d:ok", c.Mode)
	case "wfault":
		return d.env.runWFault(d.r, c)
	case "counter":
		return d.env.runCounter(d.r, c)
	case "tamper":
		return d.env.runTamper(d.r, c)
	}
	panic("unknown kind " + c.Kind)
}

// try runs one case of the enumeration; false = stop (budget).
func (d *c16Driver) try(c c16DataCase, nontrivial bool) bool {
	r := d.r
	d.k++
	if !r.Mine(d.k) {
		return true
	}
	if d.k%32 == 0 && r.Deadline(d.what) {
		return false
	}
	key, what, outcome := d.runCase(c)
	if key == c16Stuck {
		r.Cap("a handshake did not finish within the watchdog (inconclusive)")
		return true
	}
	r.Eval()
	if nontrivial {
		r.NTCount(1)
	}
	if key != "" {
		first := fmt.Errorf("%s", key)
		if vr.Confirm(3, first, func() error {
			k2, _, _ := d.runCase(c)
			if k2 == "" {
				return nil
			}
			return fmt.Errorf("%s", k2)
		}) {
			r.Violation(key, what, c)
		} else {
			r.Cap("a failing case did not reproduce 3 times: " + key)
		}
		return true
	}
	r.Outcome(outcome)
	if d.k%4001 == 1 {
		r.Sample(map[string]interface{}{"case": c, "outcome": outcome})
	}
	return true
}

func c16Replay(r *vr.Report, d *c16Driver) (handled bool) {
	var rc c16DataCase
	if rep, skip := r.ReplayCase(&rc); skip {
		return true
	} else if rep {
		r.Eval()
		key, what, outcome := d.runCase(rc)
		r.Note(fmt.Sprintf("replayed %s case: outcome %q", rc.Kind, outcome))
		if key != "" && key != c16Stuck {
			r.Violation(key, what, rc)
		}
		return true
	}
	return false
}

func TestVerifC16Stream(t *testing.T) {
	r := vr.Start("C16", "stream", 100*time.Second, 18*time.Minute)
	defer r.Finish()
	r.Rule = "odometer over (write-size pattern of <=3 writes from {1,1023,1024,1025,2048,2049,3079} A->B with the reversed pattern B->A, read-buffer size, " +
		"read/write interleaving mode, transport fragmentation, key order) + (transport write-fault position(s), bytes that got out, retry) + (nonce counter start " +
		"at every byte-carry boundary); all tuples distinct; non-trivial = more than one frame, or a partial read, or a fault, or a non-zero counter"
	r.Assume("the AEAD is a black box; nonces are observed by opening every sealed frame handed to the transport with the session key read from the SecretConnection struct")
	env, err := newC16DataEnv()
	if err != nil {
		r.Cap("could not set up a recorded earlier session: " + err.Error())
		return
	}
	d := &c16Driver{r: r, env: env, what: "stream enumeration"}
	if c16Replay(r, d) {
		return
	}
	ok := true
	// 1. nonce counter boundaries
	counters := []uint64{0, 1, 2}
	for j := uint(1); j < 8; j++ {
		b := uint64(1) << (8 * j)
		counters = append(counters, b-2, b-1, b)
	}
	counters = append(counters, math.MaxUint64-4, math.MaxUint64-3, math.MaxUint64-2, math.MaxUint64-1, math.MaxUint64)
	for _, c := range counters {
		for _, w := range [][]int{{1, 1024, 5}, {2049}} {
			if ok {
				ok = d.try(c16DataCase{Kind: "counter", Role: int(c % 2), WA: w, Rb: 1024, Counter: c}, true)
			}
		}
	}
	// 2. transport write faults
	for role := 0; role < 2; role++ {
		for at := 0; at < 5; at++ {
			for _, partial := range []int{0, 1, 500, 1043, -1} {
				for _, retry := range []bool{false, true} {
					for _, double := range []bool{false, true} {
						f := []c16WriteFault{{At: at, Partial: partial}}
						if double {
							f = append(f, c16WriteFault{At: at + 1, Partial: partial})
						}
						if ok {
							ok = d.try(c16DataCase{Kind: "wfault", Role: role, WA: []int{2049, 1, 1024}, Rb: 1024, Faults: f, Retry: retry}, true)
						}
					}
				}
			}
		}
	}
	// 3. round trips
	rbs := []int{1, 7, 1024, 4096}
	frags := []int{0, 7}
	maxLen := 3
	if vr.Thorough() {
		frags = []int{0, 1, 7, 1043, 1045}
		maxLen = 4
	}
	for _, frag := range frags {
		c16EachPattern(maxLen, func(p []int) bool {
			for _, rb := range rbs {
				for mode := 0; mode < 3; mode++ {
					for role := 0; role < 2; role++ {
						nt := c16Sum(p) > 1024 || rb < 1024 || len(p) > 1
						ok = ok && d.try(c16DataCase{Kind: "roundtrip", Role: role, WA: p, WB: c16Reverse(p), Rb: rb, Mode: mode, Frag: frag}, nt)
						if !ok {
							return false
						}
					}
				}
			}
			return true
		})
	}
	r.Bound = fmt.Sprintf("patterns of <=%d writes over %v, read buffers %v, 3 interleavings, fragmentation %v, both key orders; %d counter starts; single and double write faults at 5 positions x 5 extents", maxLen, c16SizeMenu, rbs, frags, len(counters))
}

func TestVerifC16Tamper(t *testing.T) {
	r := vr.Start("C16", "tamper", 100*time.Second, 18*time.Minute)
	defer r.Finish()
	r.Rule = "for fixed write patterns giving 1, 3 and 7 frames: every frame-level edit (drop i, duplicate i at j, swap i,j, replace/insert a frame of the opposite " +
		"direction, of an earlier session, or the handshake frame, truncate at every byte of the last frame and at every frame boundary, flip one bit at every byte of " +
		"every frame, remove/insert one byte at every offset of a frame) x read-buffer size x direction x key order; all tuples distinct; every case but op=none is non-trivial"
	r.Assume("the AEAD is a black box: what is checked is how Read/Write use it (nonce sequencing, framing, buffering, error handling)")
	env, err := newC16DataEnv()
	if err != nil {
		r.Cap("could not set up a recorded earlier session: " + err.Error())
		return
	}
	d := &c16Driver{r: r, env: env, what: "tamper enumeration"}
	if c16Replay(r, d) {
		return
	}
	ok := true
	rbs := []int{1, 7, 1024, 4096}
	pats := [][]int{{1024, 1, 1023}, {3*1024 + 7, 2049}, {1}}
	roles := []int{0, 1}
	// structural edits
	for _, pat := range pats {
		n := 0
		for _, s := range pat {
			n += (s + dataMaxSize - 1) / dataMaxSize
		}
		var edits []c16Edit
		edits = append(edits, c16Edit{Op: "none"})
		for i := 0; i < n; i++ {
			edits = append(edits, c16Edit{Op: "drop", I: i})
			for j := 0; j <= n; j++ {
				edits = append(edits, c16Edit{Op: "dup", I: i, J: j})
			}
			for j := i + 1; j < n; j++ {
				edits = append(edits, c16Edit{Op: "swap", I: i, J: j})
			}
			for j := 0; j < 2; j++ {
				edits = append(edits, c16Edit{Op: "cross-replace", I: i, J: j}, c16Edit{Op: "prev-replace", I: i, J: j})
			}
		}
		for i := 0; i <= n; i++ {
			edits = append(edits, c16Edit{Op: "auth-insert", I: i}, c16Edit{Op: "cross-insert", I: i, J: 0}, c16Edit{Op: "cross-insert", I: i, J: 1})
		}
		for i := 0; i < n; i++ {
			edits = append(edits, c16Edit{Op: "trunc", Pos: i * c16SealedSize})
		}
		for _, e := range edits {
			for _, rb := range rbs {
				for dir := 0; dir < 2; dir++ {
					for _, role := range roles {
						if ok {
							ok = d.try(c16DataCase{Kind: "tamper", Role: role, WA: pat, Rb: rb, Dir: dir, Edit: c16EditPtr(e)}, e.Op != "none")
						}
					}
				}
			}
		}
	}
	// byte-level edits on the 3-frame stream
	pat := pats[0]
	byteRbs := []int{7, 4096}
	masks := []int{0x01, 0x80}
	byteRoles := []int{0}
	if vr.Thorough() {
		byteRbs, masks, byteRoles = rbs, []int{0x01, 0x80, 0xff}, roles
	}
	for pos := 1; pos < c16SealedSize; pos++ { // cut inside the last frame
		for _, rb := range byteRbs {
			for dir := 0; dir < 2; dir++ {
				for _, role := range byteRoles {
					if ok {
						ok = d.try(c16DataCase{Kind: "tamper", Role: role, WA: pat, Rb: rb, Dir: dir, Edit: &c16Edit{Op: "trunc", Pos: 2*c16SealedSize + pos}}, true)
					}
				}
			}
		}
	}
	for i := 0; i < 3; i++ {
		for pos := 0; pos < c16SealedSize; pos++ {
			for _, m := range masks {
				for _, rb := range byteRbs {
					for dir := 0; dir < 2; dir++ {
						for _, role := range byteRoles {
							if ok {
								ok = d.try(c16DataCase{Kind: "tamper", Role: role, WA: pat, Rb: rb, Dir: dir, Edit: &c16Edit{Op: "flip", I: i, Pos: pos, Mask: m}}, true)
							}
						}
					}
				}
			}
		}
	}
	delFrames := []int{0}
	if vr.Thorough() {
		delFrames = []int{0, 1, 2}
	}
	for _, i := range delFrames {
		for pos := 0; pos < c16SealedSize; pos++ {
			for _, op := range []string{"delbyte", "insbyte"} {
				for _, role := range byteRoles {
					if ok {
						ok = d.try(c16DataCase{Kind: "tamper", Role: role, WA: pat, Rb: 1024, Dir: pos % 2, Edit: &c16Edit{Op: op, I: i, Pos: pos, Mask: 0xa5}}, true)
					}
				}
			}
		}
	}
	extra := ""
	if vr.Thorough() {
		// every single-bit mask at every byte of the middle frame, and one-bit flips over the whole 7-frame stream
		for pos := 0; pos < c16SealedSize; pos++ {
			for bit := 1; bit < 7; bit++ {
				for dir := 0; dir < 2; dir++ {
					if ok {
						ok = d.try(c16DataCase{Kind: "tamper", Role: pos % 2, WA: pat, Rb: 1024, Dir: dir, Edit: &c16Edit{Op: "flip", I: 1, Pos: pos, Mask: 1 << uint(bit)}}, true)
					}
				}
			}
		}
		for i := 0; i < 7; i++ {
			for pos := 0; pos < c16SealedSize; pos++ {
				for dir := 0; dir < 2; dir++ {
					if ok {
						ok = d.try(c16DataCase{Kind: "tamper", Role: (pos + i) % 2, WA: pats[1], Rb: 1024, Dir: dir, Edit: &c16Edit{Op: "flip", I: i, Pos: pos, Mask: 0x10}}, true)
					}
				}
			}
		}
		extra = "; all 8 single-bit masks on the middle frame; one-bit flip at every byte of the 7-frame stream"
	}
	if !ok {
		extra += " (enumeration cut by the time budget: see caps)"
	}
	r.Bound = fmt.Sprintf("streams of 1, 3 and 7 frames: all structural edits x read buffers %v x 2 directions x 2 key orders; 3-frame stream: cut at every byte of the last frame, "+
		"masks %v at every byte of every frame (read buffers %v), one byte removed/inserted at every offset of frame(s) %v%s", rbs, masks, byteRbs, delFrames, extra)
}
