package conn

// C17 part "delivery" — two real MConnections (send and recv routines running) joined by harness
// pipes. Every sequence of <= N sends over 3 channels (priorities 1/5/10) with sizes from the
// boundary menu {0,1,payload-1,payload,payload+1,3*payload+5,capacity} is executed, under several
// ways of handing the messages to the connection (blocking Send on the running connection, TrySend,
// everything queued before the send routine starts = maximal cross-channel contention) and several
// fragmentations of the byte stream (unlimited, 1 byte per read, small prime, one split point at
// every offset for the short sequences).
//
// Oracle (first sentence of the property, exactly): per channel, the sequence of onReceive payloads
// at the receiver equals the sequence of payloads whose Send/TrySend returned true — same count
// (exactly once), same order, byte-identical. The comparison is made after the sender's FlushStop
// (whose contract is that every accepted Send is flushed) and the receiver's EOF, so the verdict
// never depends on a timer; waiting is on conditions, a timeout ends the case as inconclusive.

import (
	"bytes"
	"fmt"
	"io"
	"sync"
	"sync/atomic"
	"testing"
	"time"

	"github.com/tendermint/tendermint/internal/verif/vr"
	"github.com/tendermint/tendermint/libs/log"
	"github.com/tendermint/tendermint/libs/protoio"
	tmp2p "github.com/tendermint/tendermint/proto/tendermint/p2p"
)

type c17Msg struct {
	Ch   int `json:"ch"`   // channel index 0..2 (ids 1,2,3; priorities 1,5,10)
	Size int `json:"size"` // index into the size menu of the profile
}

type c17DCase struct {
	Profile int      `json:"profile"`
	Msgs    []c17Msg `json:"msgs"`
	Mode    int      `json:"mode"`  // 0 blocking Send on the running connection, 1 queued before the send routine starts, 2 TrySend
	Chunk   int      `json:"chunk"` // max bytes per Read of the receiver (0 = unlimited)
	Split   int64    `json:"split"` // single split point of the byte stream (0 = none)
}

type c17Profile struct {
	Payload, Capacity, RecvBuf int
}

var c17Profiles = []c17Profile{
	{Payload: 16, Capacity: 100, RecvBuf: 32},      // small: many packets per message, recving grows by append
	{Payload: 1024, Capacity: 5000, RecvBuf: 4096}, // production payload size; stream crosses the 1024-byte bufio.Reader many times
}

var c17ChanIDs = []byte{0x01, 0x02, 0x03}
var c17ChanPrio = []int{1, 5, 10}

func (p c17Profile) sizes() []int {
	return []int{0, 1, p.Payload - 1, p.Payload, p.Payload + 1, 3*p.Payload + 5, p.Capacity}
}

func c17Payload(i, ch, size int) []byte {
	b := make([]byte, size)
	for j := range b {
		b[j] = byte(37*(i+1) + 11*j + 5*ch + (j>>8)*3 + 1)
	}
	return b
}

func c17Config(p c17Profile) MConnConfig {
	cfg := DefaultMConnConfig()
	cfg.MaxPacketMsgPayloadSize = p.Payload
	cfg.FlushThrottle = 20 * time.Microsecond
	cfg.PingInterval = 1000 * time.Hour
	cfg.PongTimeout = 999 * time.Hour
	cfg.SendRate = 1 << 40
	cfg.RecvRate = 1 << 40
	return cfg
}

func c17Descs(p c17Profile, sendQ int) []*ChannelDescriptor {
	var ds []*ChannelDescriptor
	for i, id := range c17ChanIDs {
		ds = append(ds, &ChannelDescriptor{ID: id, Priority: c17ChanPrio[i], SendQueueCapacity: sendQ,
			RecvBufferCapacity: p.RecvBuf, RecvMessageCapacity: p.Capacity})
	}
	return ds
}

type c17Sink struct {
	ev   chan struct{}
	mtx  chan struct{} // 1-slot semaphore (cheap mutex usable from callbacks)
	recv map[byte][][]byte
	n    int
	errs []string
}

func newC17Sink() *c17Sink {
	s := &c17Sink{ev: make(chan struct{}, 1), mtx: make(chan struct{}, 1), recv: map[byte][][]byte{}}
	return s
}
func (s *c17Sink) lock()   { s.mtx <- struct{}{} }
func (s *c17Sink) unlock() { <-s.mtx }
func (s *c17Sink) signal() {
	select {
	case s.ev <- struct{}{}:
	default:
	}
}
func (s *c17Sink) onReceive(ch byte, b []byte) {
	cp := append([]byte{}, b...) // the bytes alias the channel's recving buffer; a receiver must consume them synchronously
	s.lock()
	s.recv[ch] = append(s.recv[ch], cp)
	s.n++
	s.unlock()
	s.signal()
}
func (s *c17Sink) onError(r interface{}) {
	s.lock()
	s.errs = append(s.errs, fmt.Sprint(r))
	s.unlock()
	s.signal()
}
func (s *c17Sink) count() int { s.lock(); defer s.unlock(); return s.n }
func (s *c17Sink) errored() bool {
	s.lock()
	defer s.unlock()
	return len(s.errs) > 0
}

func c17RecvExited(c *MConnection) bool {
	select {
	case _, ok := <-c.pong:
		return !ok
	default:
		return false
	}
}

func c17SendDone(c *MConnection) bool {
	select {
	case <-c.doneSendRoutine:
		return true
	default:
		return false
	}
}

const c17Timeout = 20 * time.Second

const c17KeyZeroLen = "p2p/conn/connection.go:isSendPending:zero-length-message-never-sent"

type c17DResult struct {
	key, what    string
	outcome      string
	inconclusive string
	lateOnly     bool // expected count was reached only after FlushStop (diagnostic)
}

func c17RunDelivery(c c17DCase) (res c17DResult) {
	p := c17Profiles[c.Profile]
	sizes := p.sizes()
	sinkA, sinkB := newC17Sink(), newC17Sink()
	var splits []int64
	if c.Split > 0 {
		splits = []int64{c.Split}
	}
	ab := newC17Pipe(c.Chunk, splits, sinkB.signal)
	ab.record = true
	ba := newC17Pipe(0, nil, nil)
	connA, connB := newC17Conn(ba, ab), newC17Conn(ab, ba)
	sendQ := 1
	if c.Mode == 1 {
		sendQ = len(c.Msgs) + 1
	}
	cfg := c17Config(p)
	a := NewMConnectionWithConfig(connA, c17Descs(p, sendQ), sinkA.onReceive, sinkA.onError, cfg)
	b := NewMConnectionWithConfig(connB, c17Descs(p, 1), sinkB.onReceive, sinkB.onError, cfg)
	a.SetLogger(log.NewNopLogger())
	b.SetLogger(log.NewNopLogger())
	defer func() {
		if a.IsRunning() {
			_ = a.Stop()
		}
		if b.IsRunning() {
			_ = b.Stop()
		}
		connA.Close()
		connB.Close()
	}()

	accepted := map[byte][][]byte{}
	nAccepted := 0
	accept := func(i int, m c17Msg, ok bool) {
		if ok {
			id := c17ChanIDs[m.Ch]
			accepted[id] = append(accepted[id], c17Payload(i, m.Ch, sizes[m.Size]))
			nAccepted++
		}
	}
	if err := b.Start(); err != nil {
		panic(err)
	}
	switch c.Mode {
	case 1:
		// Exactly what Send does after its IsRunning check, performed before the routines start:
		// all messages are pending when the send routine first looks, so the priority multiplexer
		// faces maximal contention and the packet order on the wire is deterministic.
		for i, m := range c.Msgs {
			ch := a.channelsIdx[c17ChanIDs[m.Ch]]
			accept(i, m, ch.trySendBytes(c17Payload(i, m.Ch, sizes[m.Size])))
		}
		if err := a.Start(); err != nil {
			panic(err)
		}
		select {
		case a.send <- struct{}{}:
		default:
		}
	default:
		if err := a.Start(); err != nil {
			panic(err)
		}
		for i, m := range c.Msgs {
			msg := c17Payload(i, m.Ch, sizes[m.Size])
			if c.Mode == 0 {
				accept(i, m, a.Send(c17ChanIDs[m.Ch], msg))
			} else {
				accept(i, m, a.TrySend(c17ChanIDs[m.Ch], msg))
			}
		}
	}

	// Phase A: wait while the connection is up. Ends when everything accepted has arrived, when the
	// receiver reported an error, or when the sender looks idle with the pipe drained (nothing more
	// will arrive without a further stimulus; this look is heuristic and only shortens the wait —
	// the verdict is taken after FlushStop below).
	idleSeen := 0
	_ = c17WaitFor(sinkB.ev, 2*time.Second, func() bool {
		if sinkB.count() >= nAccepted || sinkB.errored() {
			return true
		}
		idle := len(a.send) == 0 && ab.drained() && a.bufConnWriter.Buffered() == 0
		for _, ch := range a.channels {
			if len(ch.sendQueue) != 0 {
				idle = false
			}
		}
		if idle {
			idleSeen++
		} else {
			idleSeen = 0
		}
		return idleSeen >= 4
	})
	reachedWhileUp := sinkB.count() >= nAccepted
	earlyErr := sinkB.errored()

	// Phase B: FlushStop guarantees every accepted Send is written and flushed, then closes; the
	// receiver processes everything up to EOF.
	a.FlushStop()
	if err := c17WaitFor(sinkB.ev, c17Timeout, func() bool {
		return sinkB.errored() && c17SendDone(b) && c17RecvExited(b)
	}); err != nil {
		res.inconclusive = "receiver did not terminate after the sender's FlushStop"
		return
	}
	if err := c17WaitFor(sinkA.ev, c17Timeout, func() bool { return c17SendDone(a) && c17RecvExited(a) }); err != nil {
		res.inconclusive = "sender routines did not terminate after FlushStop"
		return
	}
	res.lateOnly = !reachedWhileUp && !earlyErr

	// what went over the wire (vacuity statistics)
	written, _, _ := ab.stats()
	sinkB.lock()
	defer sinkB.unlock()
	if earlyErr {
		res.key = "p2p/conn/connection.go:recvRoutine:legitimate-traffic-dropped-the-connection"
		res.what = fmt.Sprintf("receiver reported %v while the sender only used Send/TrySend with sizes <= RecvMessageCapacity", sinkB.errs)
		return
	}
	if len(sinkB.errs) != 1 || sinkB.errs[0] != io.EOF.Error() {
		res.key = "p2p/conn/connection.go:recvRoutine:stream-not-cleanly-terminated"
		res.what = fmt.Sprintf("after FlushStop the receiver reported %v instead of a clean EOF (framing damaged)", sinkB.errs)
		return
	}
	// all channels are compared; a failure class other than the zero-length one takes precedence
	// so that the latter can never mask a different violation in the same case
	for _, id := range c17ChanIDs {
		if k, w := c17Compare(id, accepted[id], sinkB.recv[id]); k != "" {
			if res.key == "" || (res.key == c17KeyZeroLen && k != c17KeyZeroLen) {
				res.key, res.what = k, w
			}
		}
	}
	if res.key != "" {
		return
	}
	_ = written
	packets, inter := c17StreamStats(ab.log)
	res.outcome = fmt.Sprintf("ok:accepted=%d/%d:packets<=%d:multiplexed=%v", nAccepted, len(c.Msgs), c17Bucket(int64(packets)), inter)
	return
}

func c17Bucket(n int64) int64 {
	b := int64(1)
	for b < n {
		b *= 2
	}
	return b
}

// c17Compare classifies the difference between what was accepted and what was delivered on one channel.
func c17Compare(id byte, acc, got [][]byte) (string, string) {
	same := len(acc) == len(got)
	if same {
		for i := range acc {
			if !bytes.Equal(acc[i], got[i]) {
				same = false
			}
		}
	}
	if same {
		return "", ""
	}
	desc := func(l [][]byte) string {
		s := "["
		for i, m := range l {
			if i > 0 {
				s += " "
			}
			if len(m) == 0 {
				s += "len0"
			} else {
				s += fmt.Sprintf("len%d:%02x..", len(m), m[0])
			}
		}
		return s + "]"
	}
	what := fmt.Sprintf("channel %#x: accepted %s, delivered %s", id, desc(acc), desc(got))
	// got is a subsequence of acc -> pure loss
	if missing, ok := c17Subseq(got, acc); ok {
		allEmpty := true
		for _, m := range missing {
			if len(m) != 0 {
				allEmpty = false
			}
		}
		if allEmpty {
			return c17KeyZeroLen, what
		}
		return "p2p/conn/connection.go:delivery:accepted-message-lost", what
	}
	if _, ok := c17Subseq(acc, got); ok {
		return "p2p/conn/connection.go:delivery:message-delivered-more-than-once-or-spurious", what
	}
	if len(acc) == len(got) {
		used := make([]bool, len(got))
		perm := true
		for _, a := range acc {
			f := false
			for j, g := range got {
				if !used[j] && bytes.Equal(a, g) {
					used[j], f = true, true
					break
				}
			}
			if !f {
				perm = false
			}
		}
		if perm {
			return "p2p/conn/connection.go:delivery:per-channel-order-violated", what
		}
	}
	return "p2p/conn/connection.go:delivery:message-bytes-modified", what
}

// c17Subseq: is sub a subsequence of full? Returns the unmatched elements of full.
func c17Subseq(sub, full [][]byte) (rest [][]byte, ok bool) {
	j := 0
	for _, f := range full {
		if j < len(sub) && bytes.Equal(sub[j], f) {
			j++
		} else {
			rest = append(rest, f)
		}
	}
	return rest, j == len(sub)
}

// c17StreamStats parses a recorded wire stream: packets, and whether some message's packets were
// interrupted by a packet of another channel (i.e. real multiplexing happened).
func c17StreamStats(stream []byte) (packets int, interleaved bool) {
	rd := protoio.NewDelimitedReader(bytes.NewReader(stream), 1<<20)
	open := map[int32]bool{}
	for {
		var pk tmp2p.Packet
		if _, err := rd.ReadMsg(&pk); err != nil {
			return
		}
		if m, ok := pk.Sum.(*tmp2p.Packet_PacketMsg); ok {
			packets++
			for ch, o := range open {
				if o && ch != m.PacketMsg.ChannelID {
					interleaved = true
				}
			}
			open[m.PacketMsg.ChannelID] = !m.PacketMsg.EOF
		}
	}
}

func c17EachSeq(n int, nsizes int, f func([]c17Msg) bool) bool {
	cur := make([]c17Msg, n)
	var rec func(i int) bool
	rec = func(i int) bool {
		if i == n {
			cp := append([]c17Msg{}, cur...)
			return f(cp)
		}
		for s := 0; s < nsizes; s++ {
			for ch := 0; ch < 3; ch++ {
				cur[i] = c17Msg{Ch: ch, Size: s}
				if !rec(i + 1) {
					return false
				}
			}
		}
		return true
	}
	return rec(0)
}

func TestVerifC17Delivery(t *testing.T) {
	r := vr.Start("C17", "delivery", 85*time.Second, 18*time.Minute)
	defer r.Finish()
	r.Rule = "odometer over (profile, send sequence of (channel, size) with size from {0,1,p-1,p,p+1,3p+5,capacity}, hand-over mode, read fragmentation); " +
		"each tuple is a distinct execution of two real MConnections; non-trivial = at least two messages or a multi-packet message"
	r.Assume("schedules inside the MConnection goroutines are whatever the Go scheduler produces; the exhaustive dimension is sizes x channels x order x fragmentation x hand-over mode")
	r.Assume("the receiver consumes msgBytes synchronously inside onReceive (as p2p.peer does: it unmarshals before returning)")
	var rc c17DCase
	if rep, skip := r.ReplayCase(&rc); skip {
		return
	} else if rep {
		r.Eval()
		res := c17RunDelivery(rc)
		if res.inconclusive != "" {
			r.Cap(res.inconclusive)
		}
		if res.key != "" {
			r.Violation(res.key, res.what, rc)
		}
		return
	}
	// Cases are independent (each builds its own pair of connections), so a pool of workers runs
	// them concurrently: most of a case's wall time is the connection's own flush timer.
	var stopFlag int32
	jobs := make(chan c17DCase, 256)
	var wg sync.WaitGroup
	process := func(c c17DCase, sample bool) {
		r.Eval()
		nt := len(c.Msgs) >= 2
		for _, m := range c.Msgs {
			if m.Size >= 4 {
				nt = true
			}
		}
		if nt {
			r.NTCount(1)
		}
		res := c17RunDelivery(c)
		if res.inconclusive != "" {
			r.Cap(res.inconclusive)
			r.Outcome("inconclusive")
			return
		}
		if res.lateOnly {
			r.Add("diag_complete_only_after_flushstop", 1)
		}
		if res.key != "" {
			first := fmt.Errorf("%s", res.key)
			if !vr.Confirm(3, first, func() error {
				r2 := c17RunDelivery(c)
				if r2.key == "" {
					return nil
				}
				return fmt.Errorf("%s", r2.key)
			}) {
				// Mode 0/2 hand messages to a running connection: which packets contend is up to the
				// scheduler, so a schedule-dependent failure is reported as such, not as a verdict.
				r.Add("diag_unstable_failure", 1)
				r.Outcome("unstable:" + res.key)
				if res.key == c17KeyZeroLen {
					// the class is established deterministically by the pre-queued mode; whether a live
					// Send hits it depends on when the send routine looks
					return
				}
				r.Note(fmt.Sprintf("unstable failure %s on %+v: %s", res.key, c, res.what))
				r.Cap("a failing case did not fail identically on 3 re-runs (schedule-dependent); see notes")
				return
			}
			r.Violation(res.key, res.what, c)
			r.Outcome("violation:" + res.key)
			return
		}
		r.Outcome(res.outcome)
		if sample {
			r.Sample(c)
		}
	}
	for w := 0; w < 12; w++ {
		wg.Add(1)
		go func() {
			defer wg.Done()
			n := 0
			for c := range jobs {
				n++
				process(c, n%5003 == 1)
			}
		}()
	}
	k := 0
	stop := false
	try := func(c c17DCase) bool {
		if stop {
			return false
		}
		k++
		if !r.Mine(k) {
			return true
		}
		if k%64 == 0 && (atomic.LoadInt32(&stopFlag) != 0 || r.Deadline("C17 delivery enumeration")) {
			stop = true
			return false
		}
		jobs <- c
		return true
	}
	defer func() {
		// runs before r.Finish (deferred earlier): drain the pool
		close(jobs)
		wg.Wait()
	}()

	maxLen := vr.Pick(4, 5)
	p0 := c17Profiles[0]
	ns := len(p0.sizes())
	// 1. all sequences up to length 3 x all modes x chunk menu (profile 0)
	for n := 1; n <= 3; n++ {
		c17EachSeq(n, ns, func(ms []c17Msg) bool {
			for mode := 0; mode < 3; mode++ {
				for _, chunk := range []int{0, 1, 5} {
					if !try(c17DCase{Profile: 0, Msgs: ms, Mode: mode, Chunk: chunk}) {
						return false
					}
				}
			}
			return true
		})
	}
	r.Bound = "profile 0: all sequences of <=3 sends x 3 modes x chunk{0,1,5}"
	// 2. every single split point of the stream for all sequences up to length 2 (pre-queued: deterministic stream)
	for n := 1; n <= 2 && !stop; n++ {
		c17EachSeq(n, ns, func(ms []c17Msg) bool {
			total := int64(0)
			for _, m := range ms {
				sz := p0.sizes()[m.Size]
				total += int64(sz + 8*(sz/p0.Payload+1))
			}
			for s := int64(1); s < total; s++ {
				if !try(c17DCase{Profile: 0, Msgs: ms, Mode: 1, Split: s}) {
					return false
				}
			}
			return true
		})
	}
	if !stop {
		r.Bound += "; every single split point for sequences of <=2 sends"
	}
	// 3. production payload size: sequences up to length 2 (quick) / 3 (thorough)
	for n := 1; n <= vr.Pick(2, 3) && !stop; n++ {
		c17EachSeq(n, ns, func(ms []c17Msg) bool {
			for mode := 0; mode < 2; mode++ {
				for _, chunk := range []int{0, 1, 1000} {
					if !try(c17DCase{Profile: 1, Msgs: ms, Mode: mode, Chunk: chunk}) {
						return false
					}
				}
			}
			return true
		})
	}
	if !stop {
		r.Bound += fmt.Sprintf("; profile 1 (payload 1024): sequences of <=%d sends x 2 modes x chunk{0,1,1000}", vr.Pick(2, 3))
	}
	// 4. longer sequences
	for n := 4; n <= maxLen && !stop; n++ {
		c17EachSeq(n, ns, func(ms []c17Msg) bool {
			modes := []int{1}
			if n == 4 && vr.Thorough() {
				modes = []int{0, 1, 2}
			}
			for _, mode := range modes {
				if !try(c17DCase{Profile: 0, Msgs: ms, Mode: mode}) {
					return false
				}
			}
			return true
		})
		if !stop {
			r.Bound += fmt.Sprintf("; all sequences of %d sends (pre-queued%s)", n, map[bool]string{true: " + live Send + TrySend", false: ""}[n == 4 && vr.Thorough()])
		}
	}
	if r.Shard == 0 {
		r.Set("cases_enumerated_total", k)
	}
}
