package conn

// C16 part "handshake" — every combination of man-in-the-middle actions on the four handshake
// messages (ephemeral key to A, ephemeral key to B, auth frame to A, auth frame to B), for both
// assignments of the lower ephemeral key, on the real MakeSecretConnection of two honest endpoints.
//
// Ground truth is known by construction: the harness knows which party produced every delivered
// message, with which key, and over which exchange. The oracle is exactly the first sentence of the
// property: an endpoint may report an established connection with remote identity K only if
//   (h) the auth frame it received is the untouched frame of the honest peer holding K, and both
//       endpoints used each other's real ephemeral keys (the same ephemeral exchange), or
//   (m) the attacker is itself the other endpoint of this exchange (it substituted its own ephemeral
//       key towards this side), presents a key it holds, and signed this exchange's challenge.
// Everything else must end in an error.

import (
	"bytes"
	"crypto/sha256"
	"encoding/hex"
	"fmt"
	"strings"
	"testing"
	"time"

	"github.com/tendermint/tendermint/crypto"
	"github.com/tendermint/tendermint/crypto/ed25519"
	"github.com/tendermint/tendermint/crypto/secp256k1"
	"github.com/tendermint/tendermint/internal/verif/vr"
)

type c16HSCase struct {
	EphA  string `json:"eph_to_a"`  // what A receives as the remote ephemeral key message
	AuthA string `json:"auth_to_a"` // what A receives as the remote auth frame ("-" if A cannot get that far)
	EphB  string `json:"eph_to_b"`
	AuthB string `json:"auth_to_b"`
	Role  int    `json:"role"` // 0: A's real ephemeral key is the lower one, 1: B's
}

var c16LowOrderHex = []string{
	"0000000000000000000000000000000000000000000000000000000000000000",
	"0100000000000000000000000000000000000000000000000000000000000000",
	"e0eb7a7c3b41b8ae1656e3faf19fc46ada098deb9c32b1fd866205165f49b800",
	"5f9c95bca3508c24b1d0b1559c83ef5b04445cc4581c8e86d8224eddd09f1157",
	"ecffffffffffffffffffffffffffffffffffffffffffffffffffffffffffff7f",
	"edffffffffffffffffffffffffffffffffffffffffffffffffffffffffffff7f",
	"eeffffffffffffffffffffffffffffffffffffffffffffffffffffffffffff7f",
	"cdeb7a7c3b41b8ae1656e3faf19fc46ada098deb9c32b1fd866205165f49b880",
	"4c9c95bca3508c24b1d0b1559c83ef5b04445cc4581c8e86d8224eddd09f11d7",
	"d9ffffffffffffffffffffffffffffffffffffffffffffffffffffffffffffff",
	"daffffffffffffffffffffffffffffffffffffffffffffffffffffffffffffff",
	"dbffffffffffffffffffffffffffffffffffffffffffffffffffffffffffffff",
}

// ephemeral-key actions after which the receiving endpoint cannot reach the auth phase
func c16EphDying() []string {
	l := []string{"drop", "empty", "garbage"}
	for i := range c16LowOrderHex {
		l = append(l, fmt.Sprintf("loworder%d", i))
	}
	return l
}

// actions after which the endpoint proceeds to the auth phase without the attacker knowing its keys
var c16EphBlind = []string{"pass", "reflect", "twiddle", "flipbit", "short31", "long33", "unknownfield", "prev", "dup"}

// actions that make the attacker the other endpoint of this side's exchange
var c16EphOwn = []string{"own-lo", "own-hi"}

func c16AuthGeneric() []string {
	l := []string{"pass", "drop", "trunc500", "trunc1043", "reflect-frame", "prev-frame"}
	pos := []int{0, 500, 1043}
	if vr.Thorough() {
		pos = []int{0, 3, 4, 500, 1027, 1028, 1043}
	}
	for _, p := range pos {
		l = append(l, fmt.Sprintf("flip@%d", p))
	}
	return l
}

var c16AuthForge = []string{
	"forge-self",            // attacker's key, attacker signs this exchange's challenge            -> legitimately accepted as M
	"forge-self-2frames",    // same, payload split over two frames                                 -> legitimately accepted as M
	"forge-secp",            // a secp256k1 key the attacker holds, valid signature                  -> possession proven; not judged
	"forge-weak-key",        // small-order ed25519 key, signature valid for every message           -> primitive-level; diagnostic
	"forge-relay-peer",      // honest peer's key + the signature the peer made in ITS exchange with the attacker
	"forge-peer-key",        // honest peer's key + attacker's signature
	"forge-self-wrong-ch",   // attacker's key + attacker's signature over another exchange's challenge
	"forge-self-sig63",      // signature truncated
	"forge-self-sig-empty",  // no signature
	"forge-self-sig-flip",   // one bit of the signature flipped
	"forge-reflect-sig",     // the endpoint's OWN key and OWN signature, taken from its auth frame and sent back
	"forge-self-nonce1",     // valid message sealed under the next nonce
	"forge-self-wrong-key",  // valid message sealed under the other direction's key
	"forge-other-key-relay", // third party O's key with a signature O made over a different challenge
}

type c16HSPrev struct {
	ephA, ephB   [32]byte
	authA, authB []byte
}

type c16HSEnv struct {
	prev    c16HSPrev
	secp    secp256k1.PrivKey
	weakKey ed25519.PubKey
	weakSig []byte
}

func newC16HSEnv() (*c16HSEnv, error) {
	p, err := newC16Pair(-1)
	if err != nil {
		return nil, err
	}
	defer p.close()
	e := &c16HSEnv{}
	e.prev = c16HSPrev{ephA: p.ephA, ephB: p.ephB, authA: p.authA, authB: p.authB}
	e.secp = secp256k1.GenPrivKeySecp256k1([]byte("verif-c16-secp"))
	// the neutral element of the curve as a public key: R = [S]B - [k]A = [S]B for every k, so
	// (R = neutral, S = 0) verifies for every message.
	wk := make([]byte, 32)
	wk[0] = 1
	e.weakKey = ed25519.PubKey(wk)
	e.weakSig = make([]byte, 64)
	e.weakSig[0] = 1
	return e, nil
}

type c16HSSide struct {
	end      *c16End
	key      crypto.PrivKey
	realEph  [32]byte
	rawEph   []byte
	ephAct   string
	authAct  string
	usedKey  [32]byte // the 32 bytes this side will use as the remote ephemeral key
	usedOK   bool
	aligned  bool // nothing but the ephemeral message precedes the auth frame in this side's input
	mPub     *[32]byte
	mPriv    *[32]byte
	sess     c16Session // attacker's session with this side (valid iff ephAct is own-*)
	sentAuth []byte     // this side's sealed auth frame (nil if it never sent one)
	ownPK    crypto.PubKey
	ownSig   []byte
	gotOwn   bool
}

type c16HSResult struct {
	skipped    string
	okA, okB   bool
	remA, remB string
	clsA, clsB string
	key, what  string
	stuck      bool
	accepted   []string
	aLo        bool
}

func c16ErrClass(err error, pv interface{}) string {
	if pv != nil {
		return "panic"
	}
	if err == nil {
		return "ok"
	}
	s := err.Error()
	for _, c := range []string{"unexpected EOF", "EOF", "failed to decrypt", "challenge verification failed", "expected ed25519",
		"wrong wireType", "low order point", "chunkLength is greater", "exceeds max size", "unexpected end of group", "proto:", "key type"} {
		if strings.Contains(s, c) {
			return c
		}
	}
	return "other-error"
}

func c16OwnEph(target *[32]byte, lower bool) (pub, priv *[32]byte) {
	for {
		pub, priv = genEphKeys()
		if (bytes.Compare(pub[:], target[:]) < 0) == lower {
			return
		}
	}
}

func (env *c16HSEnv) run(c c16HSCase) (res c16HSResult) {
	A := &c16HSSide{key: c16KeyA, ephAct: c.EphA, authAct: c.AuthA}
	B := &c16HSSide{key: c16KeyB, ephAct: c.EphB, authAct: c.AuthB}
	var wdEnds []*c16End
	defer func() {
		for _, e := range wdEnds {
			e.Close()
		}
	}()
	// phase 0: start both endpoints until the real ephemeral keys have the wanted order
	for try := 0; ; try++ {
		A.end, B.end = newC16End("A"), newC16End("B")
		wdEnds = append(wdEnds, A.end, B.end)
		a, b := A.end, B.end
		wd := time.AfterFunc(c16Watchdog, func() { a.abort(); b.abort() })
		defer wd.Stop()
		A.end.startHandshake(A.key)
		B.end.startHandshake(B.key)
		var okA, okB bool
		A.rawEph, A.realEph, okA = A.end.readEphMsg()
		B.rawEph, B.realEph, okB = B.end.readEphMsg()
		if !okA || !okB {
			if A.end.aborted || B.end.aborted {
				res.stuck = true
				return
			}
			res.key = "MakeSecretConnection:honest-endpoint-sends-malformed-ephemeral-key"
			res.what = "an honest endpoint did not start the handshake with a 32-byte ephemeral key message"
			return
		}
		aLo := bytes.Compare(A.realEph[:], B.realEph[:]) < 0
		if (c.Role == 0) == aLo {
			res.aLo = aLo
			break
		}
		A.end.Close()
		B.end.Close()
		wd.Stop()
		if try > 200 {
			res.skipped = "role-not-obtained"
			return
		}
	}

	// phase 1: ephemeral keys
	sides := []*c16HSSide{A, B}
	for i, X := range sides {
		P := sides[1-i]
		prevEph := env.prev.ephB
		if X == B {
			prevEph = env.prev.ephA
		}
		var msgs [][]byte
		switch {
		case X.ephAct == "pass":
			msgs = [][]byte{P.rawEph}
		case X.ephAct == "own-lo" || X.ephAct == "own-hi":
			X.mPub, X.mPriv = c16OwnEph(&X.realEph, X.ephAct == "own-lo")
			X.sess = c16Derive(X.mPub, X.mPriv, &X.realEph)
			msgs = [][]byte{c16EphMsg(X.mPub[:])}
		case X.ephAct == "reflect":
			msgs = [][]byte{X.rawEph}
		case X.ephAct == "twiddle":
			k := P.realEph
			k[31] ^= 0x80 // bit 255 is ignored by X25519: same point, other bytes
			msgs = [][]byte{c16EphMsg(k[:])}
		case X.ephAct == "flipbit":
			k := P.realEph
			k[0] ^= 0x01
			msgs = [][]byte{c16EphMsg(k[:])}
		case X.ephAct == "short31":
			msgs = [][]byte{c16EphMsg(P.realEph[:31])}
		case X.ephAct == "long33":
			msgs = [][]byte{c16EphMsg(append(append([]byte{}, P.realEph[:]...), 0x77))}
		case X.ephAct == "unknownfield":
			// the peer's BytesValue followed by an unknown varint field (tag 2): still the same key
			body := append(append([]byte{}, P.rawEph[1:]...), 0x10, 0x05)
			msgs = [][]byte{append([]byte{byte(len(body))}, body...)}
		case X.ephAct == "prev":
			msgs = [][]byte{c16EphMsg(prevEph[:])}
		case X.ephAct == "dup":
			msgs = [][]byte{P.rawEph, P.rawEph}
		case X.ephAct == "drop":
		case X.ephAct == "empty":
			msgs = [][]byte{c16EphMsg(nil)}
		case X.ephAct == "garbage":
			msgs = [][]byte{{0x05, 0xff, 0xff, 0xff, 0xff, 0xff}}
		case strings.HasPrefix(X.ephAct, "loworder"):
			var idx int
			fmt.Sscanf(X.ephAct, "loworder%d", &idx)
			k, _ := hex.DecodeString(c16LowOrderHex[idx])
			msgs = [][]byte{c16EphMsg(k)}
			if X.authAct != "-" {
				// what anybody could compute if the endpoint went on with the all-zero shared secret
				var lk [32]byte
				copy(lk[:], k)
				X.sess = c16DeriveZero(&lk, &X.realEph)
			}
		default:
			panic("unknown eph action " + X.ephAct)
		}
		X.aligned = len(msgs) == 1
		if len(msgs) > 0 {
			X.usedKey, X.usedOK = c16ParseEphAsReceiver(msgs[0])
		}
		for _, m := range msgs {
			X.end.deliver(m)
		}
		if len(msgs) == 0 {
			X.end.finish()
		}
	}

	// phase 2: auth frames. An endpoint either sends its frame or returns; both are awaited events.
	for _, X := range sides {
		if X.end.waitOut(len(X.rawEph) + c16SealedSize) {
			X.sentAuth = X.end.outSlice(len(X.rawEph), len(X.rawEph)+c16SealedSize)
		} else if X.end.aborted {
			res.stuck = true
			return
		}
		if X.sentAuth != nil && X.sess.ok {
			// the attacker is the other endpoint of X's exchange: it can read X's auth message
			if pl, ok := c16OpenFrame(X.sess.recvAead, 0, X.sentAuth); ok {
				X.ownPK, X.ownSig, X.gotOwn = c16ParseAuth(pl)
			}
		}
	}
	type allow struct {
		ok     bool
		remote crypto.PubKey
		class  string
	}
	allowed := map[*c16HSSide]allow{}
	for i, X := range sides {
		P := sides[1-i]
		if X.authAct == "-" {
			X.end.finish()
			continue
		}
		prevFrame := env.prev.authB
		if X == B {
			prevFrame = env.prev.authA
		}
		var wire []byte
		sealSelf := func(pk crypto.PubKey, sig []byte) []byte {
			return c16SealFrame(X.sess.sendAead, 0, c16AuthPayload(pk, sig))
		}
		needSess := strings.HasPrefix(X.authAct, "forge-")
		if needSess && !X.sess.ok {
			res.skipped = "attacker-has-no-session"
			X.end.finish()
			continue
		}
		mSig := func(msg []byte) []byte {
			s, err := c16KeyM.Sign(msg)
			if err != nil {
				panic(err)
			}
			return s
		}
		switch {
		case X.authAct == "pass":
			wire = P.sentAuth
			if P.sentAuth != nil && X.aligned && P.usedOK && X.usedOK && X.usedKey == P.realEph && P.usedKey == X.realEph {
				allowed[X] = allow{true, P.key.PubKey(), "honest-peer"}
			}
		case X.authAct == "drop":
		case X.authAct == "trunc500":
			if P.sentAuth != nil {
				wire = P.sentAuth[:500]
			}
		case X.authAct == "trunc1043":
			if P.sentAuth != nil {
				wire = P.sentAuth[:c16SealedSize-1]
			}
		case strings.HasPrefix(X.authAct, "flip@"):
			var pos int
			fmt.Sscanf(X.authAct, "flip@%d", &pos)
			if P.sentAuth != nil {
				wire = append([]byte{}, P.sentAuth...)
				wire[pos] ^= 0x01
			}
		case X.authAct == "reflect-frame":
			wire = X.sentAuth
		case X.authAct == "prev-frame":
			wire = prevFrame
		case X.authAct == "forge-self":
			wire = sealSelf(c16KeyM.PubKey(), mSig(X.sess.challenge[:]))
			if !strings.HasPrefix(X.ephAct, "loworder") { // after a small-order key nothing may be established: the session keys are public
				allowed[X] = allow{true, c16KeyM.PubKey(), "attacker-as-itself"}
			}
		case X.authAct == "forge-self-2frames":
			pl := c16AuthPayload(c16KeyM.PubKey(), mSig(X.sess.challenge[:]))
			wire = append(c16SealFrame(X.sess.sendAead, 0, pl[:10]), c16SealFrame(X.sess.sendAead, 1, pl[10:])...)
			allowed[X] = allow{true, c16KeyM.PubKey(), "attacker-as-itself"}
		case X.authAct == "forge-secp":
			sig, err := env.secp.Sign(X.sess.challenge[:])
			if err != nil {
				panic(err)
			}
			wire = sealSelf(env.secp.PubKey(), sig)
			allowed[X] = allow{true, env.secp.PubKey(), "attacker-secp-key"}
		case X.authAct == "forge-weak-key":
			wire = sealSelf(env.weakKey, env.weakSig)
			allowed[X] = allow{true, env.weakKey, "weak-identity-key"}
		case X.authAct == "forge-relay-peer":
			if !P.gotOwn {
				res.skipped = "relay-needs-attacker-session-with-peer"
				X.end.finish()
				continue
			}
			wire = sealSelf(P.ownPK, P.ownSig)
		case X.authAct == "forge-peer-key":
			wire = sealSelf(P.key.PubKey(), mSig(X.sess.challenge[:]))
		case X.authAct == "forge-self-wrong-ch":
			other := sha256.Sum256(X.sess.challenge[:])
			if P.sess.ok {
				other = P.sess.challenge
			}
			wire = sealSelf(c16KeyM.PubKey(), mSig(other[:]))
		case X.authAct == "forge-self-sig63":
			wire = sealSelf(c16KeyM.PubKey(), mSig(X.sess.challenge[:])[:63])
		case X.authAct == "forge-self-sig-empty":
			wire = sealSelf(c16KeyM.PubKey(), nil)
		case X.authAct == "forge-self-sig-flip":
			s := mSig(X.sess.challenge[:])
			s[17] ^= 0x04
			wire = sealSelf(c16KeyM.PubKey(), s)
		case X.authAct == "forge-reflect-sig":
			if !X.gotOwn {
				res.skipped = "reflect-needs-readable-auth-frame"
				X.end.finish()
				continue
			}
			wire = sealSelf(X.ownPK, X.ownSig)
		case X.authAct == "forge-self-nonce1":
			wire = c16SealFrame(X.sess.sendAead, 1, c16AuthPayload(c16KeyM.PubKey(), mSig(X.sess.challenge[:])))
		case X.authAct == "forge-self-wrong-key":
			wire = c16SealFrame(X.sess.recvAead, 0, c16AuthPayload(c16KeyM.PubKey(), mSig(X.sess.challenge[:])))
		case X.authAct == "forge-other-key-relay":
			other := sha256.Sum256(X.sess.challenge[:])
			s, _ := c16KeyO.Sign(other[:])
			wire = sealSelf(c16KeyO.PubKey(), s)
		default:
			panic("unknown auth action " + X.authAct)
		}
		if len(wire) > 0 {
			X.end.deliver(wire)
		}
		X.end.finish()
	}
	if res.skipped != "" {
		return
	}
	for _, X := range sides {
		if !X.end.waitDone() {
			res.stuck = true
			return
		}
	}
	// verdict
	for _, X := range sides {
		name := X.end.name
		ok := X.end.err == nil && X.end.sc != nil && X.end.panicV == nil
		cls := c16ErrClass(X.end.err, X.end.panicV)
		var rem crypto.PubKey
		if ok {
			rem = X.end.sc.RemotePubKey()
		}
		if name == "A" {
			res.okA, res.clsA = ok, cls
		} else {
			res.okB, res.clsB = ok, cls
		}
		if X.end.panicV != nil && res.key == "" {
			res.key = "MakeSecretConnection:panics:eph=" + c16EphClass(X.ephAct) + ",auth=" + X.authAct
			res.what = fmt.Sprintf("endpoint %s panicked during the handshake: %v", name, X.end.panicV)
		}
		if !ok {
			continue
		}
		al := allowed[X]
		switch {
		case !al.ok:
			k := "MakeSecretConnection:accepts:eph=" + c16EphClass(X.ephAct) + ",auth=" + X.authAct
			if X.authAct == "forge-reflect-sig" {
				k = "p2p/conn/secret_connection.go:MakeSecretConnection:own-auth-signature-reflected-by-remote-is-accepted"
			}
			if strings.HasPrefix(X.ephAct, "loworder") {
				k = "p2p/conn/secret_connection.go:computeDHSecret:connection-established-after-a-small-order-ephemeral-key:auth=" + X.authAct
			}
			if res.key == "" || X.authAct == "forge-reflect-sig" {
				res.key = k
				res.what = fmt.Sprintf("endpoint %s reports an established connection with remote identity %X, but the party that sent the accepted "+
					"auth message did not prove possession of that key over this exchange (ephemeral-key action towards %s: %s, auth action: %s; other side: %s/%s)",
					name, c16PKBytes(rem), name, X.ephAct, X.authAct, sides[1-c16Idx(sides, X)].ephAct, sides[1-c16Idx(sides, X)].authAct)
			}
		case rem == nil || !rem.Equals(al.remote):
			if res.key == "" {
				res.key = "MakeSecretConnection:wrong-remote-identity:auth=" + X.authAct
				res.what = fmt.Sprintf("endpoint %s authenticated %X but the party that proved possession holds %X", name, c16PKBytes(rem), c16PKBytes(al.remote))
			}
		default:
			res.accepted = append(res.accepted, al.class)
		}
	}
	allPass := c.EphA == "pass" && c.EphB == "pass" && c.AuthA == "pass" && c.AuthB == "pass"
	if allPass && !(res.okA && res.okB) && res.key == "" {
		res.key = "MakeSecretConnection:honest-pair-fails"
		res.what = fmt.Sprintf("untouched handshake between two honest endpoints failed: A=%v B=%v", A.end.err, B.end.err)
	}
	return res
}

func c16Idx(s []*c16HSSide, x *c16HSSide) int {
	if s[0] == x {
		return 0
	}
	return 1
}

func c16PKBytes(pk crypto.PubKey) []byte {
	if pk == nil {
		return nil
	}
	return pk.Bytes()
}

func c16EphClass(a string) string {
	if strings.HasPrefix(a, "loworder") {
		return "loworder"
	}
	return a
}

func c16HSOptions() (opts [][2]string) {
	for _, e := range c16EphDying() {
		opts = append(opts, [2]string{e, "-"})
	}
	// a few small-order keys (one, an order-8 point, p-1, an order-8 point with bit 255 set) are also followed by the auth
	// messages anybody can build if the endpoint carried on with the all-zero shared secret
	for _, i := range []int{1, 2, 4, 7} {
		for _, a := range []string{"forge-self", "forge-reflect-sig"} {
			opts = append(opts, [2]string{fmt.Sprintf("loworder%d", i), a})
		}
	}
	gen := c16AuthGeneric()
	for _, e := range c16EphBlind {
		for _, a := range gen {
			opts = append(opts, [2]string{e, a})
		}
	}
	for _, e := range c16EphOwn {
		for _, a := range gen {
			opts = append(opts, [2]string{e, a})
		}
		for _, a := range c16AuthForge {
			opts = append(opts, [2]string{e, a})
		}
	}
	return
}

func TestVerifC16Handshake(t *testing.T) {
	r := vr.Start("C16", "handshake", 100*time.Second, 18*time.Minute)
	defer r.Finish()
	r.Rule = "product of (ephemeral-key action, auth-frame action) towards A x the same towards B x which side holds the lower ephemeral key; " +
		"auth actions that need the session keys are only offered where the attacker substituted its own ephemeral key; every tuple is distinct " +
		"by construction; non-trivial = anything but the untouched handshake"
	r.Assume("X25519, ChaCha20-Poly1305, HKDF, merlin and ed25519 are black boxes (their strength is assumed); an attacker can compute exactly what a protocol participant can")
	r.Assume("fresh random ephemeral keys per execution: outcomes are a function of the action tuple and the key order, not of the key bytes")
	env, err := newC16HSEnv()
	if err != nil {
		r.Cap("could not set up the recorded previous session: " + err.Error())
		return
	}
	judge := func(c c16HSCase) c16HSResult { return env.run(c) }
	var rc c16HSCase
	if rep, skip := r.ReplayCase(&rc); skip {
		return
	} else if rep {
		r.Eval()
		res := judge(rc)
		r.Note(fmt.Sprintf("replayed %+v: A=%s B=%s legitimately accepted=%v skipped=%q stuck=%v", rc, res.clsA, res.clsB, res.accepted, res.skipped, res.stuck))
		if res.key != "" {
			r.Violation(res.key, res.what, rc)
		}
		return
	}
	opts := c16HSOptions()
	r.Set("options_per_side", fmt.Sprint(len(opts)))
	k := 0
	selfOK, selfTried := 0, 0
outer:
	for _, oa := range opts {
		for _, ob := range opts {
			for role := 0; role < 2; role++ {
				k++
				if !r.Mine(k) {
					continue
				}
				if k%64 == 0 && r.Deadline("handshake MITM enumeration") {
					break outer
				}
				c := c16HSCase{EphA: oa[0], AuthA: oa[1], EphB: ob[0], AuthB: ob[1], Role: role}
				res := judge(c)
				if res.stuck {
					r.Cap("a handshake case did not finish within the watchdog (inconclusive)")
					continue
				}
				if res.skipped != "" {
					r.Add("not_applicable_"+res.skipped, 1)
					continue
				}
				r.Eval()
				if !(oa[0] == "pass" && ob[0] == "pass" && oa[1] == "pass" && ob[1] == "pass") {
					r.NTCount(1)
				}
				if oa[1] == "forge-self" {
					selfTried++
					if res.okA {
						selfOK++
					}
				}
				if res.key != "" {
					first := fmt.Errorf("%s", res.key)
					if vr.Confirm(3, first, func() error {
						r2 := judge(c)
						if r2.key == "" {
							return nil
						}
						return fmt.Errorf("%s", r2.key)
					}) {
						r.Violation(res.key, res.what, c)
					} else {
						r.Cap("a failing handshake case did not reproduce 3 times: " + res.key)
					}
				}
				r.Outcome("A:" + res.clsA)
				r.Outcome("B:" + res.clsB)
				for _, a := range res.accepted {
					r.Add("accepted_"+a, 1)
					if a == "weak-identity-key" {
						r.Add("diag_weak_identity_key_accepted", 1)
					}
				}
				if res.aLo {
					r.Add("role_A_lower", 1)
				} else {
					r.Add("role_B_lower", 1)
				}
				if k%9973 == 1 {
					r.Sample(map[string]interface{}{"case": c, "A": res.clsA, "B": res.clsB, "accepted": res.accepted})
				}
			}
		}
	}
	if selfTried > 0 && selfOK == 0 {
		r.Cap("the attacker-as-endpoint handshake was never accepted: forged-message cases are vacuous")
	}
	r.Bound = fmt.Sprintf("%d (eph,auth) options per side, both sides, both key orders", len(opts))
	r.Note("diag_weak_identity_key_accepted counts handshakes accepted for the small-order ed25519 key 0100..00 with the universal signature (primitive-level property of ed25519 verification, not judged)")
}
