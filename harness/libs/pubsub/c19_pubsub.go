package pubsub

// C19 (pubsub half) — a subscriber receives every published event that matches its own query, once and in
// publication order, or is told explicitly that its subscription was cancelled; what other subscribers asked
// for, or how slowly they read, never changes that.
//
// Explicit-state search over command sequences (subscribe / unsubscribe / unsubscribeAll / publish / drain)
// on the REAL Server: every command goes through the real API method (Subscribe, Unsubscribe, UnsubscribeAll,
// PublishWithEvents), which queues a cmd, and the queued cmd is then executed by the REAL Server.loop on a
// `state` value owned by the harness (the loop is run synchronously on a closed, pre-filled cmds channel, so it
// returns after the command; `state` holds two maps, i.e. the harness keeps seeing the same state). A single
// goroutine loop has no interleavings of its own: the command order IS the schedule.
//
// Reference: per subscription, the list of publications its OWN query matches under a naive three-valued
// evaluator (match / no match / "comparison does not fit the value type" = either is accepted for the
// subscription that asked for that comparison), cut at its OWN unsubscribe or at the overflow of its OWN
// buffer. Because the reference depends only on the subscriber's own parameters, equality with it is the
// isolation statement.
//
// Go map iteration order in state.send is the only nondeterminism. On a tree where a publication is processed
// completely it is unobservable. Where a Matches error aborts the publication (the DESIGN's hypothesis) the
// observable result of a single publication depends on the order; the verdict is therefore never taken from a
// single such step but from an amplified scenario (one well-behaved subscriber, 63 distinct failing queries,
// 50 publications) in which the well-behaved subscriber receives everything with probability 64^-50 under
// the defect and with certainty without it.

import (
	"context"
	"crypto/sha256"
	"fmt"
	"os"
	"reflect"
	"regexp"
	"sort"
	"strconv"
	"strings"
	"sync"
	"sync/atomic"
	"testing"
	"time"

	"github.com/tendermint/tendermint/internal/verif/vr"
	"github.com/tendermint/tendermint/libs/pubsub/query"
)

// ---------------------------------------------------------------------------------------------
// menus

type c19Cond struct {
	key  string
	op   string // "=", "<", "<=", ">", ">=", "CONTAINS", "EXISTS"
	kind string // "str", "int", "float", "date", ""
	s    string
	i    int64
	f    float64
	t    time.Time
}

type c19Query struct {
	str   string
	conds []c19Cond
	// family: printf pattern producing distinct queries that fail on the same misfitting values ("" = none)
	family string
}

func c19Date(s string) time.Time {
	t, err := time.Parse("2006-01-02", s)
	if err != nil {
		panic(err)
	}
	return t
}

var c19Queries = []c19Query{
	{str: "tm.event = 'Tx'", conds: []c19Cond{{key: "tm.event", op: "=", kind: "str", s: "Tx"}}},
	{str: "a.n > 1", conds: []c19Cond{{key: "a.n", op: ">", kind: "int", i: 1}}, family: "a.n > %d"},
	{str: "a.b = 'x'", conds: []c19Cond{{key: "a.b", op: "=", kind: "str", s: "x"}}},
	{str: "a.t >= DATE 2020-01-01", conds: []c19Cond{{key: "a.t", op: ">=", kind: "date", t: c19Date("2020-01-01")}}, family: "a.t >= DATE 2%03d-01-01"},
	{str: "a.n <= 1", conds: []c19Cond{{key: "a.n", op: "<=", kind: "int", i: 1}}, family: "a.n <= %d"},
	{str: "a.b CONTAINS 'x'", conds: []c19Cond{{key: "a.b", op: "CONTAINS", kind: "str", s: "x"}}},
	{str: "a.b EXISTS", conds: []c19Cond{{key: "a.b", op: "EXISTS"}}},
	{str: "tm.event = 'Tx' AND a.n > 1", conds: []c19Cond{{key: "tm.event", op: "=", kind: "str", s: "Tx"}, {key: "a.n", op: ">", kind: "int", i: 1}},
		family: "tm.event = 'Tx' AND a.n > %d"},
	{str: "a.n < 2.5", conds: []c19Cond{{key: "a.n", op: "<", kind: "float", f: 2.5}}, family: "a.n < %d.5"},
}

var c19Events = []map[string][]string{
	{"tm.event": {"Tx"}},
	{"tm.event": {"Tx"}, "a.b": {"x"}, "a.n": {"2"}},
	{"tm.event": {"Tx"}, "a.b": {"x"}, "a.n": {"abc"}},          // a.n does not fit a numeric comparison
	{"tm.event": {"Tx"}, "a.b": {"xy"}, "a.n": {"1"}},           //
	{"tm.event": {"Tx"}, "a.t": {"soon"}, "a.b": {"zx"}},        // a.t does not fit a date comparison
	{"tm.event": {"Tx"}, "a.n": {"1.5"}, "a.t": {"2021-03-04"}}, // float value: fits a float operand, not an int operand
	{"tm.event": {"NewBlock"}, "a.n": {""}, "a.b": {"y"}},       // empty value
	{"a.n": {"0", "5"}},                                         // multi-valued, clean
	{},                                                          // no events at all
	{"tm.event": {"Tx"}, "a.n": {"7", "abc"}},                   // a fitting value followed by a misfit
}

var (
	c19IntRe   = regexp.MustCompile(`^[0-9]+$`)
	c19FloatRe = regexp.MustCompile(`^[0-9]+(\.[0-9]+)?$`)
)

// three-valued result
const (
	c19No = iota
	c19Yes
	c19Unknown // some compared value does not fit the operand type: the statement does not say what "matches" means
)

func c19Cmp(op string, c int) bool { // c = sign(value - operand)
	switch op {
	case "=":
		return c == 0
	case "<":
		return c < 0
	case "<=":
		return c <= 0
	case ">":
		return c > 0
	case ">=":
		return c >= 0
	}
	return false
}

func c19EvalCond(c c19Cond, ev map[string][]string) int {
	if len(ev) == 0 {
		return c19No
	}
	vals, ok := ev[c.key]
	if !ok {
		return c19No
	}
	if c.op == "EXISTS" {
		return c19Yes
	}
	any, unknown := false, false
	for _, v := range vals {
		switch c.kind {
		case "str":
			if c.op == "=" && v == c.s {
				any = true
			}
			if c.op == "CONTAINS" && strings.Contains(v, c.s) {
				any = true
			}
		case "int":
			if !c19IntRe.MatchString(v) {
				unknown = true
				continue
			}
			x, err := strconv.ParseInt(v, 10, 64)
			if err != nil {
				unknown = true
				continue
			}
			sgn := 0
			if x < c.i {
				sgn = -1
			} else if x > c.i {
				sgn = 1
			}
			if c19Cmp(c.op, sgn) {
				any = true
			}
		case "float":
			if !c19FloatRe.MatchString(v) {
				unknown = true
				continue
			}
			x, err := strconv.ParseFloat(v, 64)
			if err != nil {
				unknown = true
				continue
			}
			sgn := 0
			if x < c.f {
				sgn = -1
			} else if x > c.f {
				sgn = 1
			}
			if c19Cmp(c.op, sgn) {
				any = true
			}
		case "date":
			x, err := time.Parse("2006-01-02", v)
			if err != nil {
				unknown = true
				continue
			}
			sgn := 0
			if x.Before(c.t) {
				sgn = -1
			} else if x.After(c.t) {
				sgn = 1
			}
			if c19Cmp(c.op, sgn) {
				any = true
			}
		}
	}
	if unknown {
		return c19Unknown
	}
	if any {
		return c19Yes
	}
	return c19No
}

// conjunction in Kleene logic: a clean "no" decides, otherwise any unknown makes the whole unknown
func c19Eval(q c19Query, ev map[string][]string) int {
	res := c19Yes
	for _, c := range q.conds {
		switch c19EvalCond(c, ev) {
		case c19No:
			return c19No
		case c19Unknown:
			res = c19Unknown
		}
	}
	return res
}

// ---------------------------------------------------------------------------------------------
// commands

const (
	c19OpSub = iota
	c19OpUnsub
	c19OpUnsubAll
	c19OpPub
	c19OpDrain
	// an Unsubscribe whose hand-over to the server loop fails: the caller's context is already done and the
	// loop is not taking commands (in a node: the loop is parked on a slow unbuffered subscriber, or the
	// command queue is full). The call returns the context's error, so nothing was unsubscribed.
	c19OpUnsubRefused
)

var c19OpNames = []string{"subscribe", "unsubscribe", "unsubscribeAll", "publish", "drain", "unsubscribeRefused"}

type c19Cmd struct {
	Op  int `json:"op"`
	C   int `json:"client,omitempty"`
	Q   int `json:"query,omitempty"`
	Cap int `json:"cap,omitempty"`
	E   int `json:"event,omitempty"`
}

// compact path encoding for the frontier (5 bytes per command)
func c19Pack(p []c19Cmd) string {
	bz := make([]byte, 0, len(p)*5)
	for _, c := range p {
		bz = append(bz, byte(c.Op), byte(c.C), byte(c.Q), byte(c.Cap), byte(c.E))
	}
	return string(bz)
}

func c19Unpack(s string) []c19Cmd {
	p := make([]c19Cmd, 0, len(s)/5+1)
	for i := 0; i+5 <= len(s); i += 5 {
		p = append(p, c19Cmd{Op: int(s[i]), C: int(s[i+1]), Q: int(s[i+2]), Cap: int(s[i+3]), E: int(s[i+4])})
	}
	return p
}

func (c c19Cmd) String() string {
	switch c.Op {
	case c19OpSub:
		return fmt.Sprintf("subscribe(c%d, %q, cap=%d)", c.C, c19Queries[c.Q].str, c.Cap)
	case c19OpUnsub:
		return fmt.Sprintf("unsubscribe(c%d, %q)", c.C, c19Queries[c.Q].str)
	case c19OpUnsubAll:
		return fmt.Sprintf("unsubscribeAll(c%d)", c.C)
	case c19OpPub:
		return fmt.Sprintf("publish(%v)", c19Events[c.E])
	case c19OpDrain:
		return fmt.Sprintf("drain(c%d)", c.C)
	case c19OpUnsubRefused:
		return fmt.Sprintf("unsubscribe(c%d, %q) with a done context while the loop takes no command", c.C, c19Queries[c.Q].str)
	}
	return "?"
}

type c19Amp struct {
	W     int    `json:"well_behaved_query"`
	F     int    `json:"failing_query_family"`
	E     int    `json:"event"`
	Mode  string `json:"mode"` // "bigbuf" (capacity 64, never reads), "cap1" (capacity 1, reads after every publication), "unbuf" (capacity 0, reader goroutine)
	WLast bool   `json:"well_behaved_subscribes_last"`
	NFail int    `json:"failing_subscribers"`
	NPub  int    `json:"publications"`
}

type c19Case struct {
	Kind string   `json:"kind"` // "seq" or "amp"
	Cmds []c19Cmd `json:"cmds,omitempty"`
	Text []string `json:"text,omitempty"`
	Amp  *c19Amp  `json:"amp,omitempty"`
}

// ---------------------------------------------------------------------------------------------
// simulator: one real Server + one real state + the reference

type c19Handle struct {
	client, q, cap int
	sub            *Subscription
	live           bool   // reference: subscribed, not unsubscribed, not overflowed
	ended          string // "", "unsubscribed", "overflow"
	queue          []int  // reference: publication ids that must be readable from Out(), in order
	// capacity 0: a reader goroutine that always reads
	rmtx sync.Mutex
	got  []Message
	ack  chan struct{}
	quit chan struct{}
}

type c19Sim struct {
	srv      *Server
	st       state
	qs       []*query.Query // parsed menu queries
	handles  []*c19Handle
	pubs     []int // event index per publication id
	stats    *c19Stats
	solo     int // >=0: differential run, only this client's subscribe/unsubscribe commands are executed
	errStep  bool
	panicked string // the real server loop panicked while executing a command (in a node this kills the process)
	errQuery int    // a menu query whose real Matches returned an error on the last publication (-1 none)
}

type c19Stats struct {
	outcomes map[string]int64
}

func (s *c19Stats) out(k string) {
	if s != nil {
		s.outcomes[k]++
	}
}

var c19Sentinel = Message{data: "c19-sentinel"}

func c19NewSim(qs []*query.Query, stats *c19Stats) *c19Sim {
	srv := NewServer()
	return &c19Sim{srv: srv, qs: qs, stats: stats, solo: -1, errQuery: -1,
		st: state{subscriptions: make(map[string]map[string]*Subscription), queries: make(map[string]*queryPlusRefCount)}}
}

// every client parses its own query object, as RPC clients do (same string, distinct objects)
var c19ClientQueries sync.Map

func (s *c19Sim) clientQuery(c, q int) *query.Query {
	k := c*100 + q
	if v, ok := c19ClientQueries.Load(k); ok {
		return v.(*query.Query)
	}
	v, _ := c19ClientQueries.LoadOrStore(k, query.MustParse(c19Queries[q].str))
	return v.(*query.Query)
}

func c19Client(c int) string { return fmt.Sprintf("c%d", c) }

// runLoop executes the commands queued by the last API call with the real Server.loop.
func (s *c19Sim) arm() { s.srv.cmds = make(chan cmd, 4) }
func (s *c19Sim) runLoop() {
	close(s.srv.cmds)
	defer func() {
		if x := recover(); x != nil {
			s.panicked = fmt.Sprint(x)
		}
	}()
	s.srv.loop(s.st)
}

func (s *c19Sim) close() {
	for _, h := range s.handles {
		if h.quit != nil {
			close(h.quit)
			h.quit = nil
		}
	}
}

func c19Closed(ch <-chan struct{}) bool {
	select {
	case <-ch:
		return true
	default:
		return false
	}
}

func (s *c19Sim) liveHandle(c, q int) *c19Handle {
	for _, h := range s.handles {
		if h.live && h.client == c && h.q == q {
			return h
		}
	}
	return nil
}

func (s *c19Sim) serverHas(c, q int) bool {
	m, ok := s.srv.subscriptions[c19Client(c)]
	if !ok {
		return false
	}
	_, ok = m[c19Queries[q].str]
	return ok
}

// sync with the reader goroutine of an unbuffered subscription: once the sentinel is acknowledged every
// message handed over before it has been recorded.
func (h *c19Handle) syncReader() {
	if h.quit == nil {
		return
	}
	h.sub.out <- c19Sentinel
	<-h.ack
}

func (h *c19Handle) nBuffered() int {
	if h.cap == 0 {
		h.syncReader()
		h.rmtx.Lock()
		defer h.rmtx.Unlock()
		return len(h.got)
	}
	return len(h.sub.out)
}

type c19Fail struct {
	key, what string
	// suspect: the failure happened on a publication on which some OTHER subscription's query failed to
	// evaluate; the outcome of that single step depends on map order and is decided by amplification.
	suspect bool
	h       *c19Handle
}

func (s *c19Sim) describe(h *c19Handle) string {
	return fmt.Sprintf("subscription (c%d, %q, cap %d)", h.client, c19Queries[h.q].str, h.cap)
}

// unchanged checks that a command that does not concern h left it alone.
func (s *c19Sim) unchanged(h *c19Handle, before int, cmd c19Cmd) *c19Fail {
	if c19Closed(h.sub.Cancelled()) {
		return &c19Fail{key: "cancelled-without-own-cause", h: h,
			what: fmt.Sprintf("%s was cancelled (%v) by %s", s.describe(h), h.sub.Err(), cmd.String())}
	}
	if n := h.nBuffered(); n != before {
		return &c19Fail{key: "libs/pubsub/pubsub.go:buffer-changed-by-foreign-command", h: h,
			what: fmt.Sprintf("%s had %d readable messages, %d after %s", s.describe(h), before, n, cmd.String())}
	}
	return nil
}

// apply executes one command on the real server and checks it against the reference.
func (s *c19Sim) apply(c c19Cmd) *c19Fail {
	f := s.apply1(c)
	if s.panicked != "" {
		return &c19Fail{key: "libs/pubsub/pubsub.go:loop:panic-kills-server-loop",
			what: fmt.Sprintf("the server loop panicked on %s: %s (every subscriber stops receiving without being told)", c.String(), s.panicked)}
	}
	return f
}

func (s *c19Sim) apply1(c c19Cmd) *c19Fail {
	ctx := context.Background()
	s.errStep, s.errQuery = false, -1
	if s.solo >= 0 && c.C != s.solo && (c.Op == c19OpSub || c.Op == c19OpUnsub || c.Op == c19OpUnsubAll || c.Op == c19OpDrain || c.Op == c19OpUnsubRefused) {
		return nil
	}
	before := map[*c19Handle]int{}
	for _, h := range s.handles {
		if h.live {
			before[h] = h.nBuffered()
		}
	}
	switch c.Op {
	case c19OpSub:
		had := s.serverHas(c.C, c.Q)
		s.arm()
		var sub *Subscription
		var err error
		if c.Cap == 0 {
			sub, err = s.srv.SubscribeUnbuffered(ctx, c19Client(c.C), s.clientQuery(c.C, c.Q))
		} else {
			sub, err = s.srv.Subscribe(ctx, c19Client(c.C), s.clientQuery(c.C, c.Q), c.Cap)
		}
		s.runLoop()
		if had {
			if err == nil {
				s.stats.out("subscribe:duplicate-accepted")
			} else {
				s.stats.out("subscribe:already-subscribed")
			}
		}
		if err == nil {
			h := &c19Handle{client: c.C, q: c.Q, cap: c.Cap, sub: sub, live: true}
			if c.Cap == 0 {
				h.ack, h.quit = make(chan struct{}), make(chan struct{})
				go func(out chan Message, quit, ack chan struct{}) {
					for {
						select {
						case m := <-out:
							if m.data == c19Sentinel.data {
								ack <- struct{}{}
								continue
							}
							h.rmtx.Lock()
							h.got = append(h.got, m)
							h.rmtx.Unlock()
						case <-quit:
							return
						}
					}
				}(sub.out, h.quit, h.ack)
			}
			if old := s.liveHandle(c.C, c.Q); old != nil { // cannot happen through the real API checks
				// The reference still holds old as live (it was never unsubscribed with success and never
				// overflowed). If the loop's state no longer holds it and it was not cancelled, no later
				// publication can reach it (send walks state.subscriptions only) and it is never told.
				if s.st.subscriptions[c19Queries[c.Q].str][c19Client(c.C)] != old.sub && !c19Closed(old.sub.Cancelled()) {
					return &c19Fail{key: "libs/pubsub/pubsub.go:live-subscription-replaced-without-cancel", h: old,
						what: fmt.Sprintf("%s is live (no successful unsubscribe, no overflow), yet %s was accepted and replaced it in the server loop's state without cancelling it: it receives no further matching publication and is never told", s.describe(old), c.String())}
				}
				old.live, old.ended = false, "replaced"
			}
			s.handles = append(s.handles, h)
			s.stats.out("subscribe:new")
		}
	case c19OpUnsub:
		s.arm()
		err := s.srv.Unsubscribe(ctx, c19Client(c.C), s.clientQuery(c.C, c.Q))
		s.runLoop()
		if h := s.liveHandle(c.C, c.Q); h != nil {
			if err != nil {
				s.stats.out("unsubscribe:error-for-live-subscription")
			} else {
				h.live, h.ended = false, "unsubscribed"
				delete(before, h)
				if !c19Closed(h.sub.Cancelled()) {
					return &c19Fail{key: "libs/pubsub/pubsub.go:unsubscribe:not-signalled", h: h,
						what: fmt.Sprintf("%s was unsubscribed but Cancelled() is not closed", s.describe(h))}
				}
				if h.sub.Err() == nil {
					return &c19Fail{key: "libs/pubsub/pubsub.go:cancel-without-reason", h: h,
						what: fmt.Sprintf("%s: Cancelled() closed but Err() is nil after unsubscribe", s.describe(h))}
				}
				s.stats.out("unsubscribe:cancelled")
			}
		} else if err == nil {
			s.stats.out("unsubscribe:after-overflow")
		} else {
			s.stats.out("unsubscribe:not-found")
		}
	case c19OpUnsubRefused:
		// unbuffered command channel without a receiver + a done context: of the three select cases in
		// Unsubscribe only ctx.Done() is ready, so the outcome is deterministic; the loop is not run.
		s.srv.cmds = make(chan cmd)
		dctx, cancel := context.WithCancel(ctx)
		cancel()
		err := s.srv.Unsubscribe(dctx, c19Client(c.C), s.clientQuery(c.C, c.Q))
		if err == nil {
			return &c19Fail{key: "libs/pubsub/pubsub.go:unsubscribe:success-without-hand-over", h: s.liveHandle(c.C, c.Q),
				what: fmt.Sprintf("%s returned nil although the command cannot have reached the server loop", c.String())}
		}
		// the caller was told that nothing was unsubscribed: every live subscription, the addressed one
		// included, stays in `before` and must be untouched; the reference does not change.
		s.stats.out("unsubscribe-refused:" + map[bool]string{true: "not-found", false: "context-error"}[err == ErrSubscriptionNotFound])
	case c19OpUnsubAll:
		s.arm()
		err := s.srv.UnsubscribeAll(ctx, c19Client(c.C))
		s.runLoop()
		if err == nil {
			for _, h := range s.handles {
				if h.live && h.client == c.C {
					h.live, h.ended = false, "unsubscribed"
					delete(before, h)
					if !c19Closed(h.sub.Cancelled()) {
						return &c19Fail{key: "libs/pubsub/pubsub.go:unsubscribe:not-signalled", h: h,
							what: fmt.Sprintf("%s: client unsubscribed from everything but Cancelled() is not closed", s.describe(h))}
					}
					if h.sub.Err() == nil {
						return &c19Fail{key: "libs/pubsub/pubsub.go:cancel-without-reason", h: h,
							what: fmt.Sprintf("%s: Cancelled() closed but Err() is nil after unsubscribeAll", s.describe(h))}
					}
				}
			}
			s.stats.out("unsubscribeAll:ok")
		} else {
			s.stats.out("unsubscribeAll:not-found")
		}
	case c19OpDrain:
		for _, h := range s.handles {
			if h.client == c.C && h.cap > 0 {
				if f := s.drain(h); f != nil {
					return f
				}
				if h.live {
					before[h] = 0
				}
			}
		}
		s.stats.out("drain")
	case c19OpPub:
		return s.publish(c.E, before)
	}
	for h, n := range before {
		if f := s.unchanged(h, n, c); f != nil {
			return f
		}
	}
	return nil
}

func (s *c19Sim) publish(e int, before map[*c19Handle]int) *c19Fail {
	ev := c19Events[e]
	id := len(s.pubs)
	s.pubs = append(s.pubs, e)
	// flow control only (not the oracle): does the real matcher fail on some subscribed query?
	for qStr := range s.st.subscriptions {
		qrc := s.st.queries[qStr]
		if qrc == nil {
			continue // inconsistent implementation state; the real send decides what happens
		}
		if _, err := qrc.q.Matches(ev); err != nil {
			s.errStep = true
			for qi := range c19Queries {
				if c19Queries[qi].str == qStr {
					s.errQuery = qi
				}
			}
		}
	}
	if s.errStep {
		s.stats.out("publish:some-query-fails-to-evaluate")
	}
	s.arm()
	if err := s.srv.PublishWithEvents(context.Background(), id, ev); err != nil {
		panic(err)
	}
	s.runLoop()
	var fail *c19Fail
	for _, h := range s.handles {
		if !h.live {
			continue
		}
		n0 := before[h]
		n1 := h.nBuffered()
		cancelled := c19Closed(h.sub.Cancelled())
		exp := c19Eval(c19Queries[h.q], ev)
		full := h.cap > 0 && n0 == h.cap
		var f *c19Fail
		switch {
		case cancelled && h.sub.Err() == nil:
			f = &c19Fail{key: "libs/pubsub/pubsub.go:cancel-without-reason", h: h,
				what: fmt.Sprintf("%s: Cancelled() closed with nil Err() after publication %d", s.describe(h), id)}
		case cancelled && full && exp != c19No:
			// own buffer was full when an own match arrived: told explicitly
			h.live, h.ended = false, "overflow"
			s.stats.out("publish:overflow-cancel")
		case cancelled:
			f = &c19Fail{key: "cancelled-without-own-cause", h: h,
				what: fmt.Sprintf("%s was cancelled (%v) on publication %d %v although its own buffer held %d of %d and its own query says %s",
					s.describe(h), h.sub.Err(), id, ev, n0, h.cap, c19TriName(exp))}
		case n1 == n0+1 && exp != c19No:
			h.queue = append(h.queue, id)
			if exp == c19Unknown {
				s.stats.out("publish:own-misfit-delivered")
			} else {
				s.stats.out("publish:delivered")
			}
		case n1 == n0 && exp == c19No:
			s.stats.out("publish:no-match")
		case n1 == n0 && exp == c19Unknown:
			s.stats.out("publish:own-misfit-not-delivered")
		case n1 == n0 && exp == c19Yes:
			what := fmt.Sprintf("%s did not receive publication %d %v, which its query matches, and was not cancelled (buffer %d/%d)",
				s.describe(h), id, ev, n0, h.cap)
			if full {
				f = &c19Fail{key: "libs/pubsub/pubsub.go:send:full-buffer-drops-without-cancel", what: what, h: h, suspect: s.errStep}
			} else {
				f = &c19Fail{key: "libs/pubsub/pubsub.go:send:matching-event-not-delivered", what: what, h: h, suspect: s.errStep}
			}
		default:
			f = &c19Fail{key: "libs/pubsub/pubsub.go:send:unexpected-delivery", h: h,
				what: fmt.Sprintf("%s: readable messages %d -> %d on publication %d %v; own query says %s", s.describe(h), n0, n1, id, ev, c19TriName(exp))}
		}
		if f != nil && fail == nil {
			fail = f
		}
	}
	return fail
}

func c19TriName(x int) string {
	return []string{"no match", "match", "match undefined (value does not fit the operand type)"}[x]
}

// drain reads everything readable from Out() and compares it with the reference queue.
func (s *c19Sim) drain(h *c19Handle) *c19Fail {
	var got []Message
	if h.cap == 0 {
		h.syncReader()
		h.rmtx.Lock()
		got = append(got, h.got...)
		h.got = h.got[:0]
		h.rmtx.Unlock()
	} else {
	loop:
		for {
			select {
			case m := <-h.sub.Out():
				got = append(got, m)
			default:
				break loop
			}
		}
	}
	want := h.queue
	h.queue = nil
	ids := []interface{}{}
	for _, m := range got {
		ids = append(ids, m.Data())
	}
	bad := len(got) != len(want)
	for i := 0; !bad && i < len(got); i++ {
		id, ok := got[i].Data().(int)
		if !ok || id != want[i] || !reflect.DeepEqual(got[i].Events(), c19Events[s.pubs[want[i]]]) {
			bad = true
		}
	}
	if bad {
		return &c19Fail{key: "libs/pubsub/pubsub.go:out-content-differs-from-own-matches", h: h,
			what: fmt.Sprintf("%s: Out() yields publications %v, its own matches in order are %v", s.describe(h), ids, want)}
	}
	return nil
}

// final observation at the end of an execution: read out everything and compare.
func (s *c19Sim) finalCheck() *c19Fail {
	for _, h := range s.handles {
		if f := s.drain(h); f != nil {
			return f
		}
		if !h.live && h.ended != "replaced" && !c19Closed(h.sub.Cancelled()) {
			return &c19Fail{key: "libs/pubsub/pubsub.go:ended-without-signal", h: h,
				what: fmt.Sprintf("%s ended (%s) but Cancelled() is not closed", s.describe(h), h.ended)}
		}
	}
	// the implementation must not serve anybody the reference does not know (diagnostic only)
	n := 0
	for _, m := range s.st.subscriptions {
		n += len(m)
	}
	live := 0
	for _, h := range s.handles {
		if h.live {
			live++
		}
	}
	if n != live {
		s.stats.out("diag:state-subscription-count-differs-from-reference")
	}
	return nil
}

// canonical encoding of the implementation state: per (query, client) the capacity and fill level of the
// subscription held by `state`, the query reference counts, and the Server's own (client -> query) index,
// minimised over client renamings. Two paths with the same encoding hold identical `state`/Server contents up
// to message payloads still buffered, and payloads never influence add/remove/send (only len(out) does); the
// payloads of every path are verified by the final read-out of that path before it is merged. The reference
// needs no extra component: it is checked equal to the implementation after every command.
func (s *c19Sim) canon(nClients int) [16]byte {
	// a client renaming permutes whole per-client item sets, so the sorted multiset of per-client
	// signatures (plus the client-free reference counts) is a complete invariant of the renaming class
	per := map[string][]string{}
	var sb strings.Builder
	for qStr, m := range s.st.subscriptions {
		for cl, sub := range m {
			sb.Reset()
			sb.WriteString("S|")
			sb.WriteString(qStr)
			sb.WriteByte('|')
			sb.WriteByte(byte('0' + cap(sub.out)))
			sb.WriteByte(byte('0' + len(sub.out)))
			if c19Closed(sub.canceled) {
				sb.WriteByte('x')
			}
			per[cl] = append(per[cl], sb.String())
		}
	}
	for cl, m := range s.srv.subscriptions {
		for qStr := range m {
			per[cl] = append(per[cl], "V|"+qStr)
		}
	}
	sigs := make([]string, 0, len(per)+len(s.st.queries))
	for _, items := range per {
		sort.Strings(items)
		sigs = append(sigs, "C{"+strings.Join(items, ";")+"}")
	}
	for qStr, q := range s.st.queries {
		sigs = append(sigs, "Q|"+qStr+"|"+strconv.Itoa(q.refCount))
	}
	sort.Strings(sigs)
	var out [16]byte
	sum := sha256.Sum256([]byte(strings.Join(sigs, "\n")))
	copy(out[:], sum[:16])
	return out
}

// ---------------------------------------------------------------------------------------------
// one execution = fresh real server, replay the path, final read-out

type c19Exec struct {
	fail     *c19Fail
	failStep int
	canon    [16]byte
	sim      *c19Sim
	enabled  []c19Cmd
}

func c19Run(qs []*query.Query, cmds []c19Cmd, nClients int, stats *c19Stats, solo int, wantCanon bool, en *c19Bounds) (res c19Exec) {
	sim := c19NewSim(qs, nil)
	sim.solo = solo
	defer sim.close()
	res.failStep = -1
	for i, c := range cmds {
		if i == len(cmds)-1 {
			sim.stats = stats // outcome classes are counted for the new transition only, not for the replayed prefix
		}
		if f := sim.apply(c); f != nil {
			res.fail, res.failStep = f, i
			return res
		}
	}
	if wantCanon {
		res.canon = sim.canon(nClients)
	}
	if en != nil {
		res.enabled = sim.enabled(*en)
	}
	if f := sim.finalCheck(); f != nil {
		res.fail, res.failStep = f, len(cmds)
	}
	res.sim = sim
	return res
}

// enabled commands after a path (computed on a live instance of that path)
func (s *c19Sim) enabled(b c19Bounds) []c19Cmd {
	var out []c19Cmd
	used := 0
	for c := 0; c < b.clients; c++ {
		if _, ok := s.srv.subscriptions[c19Client(c)]; ok {
			used = c + 1
		}
		for _, h := range s.handles {
			if h.client == c {
				used = c19MaxInt(used, c+1)
			}
		}
	}
	for c := 0; c < b.clients && c <= used; c++ { // a new client is always the lowest unused one (symmetry)
		for _, q := range b.queries {
			if !s.serverHas(c, q) {
				for _, k := range b.caps {
					out = append(out, c19Cmd{Op: c19OpSub, C: c, Q: q, Cap: k})
				}
			} else {
				out = append(out, c19Cmd{Op: c19OpUnsub, C: c, Q: q})
				out = append(out, c19Cmd{Op: c19OpUnsubRefused, C: c, Q: q})
			}
		}
		if m := s.srv.subscriptions[c19Client(c)]; len(m) > 1 || (len(m) == 1 && b.unsubAllSingle) {
			out = append(out, c19Cmd{Op: c19OpUnsubAll, C: c})
		}
		for _, h := range s.handles {
			if h.client == c && h.cap > 0 && len(h.sub.out) > 0 {
				out = append(out, c19Cmd{Op: c19OpDrain, C: c})
				break
			}
		}
	}
	for _, e := range b.events {
		out = append(out, c19Cmd{Op: c19OpPub, E: e})
	}
	return out
}

func c19MaxInt(a, b int) int {
	if a > b {
		return a
	}
	return b
}

type c19Bounds struct {
	clients        int
	queries        []int
	events         []int
	caps           []int
	depth          int
	unsubAllSingle bool
}

// ---------------------------------------------------------------------------------------------
// amplified scenario: decides "a failing match of another subscriber loses my publication" independent
// of map iteration order.

func c19RunAmp(a c19Amp) (ok bool, what string) {
	srv := NewServer()
	st := state{subscriptions: make(map[string]map[string]*Subscription), queries: make(map[string]*queryPlusRefCount)}
	ctx := context.Background()
	step := func(f func()) {
		srv.cmds = make(chan cmd, 4)
		f()
		close(srv.cmds)
		srv.loop(st)
	}
	var w *Subscription
	subW := func() {
		step(func() {
			var err error
			q := query.MustParse(c19Queries[a.W].str)
			switch a.Mode {
			case "bigbuf":
				w, err = srv.Subscribe(ctx, "well-behaved", q, a.NPub+14)
			case "cap1":
				w, err = srv.Subscribe(ctx, "well-behaved", q, 1)
			default:
				w, err = srv.SubscribeUnbuffered(ctx, "well-behaved", q)
			}
			if err != nil {
				panic(err)
			}
		})
	}
	if !a.WLast {
		subW()
	}
	for i := 1; i <= a.NFail; i++ {
		qs := fmt.Sprintf(c19Queries[a.F].family, i)
		step(func() {
			if _, err := srv.Subscribe(ctx, fmt.Sprintf("failing-%d", i), query.MustParse(qs), 1); err != nil {
				panic(err)
			}
		})
	}
	if a.WLast {
		subW()
	}
	var got []Message
	var mtx sync.Mutex
	quit, ack := make(chan struct{}), make(chan struct{})
	if a.Mode == "unbuf" {
		go func() {
			for {
				select {
				case m := <-w.out:
					if m.data == c19Sentinel.data {
						ack <- struct{}{}
						continue
					}
					mtx.Lock()
					got = append(got, m)
					mtx.Unlock()
				case <-quit:
					return
				}
			}
		}()
		defer close(quit)
	}
	read := func() {
		for {
			select {
			case m := <-w.out:
				got = append(got, m)
			default:
				return
			}
		}
	}
	ev := c19Events[a.E]
	for p := 0; p < a.NPub; p++ {
		step(func() {
			if err := srv.PublishWithEvents(ctx, p, ev); err != nil {
				panic(err)
			}
		})
		if a.Mode == "cap1" {
			read()
		}
	}
	switch a.Mode {
	case "unbuf":
		w.out <- c19Sentinel
		<-ack
		mtx.Lock()
		defer mtx.Unlock()
	default:
		read()
	}
	if c19Closed(w.Cancelled()) {
		if w.Err() != nil {
			return false, fmt.Sprintf("the well-behaved subscriber (%q, %s) was cancelled (%v) although it never fell behind", c19Queries[a.W].str, a.Mode, w.Err())
		}
		return false, "the well-behaved subscriber was cancelled without a reason"
	}
	inOrder := len(got) == a.NPub
	for i := 0; inOrder && i < len(got); i++ {
		if id, _ := got[i].Data().(int); id != i {
			inOrder = false
		}
	}
	if !inOrder {
		// the count is deliberately not part of the message: it depends on map order
		return false, fmt.Sprintf("subscriber with query %q (%s) is not cancelled and did not receive all %d publications of %v, which its query matches, "+
			"while %d other clients are subscribed with queries of the form %q that fail to evaluate on that event",
			c19Queries[a.W].str, a.Mode, a.NPub, ev, a.NFail, c19Queries[a.F].family)
	}
	return true, ""
}

const c19KeyEarlyReturn = "libs/pubsub/pubsub.go:send:match-error-of-one-query-aborts-publication-for-other-subscribers"

// ---------------------------------------------------------------------------------------------
// the test

func c19Text(cmds []c19Cmd) []string {
	var out []string
	for _, c := range cmds {
		out = append(out, c.String())
	}
	return out
}

func TestVerifC19Pubsub(t *testing.T) {
	r := vr.Start("C19", "pubsub", 100*time.Second, 14*time.Minute)
	defer r.Finish()
	r.Rule = "breadth-first search over command sequences (subscribe/unsubscribe/unsubscribe refused at hand-over/unsubscribeAll/publish/drain x clients x query menu x capacity x event menu) " +
		"executed through the real Server API and the real Server.loop on a harness-owned state; a state is the canonical encoding of the real " +
		"state+Server maps modulo client renaming (buffer fill levels included); every (state, enabled command) pair is executed on a fresh real server " +
		"by replaying the path; non-trivial = a publication reaches at least one live subscription; plus an amplified family (1 well-behaved subscriber, " +
		"63 failing queries, 50 publications) for every (matching query, failing query family, misfitting event, reader mode)"
	r.Assume("clients call the Server API sequentially; the server loop is a single goroutine, so command order is the whole schedule space")
	r.Assume("a refused unsubscribe is modelled as the call made with a done context on a command channel nobody receives from (stands for: loop parked on a slow unbuffered reader, or queue full); it is enabled wherever unsubscribe is; the reference keeps the subscription live because the caller got the context's error")
	r.Assume("an unbuffered subscription always has a reader (documented contract of SubscribeUnbuffered); buffered subscriptions read only at explicit drain commands")
	r.Assume("for a subscriber whose OWN comparison does not fit a value's type, either delivering or not delivering that publication is accepted")

	qs := make([]*query.Query, len(c19Queries))
	for i, q := range c19Queries {
		qs[i] = query.MustParse(q.str)
	}

	// watchdog: a server loop that blocks for ever cannot be told from a slow one by any oracle; end inconclusive.
	var beat int64
	var lastPath atomic.Value
	done := make(chan struct{})
	defer close(done)
	go func() {
		last, idle := int64(-1), 0
		for {
			select {
			case <-done:
				return
			case <-time.After(5 * time.Second):
			}
			b := atomic.LoadInt64(&beat)
			if b == last {
				idle++
			} else {
				idle, last = 0, b
			}
			if idle >= 24 {
				r.Cap(fmt.Sprintf("no progress for 120 s (server loop blocked?) around %v", c19PathText(lastPath.Load())))
				r.Finish()
				os.Exit(0)
			}
		}
	}()

	var rc c19Case
	if replaying, skip := r.ReplayCase(&rc); skip {
		return
	} else if replaying {
		r.Eval()
		r.Traces++
		if rc.Kind == "amp" {
			if ok, what := c19RunAmp(*rc.Amp); !ok {
				r.Violation(c19AmpKey(what), what, rc)
			}
			return
		}
		st := &c19Stats{outcomes: map[string]int64{}}
		res := c19Run(qs, rc.Cmds, 3, st, -1, false, nil)
		if res.fail != nil {
			r.Violation(c19FullKey(res.fail.key), res.fail.what, rc)
		}
		return
	}

	var traces, transitions int64

	// ---- amplified scenarios (order-independent verdict on the error path) ----
	ampMemo := map[string]bool{}
	var ampMtx sync.Mutex
	amp := func(a c19Amp) bool {
		k := fmt.Sprint(a)
		ampMtx.Lock()
		defer ampMtx.Unlock() // serialised: rare, and keeps the first recorded replay deterministic
		if v, ok := ampMemo[k]; ok {
			return v
		}
		ok, what := c19RunAmp(a)
		atomic.AddInt64(&beat, 1)
		atomic.AddInt64(&traces, 1)
		if !ok {
			stable := vr.Confirm(3, fmt.Errorf("%s", what), func() error {
				atomic.AddInt64(&traces, 1)
				ok2, what2 := c19RunAmp(a)
				if ok2 {
					return nil
				}
				return fmt.Errorf("%s", what2)
			})
			if !stable {
				r.Cap("amplified scenario not stable: " + k)
			} else {
				r.Violation(c19AmpKey(what), what, c19Case{Kind: "amp", Amp: &a})
			}
		}
		ampMemo[k] = ok
		return ok
	}
	nAmp := 0
	for e := range c19Events {
		for f := range c19Queries {
			if c19Queries[f].family == "" {
				continue
			}
			// the family must really fail on this event (flow control by the real matcher), every member of it
			fails := true
			for _, i := range []int{1, 2, 63} {
				if _, err := query.MustParse(fmt.Sprintf(c19Queries[f].family, i)).Matches(c19Events[e]); err == nil {
					fails = false
				}
			}
			if !fails {
				continue
			}
			for w := range c19Queries {
				if c19Eval(c19Queries[w], c19Events[e]) != c19Yes {
					continue
				}
				for _, mode := range []string{"bigbuf", "cap1", "unbuf"} {
					for _, wlast := range []bool{false, true} {
						if !vr.Thorough() && wlast && mode != "bigbuf" {
							continue
						}
						nAmp++
						r.Eval()
						r.NTCount(1)
						ok := amp(c19Amp{W: w, F: f, E: e, Mode: mode, WLast: wlast, NFail: 63, NPub: 50})
						if ok {
							r.Outcome("amp:all-received")
						} else {
							r.Outcome("amp:violation")
						}
					}
				}
			}
		}
	}
	r.Set("amplified_scenarios", int64(nAmp))

	// ---- breadth-first searches ----
	workers := 8
	if s := os.Getenv("GOMAXPROCS"); s != "" {
		if v, err := strconv.Atoi(s); err == nil && v > 0 {
			workers = v
		}
	}
	stats := make([]*c19Stats, workers)
	for i := range stats {
		stats[i] = &c19Stats{outcomes: map[string]int64{}}
	}
	var nontrivial, evals int64
	var reportMtx sync.Mutex
	startAll := time.Now()
	bfs := func(label string, b c19Bounds, share time.Duration) (nStates int, completed int, closed bool) {
		localDeadline := startAll.Add(share)
		const nVis = 64
		var visMtx [nVis]sync.Mutex
		var visited [nVis]map[[16]byte]struct{}
		for i := range visited {
			visited[i] = map[[16]byte]struct{}{}
		}
		visit := func(h [16]byte) bool { // true if new
			k := int(h[0]) % nVis
			visMtx[k].Lock()
			defer visMtx[k].Unlock()
			if _, ok := visited[k][h]; ok {
				return false
			}
			visited[k][h] = struct{}{}
			return true
		}
		{
			sim := c19NewSim(qs, nil)
			visit(sim.canon(b.clients))
		}
		frontier := []string{""}
		var stop int32
		report := func(path []c19Cmd, f *c19Fail, step int, st *c19Stats) (orderDependent bool) {
			// one execution failed at path[:step+1]; classify
			cut := path
			if step < len(path) {
				cut = path[:step+1]
			}
			if f.suspect {
				// a publication on which another subscription's query failed to evaluate: outcome of this single
				// step depends on map order. Decide by the amplified form of the same configuration.
				st.out("suspect:miss-on-step-where-another-query-fails")
				sim := f.h
				mode := "cap1"
				if sim.cap == 0 {
					mode = "unbuf"
				}
				last := cut[len(cut)-1]
				fq := -1
				// the failing family: any subscribed menu query with a family that fails on this event
				for qi, q := range c19Queries {
					if q.family == "" {
						continue
					}
					if _, err := qs[qi].Matches(c19Events[last.E]); err != nil {
						for _, c := range cut {
							if c.Op == c19OpSub && c.Q == qi {
								fq = qi
							}
						}
					}
				}
				if fq >= 0 && !amp(c19Amp{W: sim.q, F: fq, E: last.E, Mode: mode, NFail: 63, NPub: 50}) {
					return true // reported under the order-independent key
				}
				// amplification passed: the miss is not explained by the error path; fall through
			}
			reportMtx.Lock()
			defer reportMtx.Unlock()
			key := c19FullKey(f.key)
			if f.key == "cancelled-without-own-cause" {
				// literal isolation test: same commands with every other client removed
				solo := c19Run(qs, cut, b.clients, nil, f.h.client, false, nil)
				atomic.AddInt64(&traces, 1)
				if solo.fail != nil && solo.fail.key == f.key {
					st.out("diag:cancel-not-predicted-by-reference-but-independent-of-others")
					return false
				}
				key = "libs/pubsub/pubsub.go:isolation:subscription-cancelled-because-of-other-subscribers"
			}
			first := fmt.Errorf("%s@%d", f.key, step)
			stable := vr.Confirm(3, first, func() error {
				atomic.AddInt64(&traces, 1)
				res := c19Run(qs, cut, b.clients, nil, -1, false, nil)
				if res.fail == nil {
					return nil
				}
				return fmt.Errorf("%s@%d", res.fail.key, res.failStep)
			})
			if !stable {
				r.Cap("an execution failed but not reproducibly (map-order dependent?): " + f.key + " after " + strings.Join(c19Text(cut), "; "))
				return false
			}
			r.Violation(key, f.what+" — after "+strings.Join(c19Text(cut), "; "), c19Case{Kind: "seq", Cmds: cut, Text: c19Text(cut)})
			return false
		}

		for depth := 1; depth <= b.depth; depth++ {
			// deterministic visiting order; VERIF_SEED only rotates it
			if r.Seed != 0 && len(frontier) > 1 {
				k := int(uint64(r.Seed) % uint64(len(frontier)))
				frontier = append(frontier[k:], frontier[:k]...)
			}
			results := make([][]string, workers)
			var wg sync.WaitGroup
			var next int64 = -1
			for w := 0; w < workers; w++ {
				wg.Add(1)
				go func(w int) {
					defer wg.Done()
					st := stats[w]
					for {
						i := int(atomic.AddInt64(&next, 1))
						if i >= len(frontier) || atomic.LoadInt32(&stop) != 0 {
							return
						}
						if i%64 == 0 && (r.Deadline(fmt.Sprintf("breadth-first search %s stopped inside depth %d", label, depth)) || time.Now().After(localDeadline)) {
							if time.Now().After(localDeadline) {
								r.Cap(fmt.Sprintf("time share of breadth-first search %s used up inside depth %d", label, depth))
							}
							atomic.StoreInt32(&stop, 1)
							return
						}
						path := c19Unpack(frontier[i])
						base := c19Run(qs, path, b.clients, nil, -1, false, &b)
						atomic.AddInt64(&traces, 1)
						if base.fail != nil {
							// only possible when an earlier lucky, order-dependent step is unlucky this time
							st.out("replay-of-prefix-diverged")
							report(path, base.fail, base.failStep, st)
							continue
						}
						cmds := base.enabled
						for _, c := range cmds {
							np := append(append(make([]c19Cmd, 0, len(path)+1), path...), c)
							lastPath.Store(np)
							res := c19Run(qs, np, b.clients, st, -1, true, nil)
							atomic.AddInt64(&beat, 1)
							atomic.AddInt64(&traces, 1)
							atomic.AddInt64(&transitions, 1)
							atomic.AddInt64(&evals, 1)
							if c.Op == c19OpPub && res.sim != nil {
								for _, h := range res.sim.handles {
									if h.live || h.ended == "overflow" {
										atomic.AddInt64(&nontrivial, 1)
										break
									}
								}
							}
							if res.fail != nil {
								if !report(np, res.fail, res.failStep, st) {
									continue // do not extend a path on which implementation and reference disagree
								}
								// The tree aborts a publication on a Matches error, so this step's outcome depends on map order.
								// The successor in which the publication is processed completely is still a state of the
								// system: retry a few times to reach it, so that coverage does not hinge on one draw.
								for try := 0; try < 8 && res.fail != nil; try++ {
									res = c19Run(qs, np, b.clients, nil, -1, true, nil)
									atomic.AddInt64(&traces, 1)
								}
								if res.fail != nil {
									st.out("order-dependent-successor-not-reached")
									continue
								}
							}
							// merged on discovery: which path represents a state does not matter (same futures, see canon)
							if visit(res.canon) && depth < b.depth {
								results[w] = append(results[w], c19Pack(np))
							}
						}
					}
				}(w)
			}
			wg.Wait()
			if atomic.LoadInt32(&stop) != 0 {
				break
			}
			frontier = frontier[:0]
			nNew := 0
			for _, rs := range results {
				frontier = append(frontier, rs...)
				nNew += len(rs)
			}
			sort.Strings(frontier)
			completed = depth
			if depth < b.depth {
				r.Set(fmt.Sprintf("%s_new_states_at_depth_%d", label, depth), int64(nNew))
			}
			if len(frontier) == 0 {
				break
			}
		}
		for i := range visited {
			nStates += len(visited[i])
		}
		closed = atomic.LoadInt32(&stop) == 0 && len(frontier) == 0 && completed < b.depth
		for i := 0; i < len(frontier) && i < 2; i++ {
			r.Sample(map[string]interface{}{"search": label, "path": c19Text(c19Unpack(frontier[(i*7919)%len(frontier)]))})
		}
		if p, ok := lastPath.Load().([]c19Cmd); ok && len(frontier) == 0 {
			r.Sample(map[string]interface{}{"search": label, "path": c19Text(p)})
		}
		r.Set("search_"+label, fmt.Sprintf("clients %d, queries %v, events %v, capacities %v: %d states, depth %d completed, state space closed: %v",
			b.clients, b.queries, b.events, b.caps, nStates, completed, closed))
		return nStates, completed, closed
	}

	// (A) small menu, no depth bound to speak of: the canonical state space is finite (bounded buffers), so the
	// search runs until no new state appears. (B) wide menu to a fixed depth.
	var bounds []string
	total := 0
	a := c19Bounds{clients: 3, queries: []int{0, 1}, events: []int{1, 2, 0}, caps: []int{1, 2}, depth: 40, unsubAllSingle: true}
	if vr.Thorough() {
		a = c19Bounds{clients: 3, queries: []int{0, 1}, events: []int{1, 2, 0, 3}, caps: []int{1, 2, 0}, depth: 40, unsubAllSingle: true}
	}
	n, d, closed := bfs("A", a, time.Duration(vr.Pick(60, 420))*time.Second)
	total += n
	r.MaxDepth = d
	if closed {
		bounds = append(bounds, fmt.Sprintf("A: ALL command sequences (state space of %d states closed at depth %d) over 3 clients, queries %v, events %v, capacities %v", n, d, a.queries, a.events, a.caps))
	} else {
		bounds = append(bounds, fmt.Sprintf("A: sequences of length <= %d (%d states) over queries %v, events %v, capacities %v", d, n, a.queries, a.events, a.caps))
	}
	wide := c19Bounds{clients: 3, queries: []int{0, 1, 2, 3, 7}, events: []int{0, 1, 2, 4, 5}, caps: []int{1, 2, 0}, depth: 5}
	if vr.Thorough() {
		wide = c19Bounds{clients: 3, queries: []int{0, 1, 2, 3, 4, 5, 6, 7, 8}, events: []int{0, 1, 2, 3, 4, 5, 6, 7, 8, 9}, caps: []int{1, 2, 0}, depth: 7}
	}
	n, d, _ = bfs("B", wide, 24*time.Hour)
	total += n
	if d > r.MaxDepth {
		r.MaxDepth = d
	}
	bounds = append(bounds, fmt.Sprintf("B: sequences of length <= %d (%d states) over 3 clients, queries %v, events %v, capacities %v (0 = unbuffered with a reader)", d, n, wide.queries, wide.events, wide.caps))
	bounds = append(bounds, fmt.Sprintf("%d amplified scenarios", nAmp))
	r.States = int64(total)
	r.Transitions = transitions
	r.Traces = traces
	r.EvalN(evals)
	r.NTCount(nontrivial)
	r.Bound = strings.Join(bounds, " | ")
	for _, st := range stats {
		for k, v := range st.outcomes {
			r.Outcomes[k] += v
		}
	}
}

func c19FullKey(k string) string {
	if strings.HasPrefix(k, "libs/") {
		return k
	}
	return "libs/pubsub/pubsub.go:" + k
}

func c19AmpKey(what string) string {
	if strings.Contains(what, "did not receive all") {
		return c19KeyEarlyReturn
	}
	return "libs/pubsub/pubsub.go:send:well-behaved-subscriber-cancelled-next-to-failing-queries"
}

func c19PathText(v interface{}) string {
	if p, ok := v.([]c19Cmd); ok {
		return strings.Join(c19Text(p), "; ")
	}
	return "start"
}
