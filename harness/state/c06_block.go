package state_test

// C06 — block validation is exact and the state transition is a deterministic function.
//
// A case is (configuration, chain style, path): the path is a sequence of EndBlock scripts from a
// menu (validator updates x consensus-parameter updates); every block of the path is applied on two
// independently built replicas (determinism, clause ii); at the last height of the path the proposer
// checks (clause iii: CreateProposalBlock from a real mempool filled around the byte boundary and a
// real evidence pool) and the perturbation sweep (clause i) run before the honest block is applied.
// All paths up to the length bound over the menu are enumerated for every configuration and style.

import (
	"fmt"
	"sort"
	"strings"
	"testing"
	"time"

	"github.com/tendermint/tendermint/internal/verif/vr"
	"github.com/tendermint/tendermint/types"
)

type c06Case struct {
	Cfg   int   `json:"cfg"`
	Style int   `json:"style"`
	Path  []int `json:"path"` // indices into the step menu
}

type c06Style struct {
	Pat int // pattern of the commit carried by the checked block
	Tx  int // tx class of the honest block
	Ev  int // evidence items in the honest block
}

func c06Configs() []c06Cfg {
	long := strings.Repeat("c", 50) // MaxChainIDLen
	all := []c06Cfg{
		{Name: "4x10/h1/small", Powers: []int64{10, 10, 10, 10}, Initial: 1, ChainID: "verif-c06", MaxBytes: 3000, EvMaxBytes: 1000},
		{Name: "4x1/h5/small/long-id", Powers: []int64{1, 1, 1, 1}, Initial: 5, ChainID: long, MaxBytes: 3000, EvMaxBytes: 1000},
		{Name: "3x1/h1/small/skew", Powers: []int64{1, 1, 1}, Initial: 1, ChainID: "verif-c06-b", MaxBytes: 3000, EvMaxBytes: 1000, Skew: true},
		{Name: "1/h5/default", Powers: []int64{10}, Initial: 5, ChainID: "c", MaxBytes: 22020096, EvMaxBytes: 1048576},
		{Name: "30,1,1,1/h1/small", Powers: []int64{30, 1, 1, 1}, Initial: 1, ChainID: "verif-c06-f", MaxBytes: 3000, EvMaxBytes: 1000},
		{Name: "20,15,10,10/h1/small", Powers: []int64{20, 15, 10, 10}, Initial: 1, ChainID: "verif-c06-g", MaxBytes: 3000, EvMaxBytes: 1000},
		{Name: "5x1/h1/small", Powers: []int64{1, 1, 1, 1, 1}, Initial: 1, ChainID: "verif-c06-h", MaxBytes: 3000, EvMaxBytes: 1000}, // total 5: two thirds is not an integer, floor(2t/3) = 3 signers are not enough
		// thorough only from here
		{Name: "1,2,3,4/h1/small", Powers: []int64{1, 2, 3, 4}, Initial: 1, ChainID: long, MaxBytes: 3000, EvMaxBytes: 1000},
		{Name: "2x10/h5/small", Powers: []int64{10, 10}, Initial: 5, ChainID: "verif-c06-c", MaxBytes: 3000, EvMaxBytes: 1000},
		{Name: "33,33,34/h2^62/small", Powers: []int64{33, 33, 34}, Initial: 1 << 62, ChainID: long, MaxBytes: 3000, EvMaxBytes: 1000, Skew: true},
		{Name: "7x3/h1/small", Powers: []int64{3, 3, 3, 3, 3, 3, 3}, Initial: 1, ChainID: "verif-c06-d", MaxBytes: 4000, EvMaxBytes: 1000},
		{Name: "4x10/h1/default", Powers: []int64{10, 10, 10, 10}, Initial: 1, ChainID: "verif-c06-e", MaxBytes: 22020096, EvMaxBytes: 1048576},
	}
	if vr.Thorough() {
		return all
	}
	return all[:7]
}

func c06Styles() []c06Style {
	all := []c06Style{
		{c06PatAll, 0, 0}, {c06PatAbsentRev, 1, 1}, {c06PatNilEqual, 2, 0}, {c06PatAbsentByz, 1, 0}, {c06PatStale, 0, 0}, {c06PatAbsentBig, 1, 0},
		// thorough only
		{c06PatByzEarly, 2, 1}, {c06PatByzFuture, 1, 0}, {c06PatAll, 3, 1},
	}
	if vr.Thorough() {
		return all
	}
	return all[:6]
}

// step menu: quick uses the first c06QuickMenu entries
var c06Menu = []c06Op{
	{c06VNone, c06PNone}, {c06VShrink1, c06PNone}, {c06VGrow3, c06PNone}, {c06VRem1, c06PMaxBytes}, {c06VAdd1, c06PAppVer},
	{c06VNone, c06PTight}, {c06VRepow, c06PEvBytes},
	// thorough only
	{c06VSwap, c06PMaxGas}, {c06VRem1, c06PNone}, {c06VAdd1, c06PNone}, {c06VShrink1, c06PTight}, {c06VGrow3, c06PMaxBytes},
	{c06VNone, c06PAppVer}, {c06VRepow, c06PNone}, {c06VSwap, c06PNone},
}

const c06QuickMenu = 7

type c06NullRep struct{}

func (c06NullRep) Add(string, int64) {}
func (c06NullRep) Note(string)       {}
func (c06NullRep) Outcome(string)    {}

type c06Stats struct{ sweeps, steps int }

// c06Run executes one case. applicable=false: some op of the path does not apply (duplicate of a shorter menu).
func c06Run(env *c06Env, r reporter, c c06Case, st *c06Stats) (findings []c06Finding, applicable bool) {
	cfgs, styles := c06Configs(), c06Styles()
	w := c06NewWorld(env, cfgs[c.Cfg])
	style := styles[c.Style]
	evMenu := []int{0, 1}
	if vr.Thorough() {
		evMenu = []int{0, 1, 3}
	}
	w.commitBenign = true
	for i, ai := range c.Path {
		op := c06Menu[ai]
		eb, ok := w.buildEndBlock(op)
		if !ok {
			return nil, false
		}
		final := i == len(c.Path)-1
		tx, nev := i%3, i%2
		if final {
			tx, nev = style.Tx, style.Ev
		}
		block, parts := w.honestBlock(tx, nev)
		if final {
			w.proposer(r, evMenu, !vr.Thorough())
			pb, err := block.ToProto()
			if err != nil {
				panic(err)
			}
			hp := c06ClonePB(pb)
			w.compare("none (honest block)", hp, r)
			st.sweeps += 1 + w.sweep(block, r)
			if acc, _ := w.judge(hp); !acc {
				r.Outcome("honest:rejected")
				if w.commitBenign && len(w.findings) == 0 {
					w.fail("state/state.go:MakeBlock:honest-block-rejected", fmt.Sprintf("cfg %s height %d", w.cfg.Name, block.Height))
				}
				break
			}
			r.Outcome("honest:accepted")
		}
		if !w.apply(block, parts, op, eb, r) {
			break
		}
		st.steps++
		// the commit for this block; the one that the checked block will carry follows the style
		pat := []int{c06PatAll, c06PatAbsentRev, c06PatNilEqual}[i%3]
		if i == len(c.Path)-2 {
			pat = style.Pat
		}
		w.lastCommit, w.commitBenign = w.makeCommit(pat, block.Height, w.rec.lastID, block.Time, w.rec.last)
	}
	return w.findings, true
}

func c06Describe(c c06Case) map[string]interface{} {
	ops := []string{}
	for _, a := range c.Path {
		ops = append(ops, c06Menu[a].String())
	}
	s := c06Styles()[c.Style]
	return map[string]interface{}{"cfg": c06Configs()[c.Cfg].Name, "path": ops, "commit_pattern": c06PatNames[s.Pat], "tx_class": s.Tx, "evidence": s.Ev, "case": c}
}

func c06Keys(fs []c06Finding) string {
	ks := []string{}
	for _, f := range fs {
		ks = append(ks, f.Key)
	}
	sort.Strings(ks)
	return strings.Join(ks, " | ")
}

func TestVerifC06Block(t *testing.T) {
	r := vr.Start("C06", "block", 115*time.Second, 19*time.Minute)
	defer r.Finish()
	r.Rule = "odometer over (configuration, chain style, path of EndBlock scripts from the step menu, shortest first); every tuple is distinct by construction; " +
		"a case runs the proposer checks, the wire-level perturbation sweep and the two-replica apply at the last height of its path; " +
		"non-trivial = some script changes validators or parameters, or the style is not (all sign, no txs, no evidence)"
	r.Assume("ed25519 and the Merkle/hash primitives are black boxes; ground truth about every signature is known because the harness made it")
	r.Assume("the ABCI application is deterministic in the fields that enter the results hash; evidence admissibility beyond {fresh, duplicate, committed, bad signature, wrong power/time, outsider} is C11's subject")
	r.Assume("the receiver-side size limit is reproduced from consensus.addProposalBlockPart (sum of part bytes <= Block.MaxBytes) because package state cannot import consensus")
	env := c06NewEnv()
	st := &c06Stats{}
	var rc c06Case
	if rep, skip := r.ReplayCase(&rc); skip {
		return
	} else if rep {
		r.Eval()
		fs, _ := c06Run(env, r, rc, st)
		for _, f := range fs {
			r.Violation(f.Key, f.What, rc)
		}
		return
	}
	cfgs, styles := c06Configs(), c06Styles()
	// menu size per path length (shortest first). The thorough tier first covers the quick space
	// (same configurations, styles and menus), then the extension.
	type c06Phase struct {
		name          string
		menus         []int
		nCfg, nStyles int
	}
	quickPhase := c06Phase{"quick space", []int{c06QuickMenu, c06QuickMenu, 5}, 7, 6}
	phases := []c06Phase{quickPhase}
	if vr.Thorough() {
		phases = append(phases, c06Phase{"extension", []int{len(c06Menu), len(c06Menu), 9, 4}, len(cfgs), len(styles)})
	}
	inQuickSpace := func(c c06Case) bool {
		if c.Cfg >= quickPhase.nCfg || c.Style >= quickPhase.nStyles || len(c.Path) > len(quickPhase.menus) {
			return false
		}
		for _, a := range c.Path {
			if a >= quickPhase.menus[len(c.Path)-1] {
				return false
			}
		}
		return true
	}
	k := 0
	stop := false
	confirmed := map[string]bool{}
	mine := 0
	completed := ""
	try := func(c c06Case) {
		k++
		// scrambled so that a shard does not systematically get one (configuration, style) combination
		if stop || !r.Mine(int((uint32(k)*2654435761)>>9)) {
			return
		}
		if r.Deadline("C06 case enumeration") {
			stop = true
			return
		}
		fs, ok := c06Run(env, r, c, st)
		if !ok {
			r.Add("inapplicable_paths_skipped", 1)
			return
		}
		r.Eval()
		triv := c.Style == 0
		for _, a := range c.Path {
			if a != 0 {
				triv = false
			}
		}
		if !triv {
			r.NTCount(1)
		}
		if len(fs) > 0 {
			first := fmt.Errorf("%s", c06Keys(fs))
			// every new combination of violation keys is confirmed by three more executions of the case
			if !confirmed[first.Error()] && !vr.Confirm(3, first, func() error {
				f2, _ := c06Run(env, c06NullRep{}, c, &c06Stats{})
				if len(f2) == 0 {
					return nil
				}
				return fmt.Errorf("%s", c06Keys(f2))
			}) {
				panic(fmt.Sprintf("C06 harness nondeterministic on %+v: %v", c, first))
			}
			confirmed[first.Error()] = true
			for _, f := range fs {
				r.Violation(f.Key, f.What, c)
			}
		}
		if mine++; mine <= 2 || mine%400 == 0 {
			r.Sample(c06Describe(c))
		}
	}
	each := func(ph int, n, m int) {
		idx := make([]int, n)
		for !stop {
			for ci := 0; ci < phases[ph].nCfg; ci++ {
				for si := 0; si < phases[ph].nStyles; si++ {
					if n == 1 && si >= 3 {
						continue // no previous commit at the first height: only the tx classes matter
					}
					c := c06Case{Cfg: ci, Style: si, Path: append([]int{}, idx...)}
					if ph > 0 && inQuickSpace(c) {
						continue // done in the first phase
					}
					try(c)
				}
			}
			i := 0
			for ; i < n; i++ {
				idx[i]++
				if idx[i] < m {
					break
				}
				idx[i] = 0
			}
			if i == n {
				return
			}
		}
	}
	for ph := range phases {
		for n := 1; n <= len(phases[ph].menus) && !stop; n++ {
			each(ph, n, phases[ph].menus[n-1])
			if !stop {
				if completed != "" {
					completed += "; "
				}
				completed += fmt.Sprintf("%s: all paths of length %d over the first %d step-menu entries (%d configurations, %d styles)",
					phases[ph].name, n, phases[ph].menus[n-1], phases[ph].nCfg, phases[ph].nStyles)
			}
		}
	}
	names := []string{}
	for _, c := range cfgs {
		names = append(names, c.Name)
	}
	r.Bound = fmt.Sprintf("%s; %d configurations %v; %d styles; per case: proposer fills %v x pending evidence, full perturbation sweep, two-replica apply",
		completed, len(cfgs), names, len(styles), c06FillNames)
	r.Add("perturbed_blocks_judged", int64(st.sweeps))
	r.Add("blocks_applied_on_both_replicas", int64(st.steps))
	for name, s := range env.minSlack {
		r.Set("min_slack_bytes_in_one_shard["+name+"]", fmt.Sprint(s))
	}
	_ = types.MaxHeaderBytes
}
