package state_test

// C06 — block validation is exact and the state transition is a deterministic function.
// This file: the world the C06 check runs in. Two independently constructed replicas (own state
// store, own scripted ABCI application, own real mempool v0, own real evidence pool, own
// BlockExecutor), a key pool with a ground-truth table of everything the harness ever signed, and
// the harness's own record of the chain (c06Rec) from which the reference predicate recomputes
// every header field without looking at sm.State.

import (
	"bytes"
	"crypto/sha256"
	"encoding/binary"
	"fmt"
	"io"
	"math/big"
	"sort"
	"strings"
	"time"

	"github.com/gogo/protobuf/proto"
	dbm "github.com/tendermint/tm-db"

	abcicli "github.com/tendermint/tendermint/abci/client"
	abci "github.com/tendermint/tendermint/abci/types"
	cfg "github.com/tendermint/tendermint/config"
	"github.com/tendermint/tendermint/crypto"
	"github.com/tendermint/tendermint/crypto/ed25519"
	cryptoenc "github.com/tendermint/tendermint/crypto/encoding"
	"github.com/tendermint/tendermint/crypto/merkle"
	"github.com/tendermint/tendermint/crypto/tmhash"
	"github.com/tendermint/tendermint/evidence"
	"github.com/tendermint/tendermint/libs/log"
	tmsync "github.com/tendermint/tendermint/libs/sync"
	mempl "github.com/tendermint/tendermint/mempool"
	mempoolv0 "github.com/tendermint/tendermint/mempool/v0"
	tmproto "github.com/tendermint/tendermint/proto/tendermint/types"
	"github.com/tendermint/tendermint/proxy"
	sm "github.com/tendermint/tendermint/state"
	"github.com/tendermint/tendermint/types"
	"github.com/tendermint/tendermint/version"
)

// ---------------------------------------------------------------------------------------------
// keys and ground truth about signatures

type c06Signed struct {
	key   int
	chain string
	typ   tmproto.SignedMsgType
	h     int64
	round int32
	bid   string // BlockID.Key(), "" for nil
	ts    time.Time
}

type c06Env struct {
	keys     []crypto.PrivKey
	addrs    []crypto.Address
	byAdr    map[string]int
	sigs     map[string][]byte    // cache: what -> signature (ed25519 is deterministic)
	truth    map[string]c06Signed // signature bytes -> what it really signs
	minSlack map[string]int64     // per config: smallest MaxBytes - size of a proposer-built block
}

const c06NKeys = 32

func c06NewEnv() *c06Env {
	e := &c06Env{minSlack: map[string]int64{}, byAdr: map[string]int{}, sigs: map[string][]byte{}, truth: map[string]c06Signed{}}
	for i := 0; i < c06NKeys; i++ {
		k := ed25519.GenPrivKeyFromSecret([]byte(fmt.Sprintf("verif-c06-key-%d", i)))
		e.keys = append(e.keys, k)
		e.addrs = append(e.addrs, k.PubKey().Address())
		e.byAdr[string(k.PubKey().Address())] = i
	}
	return e
}

func c06BidKey(b types.BlockID) string {
	if b.IsZero() {
		return ""
	}
	return b.Key()
}

func (e *c06Env) sign(key int, chain string, typ tmproto.SignedMsgType, h int64, round int32, bid types.BlockID, ts time.Time) []byte {
	ck := fmt.Sprintf("%d/%s/%d/%d/%d/%x/%d", key, chain, typ, h, round, c06BidKey(bid), ts.UnixNano())
	if s, ok := e.sigs[ck]; ok {
		return s
	}
	v := &types.Vote{Type: typ, Height: h, Round: round, BlockID: bid, Timestamp: ts}
	sig, err := e.keys[key].Sign(types.VoteSignBytes(chain, v.ToProto()))
	if err != nil {
		panic(err)
	}
	e.sigs[ck] = sig
	e.truth[string(sig)] = c06Signed{key: key, chain: chain, typ: typ, h: h, round: round, bid: c06BidKey(bid), ts: ts}
	return sig
}

// ---------------------------------------------------------------------------------------------
// scripted application

type c06App struct {
	abci.BaseApplication
	script map[int64]abci.ResponseEndBlock // shared, written by the harness before the block is applied
	hash   []byte
	height int64
	digest []byte
	skew   string // non-deterministic DeliverTx fields differ per replica when set
}

func c06TxResult(tx []byte) abci.ResponseDeliverTx {
	r := abci.ResponseDeliverTx{GasWanted: int64(len(tx))}
	if len(tx) > 0 {
		r.GasUsed = int64(tx[0])
		if tx[0]%4 == 3 {
			r.Code = 7
		}
		n := 2
		if len(tx) < n {
			n = len(tx)
		}
		r.Data = append([]byte{}, tx[:n]...)
	}
	return r
}

func c06NextAppHash(prev []byte, height int64, digest []byte) []byte {
	h := sha256.New()
	h.Write(prev)
	var b [8]byte
	binary.BigEndian.PutUint64(b[:], uint64(height))
	h.Write(b[:])
	h.Write(digest)
	return h.Sum(nil)
}

func c06TxDigest(prev []byte, tx []byte) []byte {
	h := sha256.New()
	h.Write(prev)
	h.Write(tx)
	return h.Sum(nil)
}

func (a *c06App) BeginBlock(req abci.RequestBeginBlock) abci.ResponseBeginBlock {
	a.height = req.Header.Height
	a.digest = nil
	return abci.ResponseBeginBlock{}
}

func (a *c06App) DeliverTx(req abci.RequestDeliverTx) abci.ResponseDeliverTx {
	a.digest = c06TxDigest(a.digest, req.Tx)
	r := c06TxResult(req.Tx)
	if a.skew != "" {
		r.Log = "log-" + a.skew
		r.Info = "info-" + a.skew
		r.Codespace = a.skew
		r.Events = []abci.Event{{Type: "ev-" + a.skew, Attributes: []abci.EventAttribute{{Key: []byte("k"), Value: []byte(a.skew)}}}}
	}
	return r
}

func (a *c06App) CheckTx(req abci.RequestCheckTx) abci.ResponseCheckTx {
	return abci.ResponseCheckTx{Code: 0, GasWanted: 1}
}

func (a *c06App) EndBlock(req abci.RequestEndBlock) abci.ResponseEndBlock {
	if r, ok := a.script[req.Height]; ok {
		return r
	}
	return abci.ResponseEndBlock{}
}

func (a *c06App) Commit() abci.ResponseCommit {
	a.hash = c06NextAppHash(a.hash, a.height, a.digest)
	return abci.ResponseCommit{Data: a.hash}
}

// ---------------------------------------------------------------------------------------------
// a minimal block store for the evidence pool (the real pool only needs metas and commits)

type c06BlockStore struct {
	metas   map[int64]*types.BlockMeta
	commits map[int64]*types.Commit
	height  int64
}

func (b *c06BlockStore) LoadBlockMeta(h int64) *types.BlockMeta { return b.metas[h] }
func (b *c06BlockStore) LoadBlockCommit(h int64) *types.Commit  { return b.commits[h] }
func (b *c06BlockStore) Height() int64                          { return b.height }
func (b *c06BlockStore) save(block *types.Block, parts *types.PartSet) {
	b.metas[block.Height] = types.NewBlockMeta(block, parts)
	if block.Height > 1 {
		b.commits[block.Height-1] = block.LastCommit
	}
	b.height = block.Height
}

// ---------------------------------------------------------------------------------------------
// replicas

type c06Replica struct {
	name   string
	app    *c06App
	store  sm.Store
	bstore *c06BlockStore
	mp     *mempoolv0.CListMempool
	evpool *evidence.Pool
	exec   *sm.BlockExecutor
	state  sm.State
}

func c06NewReplica(name string, gen sm.State, script map[int64]abci.ResponseEndBlock, skew string) *c06Replica {
	r := &c06Replica{name: name, app: &c06App{script: script, skew: skew}}
	r.store = sm.NewStore(dbm.NewMemDB(), sm.StoreOptions{DiscardABCIResponses: false})
	if err := r.store.Save(gen); err != nil {
		panic(err)
	}
	r.bstore = &c06BlockStore{metas: map[int64]*types.BlockMeta{}, commits: map[int64]*types.Commit{}}
	mtx := new(tmsync.Mutex)
	// as in production with a local app: one client per connection, sharing the app mutex
	consConn := proxy.NewAppConnConsensus(abcicli.NewLocalClient(mtx, r.app))
	memConn := proxy.NewAppConnMempool(abcicli.NewLocalClient(mtx, r.app))
	mc := cfg.TestMempoolConfig()
	mc.CacheSize = 2000
	mc.Size = 20000
	r.mp = mempoolv0.NewCListMempool(mc, memConn, gen.LastBlockHeight,
		mempoolv0.WithPreCheck(sm.TxPreCheck(gen)), mempoolv0.WithPostCheck(sm.TxPostCheck(gen)))
	var err error
	r.evpool, err = evidence.NewPool(dbm.NewMemDB(), r.store, r.bstore)
	if err != nil {
		panic(err)
	}
	r.exec = sm.NewBlockExecutor(r.store, log.NewNopLogger(), consConn, r.mp, r.evpool)
	r.state = gen.Copy()
	return r
}

// ---------------------------------------------------------------------------------------------
// the harness's own record of the chain

type c06Rec struct {
	chainID  string
	initial  int64
	genesis  time.Time
	height   int64 // last applied height, 0 = none
	lastID   types.BlockID
	lastTime time.Time
	appHash  []byte
	results  []abci.ResponseDeliverTx
	haveRes  bool
	appVer   uint64
	params   tmproto.ConsensusParams
	// key index -> power: set that signed block `next height - 1`, set of the next height, set after it
	last, cur, next map[int]int64
	committedEv     map[string]bool // evidence bytes already in an applied block
	validEv         map[string]bool // evidence bytes the harness built to be valid and uncommitted
	invalidEv       map[string]string
}

func (rec *c06Rec) nextHeight() int64 {
	if rec.height == 0 {
		return rec.initial
	}
	return rec.height + 1
}

func c06CopyVals(m map[int]int64) map[int]int64 {
	o := make(map[int]int64, len(m))
	for k, v := range m {
		o[k] = v
	}
	return o
}

type c06RefVal struct {
	key   int
	power int64
	addr  crypto.Address
}

// members in canonical order (power descending, address ascending) — the order of commit slots
func (e *c06Env) ordered(m map[int]int64) []c06RefVal {
	out := make([]c06RefVal, 0, len(m))
	for k, p := range m {
		out = append(out, c06RefVal{k, p, e.addrs[k]})
	}
	sort.Slice(out, func(i, j int) bool {
		if out[i].power != out[j].power {
			return out[i].power > out[j].power
		}
		return bytes.Compare(out[i].addr, out[j].addr) < 0
	})
	return out
}

// reference validator-set hash: RFC-6962 root over SimpleValidator{pubkey, power} in canonical order
func (e *c06Env) refValHash(m map[int]int64) []byte {
	ord := e.ordered(m)
	bzs := make([][]byte, len(ord))
	for i, v := range ord {
		pk, err := cryptoenc.PubKeyToProto(e.keys[v.key].PubKey())
		if err != nil {
			panic(err)
		}
		sv := tmproto.SimpleValidator{PubKey: &pk, VotingPower: v.power}
		bz, err := sv.Marshal()
		if err != nil {
			panic(err)
		}
		bzs[i] = bz
	}
	return merkle.HashFromByteSlices(bzs)
}

func c06RefParamsHash(p tmproto.ConsensusParams) []byte {
	hp := tmproto.HashedParams{BlockMaxBytes: p.Block.MaxBytes, BlockMaxGas: p.Block.MaxGas}
	bz, err := hp.Marshal()
	if err != nil {
		panic(err)
	}
	return tmhash.Sum(bz)
}

func c06RefResultsHash(rs []abci.ResponseDeliverTx) []byte {
	bzs := make([][]byte, len(rs))
	for i, r := range rs {
		d := abci.ResponseDeliverTx{Code: r.Code, Data: r.Data, GasWanted: r.GasWanted, GasUsed: r.GasUsed}
		bz, err := d.Marshal()
		if err != nil {
			panic(err)
		}
		bzs[i] = bz
	}
	return merkle.HashFromByteSlices(bzs)
}

func c06TotalPower(m map[int]int64) *big.Int {
	s := new(big.Int)
	for _, p := range m {
		s.Add(s, big.NewInt(p))
	}
	return s
}

// ---------------------------------------------------------------------------------------------
// weighted median, reference version (math/big cumulative weights)

type c06WT struct {
	t time.Time
	w int64
}

// lower/upper weighted median of the multiset in which each time occurs `w` times; implPos is the
// element at 1-based position max(1, floor(P/2)) of that multiset.
func c06RefMedian(ws []c06WT) (lower, upper, implPos time.Time, ok bool) {
	if len(ws) == 0 {
		return
	}
	s := append([]c06WT{}, ws...)
	sort.SliceStable(s, func(i, j int) bool { return s[i].t.Before(s[j].t) })
	P := new(big.Int)
	for _, x := range s {
		P.Add(P, big.NewInt(x.w))
	}
	half := new(big.Int).Div(P, big.NewInt(2)) // floor
	cum := new(big.Int)
	var gotL, gotU, gotI bool
	for _, x := range s {
		cum.Add(cum, big.NewInt(x.w))
		two := new(big.Int).Mul(cum, big.NewInt(2))
		if !gotL && two.Cmp(P) >= 0 {
			lower, gotL = x.t, true
		}
		if !gotU && two.Cmp(P) > 0 {
			upper, gotU = x.t, true
		}
		if !gotI && cum.Cmp(half) >= 0 {
			implPos, gotI = x.t, true
		}
	}
	return lower, upper, implPos, gotL && gotU
}

// ---------------------------------------------------------------------------------------------
// the world

type c06Cfg struct {
	Name       string
	Powers     []int64
	Initial    int64
	ChainID    string
	MaxBytes   int64
	EvMaxBytes int64
	Skew       bool // replica 2's application returns different non-deterministic DeliverTx fields
}

type c06World struct {
	env    *c06Env
	cfg    c06Cfg
	r1, r2 *c06Replica
	rec    *c06Rec
	script map[int64]abci.ResponseEndBlock
	// commit of the last applied block (goes into the next block), with its slot pattern name
	lastCommit   *types.Commit
	commitBenign bool
	nextKey      int
	evSeq        int
	findings     []c06Finding
	committed    []types.Evidence // evidence objects in applied blocks
}

type c06Finding struct{ Key, What string }

func (w *c06World) fail(key, what string) {
	for _, f := range w.findings {
		if f.Key == key {
			return
		}
	}
	w.findings = append(w.findings, c06Finding{key, what})
}

var c06Genesis = time.Date(2022, 3, 4, 5, 6, 7, 123456789, time.UTC)

func c06NewWorld(env *c06Env, c c06Cfg) *c06World {
	w := &c06World{env: env, cfg: c, script: map[int64]abci.ResponseEndBlock{}}
	gvs := make([]types.GenesisValidator, len(c.Powers))
	vals := map[int]int64{}
	for i, p := range c.Powers {
		pk := env.keys[i].PubKey()
		gvs[i] = types.GenesisValidator{Address: pk.Address(), PubKey: pk, Power: p, Name: fmt.Sprintf("v%d", i)}
		vals[i] = p
	}
	w.nextKey = len(c.Powers)
	cp := types.DefaultConsensusParams()
	cp.Block.MaxBytes = c.MaxBytes
	cp.Evidence.MaxBytes = c.EvMaxBytes
	gd := &types.GenesisDoc{GenesisTime: c06Genesis, ChainID: c.ChainID, InitialHeight: c.Initial, Validators: gvs,
		ConsensusParams: cp, AppHash: []byte("c06-genesis-app-hash")}
	gen, err := sm.MakeGenesisState(gd)
	if err != nil {
		panic(err)
	}
	skew := ""
	if c.Skew {
		skew = "replica2"
	}
	w.r1 = c06NewReplica("r1", gen, w.script, "")
	w.r2 = c06NewReplica("r2", gen, w.script, skew)
	w.r1.app.hash = append([]byte{}, gd.AppHash...)
	w.r2.app.hash = append([]byte{}, gd.AppHash...)
	w.rec = &c06Rec{chainID: c.ChainID, initial: c.Initial, genesis: c06Genesis, lastTime: c06Genesis,
		appHash: append([]byte{}, gd.AppHash...), appVer: 0, params: *cp,
		last: map[int]int64{}, cur: c06CopyVals(vals), next: c06CopyVals(vals),
		committedEv: map[string]bool{}, validEv: map[string]bool{}, invalidEv: map[string]string{}}
	w.lastCommit = types.NewCommit(0, 0, types.BlockID{}, nil)
	return w
}

// ---------------------------------------------------------------------------------------------
// commits

// slot kinds of a commit pattern
const (
	c06SlotCommit = 'C'
	c06SlotNil    = 'N'
	c06SlotAbsent = 'A'
)

type c06SlotSpec struct {
	kind byte
	ts   time.Time
}

const (
	c06PatAll       = iota // everyone signs, distinct increasing timestamps in slot order
	c06PatAbsentRev        // the lowest-power member absent when >2/3 remains; timestamps decreasing in slot order
	c06PatNilEqual         // the lowest-power member votes nil when >2/3 remains; all timestamps equal
	c06PatByzEarly         // one member with <1/3 power stamps long before the block; others increasing
	c06PatAbsentByz        // one absent AND one (<1/3) stamps before the block — the minimal commit with one faulty member
	c06PatByzFuture        // one member with <1/3 power stamps far in the future
	c06PatStale            // everybody stamps before the block (not a behaviour of >2/3 correct validators)
	c06PatAbsentBig        // the highest-power member whose absence still leaves >2/3 is absent; timestamps increasing in slot order
	c06NPatterns
)

var c06PatNames = []string{"all", "absent-rev", "nil-equal", "byz-early", "absent+byz-early", "byz-future", "stale", "absent-big"}

// makeCommit signs a commit for (height, blockID) by the set `vals` (the validators of that height).
// It returns the commit and whether the pattern is "benign": faulty timestamps come from <1/3 power
// and all others are later than blockTime.
func (w *c06World) makeCommit(pat int, h int64, bid types.BlockID, blockTime time.Time, vals map[int]int64) (*types.Commit, bool) {
	ord := w.env.ordered(vals)
	n := len(ord)
	total := c06TotalPower(vals)
	spec := make([]c06SlotSpec, n)
	base := blockTime.Add(time.Second)
	for i := range spec {
		spec[i] = c06SlotSpec{c06SlotCommit, base.Add(time.Duration(i)*100*time.Millisecond + time.Duration(i))}
	}
	// can the members in `out` stop signing for the block and still leave > 2/3?
	remainsOK := func(out ...int) bool {
		s := new(big.Int)
		for i, v := range ord {
			skip := false
			for _, o := range out {
				if o == i {
					skip = true
				}
			}
			if !skip {
				s.Add(s, big.NewInt(v.power))
			}
		}
		return new(big.Int).Mul(s, big.NewInt(3)).Cmp(new(big.Int).Mul(total, big.NewInt(2))) > 0
	}
	minority := func(i int) bool { // strictly less than one third
		return new(big.Int).Mul(big.NewInt(ord[i].power), big.NewInt(3)).Cmp(total) < 0
	}
	benign := true
	last := n - 1
	switch pat {
	case c06PatAll:
	case c06PatAbsentRev:
		for i := range spec {
			spec[i].ts = base.Add(time.Duration(n-i) * 100 * time.Millisecond)
		}
		if n > 1 && remainsOK(last) {
			spec[last] = c06SlotSpec{kind: c06SlotAbsent}
		}
	case c06PatNilEqual:
		for i := range spec {
			spec[i].ts = base
		}
		if n > 1 && remainsOK(last) {
			spec[last].kind = c06SlotNil
		}
	case c06PatByzEarly:
		if n > 1 && minority(last) {
			spec[last].ts = blockTime.Add(-time.Hour)
		}
	case c06PatAbsentByz:
		if n > 2 && remainsOK(last-1) && minority(last) {
			spec[last-1] = c06SlotSpec{kind: c06SlotAbsent}
			spec[last].ts = blockTime.Add(-time.Hour)
		}
	case c06PatByzFuture:
		if n > 1 && minority(last) {
			spec[last].ts = blockTime.Add(1000 * time.Hour)
		}
	case c06PatAbsentBig:
		for i := 0; i < n; i++ {
			if n > 1 && remainsOK(i) {
				spec[i] = c06SlotSpec{kind: c06SlotAbsent}
				break
			}
		}
	case c06PatStale:
		for i := range spec {
			spec[i].ts = blockTime.Add(-time.Second - time.Duration(i))
		}
		benign = false
	}
	sigs := make([]types.CommitSig, n)
	for i, v := range ord {
		switch spec[i].kind {
		case c06SlotAbsent:
			sigs[i] = types.NewCommitSigAbsent()
		case c06SlotCommit:
			sigs[i] = types.CommitSig{BlockIDFlag: types.BlockIDFlagCommit, ValidatorAddress: v.addr, Timestamp: spec[i].ts,
				Signature: w.env.sign(v.key, w.cfg.ChainID, tmproto.PrecommitType, h, 0, bid, spec[i].ts)}
		case c06SlotNil:
			sigs[i] = types.CommitSig{BlockIDFlag: types.BlockIDFlagNil, ValidatorAddress: v.addr, Timestamp: spec[i].ts,
				Signature: w.env.sign(v.key, w.cfg.ChainID, tmproto.PrecommitType, h, 0, types.BlockID{}, spec[i].ts)}
		}
	}
	return types.NewCommit(h, 0, bid, sigs), benign
}

// ---------------------------------------------------------------------------------------------
// evidence

// makeEvidence builds duplicate-vote evidence about height eh (a stored height) by member `who`
// (position in canonical order) of the set `vals` of that height. kind: "" valid, or a defect.
func (w *c06World) makeEvidence(eh int64, ehTime time.Time, vals map[int]int64, who int, kind string) types.Evidence {
	ord := w.env.ordered(vals)
	v := ord[who%len(ord)]
	w.evSeq++
	mk := func(tag string) types.BlockID {
		return types.BlockID{Hash: tmhash.Sum([]byte(fmt.Sprintf("c06-ev-%d-%s", w.evSeq, tag))),
			PartSetHeader: types.PartSetHeader{Total: 1, Hash: tmhash.Sum([]byte(fmt.Sprintf("c06-evp-%d-%s", w.evSeq, tag)))}}
	}
	ts := ehTime.Add(time.Minute)
	signer := v.key
	if kind == "outsider" {
		signer = c06NKeys - 1
	}
	vote := func(b types.BlockID) *types.Vote {
		vt := &types.Vote{Type: tmproto.PrecommitType, Height: eh, Round: 0, BlockID: b, Timestamp: ts,
			ValidatorAddress: w.env.addrs[signer], ValidatorIndex: int32(who % len(ord))}
		vt.Signature = w.env.sign(signer, w.cfg.ChainID, tmproto.PrecommitType, eh, 0, b, ts)
		return vt
	}
	a, b := vote(mk("a")), vote(mk("b"))
	if strings.Compare(a.BlockID.Key(), b.BlockID.Key()) > 0 {
		a, b = b, a
	}
	ev := &types.DuplicateVoteEvidence{VoteA: a, VoteB: b, TotalVotingPower: c06TotalPower(vals).Int64(),
		ValidatorPower: v.power, Timestamp: ehTime}
	switch kind {
	case "badsig":
		s := append([]byte{}, ev.VoteB.Signature...)
		s[5] ^= 0x40
		ev.VoteB.Signature = s
	case "wrongpower":
		ev.ValidatorPower++
	case "wrongtime":
		ev.Timestamp = ehTime.Add(time.Nanosecond)
	}
	if kind == "" {
		w.rec.validEv[string(ev.Bytes())] = true
	} else {
		w.rec.invalidEv[string(ev.Bytes())] = kind
	}
	return ev
}

// ---------------------------------------------------------------------------------------------
// wire: what a receiving node does with a proposal block

// c06Wire serialises the block, splits it into parts of partSize, pushes every part through its own
// proto round trip into a fresh PartSet (as addProposalBlockPart does), reassembles and decodes.
func c06Wire(block *types.Block, partSize uint32) (*types.Block, *types.PartSet, int64, error) {
	ps := block.MakePartSet(partSize)
	rx := types.NewPartSetFromHeader(ps.Header())
	for i := 0; i < int(ps.Total()); i++ {
		pp, err := ps.GetPart(i).ToProto()
		if err != nil {
			return nil, nil, 0, err
		}
		bz, err := proto.Marshal(pp)
		if err != nil {
			return nil, nil, 0, err
		}
		pp2 := new(tmproto.Part)
		if err := proto.Unmarshal(bz, pp2); err != nil {
			return nil, nil, 0, err
		}
		part, err := types.PartFromProto(pp2)
		if err != nil {
			return nil, nil, 0, err
		}
		if added, err := rx.AddPart(part); err != nil || !added {
			return nil, nil, 0, fmt.Errorf("AddPart %d: added=%v err=%v", i, added, err)
		}
	}
	if !rx.IsComplete() {
		return nil, nil, 0, fmt.Errorf("part set incomplete")
	}
	bz, err := io.ReadAll(rx.GetReader())
	if err != nil {
		return nil, nil, 0, err
	}
	b2, err := c06Decode(bz)
	return b2, rx, rx.ByteSize(), err
}

func c06Decode(bz []byte) (*types.Block, error) {
	pbb := new(tmproto.Block)
	if err := proto.Unmarshal(bz, pbb); err != nil {
		return nil, err
	}
	return types.BlockFromProto(pbb)
}

func c06ClonePB(pb *tmproto.Block) *tmproto.Block {
	bz, err := proto.Marshal(pb)
	if err != nil {
		panic(err)
	}
	o := new(tmproto.Block)
	if err := proto.Unmarshal(bz, o); err != nil {
		panic(err)
	}
	return o
}

func c06Safe(f func() error) (err error, panicked bool) {
	defer func() {
		if x := recover(); x != nil {
			err, panicked = fmt.Errorf("panic: %v", x), true
		}
	}()
	return f(), false
}

var _ = version.BlockProtocol
var _ mempl.Mempool = (*mempoolv0.CListMempool)(nil)
