package state_test

// C06 — chain construction: EndBlock scripts from a menu, the honest block of every height, the
// determinism comparison between the two replicas, and the update of the harness's own record.

import (
	"bytes"
	"fmt"
	"sort"
	"time"

	"github.com/gogo/protobuf/proto"

	abci "github.com/tendermint/tendermint/abci/types"
	tmproto "github.com/tendermint/tendermint/proto/tendermint/types"
	sm "github.com/tendermint/tendermint/state"
	"github.com/tendermint/tendermint/types"
)

// validator-update ops
const (
	c06VNone = iota
	c06VAdd1
	c06VRem1
	c06VRepow
	c06VShrink1
	c06VGrow3
	c06VSwap
	c06NVOps
)

// parameter-update ops
const (
	c06PNone = iota
	c06PMaxBytes
	c06PEvBytes
	c06PAppVer
	c06PTight
	c06PMaxGas
	c06NPOps
)

var c06VNames = []string{"-", "add1", "rem1", "repower", "shrink-to-1", "grow3", "swap"}
var c06PNames = []string{"-", "max-bytes", "ev-max-bytes", "app-version", "tight-max-bytes", "max-gas"}

type c06Op struct{ V, P int }

func (o c06Op) String() string { return c06VNames[o.V] + "/" + c06PNames[o.P] }

// c06Overhead is what MaxDataBytes subtracts for n validators and no evidence.
func c06Overhead(n int) int64 {
	return types.MaxOverheadForBlock + types.MaxHeaderBytes + types.MaxCommitBytes(n)
}

// buildEndBlock turns an op into the EndBlock response of the next height, relative to the current
// record. ok=false when the op does not apply (the case is then a duplicate of a shorter menu entry).
func (w *c06World) buildEndBlock(op c06Op) (abci.ResponseEndBlock, bool) {
	var res abci.ResponseEndBlock
	nx := w.rec.next
	keys := make([]int, 0, len(nx))
	for k := range nx {
		keys = append(keys, k)
	}
	sort.Ints(keys)
	upd := func(k int, p int64) {
		res.ValidatorUpdates = append(res.ValidatorUpdates, types.TM2PB.NewValidatorUpdate(w.env.keys[k].PubKey(), p))
	}
	newKey := func() int { k := w.nextKey; w.nextKey++; return k }
	sizeAfter := len(nx)
	switch op.V {
	case c06VAdd1:
		upd(newKey(), 10)
		sizeAfter++
	case c06VRem1:
		if len(keys) < 2 {
			return res, false
		}
		upd(keys[0], 0)
		sizeAfter--
	case c06VRepow:
		p := int64(1)
		if nx[keys[0]] == 1 {
			p = 7
		}
		upd(keys[0], p)
	case c06VShrink1:
		if len(keys) < 3 {
			return res, false
		}
		for _, k := range keys[1:] {
			upd(k, 0)
		}
		sizeAfter = 1
	case c06VGrow3:
		upd(newKey(), 10)
		upd(newKey(), 1)
		upd(newKey(), 5)
		sizeAfter += 3
	case c06VSwap:
		upd(newKey(), 10)
		upd(keys[0], 0)
	}
	cur := w.rec.params
	evp := func(maxBytes int64) *tmproto.EvidenceParams {
		return &tmproto.EvidenceParams{MaxAgeNumBlocks: cur.Evidence.MaxAgeNumBlocks, MaxAgeDuration: cur.Evidence.MaxAgeDuration, MaxBytes: maxBytes}
	}
	switch op.P {
	case c06PMaxBytes:
		nb := cur.Block.MaxBytes + 777
		if cur.Block.MaxBytes > 1_000_000 {
			nb = 4000
		}
		cp := &abci.ConsensusParams{Block: &abci.BlockParams{MaxBytes: nb, MaxGas: cur.Block.MaxGas}}
		if cur.Evidence.MaxBytes > nb {
			cp.Evidence = evp(1000)
		}
		res.ConsensusParamUpdates = cp
	case c06PEvBytes:
		nb := int64(0)
		if cur.Evidence.MaxBytes == 0 {
			nb = 1000
			if nb > cur.Block.MaxBytes { // Evidence.MaxBytes <= Block.MaxBytes or the update is invalid
				nb = cur.Block.MaxBytes
			}
		}
		res.ConsensusParamUpdates = &abci.ConsensusParams{Evidence: evp(nb)}
	case c06PAppVer:
		res.ConsensusParamUpdates = &abci.ConsensusParams{Version: &tmproto.VersionParams{AppVersion: w.rec.appVer + 1}}
	case c06PTight:
		// just enough for header + commit of the larger of the sets the next blocks will carry, + 64 bytes of data
		n := len(w.rec.cur)
		if len(nx) > n {
			n = len(nx)
		}
		if sizeAfter > n {
			n = sizeAfter
		}
		nb := c06Overhead(n) + 64
		if nb == cur.Block.MaxBytes {
			return res, false
		}
		cp := &abci.ConsensusParams{Block: &abci.BlockParams{MaxBytes: nb, MaxGas: cur.Block.MaxGas}}
		if cur.Evidence.MaxBytes > nb {
			cp.Evidence = evp(nb)
		}
		res.ConsensusParamUpdates = cp
	case c06PMaxGas:
		ng := int64(50)
		if cur.Block.MaxGas == 50 {
			ng = -1
		}
		res.ConsensusParamUpdates = &abci.ConsensusParams{Block: &abci.BlockParams{MaxBytes: cur.Block.MaxBytes, MaxGas: ng}}
	}
	return res, true
}

// recApply updates the harness's record for an applied block (documented ABCI semantics: validator
// updates returned at H take effect at H+2, parameter updates at H+1, each non-nil group replaces).
func (w *c06World) recApply(block *types.Block, blockID types.BlockID, eb abci.ResponseEndBlock) {
	rec := w.rec
	rec.height = block.Height
	rec.lastID = blockID
	rec.lastTime = block.Time
	var digest []byte
	rec.results = rec.results[:0]
	for _, tx := range block.Txs {
		digest = c06TxDigest(digest, tx)
		rec.results = append(rec.results, c06TxResult(tx))
	}
	rec.haveRes = true
	rec.appHash = c06NextAppHash(rec.appHash, block.Height, digest)
	rec.last = rec.cur
	rec.cur = rec.next
	nn := c06CopyVals(rec.next)
	for _, u := range eb.ValidatorUpdates {
		pk, err := types.PB2TM.ValidatorUpdates([]abci.ValidatorUpdate{u})
		if err != nil {
			panic(err)
		}
		k := w.env.byAdr[string(pk[0].Address)]
		if u.Power == 0 {
			delete(nn, k)
		} else {
			nn[k] = u.Power
		}
	}
	rec.next = nn
	if pu := eb.ConsensusParamUpdates; pu != nil {
		if pu.Block != nil {
			rec.params.Block.MaxBytes, rec.params.Block.MaxGas = pu.Block.MaxBytes, pu.Block.MaxGas
		}
		if pu.Evidence != nil {
			rec.params.Evidence = *pu.Evidence
		}
		if pu.Version != nil {
			rec.params.Version.AppVersion = pu.Version.AppVersion
			rec.appVer = pu.Version.AppVersion
		}
	}
	for _, ev := range block.Evidence.Evidence {
		k := string(ev.Bytes())
		rec.committedEv[k] = true
		delete(rec.validEv, k)
		w.committed = append(w.committed, ev)
	}
}

// honest-block content classes
func c06Txs(class int, h int64) []types.Tx {
	switch class {
	case 1:
		return []types.Tx{{byte(h), 1}}
	case 2:
		return []types.Tx{{3, byte(h)}, {8, 1, 2, 3, byte(h)}, bytes.Repeat([]byte{byte(h) | 1}, 40)}
	case 3: // forces a second 64 kB part
		return []types.Tx{bytes.Repeat([]byte{byte(h)}, 70000), {7}}
	}
	return nil
}

// honestBlock builds the block a correct proposer makes with the given content (State.MakeBlock on replica 1's state).
func (w *c06World) honestBlock(txClass, nEv int) (*types.Block, *types.PartSet) {
	S := w.r1.state
	H := w.rec.nextHeight()
	var evs []types.Evidence
	if H > w.rec.initial {
		for i := 0; i < nEv; i++ {
			evs = append(evs, w.makeEvidence(H-1, w.rec.lastTime, w.rec.last, int(H)+i, ""))
		}
	}
	// a correct proposer never carries more evidence than Evidence.MaxBytes allows
	for len(evs) > 0 {
		ed := types.EvidenceData{Evidence: evs}
		if ed.ByteSize() <= w.rec.params.Evidence.MaxBytes {
			break
		}
		evs = evs[:len(evs)-1]
	}
	return S.MakeBlock(H, c06Txs(txClass, H), w.lastCommit, evs, S.Validators.GetProposer().Address)
}

func c06StateProtoBytes(s sm.State) []byte { return s.Bytes() }

// apply applies the block on both replicas (replica 1: the object; replica 2: the decoded wire copy
// on a state re-loaded from its own store) and compares everything the property names.
// It returns false when the block could not be applied (a finding or a diagnostic has been recorded).
func (w *c06World) apply(block *types.Block, parts *types.PartSet, op c06Op, eb abci.ResponseEndBlock, r reporter) bool {
	H := block.Height
	w.script[H] = eb
	// the gossip path with the production part size, and once more with a small part size (many parts)
	b2, rx, _, err := c06Wire(block, types.BlockPartSizeBytes)
	if err != nil {
		w.fail("types/block.go:wire-roundtrip:honest-block-does-not-decode", fmt.Sprintf("height %d: %v", H, err))
		return false
	}
	if b3, _, _, err := c06Wire(block, 97); err != nil || !bytes.Equal(b3.Hash(), block.Hash()) {
		w.fail("types/part_set.go:wire-roundtrip:small-parts-differ", fmt.Sprintf("height %d: %v", H, err))
		return false
	}
	id1 := types.BlockID{Hash: block.Hash(), PartSetHeader: parts.Header()}
	id2 := types.BlockID{Hash: b2.Hash(), PartSetHeader: rx.Header()}
	if !id1.Equals(id2) {
		w.fail("types/block.go:Hash:differs-after-wire-roundtrip", fmt.Sprintf("height %d: %v vs %v", H, id1, id2))
		return false
	}
	S1 := w.r1.state
	S2, err := w.r2.store.Load()
	if err != nil {
		panic(err)
	}
	if !bytes.Equal(S1.Bytes(), S2.Bytes()) {
		w.fail("state/store.go:Load:state-differs-from-in-memory-state", fmt.Sprintf("before height %d", H))
		return false
	}
	w.r1.bstore.save(block, parts)
	w.r2.bstore.save(b2, rx)
	var n1, n2 sm.State
	e1, p1 := c06Safe(func() (err error) { n1, _, err = w.r1.exec.ApplyBlock(S1, id1, block); return })
	e2, p2 := c06Safe(func() (err error) { n2, _, err = w.r2.exec.ApplyBlock(S2, id2, b2); return })
	if (e1 == nil) != (e2 == nil) || p1 != p2 {
		w.fail("state/execution.go:ApplyBlock:replicas-disagree-on-success", fmt.Sprintf("height %d op %v: r1=%v r2=%v", H, op, e1, e2))
		return false
	}
	if e1 != nil {
		if p1 {
			r.Add("diag_applyblock_panics_on_both_replicas", 1)
			r.Note(fmt.Sprintf("ApplyBlock panics identically on both replicas (cfg %s op %v): %.160s", w.cfg.Name, op, e1.Error()))
			r.Outcome("apply:panic-both")
		} else {
			r.Outcome("apply:error-both:" + c06ErrClass(e1))
			w.fail("state/execution.go:ApplyBlock:rejects-block-it-validated", fmt.Sprintf("height %d op %v: %v", H, op, e1))
		}
		return false
	}
	if !bytes.Equal(n1.Bytes(), n2.Bytes()) {
		w.fail("state/execution.go:updateState:next-state-differs-between-replicas",
			fmt.Sprintf("height %d op %v: %d vs %d bytes", H, op, len(n1.Bytes()), len(n2.Bytes())))
		return false
	}
	for _, rp := range []*c06Replica{w.r1, w.r2} {
		ld, err := rp.store.Load()
		if err != nil || !bytes.Equal(ld.Bytes(), n1.Bytes()) {
			w.fail("state/store.go:Save:stored-state-differs-from-returned-state", fmt.Sprintf("height %d replica %s err=%v", H, rp.name, err))
			return false
		}
	}
	a1, err1 := w.r1.store.LoadABCIResponses(H)
	a2, err2 := w.r2.store.LoadABCIResponses(H)
	if err1 != nil || err2 != nil {
		w.fail("state/store.go:LoadABCIResponses:missing", fmt.Sprintf("height %d: %v %v", H, err1, err2))
		return false
	}
	if !w.cfg.Skew {
		bz1, _ := proto.Marshal(a1)
		bz2, _ := proto.Marshal(a2)
		if !bytes.Equal(bz1, bz2) {
			w.fail("state/execution.go:ApplyBlock:saved-abci-responses-differ", fmt.Sprintf("height %d", H))
			return false
		}
	} else {
		r.Add("skewed_applies", 1)
	}
	// what the stores answer about the future must agree too
	v1, ev1 := w.r1.store.LoadValidators(H + 2)
	v2, ev2 := w.r2.store.LoadValidators(H + 2)
	if ev1 != nil || ev2 != nil || !bytes.Equal(v1.Hash(), v2.Hash()) || !bytes.Equal(v1.Hash(), n1.NextValidators.Hash()) {
		w.fail("state/store.go:LoadValidators:next-set-differs", fmt.Sprintf("height %d: %v %v", H+2, ev1, ev2))
		return false
	}
	w.r1.state, w.r2.state = n1, n2
	w.recApply(block, id1, eb)
	// cross-check of the transition against the record (the sweep would find it too, one height later)
	if !bytes.Equal(n1.AppHash, w.rec.appHash) || n1.LastBlockHeight != w.rec.height || !n1.LastBlockTime.Equal(w.rec.lastTime) ||
		!bytes.Equal(n1.Validators.Hash(), w.env.refValHash(w.rec.cur)) || !bytes.Equal(n1.NextValidators.Hash(), w.env.refValHash(w.rec.next)) ||
		!bytes.Equal(n1.LastValidators.Hash(), w.env.refValHash(w.rec.last)) || n1.Version.Consensus.App != w.rec.appVer ||
		n1.ConsensusParams.Block.MaxBytes != w.rec.params.Block.MaxBytes || n1.ConsensusParams.Evidence.MaxBytes != w.rec.params.Evidence.MaxBytes {
		w.fail("state/execution.go:updateState:next-state-differs-from-reference", fmt.Sprintf("after height %d op %v", H, op))
		return false
	}
	return true
}

// reporter is the part of vr.Report the world uses (keeps the world testable without it).
type reporter interface {
	Add(string, int64)
	Note(string)
	Outcome(string)
}

var _ = time.Second
