package state_test

// C06 — the reference predicate: "a node accepts a block for execution exactly when ..." recomputed
// field by field from the harness's own record of the chain (c06Rec), never from sm.State.

import (
	"bytes"
	"fmt"
	"math/big"
	"strings"
	"time"

	"github.com/tendermint/tendermint/crypto/merkle"
	"github.com/tendermint/tendermint/crypto/tmhash"
	tmproto "github.com/tendermint/tendermint/proto/tendermint/types"
	"github.com/tendermint/tendermint/types"
	"github.com/tendermint/tendermint/version"
)

type c06Verdict int

const (
	c06Accept c06Verdict = iota
	c06Reject
	c06Either // the statement does not decide (e.g. a >2/3 commit that also carries a garbage nil-vote slot)
)

func (v c06Verdict) String() string { return [...]string{"accept", "reject", "either"}[v] }

type c06RefResult struct {
	v      c06Verdict
	reason string // first failed condition when v == reject
	// the block time is the element just below the weighted median that the production
	// rounding (floor(P/2) with <=) selects for odd total power
	medianQuirk bool
	// set when the reference knows the median (non-initial heights, commit slots known)
	lower, upper, implPos time.Time
	haveMedian            bool
	wrongAddr             bool // a slot with a genuine signature of member i carries another member's address
}

func c06EqBytes(a, b []byte) bool { return bytes.Equal(a, b) } // nil == empty

// refSlotOK: is slot `cs` a genuine precommit by member v for (commit height, round, block | nil)?
func (w *c06World) refSlotOK(cs *tmproto.CommitSig, v c06RefVal, c *tmproto.Commit, bid types.BlockID) bool {
	tr, ok := w.env.truth[string(cs.Signature)]
	if !ok {
		return false
	}
	if tr.key != v.key || tr.chain != w.rec.chainID || tr.typ != tmproto.PrecommitType || tr.h != c.Height || tr.round != c.Round {
		return false
	}
	if !tr.ts.Equal(cs.Timestamp) {
		return false
	}
	switch cs.BlockIdFlag {
	case tmproto.BlockIDFlagCommit:
		return tr.bid == c06BidKey(bid)
	case tmproto.BlockIDFlagNil:
		return tr.bid == ""
	}
	return false
}

func c06PBBlockID(b tmproto.BlockID) types.BlockID {
	return types.BlockID{Hash: b.Hash, PartSetHeader: types.PartSetHeader{Total: b.PartSetHeader.Total, Hash: b.PartSetHeader.Hash}}
}

// ref evaluates the reference predicate on a block in wire form, for the next height of the record.
func (w *c06World) ref(pb *tmproto.Block) c06RefResult {
	rec := w.rec
	H := rec.nextHeight()
	h := &pb.Header
	res := c06RefResult{}
	rej := func(reason string) c06RefResult { res.v, res.reason = c06Reject, reason; return res }
	either := false

	// --- header fields derived from the node's state
	if h.Version.Block != version.BlockProtocol || h.Version.App != rec.appVer {
		return rej("version")
	}
	if h.ChainID != rec.chainID {
		return rej("chain-id")
	}
	if h.Height != H {
		return rej("height")
	}
	lb := c06PBBlockID(h.LastBlockId)
	if !c06EqBytes(lb.Hash, rec.lastID.Hash) || lb.PartSetHeader.Total != rec.lastID.PartSetHeader.Total ||
		!c06EqBytes(lb.PartSetHeader.Hash, rec.lastID.PartSetHeader.Hash) {
		return rej("last-block-id")
	}
	if !c06EqBytes(h.ValidatorsHash, w.env.refValHash(rec.cur)) {
		return rej("validators-hash")
	}
	if !c06EqBytes(h.NextValidatorsHash, w.env.refValHash(rec.next)) {
		return rej("next-validators-hash")
	}
	if !c06EqBytes(h.ConsensusHash, c06RefParamsHash(rec.params)) {
		return rej("consensus-hash")
	}
	if !c06EqBytes(h.AppHash, rec.appHash) {
		return rej("app-hash")
	}
	var wantRes []byte
	if rec.haveRes {
		wantRes = c06RefResultsHash(rec.results)
	}
	if !c06EqBytes(h.LastResultsHash, wantRes) {
		return rej("last-results-hash")
	}
	// proposer: the state cannot derive who proposed; the weakest derivable condition is membership
	if _, ok := w.env.byAdr[string(h.ProposerAddress)]; !ok {
		return rej("proposer-not-a-validator")
	} else if _, in := rec.cur[w.env.byAdr[string(h.ProposerAddress)]]; !in {
		return rej("proposer-not-a-validator")
	}

	// --- content hashes
	if pb.LastCommit == nil {
		return rej("no-last-commit")
	}
	cbz := make([][]byte, len(pb.LastCommit.Signatures))
	for i := range pb.LastCommit.Signatures {
		bz, err := pb.LastCommit.Signatures[i].Marshal()
		if err != nil {
			panic(err)
		}
		cbz[i] = bz
	}
	if !c06EqBytes(h.LastCommitHash, merkle.HashFromByteSlices(cbz)) {
		return rej("last-commit-hash")
	}
	tbz := make([][]byte, len(pb.Data.Txs))
	for i, tx := range pb.Data.Txs {
		tbz[i] = tmhash.Sum(tx)
	}
	if !c06EqBytes(h.DataHash, merkle.HashFromByteSlices(tbz)) {
		return rej("data-hash")
	}
	ebz := make([][]byte, len(pb.Evidence.Evidence))
	for i := range pb.Evidence.Evidence {
		dve := pb.Evidence.Evidence[i].GetDuplicateVoteEvidence()
		if dve == nil {
			return rej("evidence-unknown-kind")
		}
		bz, err := dve.Marshal()
		if err != nil {
			panic(err)
		}
		ebz[i] = bz
	}
	if !c06EqBytes(h.EvidenceHash, merkle.HashFromByteSlices(ebz)) {
		return rej("evidence-hash")
	}

	// --- evidence admissible
	seen := map[string]bool{}
	for _, bz := range ebz {
		k := string(bz)
		if seen[k] {
			return rej("evidence-duplicate-in-block")
		}
		seen[k] = true
		if rec.committedEv[k] {
			return rej("evidence-already-committed")
		}
		if why, bad := rec.invalidEv[k]; bad {
			return rej("evidence-invalid-" + why)
		}
		if !rec.validEv[k] {
			either = true // not built by the harness: no ground truth
		}
	}
	if len(ebz) > 0 && int64(pb.Evidence.Size()) > rec.params.Evidence.MaxBytes {
		return rej("evidence-over-max-bytes")
	}

	// --- last commit and time
	c := pb.LastCommit
	if H == rec.initial {
		if len(c.Signatures) != 0 {
			return rej("initial-block-has-commit-signatures")
		}
		if !h.Time.Equal(rec.genesis) {
			return rej("time-not-genesis")
		}
	} else {
		if c.Height != H-1 {
			return rej("commit-height")
		}
		cb := c06PBBlockID(c.BlockID)
		if !c06EqBytes(cb.Hash, rec.lastID.Hash) || cb.PartSetHeader.Total != rec.lastID.PartSetHeader.Total ||
			!c06EqBytes(cb.PartSetHeader.Hash, rec.lastID.PartSetHeader.Hash) {
			return rej("commit-block-id")
		}
		ord := w.env.ordered(rec.last)
		if len(c.Signatures) != len(ord) {
			return rej("commit-size")
		}
		forBlock := new(big.Int)
		var wts []c06WT     // weighted by the power of the member the slot names (what a reader of the commit sees)
		var wtsTrue []c06WT // weighted by the power of the member that really signed the slot (index-bound)
		allSigsOK := true
		for i := range c.Signatures {
			cs := &c.Signatures[i]
			switch cs.BlockIdFlag {
			case tmproto.BlockIDFlagAbsent:
				if len(cs.ValidatorAddress) != 0 || len(cs.Signature) != 0 || !cs.Timestamp.IsZero() {
					either = true // malformed absent slot: carries no vote, the statement is silent
				}
				continue
			case tmproto.BlockIDFlagCommit, tmproto.BlockIDFlagNil:
				if w.refSlotOK(cs, ord[i], c, cb) {
					if cs.BlockIdFlag == tmproto.BlockIDFlagCommit {
						forBlock.Add(forBlock, big.NewInt(ord[i].power))
					}
					wtsTrue = append(wtsTrue, c06WT{cs.Timestamp, ord[i].power})
					if !bytes.Equal(cs.ValidatorAddress, ord[i].addr) {
						// genuine signature of member i over the right vote, but the slot names another address (the
						// address is not signed): the statement does not say whether this is "a valid commit"
						either = true
						res.wrongAddr = true
					}
				} else {
					either = true // an invalid slot next to enough valid ones: not decided by the statement
					allSigsOK = false
				}
			default:
				either = true
				continue
			}
			// the median is taken over the votes present in the commit, weighted by the power of the claimed member
			if k, ok := w.env.byAdr[string(cs.ValidatorAddress)]; ok {
				if p, in := rec.last[k]; in {
					wts = append(wts, c06WT{cs.Timestamp, p})
				}
			}
		}
		total := c06TotalPower(rec.last)
		if new(big.Int).Mul(forBlock, big.NewInt(3)).Cmp(new(big.Int).Mul(total, big.NewInt(2))) <= 0 {
			return rej("commit-without-two-thirds")
		}
		if !h.Time.After(rec.lastTime) {
			// (also what the median rule implies when >2/3 is correct; stated separately in the property)
			res.lower, res.upper, res.implPos, res.haveMedian = c06RefMedian(wts)
			res.medianQuirk = res.haveMedian && !res.implPos.Equal(res.lower) && h.Time.Equal(res.implPos)
			return rej("time-not-after-previous-block")
		}
		if res.wrongAddr && allSigsOK {
			// every present slot is a genuine vote of the member at its index, but some slot names another member.
			// Whether or not such a commit counts as valid, a block whose time is not the median of the votes
			// weighted by the power of the members who cast them must not be accepted.
			lo, up, ip, ok := c06RefMedian(wtsTrue)
			res.lower, res.upper, res.implPos, res.haveMedian = lo, up, ip, ok
			if ok && !h.Time.Equal(lo) && !h.Time.Equal(up) && !h.Time.Equal(ip) {
				return rej("time-not-weighted-median-of-the-signers")
			}
			res.v = c06Either
			return res
		}
		lo, up, ip, ok := c06RefMedian(wts)
		res.lower, res.upper, res.implPos, res.haveMedian = lo, up, ip, ok
		if !ok {
			return rej("time-no-median")
		}
		if !h.Time.Equal(lo) && !h.Time.Equal(up) {
			res.medianQuirk = !ip.Equal(lo) && h.Time.Equal(ip)
			return rej("time-not-weighted-median")
		}
		if !lo.Equal(up) {
			either = true // even split: lower and upper median are both "the" weighted median
		}
	}
	if either {
		res.v = c06Either
	}
	return res
}

// c06ErrClass maps a production error to a short stable class (for outcome histograms and keys).
func c06ErrClass(err error) string {
	if err == nil {
		return "ok"
	}
	s := err.Error()
	ls := strings.ToLower(s)
	for _, p := range [][2]string{
		{"panic:", "panic"},
		{"wrong Block.Header.Version", "version"}, {"block protocol is incorrect", "basic:version"},
		{"wrong Block.Header.ChainID", "chain-id"}, {"chainID is too long", "basic:chain-id"},
		{"wrong Block.Header.Height", "height"}, {"zero Height", "basic:height"}, {"negative Height", "basic:height"},
		{"wrong Block.Header.LastBlockID", "last-block-id"}, {"wrong LastBlockID", "basic:last-block-id"},
		{"wrong Block.Header.AppHash", "app-hash"}, {"wrong Block.Header.ConsensusHash", "consensus-hash"},
		{"wrong Block.Header.LastResultsHash", "last-results-hash"},
		{"wrong Block.Header.ValidatorsHash", "validators-hash"}, {"wrong Block.Header.NextValidatorsHash", "next-validators-hash"},
		{"initial block can't have LastCommit", "commit-initial"},
		{"is not a validator", "proposer"}, {"ProposerAddress", "basic:proposer"},
		{"not greater than last block time", "time-not-after"}, {"invalid block time", "time-not-median"},
		{"is not equal to genesis time", "time-genesis"}, {"lower than initial height", "height-below-initial"},
		{"wrong Header.LastCommitHash", "basic:last-commit-hash"}, {"wrong Header.DataHash", "basic:data-hash"},
		{"wrong Header.EvidenceHash", "basic:evidence-hash"}, {"wrong LastCommit", "basic:commit"}, {"nil LastCommit", "basic:commit"},
		{"wrong LastCommitHash", "basic:hash-size"}, {"wrong DataHash", "basic:hash-size"}, {"wrong EvidenceHash", "basic:hash-size"},
		{"wrong ValidatorsHash", "basic:hash-size"}, {"wrong NextValidatorsHash", "basic:hash-size"},
		{"wrong ConsensusHash", "basic:hash-size"}, {"wrong LastResultsHash", "basic:hash-size"},
		{"invalid evidence (#", "basic:evidence"},
		{"invalid commit -- wrong set size", "commit:size"},
		{"wrong height", "commit:height"}, {"wrong block ID", "commit:block-id"},
		{"wrong signature", "commit:signature"}, {"insufficient voting power", "commit:power"},
		{"already committed", "evidence:committed"}, {"duplicate evidence", "evidence:duplicate"},
		{"too much evidence", "evidence:overflow"}, {"evidence", "evidence:other"},
	} {
		if strings.Contains(ls, strings.ToLower(p[0])) {
			return p[1]
		}
	}
	if len(s) > 40 {
		s = s[:40]
	}
	return "other:" + s
}

var _ = fmt.Sprint
