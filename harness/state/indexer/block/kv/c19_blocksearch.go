package kv

// C19 (block index half) — every committed block is indexed once under its height and events, and a search
// returns exactly the indexed blocks that satisfy the query.
//
// Same construction as the transaction half: every history from a structured menu (blocks at heights from a
// height-pattern menu, each with <= 2 event attributes from the attribute menu, placed in BeginBlock or
// EndBlock) is indexed into a fresh real BlockerIndexer over a MemDB, and every query with <= 2 conditions
// from the condition menu is run through the real Search and compared with a brute-force evaluation.

import (
	"context"
	"fmt"
	"regexp"
	"sort"
	"strconv"
	"strings"
	"testing"
	"time"

	dbm "github.com/tendermint/tm-db"

	abci "github.com/tendermint/tendermint/abci/types"
	"github.com/tendermint/tendermint/internal/verif/vr"
	"github.com/tendermint/tendermint/libs/pubsub/query"
	"github.com/tendermint/tendermint/types"
)

type c19Attr struct {
	Type  string `json:"type"`
	Key   string `json:"key"`
	Value string `json:"value"`
	Index bool   `json:"index"`
	End   bool   `json:"end_block,omitempty"` // emitted by EndBlock instead of BeginBlock
}

func (a c19Attr) composite() string { return a.Type + "." + a.Key }
func (a c19Attr) indexed() bool     { return a.Index && a.Type != "" && a.Key != "" }

var c19AttrMenuQuick = []c19Attr{
	{"a", "n", "1", true, false}, {"a", "n", "2", true, true}, {"a", "n", "10", true, false},
	{"a", "s", "x", true, false}, {"a", "s", "xy", true, true}, {"a", "s", "x/y", true, false},
	{"b", "n", "1", true, true},
	{"a", "n", "2", false, false}, {"a", "s", "x", false, true},
	{"", "n", "1", true, false}, {"a", "", "1", true, true},
}

var c19AttrMenuThorough = append(append([]c19Attr{}, c19AttrMenuQuick...),
	c19Attr{"a", "n", "x", true, false}, c19Attr{"a", "s", "1", true, true}, c19Attr{"b", "s", "x/y", true, false}, c19Attr{"a", "s", "y", true, true},
	c19Attr{"a", "n", "1", true, true}) // the same attribute from EndBlock

type c19Block struct {
	Height int64     `json:"height"`
	Attrs  []c19Attr `json:"attrs"`
}

type c19Cond struct {
	Key  string  `json:"key"`
	Op   string  `json:"op"`
	Kind string  `json:"kind"`
	I    int64   `json:"i,omitempty"`
	F    float64 `json:"f,omitempty"`
	S    string  `json:"s,omitempty"`
}

func (c c19Cond) text() string {
	switch {
	case c.Op == "EXISTS":
		return c.Key + " EXISTS"
	case c.Kind == "int":
		return fmt.Sprintf("%s %s %d", c.Key, c.Op, c.I)
	case c.Kind == "float":
		return fmt.Sprintf("%s %s %s", c.Key, c.Op, strconv.FormatFloat(c.F, 'f', 1, 64))
	default:
		return fmt.Sprintf("%s %s '%s'", c.Key, c.Op, c.S)
	}
}

func c19CondMenu(thorough bool) []c19Cond {
	var m []c19Cond
	ic := func(k, op string, v int64) { m = append(m, c19Cond{Key: k, Op: op, Kind: "int", I: v}) }
	sc := func(k, op, v string) { m = append(m, c19Cond{Key: k, Op: op, Kind: "str", S: v}) }
	ex := func(k string) { m = append(m, c19Cond{Key: k, Op: "EXISTS"}) }
	ic("a.n", "=", 1)
	ic("a.n", "=", 2)
	ic("a.n", "=", 10)
	ic("a.n", "<", 2)
	ic("a.n", "<=", 2)
	ic("a.n", ">", 1)
	ic("a.n", ">=", 2)
	ic("a.n", ">=", 10)
	ic("a.n", "<", 10)
	ex("a.n")
	sc("a.n", "CONTAINS", "1")
	sc("a.s", "=", "x")
	sc("a.s", "=", "xy")
	sc("a.s", "=", "x/y")
	sc("a.s", "=", "y")
	sc("a.s", "CONTAINS", "x")
	sc("a.s", "CONTAINS", "y")
	ex("a.s")
	ic("a.s", ">", 0)
	ic("b.n", "=", 1)
	ex("b.n")
	ic("block.height", "=", 1)
	ic("block.height", "=", 2)
	ic("block.height", "=", 10)
	ic("block.height", "<", 2)
	ic("block.height", "<=", 2)
	ic("block.height", ">", 1)
	ic("block.height", ">=", 10)
	ex("block.height")
	m = append(m, c19Cond{Key: "a.n", Op: ">", Kind: "float", F: 1.5})
	m = append(m, c19Cond{Key: "a.n", Op: ">=", Kind: "float", F: 1.5})
	if thorough {
		ic("a.n", ">", 2)
		ic("a.n", "<=", 1)
		ic("a.n", "<=", 10)
		sc("a.n", "=", "1")
		sc("a.n", "=", "x")
		sc("a.s", "CONTAINS", "/")
		sc("a.s", "CONTAINS", "xy")
		sc("a.s", "=", "1")
		sc("b.s", "=", "x")
		sc("b.s", "CONTAINS", "y")
		ic("b.n", ">", 0)
		ic("block.height", "=", 3)
		ic("block.height", ">=", 2)
		ic("block.height", "<", 10)
		ic("block.height", "<=", 10)
		m = append(m, c19Cond{Key: "a.n", Op: "<=", Kind: "float", F: 2.5})
	}
	return m
}

var c19IntRe = regexp.MustCompile(`^[0-9]+$`)

func c19Sat(op string, sgn int) bool {
	switch op {
	case "=":
		return sgn == 0
	case "<":
		return sgn < 0
	case "<=":
		return sgn <= 0
	case ">":
		return sgn > 0
	case ">=":
		return sgn >= 0
	}
	return false
}

func c19Values(b c19Block, k string) []string {
	if k == "block.height" {
		return []string{strconv.FormatInt(b.Height, 10)}
	}
	var out []string
	for _, a := range b.Attrs {
		if a.indexed() && a.composite() == k {
			out = append(out, a.Value)
		}
	}
	return out
}

func c19CondHolds(c c19Cond, b c19Block) bool {
	vals := c19Values(b, c.Key)
	if c.Op == "EXISTS" {
		return len(vals) > 0
	}
	for _, v := range vals {
		switch c.Kind {
		case "str":
			if c.Op == "=" && v == c.S {
				return true
			}
			if c.Op == "CONTAINS" && strings.Contains(v, c.S) {
				return true
			}
		case "int", "float":
			if !c19IntRe.MatchString(v) {
				continue
			}
			x, _ := strconv.ParseFloat(v, 64)
			bound := c.F
			if c.Kind == "int" {
				bound = float64(c.I)
			}
			sgn := 0
			if x < bound {
				sgn = -1
			} else if x > bound {
				sgn = 1
			}
			if c19Sat(c.Op, sgn) {
				return true
			}
		}
	}
	return false
}

func c19IsRange(c c19Cond) bool { return c.Op == "<" || c.Op == "<=" || c.Op == ">" || c.Op == ">=" }

// see the transaction half: two ranges on one multi-valued key are not judged
func c19Ambiguous(conds []c19Cond, b c19Block) bool {
	for i := range conds {
		for j := i + 1; j < len(conds); j++ {
			if c19IsRange(conds[i]) && c19IsRange(conds[j]) && conds[i].Key == conds[j].Key {
				seen := map[string]bool{}
				for _, v := range c19Values(b, conds[i].Key) {
					seen[v] = true
				}
				if len(seen) > 1 {
					return true
				}
			}
		}
	}
	return false
}

// see the transaction half: a panic reached or not depending on the map order of the ranges is not judged
func c19OrderDependent(conds []c19Cond) bool {
	for _, c := range conds {
		if c.Kind == "float" && (c.Op == "<" || c.Op == ">") {
			for _, d := range conds {
				if c19IsRange(d) && d.Key != c.Key {
					return true
				}
			}
		}
	}
	return false
}

type c19Case struct {
	Hist  []c19Block `json:"history"`
	Conds []c19Cond  `json:"conditions"`
	Query string     `json:"query,omitempty"`
}

func c19Header(b c19Block) types.EventDataNewBlockHeader {
	mk := func(end bool) []abci.Event {
		byType := map[string][]abci.EventAttribute{}
		var order []string
		for _, a := range b.Attrs {
			if a.End != end {
				continue
			}
			if _, ok := byType[a.Type]; !ok {
				order = append(order, a.Type)
			}
			byType[a.Type] = append(byType[a.Type], abci.EventAttribute{Key: []byte(a.Key), Value: []byte(a.Value), Index: a.Index})
		}
		var evs []abci.Event
		for _, ty := range order {
			evs = append(evs, abci.Event{Type: ty, Attributes: byType[ty]})
		}
		return evs
	}
	return types.EventDataNewBlockHeader{Header: types.Header{Height: b.Height},
		ResultBeginBlock: abci.ResponseBeginBlock{Events: mk(false)}, ResultEndBlock: abci.ResponseEndBlock{Events: mk(true)}}
}

func c19Build(hist []c19Block) (*BlockerIndexer, error) {
	idx := New(dbm.NewMemDB())
	for _, b := range hist {
		if err := idx.Index(c19Header(b)); err != nil {
			return nil, err
		}
	}
	return idx, nil
}

const c19P = "state/indexer/block/kv/kv.go:"

func c19Classify(conds []c19Cond, b c19Block, falsePositive bool) string {
	if len(conds) > 1 && falsePositive {
		for _, c := range conds {
			if c.Key == "block.height" && c.Op == "=" && c19CondHolds(c, b) {
				return c19P + "Search:height-equality-returns-block-regardless-of-other-conditions"
			}
		}
	}
	for _, c := range conds {
		if c.Kind == "float" && c19IsRange(c) {
			return c19P + "Search:range-with-non-integer-bound-matches-nothing"
		}
	}
	for i := range conds {
		for j := i + 1; j < len(conds); j++ {
			x, y := conds[i], conds[j]
			if c19IsRange(x) && c19IsRange(y) && x.Key == y.Key && x.Op[0] == y.Op[0] {
				return "state/indexer/query_range.go:LookForRanges:two-bounds-on-the-same-side-last-one-wins"
			}
		}
	}
	ops := map[string]bool{}
	for _, c := range conds {
		switch {
		case c19IsRange(c):
			ops["range"] = true
		case c.Op == "=":
			ops["eq"] = true
		default:
			ops[strings.ToLower(c.Op)] = true
		}
	}
	var names []string
	for k := range ops {
		names = append(names, k)
	}
	sort.Strings(names)
	kind := "missing-item"
	if falsePositive {
		kind = "extra-item"
	}
	return fmt.Sprintf("%sSearch:%s[%s]", c19P, kind, strings.Join(names, "+"))
}

func c19QueryText(conds []c19Cond) string {
	parts := make([]string, len(conds))
	for i, c := range conds {
		parts[i] = c.text()
	}
	return strings.Join(parts, " AND ")
}

func c19DescribeBlock(b c19Block) string {
	var as []string
	for _, a := range b.Attrs {
		s := fmt.Sprintf("%s.%s=%q", a.Type, a.Key, a.Value)
		if a.End {
			s += "(end)"
		}
		if !a.Index {
			s += "(not indexed)"
		}
		as = append(as, s)
	}
	return fmt.Sprintf("block@%d{%s}", b.Height, strings.Join(as, ", "))
}

func c19Search(r *vr.Report, idx *BlockerIndexer, hist []c19Block, conds []c19Cond, q *query.Query) (key, what string) {
	var got []int64
	var err error
	var panicked interface{}
	func() {
		defer func() { panicked = recover() }()
		got, err = idx.Search(context.Background(), q)
	}()
	if panicked != nil {
		if c19OrderDependent(conds) {
			r.Add("diag_panic_depends_on_range_map_order_not_judged", 1)
			return "", ""
		}
		for _, c := range conds {
			if c.Kind == "float" && c19IsRange(c) {
				return c19P + "Search:exclusive-range-with-non-integer-bound-panics", fmt.Sprintf("Search(%q) panics: %v", q.String(), panicked)
			}
		}
		return c19P + "Search:panics", fmt.Sprintf("Search(%q) panics: %v", q.String(), panicked)
	}
	if err != nil {
		r.Outcome("search:error")
		return "", ""
	}
	seen := map[int64]int{}
	for _, h := range got {
		seen[h]++
		if seen[h] > 1 {
			return c19P + "Search:item-returned-twice", fmt.Sprintf("query %q returned height %d twice", q.String(), h)
		}
	}
	known := map[int64]bool{}
	nMatch := 0
	var all []string
	for _, b := range hist {
		all = append(all, c19DescribeBlock(b))
	}
	for _, b := range hist {
		known[b.Height] = true
		want := true
		for _, c := range conds {
			if !c19CondHolds(c, b) {
				want = false
				break
			}
		}
		if want {
			nMatch++
		}
		if want == (seen[b.Height] > 0) {
			continue
		}
		if c19OrderDependent(conds) {
			r.Add("diag_panic_depends_on_range_map_order_not_judged", 1)
			return "", ""
		}
		if c19Ambiguous(conds, b) {
			r.Add("diag_two_ranges_on_multi_valued_key_not_judged", 1)
			continue
		}
		if want {
			return c19Classify(conds, b, false), fmt.Sprintf("Search(%q) does not return %s, which satisfies the query; indexed history: %s",
				q.String(), c19DescribeBlock(b), strings.Join(all, " "))
		}
		return c19Classify(conds, b, true), fmt.Sprintf("Search(%q) returns %s, which does not satisfy the query; indexed history: %s",
			q.String(), c19DescribeBlock(b), strings.Join(all, " "))
	}
	for _, h := range got {
		if !known[h] {
			return c19P + "Search:returns-height-that-was-not-indexed", fmt.Sprintf("query %q returned height %d; indexed history: %s", q.String(), h, strings.Join(all, " "))
		}
	}
	switch {
	case nMatch == 0:
		r.Outcome("search:empty")
	case nMatch == len(hist):
		r.Outcome("search:all")
	default:
		r.Outcome("search:some")
	}
	return "", ""
}

func c19Retrievable(idx *BlockerIndexer, hist []c19Block) (key, what string) {
	have := map[int64]bool{}
	for _, b := range hist {
		have[b.Height] = true
	}
	for _, h := range []int64{1, 2, 3, 10, 11} {
		ok, err := idx.Has(h)
		if err != nil {
			return c19P + "Has:error", err.Error()
		}
		if ok != have[h] {
			return c19P + "Has:disagrees-with-indexed-heights", fmt.Sprintf("Has(%d) = %v, indexed = %v", h, ok, have[h])
		}
	}
	return "", ""
}

var c19Heights = map[int][][]int64{
	1: {{1}, {10}},
	2: {{1, 2}, {1, 10}, {2, 10}},
	3: {{1, 2, 10}, {1, 2, 3}},
	4: {{1, 2, 3, 10}},
}

func c19Kinds(menu []c19Attr, pairsAmong int) [][]c19Attr {
	kinds := [][]c19Attr{{}}
	for i := range menu {
		kinds = append(kinds, []c19Attr{menu[i]})
	}
	for i := 0; i < pairsAmong; i++ {
		for j := i + 1; j < pairsAmong; j++ {
			kinds = append(kinds, []c19Attr{menu[i], menu[j]})
		}
	}
	return kinds
}

func TestVerifC19BlockIndex(t *testing.T) {
	r := vr.Start("C19", "blockindex", 90*time.Second, 15*time.Minute)
	defer r.Finish()
	r.Rule = "odometer over histories (height pattern x per-block attribute set from the attribute menu, BeginBlock/EndBlock) x all queries with <= 2 " +
		"conditions (ordered pairs) from the condition menu; every (history, query) pair is a distinct input of the real Search; non-trivial = the " +
		"brute-force result is neither empty nor the whole history"
	r.Assume("events with an empty type, attributes with an empty key and attributes without the index flag are not searchable (documented)")
	r.Assume("value alphabet: pure integers and plain strings; a query is judged per condition existentially over the block's indexed attribute values; " +
		"two range conditions on one multi-valued key are not judged")
	thorough := vr.Thorough()
	condMenu := c19CondMenu(thorough)

	run := func(c c19Case) (key, what string) {
		idx, err := c19Build(c.Hist)
		if err != nil {
			return c19P + "Index:error", err.Error()
		}
		if k, w := c19Retrievable(idx, c.Hist); k != "" {
			return k, w
		}
		q, err := query.New(c19QueryText(c.Conds))
		if err != nil {
			panic(err)
		}
		return c19Search(r, idx, c.Hist, c.Conds, q)
	}
	var rc c19Case
	if replaying, skip := r.ReplayCase(&rc); skip {
		return
	} else if replaying {
		r.Eval()
		if k, w := run(rc); k != "" {
			r.Violation(k, w, rc)
		}
		return
	}

	type pq struct {
		conds []c19Cond
		q     *query.Query
	}
	var queries []pq
	add := func(conds []c19Cond) {
		queries = append(queries, pq{conds: conds, q: query.MustParse(c19QueryText(conds))})
	}
	for i := range condMenu {
		add([]c19Cond{condMenu[i]})
	}
	for i := range condMenu {
		for j := range condMenu {
			add([]c19Cond{condMenu[i], condMenu[j]})
		}
	}
	if thorough {
		for _, a := range condMenu {
			if a.Key != "a.n" || !c19IsRange(a) {
				continue
			}
			for _, b := range condMenu {
				if b.Key != "a.s" {
					continue
				}
				for _, c := range condMenu {
					if c.Key == "block.height" && c19IsRange(c) {
						add([]c19Cond{a, b, c})
					}
				}
			}
		}
	}
	r.Set("queries_per_history", fmt.Sprint(len(queries)))

	k := 0
	stop := false
	nHist := int64(0)
	confirmed := map[string]bool{}
	doHistory := func(hist []c19Block) {
		k++
		if stop || !r.Mine(k) {
			return
		}
		if r.Deadline("history enumeration") {
			stop = true
			return
		}
		nHist++
		idx, err := c19Build(hist)
		if err != nil {
			r.Violation(c19P+"Index:error", err.Error(), c19Case{Hist: hist, Conds: []c19Cond{condMenu[0]}})
			return
		}
		if key, what := c19Retrievable(idx, hist); key != "" {
			r.Violation(key, what, c19Case{Hist: hist, Conds: []c19Cond{condMenu[0]}})
		}
		for _, p := range queries {
			r.Eval()
			key, what := c19Search(r, idx, hist, p.conds, p.q)
			if key == "" {
				continue
			}
			c := c19Case{Hist: hist, Conds: p.conds, Query: p.q.String()}
			if confirmed[key] {
				r.Violation(key, what, nil)
				continue
			}
			confirmed[key] = true
			if !vr.Confirm(3, fmt.Errorf("%s", key), func() error {
				k2, _ := run(c)
				if k2 == "" {
					return nil
				}
				return fmt.Errorf("%s", k2)
			}) {
				r.Cap("a search mismatch was not reproducible: " + p.q.String())
				continue
			}
			r.Violation(key, what, c)
		}
		if nHist%2000 == 1 {
			r.Sample(map[string]interface{}{"history": hist, "queries": len(queries)})
		}
	}

	menu := c19AttrMenuQuick
	full := c19Kinds(menu, 7)
	if thorough {
		menu = c19AttrMenuThorough
		full = c19Kinds(menu, len(menu))
	}
	small := [][]c19Attr{{}, {menu[0]}, {menu[2]}, {menu[3]}, {menu[5]}, {menu[1], menu[4]}, {menu[0], menu[1]}, {menu[7], menu[3]}, {menu[6], menu[5]}}
	enumerate := func(n int, kinds [][]c19Attr) {
		for _, hs := range c19Heights[n] {
			idx := make([]int, n)
			for !stop {
				hist := make([]c19Block, n)
				for i := 0; i < n; i++ {
					hist[i] = c19Block{Height: hs[i], Attrs: kinds[idx[i]]}
				}
				doHistory(hist)
				i := 0
				for ; i < n; i++ {
					idx[i]++
					if idx[i] < len(kinds) {
						break
					}
					idx[i] = 0
				}
				if i == n {
					break
				}
			}
		}
	}
	var done []string
	enumerate(1, full)
	done = append(done, fmt.Sprintf("1 block x %d attribute sets", len(full)))
	enumerate(3, small)
	if !stop {
		done = append(done, fmt.Sprintf("3 blocks x %d reduced attribute sets", len(small)))
	}
	if thorough {
		enumerate(4, small)
		if !stop {
			done = append(done, fmt.Sprintf("4 blocks x %d reduced attribute sets", len(small)))
		}
	}
	enumerate(2, full)
	if !stop {
		done = append(done, fmt.Sprintf("2 blocks x %d attribute sets each", len(full)))
	}
	r.Set("histories", nHist)
	r.Bound = strings.Join(done, "; ") + fmt.Sprintf("; %d queries per history from %d conditions", len(queries), len(condMenu))
	r.NTCount(r.Outcomes["search:some"])
}
