package state

// C08 part "history": the historical lookup. Histories of validator changes are executed through the real
// MakeGenesisState / validateValidatorUpdates / PB2TM / updateState / Store.Save, with initial heights just
// below a multiple of valSetCheckpointInterval (100000) so that the checkpoint indirection is crossed without
// touching the constant. The set the state machine produced for every height is recorded at the moment it
// is produced; afterwards LoadValidators(h) is asked for every height that has an entry — after every Save,
// after every PruneStates(from,to) with from<to<=tip, and after every second PruneStates(to,to2) — and must
// return exactly the recorded members, powers (in order) and proposer.

import (
	"bytes"
	"fmt"
	"sort"
	"testing"
	"time"

	dbm "github.com/tendermint/tm-db"

	abci "github.com/tendermint/tendermint/abci/types"
	"github.com/tendermint/tendermint/crypto"
	"github.com/tendermint/tendermint/crypto/ed25519"
	"github.com/tendermint/tendermint/internal/verif/vr"
	tmstate "github.com/tendermint/tendermint/proto/tendermint/state"
	"github.com/tendermint/tendermint/types"
)

const c08N = 4

var c08M = types.MaxTotalVotingPower

type c08Change struct {
	A int   `json:"a"`
	P int64 `json:"p"`
}

// c08Hist is one history plus (for replay) the observation that failed.
type c08Hist struct {
	Init      []int64       `json:"init"`                 // genesis power of address i (0 = absent)
	InitChain []int64       `json:"init_chain,omitempty"` // if set: the handshake replaces the genesis set (second Save at height 0)
	H0        int64         `json:"initial_height"`
	Blocks    [][]c08Change `json:"blocks"`           // EndBlock validator updates of block H0+i
	Prunes    [][2]int64    `json:"prunes,omitempty"` // if set: only these (from,to) ranges instead of all (long histories)
	// observation
	After  int   `json:"after,omitempty"` // blocks applied when asked (0 = all)
	From   int64 `json:"from,omitempty"`
	To     int64 `json:"to,omitempty"`
	From2  int64 `json:"from2,omitempty"`
	To2    int64 `json:"to2,omitempty"`
	Height int64 `json:"height,omitempty"`
}

type c08Env struct {
	pubs [c08N]crypto.PubKey
	idx  map[string]int
}

func newC08Env() *c08Env {
	e := &c08Env{idx: map[string]int{}}
	ps := []crypto.PubKey{}
	for i := 0; i < c08N; i++ {
		ps = append(ps, ed25519.GenPrivKeyFromSecret([]byte(fmt.Sprintf("verif-c08-key-%d", i))).PubKey())
	}
	sort.Slice(ps, func(i, j int) bool { return bytes.Compare(ps[i].Address(), ps[j].Address()) < 0 })
	for i, p := range ps {
		e.pubs[i] = p
		e.idx[string(p.Address())] = i
	}
	return e
}

// c08Snap is what was in force: members in order with powers and priorities, and the proposer.
type c08Snap struct {
	A    []int
	VP   []int64
	Prio []int64
	Prop int
	set  *types.ValidatorSet // private deep copy (for explaining a mismatch)
}

func (e *c08Env) snap(vs *types.ValidatorSet) *c08Snap {
	s := &c08Snap{Prop: -1, set: vs.Copy()}
	if vs.Proposer != nil {
		s.set.Proposer = vs.Proposer.Copy()
	}
	for _, v := range vs.Validators {
		s.A = append(s.A, e.idx[string(v.Address)])
		s.VP = append(s.VP, v.VotingPower)
		s.Prio = append(s.Prio, v.ProposerPriority)
	}
	if p := vs.GetProposer(); p != nil {
		s.Prop = e.idx[string(p.Address)]
	}
	return s
}

func (s *c08Snap) String() string {
	out := "["
	for i := range s.A {
		if i > 0 {
			out += " "
		}
		out += fmt.Sprintf("%d:vp=%d,a=%d", s.A[i], s.VP[i], s.Prio[i])
	}
	return out + fmt.Sprintf("] prop=%d", s.Prop)
}

// cmp: "" | "members" | "proposer" | "priorities" (the last is a diagnostic only)
func (s *c08Snap) cmp(o *c08Snap) string {
	if len(s.A) != len(o.A) {
		return "members"
	}
	for i := range s.A {
		if s.A[i] != o.A[i] || s.VP[i] != o.VP[i] {
			return "members"
		}
	}
	if s.Prop != o.Prop {
		return "proposer"
	}
	for i := range s.A {
		if s.Prio[i] != o.Prio[i] {
			return "priorities"
		}
	}
	return ""
}

type c08World struct {
	e     *c08Env
	db    dbm.DB
	store Store
	state State
	truth map[int64]*c08Snap
	h0    int64
	tip   int64 // LastBlockHeight (h0-1 before the first block)
}

func (e *c08Env) genesis(h *c08Hist) (*c08World, error) {
	gvs := []types.GenesisValidator{}
	for i, p := range h.Init {
		if p != 0 {
			gvs = append(gvs, types.GenesisValidator{Address: e.pubs[i].Address(), PubKey: e.pubs[i], Power: p, Name: fmt.Sprint(i)})
		}
	}
	gd := &types.GenesisDoc{ChainID: "verif-c08", InitialHeight: h.H0, GenesisTime: time.Unix(1600000000, 0).UTC(), Validators: gvs}
	st, err := MakeGenesisState(gd)
	if err != nil {
		return nil, err
	}
	w := &c08World{e: e, db: dbm.NewMemDB(), truth: map[int64]*c08Snap{}, h0: h.H0, tip: h.H0 - 1}
	w.store = NewStore(w.db, StoreOptions{})
	if err := w.store.Save(st); err != nil {
		return nil, err
	}
	if len(h.InitChain) > 0 {
		// what Handshaker.ReplayBlocks does with the validators returned by InitChain
		vals := []*types.Validator{}
		for i, p := range h.InitChain {
			if p != 0 {
				vals = append(vals, types.NewValidator(e.pubs[i], p))
			}
		}
		st.Validators = types.NewValidatorSet(vals)
		st.NextValidators = types.NewValidatorSet(vals).CopyIncrementProposerPriority(1)
		if err := w.store.Save(st); err != nil {
			return nil, err
		}
	}
	w.state = st
	w.truth[h.H0] = e.snap(st.Validators)
	w.truth[h.H0+1] = e.snap(st.NextValidators)
	return w, nil
}

// block executes the validator-relevant part of ApplyBlock for the next height.
func (w *c08World) block(updates []c08Change) error {
	height := w.tip + 1
	abciUpd := make([]abci.ValidatorUpdate, len(updates))
	for i, c := range updates {
		abciUpd[i] = types.TM2PB.NewValidatorUpdate(w.e.pubs[c.A], c.P)
	}
	if err := validateValidatorUpdates(abciUpd, w.state.ConsensusParams.Validator); err != nil {
		return err
	}
	vu, err := types.PB2TM.ValidatorUpdates(abciUpd)
	if err != nil {
		return err
	}
	resp := &tmstate.ABCIResponses{EndBlock: &abci.ResponseEndBlock{ValidatorUpdates: abciUpd}}
	hdr := &types.Header{Height: height, Time: time.Unix(1600000000+height, 0).UTC()}
	ns, err := updateState(w.state, types.BlockID{Hash: []byte(fmt.Sprintf("%032d", height))}, hdr, resp, vu)
	if err != nil {
		return err
	}
	if err := w.store.Save(ns); err != nil {
		return err
	}
	w.state = ns
	w.tip = height
	w.truth[height+2] = w.e.snap(ns.NextValidators)
	return nil
}

func c08CloneDB(db dbm.DB) dbm.DB {
	out := dbm.NewMemDB()
	it, err := db.Iterator(nil, nil)
	if err != nil {
		panic(err)
	}
	for ; it.Valid(); it.Next() {
		if err := out.Set(append([]byte{}, it.Key()...), append([]byte{}, it.Value()...)); err != nil {
			panic(err)
		}
	}
	it.Close()
	return out
}

func c08SafeLoad(s Store, h int64) (vs *types.ValidatorSet, err error) {
	defer func() {
		if x := recover(); x != nil {
			err = fmt.Errorf("panic: %v", x)
		}
	}()
	return s.LoadValidators(h)
}

// ask compares LoadValidators(h) on db with the recorded set. mustLoad: the height counts as retained.
func (w *c08World) ask(r *vr.Report, db dbm.DB, h int64, mustLoad bool, ctx string) (key, what, outcome string) {
	st := NewStore(db, StoreOptions{})
	vi, errVI := loadValidatorsInfo(db, h)
	vs, err := c08SafeLoad(st, h)
	want := w.truth[h]
	if err != nil {
		if mustLoad {
			return "state/store.go:LoadValidators:retained-height-not-loadable" + ctx,
				fmt.Sprintf("height %d (initial %d, tip %d): %v; in force there: %v", h, w.h0, w.tip, err, want), ""
		}
		return "", "", "pruned"
	}
	class := "direct"
	var last int64 = h
	if errVI == nil && vi.ValidatorSet == nil {
		class = "reconstructed"
		last = lastStoredHeightFor(h, vi.LastHeightChanged)
	}
	got := w.e.snap(vs)
	d := want.cmp(got)
	switch d {
	case "":
		return "", "", class + ":exact"
	case "priorities":
		if r != nil {
			r.Add("diag_loaded_priorities_differ_same_members_and_proposer", 1)
		}
		return "", "", class + ":priorities-differ"
	}
	// is the store doing what it is written to do, and IncrementProposerPriority(k) is what deviates?
	if class == "reconstructed" && w.truth[last] != nil {
		c := w.truth[last].set.Copy()
		c.IncrementProposerPriority(int32(h - last))
		if w.e.snap(c).cmp(got) == "" {
			return "state/store.go:LoadValidators:IncrementProposerPriority(k)-differs-from-k-single-runs", // same class with or without pruning
				fmt.Sprintf("height %d is reconstructed from the set stored at %d by IncrementProposerPriority(%d): loaded %v, in force at %d was %v (stored set at %d: %v)",
					h, last, h-last, got, h, want, last, w.truth[last]), ""
		}
	}
	return "state/store.go:LoadValidators:" + d + "-differ-from-set-in-force:" + class + ctx,
		fmt.Sprintf("height %d (initial %d, tip %d, last stored %d): loaded %v, in force was %v", h, w.h0, w.tip, last, got, want), ""
}

// run executes a history and every observation on it: all heights after every Save; with prune>=1 all heights
// after every PruneStates(from,to); with prune>=2 also after every follow-up PruneStates(to,to2) (prune>=3: also
// PruneStates(from,to2) again from the old base). viol receives each failing observation.
func (e *c08Env) run(r *vr.Report, h *c08Hist, prune int, viol func(key, what string, obs c08Hist)) (valid bool) {
	w, err := e.genesis(h)
	if err != nil {
		return false
	}
	report := func(key, what string, after int, from, to, from2, to2, q int64) {
		o := *h
		o.After, o.From, o.To, o.From2, o.To2, o.Height = after, from, to, from2, to2, q
		viol(key, what, o)
	}
	count := func(out string) {
		if r != nil && out != "" {
			r.Outcome(out)
			r.EvalN(1)
		}
	}
	for i, b := range h.Blocks {
		if err := w.block(b); err != nil {
			return false // not a history the state machine can produce
		}
		if len(h.Blocks) > 64 && i+1 < len(h.Blocks) {
			continue // long histories: ask after the last Save only
		}
		for q := w.h0; q <= w.tip+2; q++ {
			key, what, out := w.ask(r, w.db, q, true, "")
			if key != "" {
				report(key, what, i+1, 0, 0, 0, 0, q)
			}
			count(out)
		}
	}
	if prune == 0 {
		return true
	}
	n := len(h.Blocks)
	for from := w.h0; from < w.tip; from++ {
		for to := from + 1; to <= w.tip; to++ {
			if len(h.Prunes) > 0 {
				listed := false
				for _, p := range h.Prunes {
					if p[0] == from && p[1] == to {
						listed = true
					}
				}
				if !listed {
					continue
				}
			}
			db1 := c08CloneDB(w.db)
			if err := (dbStore{db1, StoreOptions{}}).PruneStates(from, to); err != nil {
				// Not judged: the statement is about lookups, not about pruning succeeding. What is judged is that
				// a refused prune leaves every retained height exactly loadable.
				if r != nil {
					r.Add("diag_PruneStates_refuses_range", 1)
					r.Note(fmt.Sprintf("PruneStates(%d,%d) with initial %d tip %d: %v", from, to, w.h0, w.tip, err))
				}
				for q := w.h0; q <= w.tip+2; q++ {
					key, what, out := w.ask(r, db1, q, true, ":after-refused-PruneStates")
					if key != "" {
						report(key, what, n, from, to, 0, 0, q)
					}
					if out != "" {
						count("refused1:" + out)
					}
				}
				continue
			}
			if r != nil {
				r.Traces++
			}
			for q := w.h0; q <= w.tip+2; q++ {
				key, what, out := w.ask(r, db1, q, q < from || q >= to, ":after-PruneStates")
				if key != "" {
					report(key, what, n, from, to, 0, 0, q)
				}
				if out != "" {
					count("pruned1:" + out)
				}
			}
			if prune < 2 {
				continue
			}
			// a second prune, as the node does when the application raises its retain height again
			for to2 := to + 1; to2 <= w.tip; to2++ {
				froms := []int64{to}
				if prune >= 3 {
					froms = []int64{from, to}
				}
				for _, from2 := range froms {
					db2 := c08CloneDB(db1)
					if err := (dbStore{db2, StoreOptions{}}).PruneStates(from2, to2); err != nil {
						if r != nil { // not judged, see above
							r.Add("diag_second_PruneStates_refuses_range", 1)
							if from2 == to {
								r.Add("diag_second_PruneStates_refuses_range_starting_at_new_base", 1)
							}
							r.Note(fmt.Sprintf("PruneStates(%d,%d) after PruneStates(%d,%d), initial %d tip %d: %v", from2, to2, from, to, w.h0, w.tip, err))
						}
						for q := w.h0; q <= w.tip+2; q++ {
							key, what, out := w.ask(r, db2, q, q < from || q >= to, ":after-refused-second-PruneStates")
							if key != "" {
								report(key, what, n, from, to, from2, to2, q)
							}
							if out != "" {
								count("refused2:" + out)
							}
						}
						continue
					}
					if r != nil {
						r.Traces++
					}
					for q := w.h0; q <= w.tip+2; q++ {
						key, what, out := w.ask(r, db2, q, q < from || q >= to2, ":after-second-PruneStates")
						if key != "" {
							report(key, what, n, from, to, from2, to2, q)
						}
						if out != "" {
							count("pruned2:" + out)
						}
					}
				}
			}
		}
	}
	return true
}

func c08SameObs(a, b c08Hist) bool {
	return a.After == b.After && a.From == b.From && a.To == b.To && a.From2 == b.From2 && a.To2 == b.To2 && a.Height == b.Height
}

func c08Batches(powers []int64, maxChanges int) [][]c08Change {
	out := [][]c08Change{}
	for a := 0; a < c08N; a++ {
		for _, p := range powers {
			out = append(out, []c08Change{{a, p}})
		}
	}
	if maxChanges >= 2 {
		for a := 0; a < c08N; a++ {
			for b := a + 1; b < c08N; b++ {
				for _, p := range powers {
					for _, q := range powers {
						out = append(out, []c08Change{{a, p}, {b, q}})
					}
				}
			}
		}
	}
	return out
}

func TestVerifC08History(t *testing.T) {
	r := vr.Start("C08", "history", 80*time.Second, 18*time.Minute)
	defer r.Finish()
	r.Rule = "case = one LoadValidators(h) observation in (history, number of blocks applied, prune sequence); histories = (genesis set, initial height just below/at a multiple of 100000, per-block EndBlock batches) " +
		"executed on the real state machine; family A: two (thorough: three) batches of <=2 changes with every gap 1..4 and a tail of 10 plain heights, no pruning; family B: <=2 single-change batches at every pair of positions of 8 blocks, " +
		"5 initial heights, every PruneStates(from,to) and every follow-up PruneStates(to,to2); family C: 1100-block histories with prune ranges around 1000 heights; evaluations = observations; non-trivial = histories with at least one accepted batch"
	r.Assume("the block-execution steps other than validateValidatorUpdates/PB2TM/updateState/Save (proxy app, block store, events) do not touch validator sets")
	r.Assume("PruneStates acts only on keys of heights in [from,to), and Save writes each validators key once: pruning between blocks equals pruning after the last block, so prune sequences are applied to copies of the final database")
	e := newC08Env()

	var rc c08Hist
	if rep, skip := r.ReplayCase(&rc); skip {
		return
	} else if rep {
		r.Eval()
		e.run(r, &rc, 3, func(key, what string, obs c08Hist) {
			if c08SameObs(obs, rc) {
				r.Violation(key, what, obs)
			}
		})
		return
	}
	M := c08M
	k := 0
	nh := 0
	stop := false
	confirmed := map[string]bool{}
	try := func(h *c08Hist, prune int) {
		k++
		if stop || !r.Mine(k) {
			return
		}
		if r.Deadline("history enumeration") {
			stop = true
			return
		}
		ok := e.run(r, h, prune, func(key, what string, obs c08Hist) {
			o := obs
			if !confirmed[key] { // confirm the first observation per key: re-executed from scratch, three times
				confirmed[key] = true
				for i := 0; i < 3; i++ {
					found := false
					e.run(nil, &o, prune, func(k2, _ string, o2 c08Hist) {
						if k2 == key && c08SameObs(o2, o) {
							found = true
						}
					})
					if !found {
						panic(fmt.Sprintf("C08 history: observation does not reproduce: %s %+v", key, o))
					}
				}
			}
			r.Violation(key, what, o)
		})
		if !ok {
			r.Add("histories_rejected_by_state_machine", 1)
			return
		}
		nh++
		r.Traces++
		nonEmpty := 0
		for _, b := range h.Blocks {
			if len(b) > 0 {
				nonEmpty++
			}
		}
		r.States += int64(len(h.Blocks) + 1)
		r.Transitions += int64(len(h.Blocks))
		if len(h.Blocks) > r.MaxDepth {
			r.MaxDepth = len(h.Blocks)
		}
		if nonEmpty > 0 {
			r.NTCount(1)
		}
		if nh%4000 == 3 || (prune > 0 && nh%500 == 3) {
			r.Sample(map[string]interface{}{"history": h, "prune_levels": prune})
		}
	}

	// family A: rich batches, no pruning; the checkpoint (100000) falls into the tail
	batchesA := c08Batches([]int64{0, 1, 5, M / 2}, 2)
	initsA := [][]int64{{1, 2, 5, 0}, {2, 2, 2, 2}}
	tail := 10
	for _, init := range initsA {
		for gap := 1; gap <= 4; gap++ {
			for _, b1 := range batchesA {
				for _, b2 := range batchesA {
					blocks := [][]c08Change{b1}
					for i := 1; i < gap; i++ {
						blocks = append(blocks, nil)
					}
					blocks = append(blocks, b2)
					for i := 0; i < tail; i++ {
						blocks = append(blocks, nil)
					}
					try(&c08Hist{Init: init, H0: 100000 - 8, Blocks: blocks}, 0)
				}
			}
		}
	}
	if vr.Thorough() && !stop {
		single := c08Batches([]int64{0, 1, 5, M / 2}, 1)
		for _, init := range initsA {
			for _, b1 := range batchesA {
				for _, b2 := range single {
					for _, b3 := range single {
						for gap := 1; gap <= 2; gap++ {
							blocks := [][]c08Change{b1, b2}
							for i := 1; i < gap; i++ {
								blocks = append(blocks, nil)
							}
							blocks = append(blocks, b3)
							for i := 0; i < 2*tail; i++ {
								blocks = append(blocks, nil)
							}
							try(&c08Hist{Init: init, H0: 100000 - 12, Blocks: blocks}, 0)
						}
					}
				}
			}
		}
	}
	r.Add("family_A_histories", int64(nh))

	// family B: pointer structure x pruning
	L := vr.Pick(8, 10)
	singleB := c08Batches([]int64{0, 1, 5}, 1)
	h0s := []int64{100000 - 5, 100000 - 2, 100000 - 1, 100000, 100000 - int64(L) - 3}
	nA := nh
	for _, h0 := range h0s {
		for _, ic := range [][]int64{nil, {5, 0, 1, 1}} {
			init := []int64{1, 2, 0, 0}
			// no change at all
			try(&c08Hist{Init: init, InitChain: ic, H0: h0, Blocks: make([][]c08Change, L)}, 2)
			for p1 := 0; p1 < L; p1++ {
				for _, b1 := range singleB {
					bl := make([][]c08Change, L)
					bl[p1] = b1
					try(&c08Hist{Init: init, InitChain: ic, H0: h0, Blocks: bl}, 2)
					for p2 := p1 + 1; p2 < L; p2++ {
						for _, b2 := range singleB {
							bl2 := make([][]c08Change, L)
							bl2[p1], bl2[p2] = b1, b2
							pr := 2
							if vr.Thorough() && h0 == h0s[0] {
								pr = 3 // also re-prune from the old base
							}
							try(&c08Hist{Init: init, InitChain: ic, H0: h0, Blocks: bl2}, pr)
						}
					}
				}
			}
		}
	}
	r.Add("family_B_histories", int64(nh-nA))

	// family C: ranges of more than 1000 heights (PruneStates flushes its batch every 1000 deletions)
	nB := nh
	for _, h0 := range []int64{100000 - 1080, 100000 - 30, 100000 + 7} {
		for _, p1 := range []int{0, 3, 55} {
			for _, p2 := range []int{70, 1010, 1075} {
				bl := make([][]c08Change, 1100)
				bl[p1] = []c08Change{{2, 5}}
				bl[p2] = []c08Change{{0, 0}}
				tip := h0 + 1099
				pr := [][2]int64{}
				for _, from := range []int64{h0, h0 + 1, h0 + 60} {
					for _, to := range []int64{from + 999, from + 1000, from + 1001, from + 1003, h0 + 1082, tip} {
						if to <= tip {
							pr = append(pr, [2]int64{from, to})
						}
					}
				}
				try(&c08Hist{Init: []int64{1, 2, 0, 0}, H0: h0, Blocks: bl, Prunes: pr}, 1)
			}
		}
	}
	r.Add("family_C_histories", int64(nh-nB))
	if !stop {
		r.Bound = fmt.Sprintf("A: %d genesis sets x gaps 1..4 x %d^2 batch pairs (<=2 changes over {0,1,5,Max/2}) x tail %d, initial height 99992, every height asked after every Save; "+
			"B: %d blocks, <=2 single-change batches (%d kinds) at all position pairs x initial heights %v x {genesis set, InitChain replacement}, every PruneStates(from,to) from<to<=tip and every second PruneStates(to,to2) (thorough, first initial height: also PruneStates(from,to2)), every height asked each time; C: 27 histories of 1100 blocks with prune ranges of 999..1100 heights",
			len(initsA), len(batchesA), tail, L, len(singleB), h0s)
	}
}
