package txindex_test

// C19 (end to end) — every transaction and block that was committed is indexed, whatever other subscribers of
// the event bus asked for and however slowly they read.
//
// Real types.EventBus (running pubsub server, real goroutines) + real txindex.IndexerService + real kv
// indexers over MemDB. A scenario = (what the other subscribers of the bus are) x (block pattern) x (which
// attribute value misfits their comparison); all combinations of the menus are run.
//
// Nondeterminism owned here:
//  - map order in pubsub.state.send: scenarios with failing queries always use 63 distinct failing queries
//    and 5 transactions carrying the misfitting value, so that "the indexer received all of them" has
//    probability < 64^-5 if a failing match aborts a publication, and 1 if it does not;
//  - goroutine scheduling: after the publisher is done (every publication was handed to the server loop and a
//    barrier command was accepted after it, hence every delivery to the unbuffered indexer subscription has
//    completed) the harness waits for ONE OF TWO POSITIVE observations, never for a timeout:
//      (a) the block indexer's Index(H) and the tx indexer's AddBatch(H) have returned (observed through
//          pass-through wrappers) -> contents are compared with what was published;
//      (b) every IndexerService goroutine is parked in a channel receive while Index(H) has not been
//          called. The goroutine does no channel operation between receiving the last transaction of H and
//          calling Index(H), all deliveries are complete and nobody else sends on its subscriptions, so this
//          state is final: it is waiting for a transaction that was never handed to it.
//    A generous deadline on the wait itself ends the scenario inconclusive (r.Cap).
//  - publisher blocked (second block after a lost transaction: the server loop blocks delivering the next
//    header to the indexer, which still waits for the lost transaction): observed as the stable triple
//    "publisher not done, server loop parked in chan send inside state.send, indexer parked in chan receive".

import (
	"context"
	"fmt"
	"regexp"
	"runtime"
	"strings"
	"sync/atomic"
	"testing"
	"time"

	"github.com/gogo/protobuf/proto"
	dbm "github.com/tendermint/tm-db"

	abci "github.com/tendermint/tendermint/abci/types"
	"github.com/tendermint/tendermint/internal/verif/vr"
	"github.com/tendermint/tendermint/libs/pubsub/query"
	"github.com/tendermint/tendermint/state/indexer"
	blockidxkv "github.com/tendermint/tendermint/state/indexer/block/kv"
	"github.com/tendermint/tendermint/state/txindex"
	"github.com/tendermint/tendermint/state/txindex/kv"
	"github.com/tendermint/tendermint/types"
)

type c19E2ECase struct {
	Others  string   `json:"other_subscribers"` // none | failing-int | failing-date | slow | slow+failing-int
	Blocks  []string `json:"blocks"`            // per block: letters g (clean tx), b (tx carrying the misfitting value)
	Misfit  string   `json:"misfit"`            // attribute "key=value" that the failing queries cannot evaluate
	Comment string   `json:"comment,omitempty"`
	// Stall > 0: Stall blocks of one transaction each; the block indexer's store does not return from indexing block 1 until
	// the publisher has either finished or is blocked by back-pressure, then it is released
	Stall int `json:"stalled_indexer_blocks,omitempty"`
}

// pass-through wrappers that only record which heights went through
type c19TxIdx struct {
	txindex.TxIndexer
	batches int64
}

func (w *c19TxIdx) AddBatch(b *txindex.Batch) error {
	err := w.TxIndexer.AddBatch(b)
	atomic.AddInt64(&w.batches, 1)
	return err
}

type c19BlockIdx struct {
	indexer.BlockIndexer
	calls int64
	gate  chan struct{} // non-nil: the first Index call waits for it
}

func (w *c19BlockIdx) Index(h types.EventDataNewBlockHeader) error {
	if atomic.AddInt64(&w.calls, 1) == 1 && w.gate != nil {
		<-w.gate
	}
	return w.BlockIndexer.Index(h)
}

var c19GoroutineHdr = regexp.MustCompile(`^goroutine \d+ \[([^\],]+)`)

// goroutine states, from ONE stop-the-world stack dump, of all goroutines whose stack contains a marker
func c19States(markers ...string) map[string][]string {
	buf := make([]byte, 1<<20)
	for {
		n := runtime.Stack(buf, true)
		if n < len(buf) {
			buf = buf[:n]
			break
		}
		buf = make([]byte, 2*len(buf))
	}
	out := map[string][]string{}
	for _, g := range strings.Split(string(buf), "\n\n") {
		for _, marker := range markers {
			if !strings.Contains(g, marker) {
				continue
			}
			if m := c19GoroutineHdr.FindStringSubmatch(g); m != nil {
				out[marker] = append(out[marker], m[1])
			}
		}
	}
	return out
}

func c19All(states []string, want string) bool {
	if len(states) == 0 {
		return false
	}
	for _, s := range states {
		if s != want {
			return false
		}
	}
	return true
}

const (
	c19KeyNotIndexed = "state/txindex/indexer_service.go:committed-tx-never-reaches-indexer-when-another-subscribers-query-fails-to-evaluate"
	c19KeyFrozen     = "state/txindex/indexer_service.go:event-bus-blocks-for-ever-after-indexer-missed-a-tx"
	c19KeyContent    = "state/txindex/indexer_service.go:indexed-content-differs-from-published"
	c19KeySlow       = "state/txindex/indexer_service.go:slow-subscriber-not-cancelled-or-indexer-affected"
	c19KeyLag        = "state/txindex/indexer_service.go:blocks-published-while-the-index-store-stalls-are-never-indexed"
)

var c19FrozenLoops int // server loops left blocked for ever by earlier scenarios (they cannot be stopped)

func c19RunE2E(r *vr.Report, c c19E2ECase) (key, what string) {
	bus := types.NewEventBus()
	if err := bus.Start(); err != nil {
		panic(err)
	}
	txI := &c19TxIdx{TxIndexer: kv.NewTxIndex(dbm.NewMemDB())}
	blI := &c19BlockIdx{BlockIndexer: blockidxkv.New(dbm.NewMemDB())}
	released := true
	if c.Stall > 0 {
		blI.gate, released = make(chan struct{}), false
		c.Blocks = nil
		for i := 0; i < c.Stall; i++ {
			c.Blocks = append(c.Blocks, "g")
		}
	}
	svc := txindex.NewIndexerService(txI, blI, bus, false)
	if err := svc.Start(); err != nil {
		panic(err)
	}
	ctx := context.Background()
	kvp := strings.SplitN(c.Misfit, "=", 2)
	var slowSubs []types.Subscription
	addFailing := func(pattern string) {
		for i := 1; i <= 63; i++ {
			if _, err := bus.Subscribe(ctx, fmt.Sprintf("rpc-client-%d", i), query.MustParse(fmt.Sprintf(pattern, i)), 1); err != nil {
				panic(err)
			}
		}
	}
	addSlow := func() {
		for i := 1; i <= 3; i++ {
			s, err := bus.Subscribe(ctx, fmt.Sprintf("slow-client-%d", i), types.EventQueryTx, 1) // never reads
			if err != nil {
				panic(err)
			}
			slowSubs = append(slowSubs, s)
		}
	}
	switch c.Others {
	case "failing-int":
		addFailing("tm.event = 'Tx' AND a." + kvp[0] + " > %d")
	case "failing-date":
		addFailing("a." + kvp[0] + " >= DATE 2%03d-01-01")
	case "slow":
		addSlow()
	case "slow+failing-int":
		addSlow()
		addFailing("a." + kvp[0] + " <= %d")
	}

	// what is published
	type pubTx struct {
		res *abci.TxResult
	}
	var all [][]pubTx
	txNo := 0
	for bi, pat := range c.Blocks {
		h := int64(bi + 1)
		var txs []pubTx
		for i, ch := range pat {
			attrs := []abci.EventAttribute{{Key: []byte("s"), Value: []byte("x"), Index: true}}
			if ch == 'b' {
				attrs = append(attrs, abci.EventAttribute{Key: []byte(kvp[0]), Value: []byte(kvp[1]), Index: true})
			} else {
				attrs = append(attrs, abci.EventAttribute{Key: []byte("n"), Value: []byte("2"), Index: true})
			}
			txs = append(txs, pubTx{res: &abci.TxResult{Height: h, Index: uint32(i), Tx: []byte(fmt.Sprintf("c19-e2e-tx-%d", txNo)),
				Result: abci.ResponseDeliverTx{Events: []abci.Event{{Type: "a", Attributes: attrs}}}}})
			txNo++
		}
		all = append(all, txs)
	}

	var published int64 // number of blocks completely handed to the bus
	done := make(chan struct{})
	go func() {
		defer close(done)
		for bi, txs := range all {
			h := int64(bi + 1)
			if err := bus.PublishEventNewBlockHeader(types.EventDataNewBlockHeader{Header: types.Header{Height: h}, NumTxs: int64(len(txs)),
				ResultBeginBlock: abci.ResponseBeginBlock{Events: []abci.Event{{Type: "blk", Attributes: []abci.EventAttribute{{Key: []byte("h"), Value: []byte(fmt.Sprint(h)), Index: true}}}}}}); err != nil {
				panic(err)
			}
			for _, t := range txs {
				if err := bus.PublishEventTx(types.EventDataTx{TxResult: *t.res}); err != nil {
					panic(err)
				}
			}
			// barrier: accepted by the loop only after the last publication has been processed completely
			if _, err := bus.Subscribe(ctx, fmt.Sprintf("c19-barrier-%d", bi), types.EventQueryVote, 1); err != nil {
				panic(err)
			}
			atomic.StoreInt64(&published, int64(bi+1))
		}
	}()

	deadline := time.Now().Add(90 * time.Second)
	stable := 0
	var verdictKey, verdictWhat string
	decided := false
	for !decided {
		if time.Now().After(deadline) {
			r.Cap("e2e: neither 'indexed' nor 'indexer parked without the block' was observed within 90 s")
			return "", ""
		}
		nPub := atomic.LoadInt64(&published)
		pubDone := false
		select {
		case <-done:
			pubDone = true
		default:
		}
		nIdx := atomic.LoadInt64(&txI.batches)
		nCalls := atomic.LoadInt64(&blI.calls)
		if pubDone && nIdx == int64(len(all)) {
			decided = true // (a): everything went through the indexers
			break
		}
		const mIdx, mLoop = "txindex.(*IndexerService).OnStart.func1", "pubsub.(*Server).loop"
		snap := c19States(mIdx, mLoop)
		idxStates, loopStates := snap[mIdx], snap[mLoop]
		parked := c19All(idxStates, "chan receive")
		// re-read the counters AFTER the stack snapshot: parked + unchanged counters = nothing in flight
		same := nIdx == atomic.LoadInt64(&txI.batches) && nCalls == atomic.LoadInt64(&blI.calls) && nPub == atomic.LoadInt64(&published)
		if !released {
			// the index store is stalled in block 1: wait until the publisher is through, or is held back by the unbuffered
			// subscription (server loop parked in a send, nothing moving), then let the store go on
			blockedPub := false
			if !pubDone && same {
				for _, st := range loopStates {
					if st == "chan send" {
						blockedPub = true
					}
				}
			}
			if pubDone || blockedPub {
				stable++
				if pubDone || stable >= 3 {
					close(blI.gate)
					released, stable = true, 0
				}
			} else {
				stable = 0
			}
			time.Sleep(2 * time.Millisecond)
			continue
		}
		switch {
		case pubDone && parked && same && nCalls < int64(len(all)) && c.Stall > 0:
			stable++
			if stable >= 3 {
				verdictKey = c19KeyLag
				verdictWhat = fmt.Sprintf("%d blocks were published while the block index store was busy with block 1; after the store went on, the IndexerService indexed %d of them and now waits for events nobody will send: "+
					"blocks %d.. and their transactions are never indexed and nothing reported it", len(all), nCalls, nCalls+1)
				decided = true
			}
		case pubDone && parked && same && nCalls < int64(len(all)):
			// (b) all deliveries complete, indexer waits for a transaction of block nCalls+1 that nobody will send
			stable++
			if stable >= 3 {
				verdictKey = c19KeyNotIndexed
				verdictWhat = fmt.Sprintf("block %d was published completely (header with NumTxs=%d and every tx handed to the event bus) but the IndexerService "+
					"still waits for one of its transactions: neither the block nor any of its transactions is indexed, nor will any later block be; other subscribers: %s, misfitting attribute a.%s",
					nCalls+1, len(all[nCalls]), c.Others, c.Misfit)
				decided = true
			}
		case !pubDone && parked && same:
			// In one consistent snapshot the indexer is parked in a receive and the current server loop is parked in a send.
			// The loop only ever parks sending to the indexer's two unbuffered subscriptions (buffered ones use
			// select/default); were it the channel the indexer receives from, the runtime would have handed the value
			// over instead of parking both. So they wait on different channels, and nobody else serves either one.
			nSend := 0
			for _, s := range loopStates {
				if s == "chan send" {
					nSend++
				}
			}
			if nSend == c19FrozenLoops+1 {
				stable++
				if stable >= 3 {
					c19FrozenLoops++
					verdictKey = c19KeyFrozen
					verdictWhat = fmt.Sprintf("after block %d (with transactions carrying a.%s while %s subscribers are present) the pubsub server loop is blocked for ever delivering "+
						"the next block header to the IndexerService, which still waits for a transaction of block %d that was never handed to it; every further Publish blocks",
						nPub, c.Misfit, c.Others, nCalls+1)
					decided = true
				}
			} else {
				stable = 0
			}
		default:
			stable = 0
		}
		if !decided {
			time.Sleep(2 * time.Millisecond)
		}
	}
	if verdictKey == c19KeyFrozen {
		return verdictKey, verdictWhat // the bus cannot be stopped any more; it is abandoned
	}
	defer func() {
		_ = svc.Stop()
		_ = bus.Stop()
	}()
	if verdictKey != "" {
		return verdictKey, verdictWhat
	}
	// (a): compare contents
	for bi, txs := range all {
		h := int64(bi + 1)
		if ok, err := blI.Has(h); err != nil || !ok {
			return c19KeyContent, fmt.Sprintf("block %d not indexed (Has = %v, %v)", h, ok, err)
		}
		hs, err := blI.Search(ctx, query.MustParse(fmt.Sprintf("blk.h = %d", h)))
		if err != nil || len(hs) != 1 || hs[0] != h {
			return c19KeyContent, fmt.Sprintf("block %d not found by its BeginBlock event: %v %v", h, hs, err)
		}
		for _, t := range txs {
			got, err := txI.Get(types.Tx(t.res.Tx).Hash())
			if err != nil || got == nil || !proto.Equal(got, t.res) {
				return c19KeyContent, fmt.Sprintf("tx (height %d, index %d) retrieved as %v (%v), published %v", h, t.res.Index, got, err, t.res)
			}
		}
		found, err := txI.Search(ctx, query.MustParse(fmt.Sprintf("tx.height = %d", h)))
		if err != nil || len(found) != len(txs) {
			return c19KeyContent, fmt.Sprintf("Search(tx.height = %d) returns %d transactions, %d were committed (%v)", h, len(found), len(txs), err)
		}
	}
	// slow readers: each received its first match and must have been told about the cancellation if more matched
	nTx := 0
	for _, txs := range all {
		nTx += len(txs)
	}
	for i, s := range slowSubs {
		cancelled := false
		select {
		case <-s.Cancelled():
			cancelled = true
		default:
		}
		if nTx >= 2 && (!cancelled || s.Err() == nil) {
			return c19KeySlow, fmt.Sprintf("slow subscriber %d (capacity 1, never reads) saw %d matching transactions and is not cancelled with a reason (cancelled=%v err=%v)", i, nTx, cancelled, s.Err())
		}
	}
	r.Outcome("e2e:indexed")
	return "", ""
}

func TestVerifC19E2E(t *testing.T) {
	r := vr.Start("C19", "e2e", 100*time.Second, 10*time.Minute)
	defer r.Finish()
	r.Rule = "all combinations of (other subscribers of the event bus: none / 63 failing integer comparisons / 63 failing date comparisons / 3 slow readers / both) x " +
		"(block pattern) x (misfitting attribute value), and an index store that stalls in block 1 while 2 / 50 / 1100 blocks are published, on a real running EventBus + IndexerService + kv indexers; non-trivial = other subscribers present and a misfitting value published"
	r.Assume("the application emits events only through the EventBus methods used by the node (PublishEventNewBlockHeader, PublishEventTx)")
	r.Assume("a goroutine shown as [chan receive] by runtime.Stack is parked on that receive (exact runtime state)")
	var rc c19E2ECase
	if replaying, skip := r.ReplayCase(&rc); skip {
		return
	} else if replaying {
		r.Eval()
		if k, w := c19RunE2E(r, rc); k != "" {
			r.Violation(k, w, rc)
		}
		return
	}
	others := []string{"none", "failing-int", "failing-date", "slow", "slow+failing-int"}
	patterns := [][]string{{"g"}, {"bbbbb"}, {"gbbbbbg"}, {"gg", "g"}, {"bbbbb", "g"}}
	if vr.Thorough() {
		patterns = append(patterns, []string{"bbbbb", "gg"}, []string{"g", "bbbbbg", "g"})
	}
	misfits := map[string][]string{
		"none": {"n=abc"}, "slow": {"n=abc"},
		"failing-int": {"n=abc", "n="}, "slow+failing-int": {"n=abc"},
		"failing-date": {"t=soon"},
	}
	k := 0
	var last []c19E2ECase
	run := func(c c19E2ECase) {
		k++
		if !r.Mine(k) {
			return
		}
		if r.Deadline("e2e scenarios") {
			return
		}
		r.Eval()
		if c.Others != "none" && strings.Contains(strings.Join(c.Blocks, ""), "b") {
			r.NTCount(1)
		}
		key, what := c19RunE2E(r, c)
		if key != "" {
			if key != c19KeyFrozen { // a frozen bus is left behind for good; do not produce three more of them
				if !vr.Confirm(2, fmt.Errorf("%s", key), func() error {
					k2, _ := c19RunE2E(r, c)
					if k2 == "" {
						return nil
					}
					return fmt.Errorf("%s", k2)
				}) {
					r.Cap("e2e scenario not reproducible: " + fmt.Sprint(c))
					return
				}
			}
			r.Violation(key, what, c)
			r.Outcome("e2e:violation")
		}
		r.Sample(c)
	}
	for _, o := range others {
		for _, m := range misfits[o] {
			for _, p := range patterns {
				c := c19E2ECase{Others: o, Blocks: p, Misfit: m}
				if len(p) > 1 && strings.Contains(p[0], "b") {
					last = append(last, c) // may freeze a bus for good: run these at the very end
					continue
				}
				run(c)
			}
		}
	}
	// the index store stalls while many blocks are published (the subscription must hold the publisher back, or at least lose nothing)
	for _, n := range []int{2, 50, 1100} {
		run(c19E2ECase{Others: "none", Misfit: "n=abc", Stall: n})
	}
	for _, c := range last {
		run(c)
	}
	r.Bound = fmt.Sprintf("%d scenarios: other subscribers %v x block patterns %v x misfitting values", k, others, patterns)
}
