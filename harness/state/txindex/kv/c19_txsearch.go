package kv

// C19 (transaction index half) — every committed transaction is indexed once under its height, position and
// events, and a search returns exactly the indexed items that satisfy the query.
//
// Bounded exhaustive enumeration: every history from a structured menu (transactions = sets of <= 2 event
// attributes from an attribute menu, placed at (height, index) positions from a position-pattern menu) is
// indexed into a fresh real TxIndex over a MemDB the way the IndexerService does (one AddBatch per block; a
// second pass uses Index per transaction), and EVERY query with <= 2 conditions from a condition menu is run
// through the real Search and compared with a brute-force evaluation over the recorded (height, index,
// indexed attributes) set. Value alphabet is clean on purpose: pure integers and plain strings (one contains
// the index's '/' separator); there the meaning of every operator is unambiguous.

import (
	"bytes"
	"context"
	"fmt"
	"regexp"
	"sort"
	"strconv"
	"strings"
	"testing"
	"time"

	"github.com/gogo/protobuf/proto"
	dbm "github.com/tendermint/tm-db"

	abci "github.com/tendermint/tendermint/abci/types"
	"github.com/tendermint/tendermint/internal/verif/vr"
	"github.com/tendermint/tendermint/libs/pubsub/query"
	"github.com/tendermint/tendermint/state/txindex"
	"github.com/tendermint/tendermint/types"
)

type c19Attr struct {
	Type  string `json:"type"`
	Key   string `json:"key"`
	Value string `json:"value"`
	Index bool   `json:"index"`
}

func (a c19Attr) composite() string { return a.Type + "." + a.Key }

// visible to a search: non-empty type and key, index flag set
func (a c19Attr) indexed() bool { return a.Index && a.Type != "" && a.Key != "" }

var c19AttrMenuQuick = []c19Attr{
	{"a", "n", "1", true}, {"a", "n", "2", true}, {"a", "n", "10", true},
	{"a", "s", "x", true}, {"a", "s", "xy", true}, {"a", "s", "x/y", true},
	{"b", "n", "1", true},
	{"a", "n", "2", false}, {"a", "s", "x", false},
	{"", "n", "1", true}, {"a", "", "1", true},
}

var c19AttrMenuThorough = append(append([]c19Attr{}, c19AttrMenuQuick...),
	c19Attr{"a", "n", "x", true}, c19Attr{"a", "s", "1", true}, c19Attr{"b", "s", "x/y", true}, c19Attr{"a", "s", "y", true})

type c19Tx struct {
	Height int64     `json:"height"`
	Index  uint32    `json:"index"`
	Attrs  []c19Attr `json:"attrs"`
	Code   uint32    `json:"code"`
}

type c19Cond struct {
	Key  string  `json:"key"`
	Op   string  `json:"op"`   // = < <= > >= CONTAINS EXISTS
	Kind string  `json:"kind"` // int, float, str, hash, ""
	I    int64   `json:"i,omitempty"`
	F    float64 `json:"f,omitempty"`
	S    string  `json:"s,omitempty"`
	// hash conditions refer to the history: "first" = hash of the first transaction, "absent" = a hash that is not indexed
	Ref string `json:"ref,omitempty"`
}

func (c c19Cond) text(hist []c19Tx) string {
	switch {
	case c.Op == "EXISTS":
		return c.Key + " EXISTS"
	case c.Kind == "int":
		return fmt.Sprintf("%s %s %d", c.Key, c.Op, c.I)
	case c.Kind == "float":
		return fmt.Sprintf("%s %s %s", c.Key, c.Op, strconv.FormatFloat(c.F, 'f', 1, 64))
	case c.Kind == "hash":
		return fmt.Sprintf("%s = '%X'", c.Key, c19HashOf(c, hist))
	default:
		return fmt.Sprintf("%s %s '%s'", c.Key, c.Op, c.S)
	}
}

func c19TxBytes(i int) []byte { return []byte(fmt.Sprintf("c19-tx-%d", i)) }

func c19HashOf(c c19Cond, hist []c19Tx) []byte {
	if c.Ref == "first" && len(hist) > 0 {
		return types.Tx(c19TxBytes(0)).Hash()
	}
	return types.Tx([]byte("c19-not-indexed")).Hash()
}

func c19CondMenu(thorough bool) []c19Cond {
	var m []c19Cond
	ic := func(k, op string, v int64) { m = append(m, c19Cond{Key: k, Op: op, Kind: "int", I: v}) }
	sc := func(k, op, v string) { m = append(m, c19Cond{Key: k, Op: op, Kind: "str", S: v}) }
	ex := func(k string) { m = append(m, c19Cond{Key: k, Op: "EXISTS"}) }
	// a.n
	ic("a.n", "=", 1)
	ic("a.n", "=", 2)
	ic("a.n", "=", 10)
	ic("a.n", "<", 2)
	ic("a.n", "<=", 2)
	ic("a.n", ">", 1)
	ic("a.n", ">=", 2)
	ic("a.n", ">=", 10)
	ic("a.n", "<", 10)
	ex("a.n")
	sc("a.n", "CONTAINS", "1")
	// a.s
	sc("a.s", "=", "x")
	sc("a.s", "=", "xy")
	sc("a.s", "=", "x/y")
	sc("a.s", "=", "y")
	sc("a.s", "CONTAINS", "x")
	sc("a.s", "CONTAINS", "y")
	ex("a.s")
	ic("a.s", ">", 0)
	// b.n
	ic("b.n", "=", 1)
	ex("b.n")
	// tx.height
	ic("tx.height", "=", 1)
	ic("tx.height", "=", 2)
	ic("tx.height", "=", 10)
	ic("tx.height", "<", 2)
	ic("tx.height", "<=", 2)
	ic("tx.height", ">", 1)
	ic("tx.height", ">=", 10)
	ex("tx.height")
	// tx.hash
	m = append(m, c19Cond{Key: "tx.hash", Op: "=", Kind: "hash", Ref: "first"})
	m = append(m, c19Cond{Key: "tx.hash", Op: "=", Kind: "hash", Ref: "absent"})
	// a bound that is not an integer
	m = append(m, c19Cond{Key: "a.n", Op: ">", Kind: "float", F: 1.5})
	m = append(m, c19Cond{Key: "a.n", Op: ">=", Kind: "float", F: 1.5})
	if thorough {
		ic("a.n", ">", 2)
		ic("a.n", "<=", 1)
		ic("a.n", "<=", 10)
		sc("a.n", "=", "1")
		sc("a.n", "=", "x")
		sc("a.s", "CONTAINS", "/")
		sc("a.s", "CONTAINS", "xy")
		sc("a.s", "=", "1")
		sc("b.s", "=", "x")
		sc("b.s", "CONTAINS", "y")
		ic("b.n", ">", 0)
		ic("tx.height", "=", 3)
		ic("tx.height", ">=", 2)
		ic("tx.height", "<", 10)
		ic("tx.height", "<=", 10)
		m = append(m, c19Cond{Key: "a.n", Op: "<=", Kind: "float", F: 2.5})
	}
	return m
}

var c19IntRe = regexp.MustCompile(`^[0-9]+$`)

func c19Sat(op string, sgn int) bool {
	switch op {
	case "=":
		return sgn == 0
	case "<":
		return sgn < 0
	case "<=":
		return sgn <= 0
	case ">":
		return sgn > 0
	case ">=":
		return sgn >= 0
	}
	return false
}

// values the index holds for key k of transaction t (brute force)
func c19Values(t c19Tx, k string) []string {
	if k == "tx.height" {
		return []string{strconv.FormatInt(t.Height, 10)}
	}
	var out []string
	for _, a := range t.Attrs {
		if a.indexed() && a.composite() == k {
			out = append(out, a.Value)
		}
	}
	return out
}

func c19CondHolds(c c19Cond, t c19Tx, txNo int, hist []c19Tx) bool {
	if c.Kind == "hash" {
		return bytes.Equal(c19HashOf(c, hist), types.Tx(c19TxBytes(txNo)).Hash())
	}
	vals := c19Values(t, c.Key)
	if c.Op == "EXISTS" {
		return len(vals) > 0
	}
	for _, v := range vals {
		switch c.Kind {
		case "str":
			if c.Op == "=" && v == c.S {
				return true
			}
			if c.Op == "CONTAINS" && strings.Contains(v, c.S) {
				return true
			}
		case "int":
			if !c19IntRe.MatchString(v) {
				continue
			}
			x, _ := strconv.ParseInt(v, 10, 64)
			sgn := 0
			if x < c.I {
				sgn = -1
			} else if x > c.I {
				sgn = 1
			}
			if c19Sat(c.Op, sgn) {
				return true
			}
		case "float":
			if !c19IntRe.MatchString(v) {
				continue
			}
			x, _ := strconv.ParseFloat(v, 64)
			sgn := 0
			if x < c.F {
				sgn = -1
			} else if x > c.F {
				sgn = 1
			}
			if c19Sat(c.Op, sgn) {
				return true
			}
		}
	}
	return false
}

func c19IsRange(c c19Cond) bool { return c.Op == "<" || c.Op == "<=" || c.Op == ">" || c.Op == ">=" }

// Two range conditions on one key: "some value satisfies each" and "some value satisfies both" differ for a
// transaction with several values under that key; the statement does not pick one. Such items are not judged.
func c19Ambiguous(conds []c19Cond, t c19Tx) bool {
	for i := range conds {
		for j := i + 1; j < len(conds); j++ {
			if c19IsRange(conds[i]) && c19IsRange(conds[j]) && conds[i].Key == conds[j].Key {
				seen := map[string]bool{}
				for _, v := range c19Values(t, conds[i].Key) {
					seen[v] = true
				}
				if len(seen) > 1 {
					return true
				}
			}
		}
	}
	return false
}

// Search walks its ranges in Go map order. With an exclusive non-integer bound (which panics, see the key
// for it) AND a range on another key, whether the panic is reached depends on that order (an empty first range
// ends the search early). The single-condition form shows the panic deterministically; the mixed form is
// not judged, so that no verdict depends on map order.
func c19OrderDependent(conds []c19Cond) bool {
	for _, c := range conds {
		if c.Kind == "float" && (c.Op == "<" || c.Op == ">") {
			for _, d := range conds {
				if c19IsRange(d) && d.Key != c.Key {
					return true
				}
			}
		}
	}
	return false
}

type c19Case struct {
	Hist    []c19Tx   `json:"history"`
	PerTx   bool      `json:"index_per_tx"` // Index() per transaction instead of AddBatch() per block
	Conds   []c19Cond `json:"conditions"`
	Query   string    `json:"query,omitempty"`
	Comment string    `json:"comment,omitempty"`
}

func c19Result(i int, t c19Tx) *abci.TxResult {
	byType := map[string][]abci.EventAttribute{}
	var order []string
	for _, a := range t.Attrs {
		if _, ok := byType[a.Type]; !ok {
			order = append(order, a.Type)
		}
		byType[a.Type] = append(byType[a.Type], abci.EventAttribute{Key: []byte(a.Key), Value: []byte(a.Value), Index: a.Index})
	}
	var evs []abci.Event
	for _, ty := range order {
		evs = append(evs, abci.Event{Type: ty, Attributes: byType[ty]})
	}
	return &abci.TxResult{Height: t.Height, Index: t.Index, Tx: c19TxBytes(i),
		Result: abci.ResponseDeliverTx{Code: t.Code, Data: []byte{byte(i)}, Log: fmt.Sprintf("log-%d", i), Events: evs}}
}

func c19Build(hist []c19Tx, perTx bool) (*TxIndex, []*abci.TxResult, error) {
	idx := NewTxIndex(dbm.NewMemDB())
	results := make([]*abci.TxResult, len(hist))
	for i, t := range hist {
		results[i] = c19Result(i, t)
	}
	if perTx {
		for _, res := range results {
			if err := idx.Index(res); err != nil {
				return nil, nil, err
			}
		}
		return idx, results, nil
	}
	for i := 0; i < len(hist); {
		j := i
		for j < len(hist) && hist[j].Height == hist[i].Height {
			j++
		}
		b := txindex.NewBatch(int64(j - i))
		for k := i; k < j; k++ {
			if err := b.Add(results[k]); err != nil {
				return nil, nil, err
			}
		}
		if err := idx.AddBatch(b); err != nil {
			return nil, nil, err
		}
		i = j
	}
	return idx, results, nil
}

const c19P = "state/txindex/kv/kv.go:"

// classify gives a failure class its stable key.
func c19Classify(conds []c19Cond, hist []c19Tx, txNo int, falsePositive bool) string {
	t := hist[txNo]
	hasHash := false
	for _, c := range conds {
		if c.Kind == "hash" {
			hasHash = true
		}
	}
	if hasHash && len(conds) > 1 && falsePositive {
		// the shortcut: the transaction named by the hash condition comes back although another condition fails
		for _, c := range conds {
			if c.Kind == "hash" && c19CondHolds(c, t, txNo, hist) {
				return c19P + "Search:hash-condition-returns-tx-regardless-of-other-conditions"
			}
		}
	}
	for _, c := range conds {
		if c.Kind == "float" && c19IsRange(c) {
			return c19P + "Search:range-with-non-integer-bound-matches-nothing"
		}
	}
	for i := range conds {
		for j := i + 1; j < len(conds); j++ {
			a, b := conds[i], conds[j]
			if c19IsRange(a) && c19IsRange(b) && a.Key == b.Key && (a.Op[0] == b.Op[0]) {
				return "state/indexer/query_range.go:LookForRanges:two-bounds-on-the-same-side-last-one-wins"
			}
		}
	}
	for _, c := range conds {
		for _, v := range c19Values(t, c.Key) {
			if !strings.Contains(v, "/") {
				continue
			}
			if falsePositive && c.Op == "=" && c.Kind == "str" && strings.HasPrefix(v, c.S+"/") {
				return c19P + "Search:equality-is-a-prefix-scan-and-matches-longer-value-containing-separator"
			}
			if falsePositive && c.Op == "=" && c.Kind == "int" && strings.HasPrefix(v, strconv.FormatInt(c.I, 10)+"/") {
				return c19P + "Search:equality-is-a-prefix-scan-and-matches-longer-value-containing-separator"
			}
			if !falsePositive && c.Op == "CONTAINS" && strings.Contains(v, c.S) {
				return c19P + "Search:contains-skips-values-containing-separator"
			}
		}
	}
	ops := map[string]bool{}
	for _, c := range conds {
		switch {
		case c19IsRange(c):
			ops["range"] = true
		case c.Op == "=":
			ops["eq"] = true
		default:
			ops[strings.ToLower(c.Op)] = true
		}
	}
	var names []string
	for k := range ops {
		names = append(names, k)
	}
	sort.Strings(names)
	kind := "missing-item"
	if falsePositive {
		kind = "extra-item"
	}
	return fmt.Sprintf("%sSearch:%s[%s]", c19P, kind, strings.Join(names, "+"))
}

func c19QueryText(conds []c19Cond, hist []c19Tx) string {
	parts := make([]string, len(conds))
	for i, c := range conds {
		parts[i] = c.text(hist)
	}
	return strings.Join(parts, " AND ")
}

func c19DescribeTx(i int, t c19Tx) string {
	var as []string
	for _, a := range t.Attrs {
		s := fmt.Sprintf("%s.%s=%q", a.Type, a.Key, a.Value)
		if !a.Index {
			s += "(not indexed)"
		}
		as = append(as, s)
	}
	return fmt.Sprintf("tx#%d@(height %d, index %d){%s}", i, t.Height, t.Index, strings.Join(as, ", "))
}

// search runs one query on a built index and compares with brute force.
func c19Search(r *vr.Report, idx *TxIndex, results []*abci.TxResult, hist []c19Tx, conds []c19Cond, q *query.Query) (key, what string) {
	var got []*abci.TxResult
	var err error
	var panicked interface{}
	func() {
		defer func() { panicked = recover() }()
		got, err = idx.Search(context.Background(), q)
	}()
	if panicked != nil {
		if c19OrderDependent(conds) {
			r.Add("diag_panic_depends_on_range_map_order_not_judged", 1)
			return "", ""
		}
		for _, c := range conds {
			if c.Kind == "float" && c19IsRange(c) {
				return c19P + "Search:exclusive-range-with-non-integer-bound-panics", fmt.Sprintf("Search(%q) panics: %v", q.String(), panicked)
			}
		}
		return c19P + "Search:panics", fmt.Sprintf("Search(%q) panics: %v", q.String(), panicked)
	}
	if err != nil {
		r.Outcome("search:error")
		return "", ""
	}
	byHash := map[string]int{}
	for i := range hist {
		byHash[string(types.Tx(results[i].Tx).Hash())] = i
	}
	seen := map[int]int{}
	for _, res := range got {
		i, ok := byHash[string(types.Tx(res.Tx).Hash())]
		if !ok || !proto.Equal(res, results[i]) {
			return c19P + "Search:returns-item-that-was-not-indexed-like-that", fmt.Sprintf("query %q returned %v", q.String(), res)
		}
		seen[i]++
		if seen[i] > 1 {
			return c19P + "Search:item-returned-twice", fmt.Sprintf("query %q returned %s twice", q.String(), c19DescribeTx(i, hist[i]))
		}
	}
	nMatch := 0
	for i, t := range hist {
		want := true
		for _, c := range conds {
			if !c19CondHolds(c, t, i, hist) {
				want = false
				break
			}
		}
		if want {
			nMatch++
		}
		if want == (seen[i] > 0) {
			continue
		}
		if c19OrderDependent(conds) {
			r.Add("diag_panic_depends_on_range_map_order_not_judged", 1)
			return "", ""
		}
		if c19Ambiguous(conds, t) {
			r.Add("diag_two_ranges_on_multi_valued_key_not_judged", 1)
			continue
		}
		var all []string
		for j, u := range hist {
			all = append(all, c19DescribeTx(j, u))
		}
		if want {
			return c19Classify(conds, hist, i, false), fmt.Sprintf("Search(%q) does not return %s, which satisfies the query; indexed history: %s",
				q.String(), c19DescribeTx(i, t), strings.Join(all, " "))
		}
		return c19Classify(conds, hist, i, true), fmt.Sprintf("Search(%q) returns %s, which does not satisfy the query; indexed history: %s",
			q.String(), c19DescribeTx(i, t), strings.Join(all, " "))
	}
	switch {
	case nMatch == 0:
		r.Outcome("search:empty")
	case nMatch == len(hist):
		r.Outcome("search:all")
	default:
		r.Outcome("search:some")
	}
	return "", ""
}

// retrievable: each committed tx is found by hash with the recorded height, index and result
func c19Retrievable(idx *TxIndex, results []*abci.TxResult) (key, what string) {
	for i, want := range results {
		got, err := idx.Get(types.Tx(want.Tx).Hash())
		if err != nil || got == nil {
			return c19P + "Get:committed-tx-not-retrievable-by-hash", fmt.Sprintf("tx#%d: Get returned (%v, %v)", i, got, err)
		}
		if !proto.Equal(got, want) {
			return c19P + "Get:retrieved-tx-differs-from-what-was-indexed", fmt.Sprintf("tx#%d: indexed %v, retrieved %v", i, want, got)
		}
	}
	return "", ""
}

// position patterns: (height, index) per transaction
var c19Positions = map[int][][][2]int64{
	1: {{{1, 0}}, {{10, 0}}},
	2: {{{1, 0}, {1, 1}}, {{1, 0}, {2, 0}}, {{1, 0}, {10, 0}}, {{2, 0}, {10, 0}}},
	3: {{{1, 0}, {1, 1}, {2, 0}}, {{1, 0}, {2, 0}, {10, 0}}, {{1, 0}, {10, 0}, {10, 1}}},
	4: {{{1, 0}, {1, 1}, {2, 0}, {10, 0}}, {{1, 0}, {2, 0}, {2, 1}, {3, 0}}},
}

func c19TxKinds(menu []c19Attr, maxAttrs int) [][]c19Attr {
	kinds := [][]c19Attr{{}}
	for i := range menu {
		kinds = append(kinds, []c19Attr{menu[i]})
	}
	if maxAttrs >= 2 {
		for i := range menu {
			for j := i + 1; j < len(menu); j++ {
				kinds = append(kinds, []c19Attr{menu[i], menu[j]})
			}
		}
	}
	return kinds
}

func TestVerifC19TxIndex(t *testing.T) {
	r := vr.Start("C19", "txindex", 90*time.Second, 15*time.Minute)
	defer r.Finish()
	r.Rule = "odometer over histories (position pattern x per-transaction attribute set from the attribute menu) x all queries with <= 2 conditions " +
		"(ordered pairs) from the condition menu; every (history, query) pair is a distinct input of the real Search; non-trivial = the brute-force " +
		"result is neither empty nor the whole history"
	r.Assume("transaction bytes are distinct (the hash is the primary key by design)")
	r.Assume("events with an empty type, attributes with an empty key and attributes without the index flag are not searchable (documented)")
	r.Assume("value alphabet: pure integers and plain strings; a query is judged per condition existentially over the transaction's indexed attribute values; " +
		"two range conditions on one multi-valued key are not judged")

	thorough := vr.Thorough()
	condMenu := c19CondMenu(thorough)

	run := func(c c19Case) (key, what string) {
		idx, results, err := c19Build(c.Hist, c.PerTx)
		if err != nil {
			return c19P + "AddBatch:error", err.Error()
		}
		if k, w := c19Retrievable(idx, results); k != "" {
			return k, w
		}
		q, err := query.New(c19QueryText(c.Conds, c.Hist))
		if err != nil {
			panic(err)
		}
		return c19Search(r, idx, results, c.Hist, c.Conds, q)
	}

	var rc c19Case
	if replaying, skip := r.ReplayCase(&rc); skip {
		return
	} else if replaying {
		r.Eval()
		if k, w := run(rc); k != "" {
			r.Violation(k, w, rc)
		}
		return
	}

	// queries are parsed once per history only where they depend on it (hash); otherwise once for all
	type pq struct {
		conds []c19Cond
		q     *query.Query
		hash  bool
	}
	var queries []pq
	add := func(conds []c19Cond) {
		hasHash := false
		for _, c := range conds {
			if c.Kind == "hash" {
				hasHash = true
			}
		}
		// the referenced hashes are those of fixed transaction bytes, so the text does not depend on the history
		p := pq{conds: conds, hash: hasHash, q: query.MustParse(c19QueryText(conds, []c19Tx{{}}))}
		queries = append(queries, p)
	}
	for i := range condMenu {
		add([]c19Cond{condMenu[i]})
	}
	for i := range condMenu {
		for j := range condMenu {
			add([]c19Cond{condMenu[i], condMenu[j]})
		}
	}
	if thorough {
		// a slice of three-condition queries: range + equality + height
		for _, a := range condMenu {
			if a.Key != "a.n" || !c19IsRange(a) {
				continue
			}
			for _, b := range condMenu {
				if b.Key != "a.s" {
					continue
				}
				for _, c := range condMenu {
					if c.Key == "tx.height" {
						add([]c19Cond{a, b, c})
					}
				}
			}
		}
	}
	r.Set("queries_per_history", fmt.Sprint(len(queries)))

	k := 0
	stop := false
	nHist := int64(0)
	confirmed := map[string]bool{}
	doHistory := func(hist []c19Tx, perTx bool) {
		k++
		if stop || !r.Mine(k) {
			return
		}
		if r.Deadline("history enumeration") {
			stop = true
			return
		}
		nHist++
		idx, results, err := c19Build(hist, perTx)
		if err != nil {
			r.Violation(c19P+"AddBatch:error", err.Error(), c19Case{Hist: hist, PerTx: perTx})
			return
		}
		if key, what := c19Retrievable(idx, results); key != "" {
			r.Violation(key, what, c19Case{Hist: hist, PerTx: perTx, Conds: []c19Cond{condMenu[0]}})
		}
		for _, p := range queries {
			q := p.q
			r.Eval()
			key, what := c19Search(r, idx, results, hist, p.conds, q)
			if key != "" {
				c := c19Case{Hist: hist, PerTx: perTx, Conds: p.conds, Query: q.String()}
				if confirmed[key] { // only the first case of a class carries the replay; later ones are counted
					r.Violation(key, what, nil)
					continue
				}
				confirmed[key] = true
				first := fmt.Errorf("%s", key)
				if !vr.Confirm(3, first, func() error {
					k2, _ := run(c)
					if k2 == "" {
						return nil
					}
					return fmt.Errorf("%s", k2)
				}) {
					r.Cap("a search mismatch was not reproducible: " + q.String())
					continue
				}
				r.Violation(key, what, c)
			}
		}
		if nHist%2000 == 1 {
			r.Sample(map[string]interface{}{"history": hist, "index_per_tx": perTx, "queries": len(queries)})
		}
	}

	menu := c19AttrMenuQuick
	if thorough {
		menu = c19AttrMenuThorough
	}
	full := c19TxKinds(menu, 2)
	if !thorough {
		// quick: all single attributes, pairs only among the searchable ones
		full = c19TxKinds(menu, 1)
		for i := 0; i < 7; i++ {
			for j := i + 1; j < 7; j++ {
				full = append(full, []c19Attr{menu[i], menu[j]})
			}
		}
	}
	// reduced kinds for longer histories: the values that collide (1/10, x/xy/x/y), one non-indexed, one pair
	small := [][]c19Attr{{}, {menu[0]}, {menu[2]}, {menu[3]}, {menu[5]}, {menu[1], menu[4]}, {menu[0], menu[1]}, {menu[7], menu[3]}, {menu[6], menu[5]}}
	enumerate := func(n int, kinds [][]c19Attr, perTx bool) {
		for _, pos := range c19Positions[n] {
			idx := make([]int, n)
			for !stop {
				hist := make([]c19Tx, n)
				for i := 0; i < n; i++ {
					hist[i] = c19Tx{Height: pos[i][0], Index: uint32(pos[i][1]), Attrs: kinds[idx[i]]}
				}
				doHistory(hist, perTx)
				i := 0
				for ; i < n; i++ {
					idx[i]++
					if idx[i] < len(kinds) {
						break
					}
					idx[i] = 0
				}
				if i == n {
					break
				}
			}
		}
	}
	var done []string
	enumerate(1, full, false)
	enumerate(1, full, true)
	done = append(done, fmt.Sprintf("1 tx x %d attribute sets (AddBatch and Index)", len(full)))
	enumerate(2, small, true)
	enumerate(3, small, false)
	if !stop {
		done = append(done, fmt.Sprintf("2 txs (Index) and 3 txs (AddBatch) x %d reduced attribute sets", len(small)))
	}
	if thorough {
		enumerate(4, small, false)
		if !stop {
			done = append(done, fmt.Sprintf("4 txs x %d reduced attribute sets", len(small)))
		}
	}
	enumerate(2, full, false)
	if !stop {
		done = append(done, fmt.Sprintf("2 txs x %d attribute sets each (AddBatch)", len(full)))
	}
	r.Set("histories", nHist)
	r.Bound = strings.Join(done, "; ") + fmt.Sprintf("; %d queries per history from %d conditions", len(queries), len(condMenu))
	r.NTCount(r.Outcomes["search:some"])
}
