package state_test

// C06 (iii) — blocks built by a correct proposer: CreateProposalBlock on replica 1 with the real
// mempool filled around the byte boundary and the real evidence pool, judged by ValidateBlock on
// both replicas, by the reference predicate, and against the size limits a receiver enforces
// (consensus.addProposalBlockPart: sum of part bytes <= Block.MaxBytes).

import (
	"bytes"
	"fmt"

	mempl "github.com/tendermint/tendermint/mempool"
	"github.com/tendermint/tendermint/types"
)

const (
	c06FillEmpty = iota
	c06FillMinus1
	c06FillExact
	c06FillPlus1
	c06FillFloodTiny
	c06FillFloodMedium
	c06FillOneBig
	c06FillMedExact // the boundary fills again, with txs whose length prefix takes two bytes (>= 128 bytes long)
	c06FillMedPlus1
	c06NFills
)

var c06FillNames = []string{"empty", "boundary-1", "boundary", "boundary+1", "flood-tiny", "flood-medium", "one-big-tx", "boundary/130B-txs", "boundary+1/130B-txs"}

// c06TxCost is the proto size a tx of length n adds to Data (tag + length varint + bytes).
func c06TxCost(n int) int64 {
	l := int64(1)
	for v := n; v >= 128; v >>= 7 {
		l++
	}
	return 1 + l + int64(n)
}

// fill puts distinct txs with total proto size exactly `total` into the mempool (unit = body length of the bulk txs).
func (w *c06World) fill(total int64, unit int) (int, error) {
	mp := w.r1.mp
	mp.Flush()
	n := 0
	push := func(tx []byte) error {
		n++
		return mp.CheckTx(tx, nil, mempl.TxInfo{})
	}
	uc := c06TxCost(unit)
	seq := 0
	for total >= uc+3 || total == uc {
		tx := make([]byte, unit)
		tx[0] = byte(0x10 + seq>>8)
		tx[1] = byte(seq)
		for i := 2; i < unit; i++ {
			tx[i] = byte(i)
		}
		seq++
		if err := push(tx); err != nil {
			return n, err
		}
		total -= uc
	}
	// remainder: one tx of exactly that cost; cost 130 does not exist (127 bytes cost 129, 128 bytes cost 131),
	// so a one-byte tx (cost 3) is put in front when needed
	for total > 0 {
		hit := false
		for body := 1; body <= int(total); body++ {
			if c06TxCost(body) == total {
				if err := push(bytes.Repeat([]byte{0xEE}, body)); err != nil {
					return n, err
				}
				total, hit = 0, true
				break
			}
		}
		if !hit {
			if total < 6 {
				return n, fmt.Errorf("cannot hit remainder %d", total)
			}
			if err := push([]byte{0xEF}); err != nil {
				return n, err
			}
			total -= 3
		}
	}
	return n, nil
}

// c06MedUnit is the first body length in 130..132 with which fill can hit `total` exactly (a remainder of 1 or 2 bytes is no tx).
func c06MedUnit(total int64) int {
	for unit := 130; unit < 132; unit++ {
		rem, uc := total, c06TxCost(unit)
		for rem >= uc+3 || rem == uc {
			rem -= uc
		}
		if rem != 1 && rem != 2 {
			return unit
		}
	}
	return 132
}

const c06BudgetKey = "state/execution.go:CreateProposalBlock:commit-budget-uses-current-validator-count"

// proposer runs the proposer checks on the current state (before the honest block of this height is applied).
func (w *c06World) proposer(r reporter, nEvMenu []int, lean bool) {
	S := w.r1.state
	H := w.rec.nextHeight()
	maxBytes := S.ConsensusParams.Block.MaxBytes
	small := maxBytes < 100_000
	addr := S.Validators.GetProposer().Address
	nPending := 0
	for _, nEv := range nEvMenu {
		if nEv > 0 && H == w.rec.initial {
			continue
		}
		for nPending < nEv {
			ev := w.makeEvidence(H-1, w.rec.lastTime, w.rec.last, 100+nPending, "")
			if err := w.r1.evpool.AddEvidence(ev); err != nil {
				w.fail("evidence/pool.go:AddEvidence:rejects-valid-evidence", fmt.Sprintf("cfg %s height %d: %v", w.cfg.Name, H, err))
				return
			}
			nPending++
		}
		// what a correct proposer has to budget: the block carries the previous commit, one slot per member of the previous set (the
		// harness used the size of the current set here until the repair of the proposer's budget; with a validator removal and a
		// tight Block.MaxBytes that let a configuration through in which no block fits at all — reported by the thorough tier as a
		// proposer panic, a false alarm: such configurations are counted as budget-negative and skipped)
		_, evSize := w.r1.evpool.PendingEvidence(S.ConsensusParams.Evidence.MaxBytes)
		var D int64
		if err, _ := c06Safe(func() error { D = types.MaxDataBytes(maxBytes, evSize, w.lastCommit.Size()); return nil }); err != nil {
			r.Add("diag_proposer_budget_negative", 1)
			r.Outcome("proposer:budget-negative")
			continue
		}
		for fillMode := 0; fillMode < c06NFills; fillMode++ {
			if lean && nEv > 0 && fillMode != c06FillEmpty && fillMode != c06FillExact && fillMode != c06FillFloodTiny {
				continue
			}
			var err error
			switch fillMode {
			case c06FillEmpty:
				w.r1.mp.Flush()
			case c06FillMinus1, c06FillExact, c06FillPlus1:
				t := D + int64(fillMode-c06FillExact)
				if !small || t < 3 {
					continue
				}
				_, err = w.fill(t, 2)
			case c06FillFloodTiny:
				t := D + 403
				if !small {
					t = 2003
				}
				_, err = w.fill(t, 2)
			case c06FillFloodMedium:
				t := D + 3*c06TxCost(130) + 7
				if !small {
					t = 5 * c06TxCost(130)
				}
				_, err = w.fill(t, 130)
			case c06FillOneBig:
				if !small || D < 3 {
					continue
				}
				w.r1.mp.Flush()
				for body := int(D); body >= 1; body-- {
					if c06TxCost(body) <= D {
						err = w.r1.mp.CheckTx(bytes.Repeat([]byte{0xDD}, body), nil, mempl.TxInfo{})
						break
					}
				}
			case c06FillMedExact, c06FillMedPlus1:
				// the mempool holds exactly the budget / one byte more, almost all of it in txs of >= 128 bytes: every tx costs the
				// block tag + two-byte length + body, so the last tx fits in the first fill and must stay behind in the second
				t := D + int64(fillMode-c06FillMedExact)
				if !small || t < 2*c06TxCost(130) {
					continue
				}
				_, err = w.fill(t, c06MedUnit(t))
			}
			if err != nil {
				r.Outcome("proposer:fill-refused")
				r.Add("diag_mempool_refused_fill", 1)
				r.Note(fmt.Sprintf("mempool refused a fill (%s, budget %d): %.120s", c06FillNames[fillMode], D, err.Error()))
				continue
			}
			poolTxs := w.r1.mp.Size()
			var block *types.Block
			var parts *types.PartSet
			if err, _ := c06Safe(func() error { block, parts = w.r1.exec.CreateProposalBlock(H, S, w.lastCommit, addr); return nil }); err != nil {
				w.fail("state/execution.go:CreateProposalBlock:panics", fmt.Sprintf("cfg %s height %d fill %s: %v", w.cfg.Name, H, c06FillNames[fillMode], err))
				continue
			}
			w.judgeProposal(r, block, parts, fmt.Sprintf("fill=%s pending-evidence=%d pool-txs=%d", c06FillNames[fillMode], nPending, poolTxs), poolTxs)
		}
	}
	w.r1.mp.Flush()
}

func (w *c06World) judgeProposal(r reporter, block *types.Block, parts *types.PartSet, how string, poolTxs int) {
	S := w.r1.state
	H := block.Height
	maxBytes := S.ConsensusParams.Block.MaxBytes
	ctx := fmt.Sprintf("cfg %s height %d %s: validators=%d last-validators(commit slots)=%d MaxBytes=%d txs-in-block=%d evidence-in-block=%d",
		w.cfg.Name, H, how, S.Validators.Size(), len(block.LastCommit.Signatures), maxBytes, len(block.Txs), len(block.Evidence.Evidence))
	// --- size limits
	size := int64(block.Size())
	if size != parts.ByteSize() {
		w.fail("types/block.go:Size:differs-from-part-set-bytes", fmt.Sprintf("%s: %d vs %d", ctx, size, parts.ByteSize()))
	}
	slack := maxBytes - size
	if cur, ok := w.env.minSlack[w.cfg.Name]; !ok || slack < cur {
		w.env.minSlack[w.cfg.Name] = slack
	}
	over := size > maxBytes
	if over {
		// would the block have fitted had the commit been budgeted with the size of the set that signed it?
		extra := types.MaxCommitBytes(len(block.LastCommit.Signatures)) - types.MaxCommitBytes(S.Validators.Size())
		what := fmt.Sprintf("%s: block is %d bytes > MaxBytes %d (over by %d); the data budget reserved %d bytes for a commit of %d slots, the block carries the %d-slot commit of the previous set (%d bytes more)",
			ctx, size, maxBytes, size-maxBytes, types.MaxCommitBytes(S.Validators.Size()), S.Validators.Size(), len(block.LastCommit.Signatures), extra)
		if extra > 0 && size-maxBytes <= extra {
			w.fail(c06BudgetKey, what)
		} else {
			w.fail("state/execution.go:CreateProposalBlock:block-exceeds-MaxBytes", what)
		}
		r.Outcome("proposer:over-max-bytes")
	}
	// --- the data budget: "fits the size limits for headers within the header size budget" is guaranteed by reaping no more
	// transaction bytes than the block limit leaves when the header, the commit it carries (every slot, signed or absent) and the
	// evidence take their maximal encoded sizes; a proposer that reaps more produces an oversized block for some in-budget header
	if !over {
		var D int64
		if err, _ := c06Safe(func() error { D = types.MaxDataBytes(maxBytes, block.Evidence.ByteSize(), len(block.LastCommit.Signatures)); return nil }); err == nil {
			if used := types.ComputeProtoSizeForTxs(block.Txs); used > D {
				w.fail("state/execution.go:CreateProposalBlock:transactions-exceed-the-data-budget",
					fmt.Sprintf("%s: the block carries %d bytes of transactions; with %d commit slots and %d bytes of evidence the block limit leaves %d", ctx, used, len(block.LastCommit.Signatures), block.Evidence.ByteSize(), D))
			}
		}
	}
	// --- the block must pass the check, on the proposer and on a receiver that gets it over the wire
	err1, _ := c06Safe(func() error { return w.r1.exec.ValidateBlock(S, block) })
	b2, rx, rxBytes, werr := c06Wire(block, types.BlockPartSizeBytes)
	if werr != nil {
		w.fail("types/block.go:wire-roundtrip:proposal-does-not-decode", fmt.Sprintf("%s: %v", ctx, werr))
		return
	}
	if !bytes.Equal(b2.Hash(), block.Hash()) || !rx.Header().Equals(parts.Header()) {
		w.fail("types/block.go:Hash:differs-after-wire-roundtrip", ctx)
	}
	if (rxBytes > maxBytes) != over {
		w.fail("types/part_set.go:ByteSize:receiver-limit-disagrees-with-block-size", fmt.Sprintf("%s: part bytes %d", ctx, rxBytes))
	}
	err2, _ := c06Safe(func() error { return w.r2.exec.ValidateBlock(w.r2.state, b2) })
	pb, err := block.ToProto()
	if err != nil {
		panic(err)
	}
	ref := w.ref(c06ClonePB(pb))
	for i, err := range []error{err1, err2} {
		if err == nil {
			continue
		}
		class := c06ErrClass(err)
		who := [...]string{"proposer", "receiver"}[i]
		switch {
		case class == "time-not-after" && !w.commitBenign:
			r.Outcome("proposer:rejected-as-expected(stale-commit)")
		case (class == "time-not-after" || class == "time-not-median") && ref.haveMedian && !ref.implPos.Equal(ref.lower):
			w.fail(c06MedianKey+":proposer-block-invalid", fmt.Sprintf("%s: the block a correct proposer builds is rejected by the %s (%v): its time is the timestamp of a member with <1/3 power "+
				"(element at floor(P/2)=%v) instead of the weighted median %v; previous block time %v", ctx, who, err, ref.implPos.UTC(), ref.lower.UTC(), w.rec.lastTime.UTC()))
		default:
			w.fail("state/execution.go:CreateProposalBlock:block-fails-ValidateBlock:"+class, fmt.Sprintf("%s: %s says %v", ctx, who, err))
		}
	}
	if err1 == nil && err2 == nil {
		switch {
		case ref.v == c06Reject && ref.medianQuirk:
			w.fail(c06MedianKey, fmt.Sprintf("%s: proposer's block time %v is not a weighted median of its commit (lower=%v upper=%v)", ctx, block.Time.UTC(), ref.lower.UTC(), ref.upper.UTC()))
		case ref.v == c06Reject:
			w.fail("state/state.go:MakeBlock:proposer-block-differs-from-reference:"+ref.reason, ctx)
		}
		if !over {
			r.Outcome("proposer:ok")
		}
	}
	switch {
	case poolTxs == 0:
		r.Outcome("proposer:reaped-nothing-to-reap")
	case len(block.Txs) == poolTxs:
		r.Outcome("proposer:reaped-all")
	case len(block.Txs) == 0:
		r.Outcome("proposer:reaped-none")
	default:
		r.Outcome("proposer:reaped-some")
	}
	if len(block.Evidence.Evidence) > 0 {
		r.Outcome("proposer:with-evidence")
	}
}
