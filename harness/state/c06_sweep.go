package state_test

// C06 (i) — the perturbation sweep: every header field, LastCommit slot, evidence list and data of
// the honest block is perturbed at wire level; the decoded result goes through ValidateBlock on
// replica 2 and the verdict is compared with the reference predicate.

import (
	"fmt"
	"time"

	"github.com/gogo/protobuf/proto"

	"github.com/tendermint/tendermint/crypto/merkle"
	"github.com/tendermint/tendermint/crypto/tmhash"
	tmproto "github.com/tendermint/tendermint/proto/tendermint/types"
	"github.com/tendermint/tendermint/types"
)

type c06Mut struct {
	name string
	f    func(pb *tmproto.Block) bool // false: not applicable to this block
}

func c06Flip(b []byte) []byte {
	if len(b) == 0 {
		return tmhash.Sum([]byte("c06-wrong"))
	}
	o := append([]byte{}, b...)
	o[len(o)/2] ^= 0x10
	return o
}

func c06FixCommitHash(pb *tmproto.Block) {
	bzs := make([][]byte, len(pb.LastCommit.Signatures))
	for i := range pb.LastCommit.Signatures {
		bzs[i], _ = pb.LastCommit.Signatures[i].Marshal()
	}
	pb.Header.LastCommitHash = merkle.HashFromByteSlices(bzs)
}

func c06FixDataHash(pb *tmproto.Block) {
	bzs := make([][]byte, len(pb.Data.Txs))
	for i, tx := range pb.Data.Txs {
		bzs[i] = tmhash.Sum(tx)
	}
	pb.Header.DataHash = merkle.HashFromByteSlices(bzs)
}

func c06FixEvHash(pb *tmproto.Block) {
	bzs := make([][]byte, len(pb.Evidence.Evidence))
	for i := range pb.Evidence.Evidence {
		bzs[i], _ = pb.Evidence.Evidence[i].GetDuplicateVoteEvidence().Marshal()
	}
	pb.Header.EvidenceHash = merkle.HashFromByteSlices(bzs)
}

// fixTime sets the header time to the reference (lower) weighted median of the block's own commit.
func (w *c06World) fixTime(pb *tmproto.Block) {
	var wts []c06WT
	for _, cs := range pb.LastCommit.Signatures {
		if cs.BlockIdFlag == tmproto.BlockIDFlagAbsent {
			continue
		}
		if k, ok := w.env.byAdr[string(cs.ValidatorAddress)]; ok {
			if p, in := w.rec.last[k]; in {
				wts = append(wts, c06WT{cs.Timestamp, p})
			}
		}
	}
	if lo, _, _, ok := c06RefMedian(wts); ok {
		pb.Header.Time = lo
	}
}

func (w *c06World) evPB(ev types.Evidence) tmproto.Evidence {
	p, err := types.EvidenceToProto(ev)
	if err != nil {
		panic(err)
	}
	return *p
}

// mutations builds the perturbation list for the honest block of the next height.
func (w *c06World) mutations(honest *tmproto.Block) []c06Mut {
	rec := w.rec
	H := rec.nextHeight()
	initial := H == rec.initial
	var ms []c06Mut
	add := func(name string, f func(pb *tmproto.Block) bool) { ms = append(ms, c06Mut{name, f}) }
	hdr := func(name string, f func(h *tmproto.Header)) {
		add(name, func(pb *tmproto.Block) bool { f(&pb.Header); return true })
	}
	// --- header
	hdr("version.block+1", func(h *tmproto.Header) { h.Version.Block++ })
	hdr("version.app+1", func(h *tmproto.Header) { h.Version.App++ })
	hdr("chain-id+x", func(h *tmproto.Header) { h.ChainID += "x" })
	hdr("chain-id-truncated", func(h *tmproto.Header) { h.ChainID = h.ChainID[:len(h.ChainID)-1] })
	hdr("chain-id-empty", func(h *tmproto.Header) { h.ChainID = "" })
	hdr("height+1", func(h *tmproto.Header) { h.Height++ })
	hdr("height-1", func(h *tmproto.Header) { h.Height-- })
	hdr("height+10", func(h *tmproto.Header) { h.Height += 10 })
	hdr("time+1ns", func(h *tmproto.Header) { h.Time = h.Time.Add(1) })
	hdr("time-1ns", func(h *tmproto.Header) { h.Time = h.Time.Add(-1) })
	hdr("time+1s", func(h *tmproto.Header) { h.Time = h.Time.Add(time.Second) })
	hdr("time=previous-block-time", func(h *tmproto.Header) { h.Time = rec.lastTime })
	hdr("time=zero", func(h *tmproto.Header) { h.Time = time.Time{} })
	hdr("time=previous-block-time+1ns", func(h *tmproto.Header) { h.Time = rec.lastTime.Add(1) })
	// every distinct commit timestamp as block time (one of them is the median; the others are not)
	if honest.LastCommit != nil {
		seen := map[int64]bool{}
		for i := range honest.LastCommit.Signatures {
			ts := honest.LastCommit.Signatures[i].Timestamp
			if honest.LastCommit.Signatures[i].BlockIdFlag == tmproto.BlockIDFlagAbsent || seen[ts.UnixNano()] {
				continue
			}
			seen[ts.UnixNano()] = true
			hdr(fmt.Sprintf("time=timestamp-of-slot-%d", i), func(h *tmproto.Header) { h.Time = ts })
		}
	}
	hdr("last-block-id.hash-flipped", func(h *tmproto.Header) { h.LastBlockId.Hash = c06Flip(h.LastBlockId.Hash) })
	hdr("last-block-id.parts.total+1", func(h *tmproto.Header) { h.LastBlockId.PartSetHeader.Total++ })
	hdr("last-block-id.parts.hash-flipped", func(h *tmproto.Header) {
		h.LastBlockId.PartSetHeader.Hash = c06Flip(h.LastBlockId.PartSetHeader.Hash)
	})
	add("last-block-id=zero", func(pb *tmproto.Block) bool {
		if initial {
			return false
		}
		pb.Header.LastBlockId = tmproto.BlockID{}
		return true
	})
	hdr("last-commit-hash-flipped", func(h *tmproto.Header) { h.LastCommitHash = c06Flip(h.LastCommitHash) })
	hdr("last-commit-hash-empty", func(h *tmproto.Header) { h.LastCommitHash = nil })
	hdr("data-hash-flipped", func(h *tmproto.Header) { h.DataHash = c06Flip(h.DataHash) })
	hdr("data-hash-empty", func(h *tmproto.Header) { h.DataHash = nil })
	hdr("validators-hash-flipped", func(h *tmproto.Header) { h.ValidatorsHash = c06Flip(h.ValidatorsHash) })
	hdr("validators-hash-empty", func(h *tmproto.Header) { h.ValidatorsHash = nil })
	hdr("validators-hash=next-validators-hash", func(h *tmproto.Header) { h.ValidatorsHash = h.NextValidatorsHash })
	hdr("validators-hash=last-validators-hash", func(h *tmproto.Header) { h.ValidatorsHash = w.env.refValHash(rec.last) })
	hdr("next-validators-hash-flipped", func(h *tmproto.Header) { h.NextValidatorsHash = c06Flip(h.NextValidatorsHash) })
	hdr("next-validators-hash=validators-hash", func(h *tmproto.Header) { h.NextValidatorsHash = h.ValidatorsHash })
	hdr("validators-hashes-swapped", func(h *tmproto.Header) {
		h.ValidatorsHash, h.NextValidatorsHash = h.NextValidatorsHash, h.ValidatorsHash
	})
	hdr("consensus-hash-flipped", func(h *tmproto.Header) { h.ConsensusHash = c06Flip(h.ConsensusHash) })
	hdr("consensus-hash-of-other-max-bytes", func(h *tmproto.Header) {
		p := rec.params
		p.Block.MaxBytes++
		h.ConsensusHash = c06RefParamsHash(p)
	})
	hdr("consensus-hash-of-other-max-gas", func(h *tmproto.Header) {
		p := rec.params
		p.Block.MaxGas++
		h.ConsensusHash = c06RefParamsHash(p)
	})
	hdr("app-hash-flipped", func(h *tmproto.Header) { h.AppHash = c06Flip(h.AppHash) })
	hdr("app-hash-empty", func(h *tmproto.Header) { h.AppHash = nil })
	hdr("app-hash+byte", func(h *tmproto.Header) { h.AppHash = append(append([]byte{}, h.AppHash...), 0) })
	hdr("last-results-hash-flipped", func(h *tmproto.Header) { h.LastResultsHash = c06Flip(h.LastResultsHash) })
	hdr("last-results-hash-emptied-or-set", func(h *tmproto.Header) {
		if len(h.LastResultsHash) == 0 {
			h.LastResultsHash = merkle.HashFromByteSlices(nil)
		} else {
			h.LastResultsHash = nil
		}
	})
	hdr("evidence-hash-flipped", func(h *tmproto.Header) { h.EvidenceHash = c06Flip(h.EvidenceHash) })
	hdr("evidence-hash-empty", func(h *tmproto.Header) { h.EvidenceHash = nil })
	// proposer
	pick := func(in, notIn map[int]int64, not []byte) (int, bool) {
		for k := 0; k < c06NKeys; k++ {
			if _, ok := in[k]; !ok {
				continue
			}
			if notIn != nil {
				if _, ok := notIn[k]; ok {
					continue
				}
			}
			if string(w.env.addrs[k]) == string(not) {
				continue
			}
			return k, true
		}
		return 0, false
	}
	add("proposer=other-member", func(pb *tmproto.Block) bool {
		k, ok := pick(rec.cur, nil, pb.Header.ProposerAddress)
		if !ok {
			return false
		}
		pb.Header.ProposerAddress = w.env.addrs[k]
		return true
	})
	add("proposer=member-of-previous-set-only", func(pb *tmproto.Block) bool {
		k, ok := pick(rec.last, rec.cur, nil)
		if !ok {
			return false
		}
		pb.Header.ProposerAddress = w.env.addrs[k]
		return true
	})
	add("proposer=member-of-next-set-only", func(pb *tmproto.Block) bool {
		k, ok := pick(rec.next, rec.cur, nil)
		if !ok {
			return false
		}
		pb.Header.ProposerAddress = w.env.addrs[k]
		return true
	})
	hdr("proposer=outsider", func(h *tmproto.Header) { h.ProposerAddress = w.env.addrs[c06NKeys-1] })
	hdr("proposer-19-bytes", func(h *tmproto.Header) { h.ProposerAddress = h.ProposerAddress[:19] })
	hdr("proposer-empty", func(h *tmproto.Header) { h.ProposerAddress = nil })

	// --- data
	for _, fix := range []bool{false, true} {
		fix := fix
		sfx := ""
		if fix {
			sfx = "+data-hash-recomputed"
		}
		add("data:tx-appended"+sfx, func(pb *tmproto.Block) bool {
			pb.Data.Txs = append(pb.Data.Txs, []byte{0xAB, 0xCD})
			if fix {
				c06FixDataHash(pb)
			}
			return true
		})
		add("data:tx-dropped"+sfx, func(pb *tmproto.Block) bool {
			if len(pb.Data.Txs) == 0 {
				return false
			}
			pb.Data.Txs = pb.Data.Txs[1:]
			if fix {
				c06FixDataHash(pb)
			}
			return true
		})
		add("data:txs-reordered"+sfx, func(pb *tmproto.Block) bool {
			if len(pb.Data.Txs) < 2 {
				return false
			}
			pb.Data.Txs[0], pb.Data.Txs[1] = pb.Data.Txs[1], pb.Data.Txs[0]
			if fix {
				c06FixDataHash(pb)
			}
			return true
		})
	}

	// --- evidence (only where evidence can exist: a previous height is stored)
	if !initial {
		evAdd := func(name string, mk func() []types.Evidence) {
			for _, fix := range []bool{false, true} {
				fix := fix
				sfx := ""
				if fix {
					sfx = "+evidence-hash-recomputed"
				}
				add("evidence:"+name+sfx, func(pb *tmproto.Block) bool {
					evs := mk()
					if evs == nil {
						return false
					}
					for _, ev := range evs {
						pb.Evidence.Evidence = append(pb.Evidence.Evidence, w.evPB(ev))
					}
					if fix {
						c06FixEvHash(pb)
					}
					return true
				})
			}
		}
		fresh := func(kind string) func() []types.Evidence {
			return func() []types.Evidence {
				return []types.Evidence{w.makeEvidence(H-1, rec.lastTime, rec.last, 1, kind)}
			}
		}
		evAdd("valid-appended", fresh(""))
		evAdd("same-twice", func() []types.Evidence {
			e := w.makeEvidence(H-1, rec.lastTime, rec.last, 2, "")
			return []types.Evidence{e, e}
		})
		evAdd("bad-signature", fresh("badsig"))
		evAdd("wrong-validator-power", fresh("wrongpower"))
		evAdd("wrong-time", fresh("wrongtime"))
		evAdd("signed-by-outsider", fresh("outsider"))
		evAdd("already-committed", func() []types.Evidence {
			if len(w.committed) == 0 {
				return nil
			}
			return []types.Evidence{w.committed[len(w.committed)-1]}
		})
		evAdd("three-valid", func() []types.Evidence {
			return []types.Evidence{w.makeEvidence(H-1, rec.lastTime, rec.last, 0, ""), w.makeEvidence(H-1, rec.lastTime, rec.last, 1, ""),
				w.makeEvidence(H-1, rec.lastTime, rec.last, 2, "")}
		})
		add("evidence:dropped+evidence-hash-recomputed", func(pb *tmproto.Block) bool {
			if len(pb.Evidence.Evidence) == 0 {
				return false
			}
			pb.Evidence.Evidence = pb.Evidence.Evidence[1:]
			c06FixEvHash(pb)
			return true
		})
	}

	// --- last commit
	cm := func(name string, f func(c *tmproto.Commit) bool) {
		// 0: raw, 1: LastCommitHash recomputed, 2: LastCommitHash and Time recomputed
		for lvl := 0; lvl < 3; lvl++ {
			lvl := lvl
			sfx := [...]string{"", "+commit-hash-recomputed", "+commit-hash-and-time-recomputed"}[lvl]
			add("commit:"+name+sfx, func(pb *tmproto.Block) bool {
				if !f(pb.LastCommit) {
					return false
				}
				if lvl >= 1 {
					c06FixCommitHash(pb)
				}
				if lvl >= 2 {
					if initial {
						return false
					}
					w.fixTime(pb)
				}
				return true
			})
		}
	}
	if initial {
		cm("absent-slot-added", func(c *tmproto.Commit) bool {
			c.Signatures = append(c.Signatures, tmproto.CommitSig{BlockIdFlag: tmproto.BlockIDFlagAbsent})
			return true
		})
		cm("signed-slot-added", func(c *tmproto.Commit) bool {
			ts := rec.genesis.Add(time.Second)
			c.Signatures = append(c.Signatures, tmproto.CommitSig{BlockIdFlag: tmproto.BlockIDFlagCommit, ValidatorAddress: w.env.addrs[0], Timestamp: ts,
				Signature: w.env.sign(0, rec.chainID, tmproto.PrecommitType, 0, 0, types.BlockID{}, ts)})
			return true
		})
	} else {
		n := len(honest.LastCommit.Signatures)
		cm("height+1", func(c *tmproto.Commit) bool { c.Height++; return true })
		cm("height-1", func(c *tmproto.Commit) bool { c.Height--; return c.Height >= 1 })
		cm("round+1", func(c *tmproto.Commit) bool { c.Round++; return true })
		cm("block-id.hash-flipped", func(c *tmproto.Commit) bool { c.BlockID.Hash = c06Flip(c.BlockID.Hash); return true })
		cm("block-id.parts.total+1", func(c *tmproto.Commit) bool { c.BlockID.PartSetHeader.Total++; return true })
		cm("last-slot-dropped", func(c *tmproto.Commit) bool {
			if n < 2 {
				return false
			}
			c.Signatures = c.Signatures[:n-1]
			return true
		})
		cm("absent-slot-appended", func(c *tmproto.Commit) bool {
			c.Signatures = append(c.Signatures, tmproto.CommitSig{BlockIdFlag: tmproto.BlockIDFlagAbsent})
			return true
		})
		cm("outsider-slot-appended", func(c *tmproto.Commit) bool {
			ts := rec.lastTime.Add(time.Second)
			bid := c06PBBlockID(c.BlockID)
			c.Signatures = append(c.Signatures, tmproto.CommitSig{BlockIdFlag: tmproto.BlockIDFlagCommit, ValidatorAddress: w.env.addrs[c06NKeys-1],
				Timestamp: ts, Signature: w.env.sign(c06NKeys-1, rec.chainID, tmproto.PrecommitType, c.Height, c.Round, bid, ts)})
			return true
		})
		cm("slots-0-1-swapped", func(c *tmproto.Commit) bool {
			if n < 2 {
				return false
			}
			c.Signatures[0], c.Signatures[1] = c.Signatures[1], c.Signatures[0]
			return true
		})
		ord := w.env.ordered(rec.last)
		for i := 0; i < n; i++ {
			i := i
			present := func(c *tmproto.Commit) bool { return c.Signatures[i].BlockIdFlag != tmproto.BlockIDFlagAbsent }
			cm(fmt.Sprintf("slot-%d->absent", i), func(c *tmproto.Commit) bool {
				if !present(c) {
					return false
				}
				c.Signatures[i] = tmproto.CommitSig{BlockIdFlag: tmproto.BlockIDFlagAbsent}
				return true
			})
			cm(fmt.Sprintf("slot-%d->valid-nil-vote", i), func(c *tmproto.Commit) bool {
				if c.Signatures[i].BlockIdFlag != tmproto.BlockIDFlagCommit {
					return false
				}
				ts := c.Signatures[i].Timestamp
				c.Signatures[i].BlockIdFlag = tmproto.BlockIDFlagNil
				c.Signatures[i].Signature = w.env.sign(ord[i].key, rec.chainID, tmproto.PrecommitType, c.Height, c.Round, types.BlockID{}, ts)
				return true
			})
			cm(fmt.Sprintf("slot-%d-flag-commit<->nil", i), func(c *tmproto.Commit) bool {
				switch c.Signatures[i].BlockIdFlag {
				case tmproto.BlockIDFlagCommit:
					c.Signatures[i].BlockIdFlag = tmproto.BlockIDFlagNil
				case tmproto.BlockIDFlagNil:
					c.Signatures[i].BlockIdFlag = tmproto.BlockIDFlagCommit
				default:
					return false
				}
				return true
			})
			cm(fmt.Sprintf("slot-%d-signature-flipped", i), func(c *tmproto.Commit) bool {
				if !present(c) {
					return false
				}
				c.Signatures[i].Signature = c06Flip(c.Signatures[i].Signature)
				return true
			})
			cm(fmt.Sprintf("slot-%d-timestamp+1ns", i), func(c *tmproto.Commit) bool {
				if !present(c) {
					return false
				}
				c.Signatures[i].Timestamp = c.Signatures[i].Timestamp.Add(1)
				return true
			})
			cm(fmt.Sprintf("slot-%d-resigned-with-later-timestamp", i), func(c *tmproto.Commit) bool {
				if c.Signatures[i].BlockIdFlag != tmproto.BlockIDFlagCommit {
					return false
				}
				ts := c.Signatures[i].Timestamp.Add(time.Hour)
				c.Signatures[i].Timestamp = ts
				c.Signatures[i].Signature = w.env.sign(ord[i].key, rec.chainID, tmproto.PrecommitType, c.Height, c.Round, c06PBBlockID(c.BlockID), ts)
				return true
			})
			cm(fmt.Sprintf("slot-%d-address-of-neighbour", i), func(c *tmproto.Commit) bool {
				if !present(c) || n < 2 {
					return false
				}
				c.Signatures[i].ValidatorAddress = ord[(i+1)%n].addr
				return true
			})
			for j := 0; j < n; j++ {
				j := j
				if j == i || ord[j].power == ord[i].power {
					continue
				}
				// the slot keeps its genuine signature but names member j; LastCommitHash is recomputed and the header
				// time is set to what MedianTime derives when it weighs the vote with member j's power
				add(fmt.Sprintf("commit:slot-%d-names-member-%d+commit-hash-recomputed+time-by-named-weights", i, j), func(pb *tmproto.Block) bool {
					c := pb.LastCommit
					if !present(c) {
						return false
					}
					c.Signatures[i].ValidatorAddress = ord[j].addr
					c06FixCommitHash(pb)
					var wts []c06WT
					for _, cs := range c.Signatures {
						if cs.BlockIdFlag == tmproto.BlockIDFlagAbsent {
							continue
						}
						wts = append(wts, c06WT{cs.Timestamp, rec.last[w.env.byAdr[string(cs.ValidatorAddress)]]})
					}
					_, _, ip, ok := c06RefMedian(wts)
					if !ok {
						return false
					}
					pb.Header.Time = ip
					return true
				})
			}
			cm(fmt.Sprintf("slot-%d-signed-by-outsider", i), func(c *tmproto.Commit) bool {
				if !present(c) {
					return false
				}
				ts := c.Signatures[i].Timestamp
				c.Signatures[i].Signature = w.env.sign(c06NKeys-1, rec.chainID, tmproto.PrecommitType, c.Height, c.Round, c06PBBlockID(c.BlockID), ts)
				return true
			})
			cm(fmt.Sprintf("slot-%d-signed-for-other-chain", i), func(c *tmproto.Commit) bool {
				if !present(c) {
					return false
				}
				ts := c.Signatures[i].Timestamp
				c.Signatures[i].Signature = w.env.sign(ord[i].key, rec.chainID+"-fork", tmproto.PrecommitType, c.Height, c.Round, c06PBBlockID(c.BlockID), ts)
				return true
			})
			cm(fmt.Sprintf("slot-%d-prevote-signature", i), func(c *tmproto.Commit) bool {
				if !present(c) {
					return false
				}
				ts := c.Signatures[i].Timestamp
				c.Signatures[i].Signature = w.env.sign(ord[i].key, rec.chainID, tmproto.PrevoteType, c.Height, c.Round, c06PBBlockID(c.BlockID), ts)
				return true
			})
		}
	}
	return ms
}

// judge sends a wire-form block to replica 2 as a receiver would see it and returns its verdict.
func (w *c06World) judge(pb *tmproto.Block) (accepted bool, class string) {
	bz, err := proto.Marshal(pb)
	if err != nil {
		return false, "unencodable"
	}
	blk, err := c06Decode(bz)
	if err != nil {
		return false, "decode:" + c06ErrClass(err)
	}
	err, _ = c06Safe(func() error { return w.r2.exec.ValidateBlock(w.r2.state, blk) })
	return err == nil, c06ErrClass(err)
}

const c06MedianKey = "types/time/time.go:WeightedMedian:odd-total-power-selects-element-below-median"

// compare one block (honest or perturbed) with the reference; records findings.
func (w *c06World) compare(name string, pb *tmproto.Block, r reporter) {
	ref := w.ref(pb)
	got, class := w.judge(pb)
	r.Outcome(fmt.Sprintf("ref=%s got=%s", ref.v, map[bool]string{true: "accept", false: "reject"}[got]))
	if !got {
		r.Add("rejected_by["+class+"]", 1)
	}
	desc := func() string {
		return fmt.Sprintf("cfg %s height %d perturbation %q: reference=%s(%s) ValidateBlock=%v(%s); header time %v, reference median lower=%v upper=%v, element at floor(P/2)=%v",
			w.cfg.Name, pb.Header.Height, name, ref.v, ref.reason, got, class, pb.Header.Time.UTC(), ref.lower.UTC(), ref.upper.UTC(), ref.implPos.UTC())
	}
	if ref.wrongAddr && ref.v == c06Either && got {
		r.Add("diag_accepted_commit_slot_with_foreign_address", 1)
	}
	switch {
	case ref.v == c06Reject && got:
		if ref.reason == "time-not-weighted-median-of-the-signers" {
			w.fail("state/state.go:MedianTime:weighs-vote-by-unsigned-slot-address", "ValidateBlock accepts a block whose time is not the weighted median of the votes in its commit: "+
				"a slot with the genuine signature of the member at its index names another member, VerifyCommit does not compare the address, MedianTime looks the weight up by it. "+desc())
		} else if ref.medianQuirk {
			w.fail(c06MedianKey, "ValidateBlock accepts a block whose time is not a weighted median of its commit. "+desc())
		} else {
			w.fail("state/validation.go:validateBlock:accepts:"+ref.reason, desc())
		}
	case ref.v == c06Accept && !got:
		if ref.haveMedian && !ref.implPos.Equal(ref.lower) && (class == "time-not-median" || class == "time-not-after") {
			w.fail(c06MedianKey, "ValidateBlock rejects the block whose time is the weighted median of its commit. "+desc())
		} else {
			w.fail("state/validation.go:validateBlock:rejects-valid-block:"+class, desc())
		}
	}
}

// sweep runs the honest block and every perturbation through compare.
func (w *c06World) sweep(honest *types.Block, r reporter) int {
	hp, err := honest.ToProto()
	if err != nil {
		panic(err)
	}
	hp = c06ClonePB(hp)
	n := 0
	for _, m := range w.mutations(hp) {
		pb := c06ClonePB(hp)
		if !m.f(pb) {
			continue
		}
		n++
		w.compare(m.name, pb, r)
	}
	n += w.evidenceLimit(honest, r)
	return n
}

// evidenceLimit: the evidence size limit is a parameter of the validating state, not of the block: the honest block is validated
// against copies of the state whose Evidence.MaxBytes is one below / equal to / one above the block's evidence size (the parameter
// hash in the header covers only the block limits, so nothing else changes). Exact predicate: accepted iff size <= limit.
func (w *c06World) evidenceLimit(honest *types.Block, r reporter) int {
	if err, _ := c06Safe(func() error { return w.r2.exec.ValidateBlock(w.r2.state, honest) }); err != nil {
		return 0 // judged by the sweep proper
	}
	size := honest.Evidence.ByteSize()
	n := 0
	for _, d := range []int64{-1, 0, 1} {
		limit := size + d
		if limit < 0 {
			continue
		}
		st := w.r2.state.Copy()
		st.ConsensusParams.Evidence.MaxBytes = limit
		err, _ := c06Safe(func() error { return w.r2.exec.ValidateBlock(st, honest) })
		n++
		want := size <= limit
		r.Outcome(fmt.Sprintf("evidence-limit: size%+d want-accept=%v got-accept=%v (evidence items %d)", d, want, err == nil, len(honest.Evidence.Evidence)))
		if (err == nil) != want {
			verb := map[bool]string{true: "accepts", false: "rejects"}[err == nil]
			w.fail(fmt.Sprintf("state/validation.go:validateBlock:evidence-size-limit-not-exact:%s-at-size%+d", verb, -d),
				fmt.Sprintf("cfg %s height %d: block with %d evidence item(s) of %d bytes validated against Evidence.MaxBytes=%d: %v", w.cfg.Name, honest.Height, len(honest.Evidence.Evidence), size, limit, err))
		}
	}
	return n
}
