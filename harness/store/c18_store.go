package store

// C18 — stored chain data stays contiguous and consistent through pruning and crashes.
// Real BlockStore + real state Store over journalled databases (vos); a valid chain with validator
// and parameter changes built with the real BlockExecutor; every sequence of save / prune
// operations; every database write as a crash point; reopen, audit, continue, audit again.

import (
	"bytes"
	"fmt"
	"testing"
	"time"

	dbm "github.com/tendermint/tm-db"

	abcicli "github.com/tendermint/tendermint/abci/client"
	abci "github.com/tendermint/tendermint/abci/types"
	"github.com/tendermint/tendermint/crypto"
	"github.com/tendermint/tendermint/crypto/ed25519"
	cryptoenc "github.com/tendermint/tendermint/crypto/encoding"
	"github.com/tendermint/tendermint/internal/verif/vos"
	"github.com/tendermint/tendermint/internal/verif/vr"
	"github.com/tendermint/tendermint/libs/log"
	tmsync "github.com/tendermint/tendermint/libs/sync"
	mmock "github.com/tendermint/tendermint/mempool/mock"
	tmstate "github.com/tendermint/tendermint/proto/tendermint/state"
	tmproto "github.com/tendermint/tendermint/proto/tendermint/types"
	sm "github.com/tendermint/tendermint/state"
	"github.com/tendermint/tendermint/types"
)

const c18Chain = "c18-chain"

var c18Genesis = time.Date(2022, 5, 1, 0, 0, 0, 0, time.UTC)

type c18Height struct {
	block  *types.Block
	parts  *types.PartSet
	commit *types.Commit // commit FOR this block (signed by the validators of this height)
	state  sm.State      // state after applying this block
	resps  *tmstate.ABCIResponses
	vals   *types.ValidatorSet // validators in force at this height
}

type c18App struct {
	abci.BaseApplication
	keys   []crypto.PrivKey
	height int64
}

func (a *c18App) BeginBlock(req abci.RequestBeginBlock) abci.ResponseBeginBlock {
	a.height = req.Header.Height
	return abci.ResponseBeginBlock{}
}

func (a *c18App) EndBlock(req abci.RequestEndBlock) abci.ResponseEndBlock {
	var r abci.ResponseEndBlock
	upd := func(i int, power int64) {
		pk, err := cryptoenc.PubKeyToProto(a.keys[i].PubKey())
		if err != nil {
			panic(err)
		}
		r.ValidatorUpdates = append(r.ValidatorUpdates, abci.ValidatorUpdate{PubKey: pk, Power: power})
	}
	rel := c18Rel(req.Height) // the pattern of updates is relative to the first block
	switch rel % 7 {
	case 2:
		upd(2, 5) // add / re-power validator 2
	case 4:
		upd(3, 7)
		upd(2, 0) // remove validator 2
	case 6:
		upd(3, 0)
	}
	if rel%5 == 3 {
		pp := types.DefaultConsensusParams() // already the proto type in this version
		pp.Block.MaxGas = 1000 + req.Height
		r.ConsensusParamUpdates = &abci.ConsensusParams{Block: &abci.BlockParams{MaxBytes: pp.Block.MaxBytes, MaxGas: pp.Block.MaxGas},
			Evidence: &pp.Evidence, Validator: &pp.Validator, Version: &pp.Version}
	}
	return r
}

func (a *c18App) Commit() abci.ResponseCommit {
	return abci.ResponseCommit{Data: []byte(fmt.Sprintf("apphash-%08d", a.height))}
}

func c18Keys() []crypto.PrivKey {
	var ks []crypto.PrivKey
	for i := 0; i < 4; i++ {
		ks = append(ks, ed25519.GenPrivKeyFromSecret([]byte(fmt.Sprintf("c18-key-%d", i))))
	}
	return ks
}

func c18SignCommit(h int64, bid types.BlockID, vals *types.ValidatorSet, keys []crypto.PrivKey) *types.Commit {
	byAddr := map[string]crypto.PrivKey{}
	for _, k := range keys {
		byAddr[string(k.PubKey().Address())] = k
	}
	sigs := make([]types.CommitSig, len(vals.Validators))
	ts := c18Genesis.Add(time.Duration(h) * time.Second)
	for i, v := range vals.Validators {
		vote := &types.Vote{Type: tmproto.PrecommitType, Height: h, Round: 0, BlockID: bid, Timestamp: ts,
			ValidatorAddress: v.Address, ValidatorIndex: int32(i)}
		sig, err := byAddr[string(v.Address)].Sign(types.VoteSignBytes(c18Chain, vote.ToProto()))
		if err != nil {
			panic(err)
		}
		sigs[i] = types.CommitSig{BlockIDFlag: types.BlockIDFlagCommit, ValidatorAddress: v.Address, Timestamp: ts, Signature: sig}
	}
	return types.NewCommit(h, 0, bid, sigs)
}

// c18Init is the chain's initial height (genesis initial_height); part "init" sets it to 1000 before building the chain. Heights in
// operations and cases stay relative (1 = the first block): c18Abs/c18Rel convert.
var c18Init int64 = 1

func c18Abs(rel int64) int64 { return rel + c18Init - 1 }
func c18Rel(abs int64) int64 { return abs - c18Init + 1 }

// c18BuildChain builds n heights with the real executor on a plain MemDB and records everything.
func c18BuildChain(n int) (sm.State, []*c18Height) {
	keys := c18Keys()
	gvals := []types.GenesisValidator{
		{Address: keys[0].PubKey().Address(), PubKey: keys[0].PubKey(), Power: 10, Name: "v0"},
		{Address: keys[1].PubKey().Address(), PubKey: keys[1].PubKey(), Power: 6, Name: "v1"},
	}
	gen := &types.GenesisDoc{GenesisTime: c18Genesis, ChainID: c18Chain, InitialHeight: c18Init, ConsensusParams: types.DefaultConsensusParams(), Validators: gvals}
	state, err := sm.MakeGenesisState(gen)
	if err != nil {
		panic(err)
	}
	genesis := state.Copy()
	ss := sm.NewStore(dbm.NewMemDB(), sm.StoreOptions{DiscardABCIResponses: false})
	if err := ss.Save(state); err != nil {
		panic(err)
	}
	app := &c18App{keys: keys}
	conn := abcicli.NewLocalClient(new(tmsync.Mutex), app)
	exec := sm.NewBlockExecutor(ss, log.NewNopLogger(), conn, mmock.Mempool{}, sm.EmptyEvidencePool{})
	var out []*c18Height
	lastCommit := types.NewCommit(0, 0, types.BlockID{}, nil)
	for h := c18Abs(1); h <= c18Abs(int64(n)); h++ {
		txs := []types.Tx{types.Tx(fmt.Sprintf("tx-%d", h))}
		block, parts := state.MakeBlock(h, txs, lastCommit, nil, state.Validators.GetProposer().Address)
		bid := types.BlockID{Hash: block.Hash(), PartSetHeader: parts.Header()}
		vals := state.Validators.Copy()
		ns, _, err := exec.ApplyBlock(state, bid, block)
		if err != nil {
			panic(fmt.Sprintf("c18: building chain, height %d: %v", h, err))
		}
		resps, err := ss.LoadABCIResponses(h)
		if err != nil {
			panic(err)
		}
		commit := c18SignCommit(h, bid, vals, keys)
		out = append(out, &c18Height{block: block, parts: parts, commit: commit, state: ns.Copy(), resps: resps, vals: vals})
		lastCommit, state = commit, ns
	}
	return genesis, out
}

// ---- operations -----------------------------------------------------------------------------------

type c18Op struct {
	Kind string `json:"kind"` // "save" (next height) | "prune"
	To   int64  `json:"to,omitempty"`
}

type c18Case struct {
	Chain  int     `json:"chain_len"`
	Ops    []c18Op `json:"ops"`
	Crash  int     `json:"crash_before_journal_entry"` // -1: no crash
	Torn   int     `json:"torn_batch_ops"`             // >= 0: the crash falls inside batch entry Crash after this many of its operations
	DBMode string  `json:"db_mode"`                    // "process" | "machine"
	After  *c18Op  `json:"after,omitempty"`            // one more operation after recovery
}

type c18Env struct {
	genesis sm.State
	chain   []*c18Height
}

type c18Stores struct {
	w  *vos.World
	bs *BlockStore
	ss sm.Store
}

func c18Open(w *vos.World) *c18Stores {
	return &c18Stores{w: w, bs: NewBlockStore(w.DB("blockstore")), ss: sm.NewStore(w.DB("state"), sm.StoreOptions{DiscardABCIResponses: false})}
}

// apply performs one operation the way consensus does it (finalizeCommit order; State.pruneBlocks order).
func (e *c18Env) apply(s *c18Stores, op c18Op) error {
	switch op.Kind {
	case "save":
		h := s.bs.Height() + 1
		if s.bs.Height() == 0 {
			h = c18Init
		}
		if st, err := s.ss.Load(); err == nil && !st.IsEmpty() {
			next := st.LastBlockHeight + 1
			if st.LastBlockHeight == 0 {
				next = c18Init
			}
			if next < h {
				h = next // the state store lags after a crash: finish that height first
			}
		}
		if c18Rel(h) > int64(len(e.chain)) {
			return nil
		}
		rec := e.chain[c18Rel(h)-1]
		if s.bs.Height() < h {
			s.bs.SaveBlock(rec.block, rec.parts, rec.commit)
		}
		if err := s.ss.SaveABCIResponses(h, rec.resps); err != nil {
			return err
		}
		// the node computes the next state from the state it LOADED (updateState carries the two "last changed" heights over
		// unless the block changes them), not from a state it remembered: what Load returns flows into what is saved next
		ns := rec.state.Copy()
		if st, err := s.ss.Load(); err == nil && !st.IsEmpty() && st.LastBlockHeight == h-1 && c18Rel(h) >= 2 {
			prev := e.chain[c18Rel(h)-2].state
			if ns.LastHeightValidatorsChanged == prev.LastHeightValidatorsChanged {
				ns.LastHeightValidatorsChanged = st.LastHeightValidatorsChanged
			}
			if ns.LastHeightConsensusParamsChanged == prev.LastHeightConsensusParamsChanged {
				ns.LastHeightConsensusParamsChanged = st.LastHeightConsensusParamsChanged
			}
		}
		return s.ss.Save(ns)
	case "prune":
		base, to := s.bs.Base(), c18Abs(op.To) // op.To is relative to the first block
		if to <= base || to > s.bs.Height() {
			return nil
		}
		if _, err := s.bs.PruneBlocks(to); err != nil {
			return err
		}
		return s.ss.PruneStates(base, to)
	}
	return fmt.Errorf("bad op")
}

func c18Safe(f func() error) (err error) {
	defer func() {
		if r := recover(); r != nil {
			if _, ok := r.(vos.CrashPanic); ok {
				panic(r)
			}
			err = fmt.Errorf("panic: %v", r)
		}
	}()
	return f()
}

// audit is the oracle: everything between base and height loads and agrees.
func (e *c18Env) audit(s *c18Stores) (key, what string) {
	base, height := s.bs.Base(), s.bs.Height()
	if height == 0 {
		return "", ""
	}
	if base < 1 || base > height {
		return "store:range-descriptor-invalid", fmt.Sprintf("base %d height %d", base, height)
	}
	for h := base; h <= height; h++ {
		var k, w string
		err := c18Safe(func() error {
			meta := s.bs.LoadBlockMeta(h)
			if meta == nil {
				k = "store:block-meta-missing-in-range"
				if h == base {
					k = "store:base-points-at-missing-block"
				}
				w = fmt.Sprintf("no block meta at height %d in [%d,%d]", h, base, height)
				return nil
			}
			block := s.bs.LoadBlock(h)
			if block == nil {
				k, w = "store:block-missing-in-range", fmt.Sprintf("no block at height %d in [%d,%d]", h, base, height)
				return nil
			}
			if !bytes.Equal(block.Hash(), meta.BlockID.Hash) || !bytes.Equal(block.Hash(), e.chain[c18Rel(h)-1].block.Hash()) {
				k, w = "store:block-does-not-hash-to-its-id", fmt.Sprintf("height %d", h)
				return nil
			}
			for i := 0; i < int(meta.BlockID.PartSetHeader.Total); i++ {
				if s.bs.LoadBlockPart(h, i) == nil {
					k, w = "store:block-part-missing-in-range", fmt.Sprintf("height %d part %d", h, i)
					return nil
				}
			}
			if bh := s.bs.LoadBlockByHash(meta.BlockID.Hash); bh == nil || bh.Height != h {
				k, w = "store:hash-index-entry-missing-or-wrong", fmt.Sprintf("height %d", h)
				return nil
			}
			var commit *types.Commit
			if h < height {
				commit = s.bs.LoadBlockCommit(h)
			} else {
				commit = s.bs.LoadSeenCommit(h)
			}
			if commit == nil {
				k, w = "store:commit-missing-in-range", fmt.Sprintf("no commit for height %d (tip %d)", h, height)
				return nil
			}
			vals, err := s.ss.LoadValidators(h)
			if err != nil {
				k, w = "state-store:validators-unavailable-in-range", fmt.Sprintf("LoadValidators(%d) with block store [%d,%d]: %v", h, base, height, err)
				return nil
			}
			if err := vals.VerifyCommit(c18Chain, meta.BlockID, h, commit); err != nil {
				k, w = "store:commit-does-not-verify-for-its-block", fmt.Sprintf("height %d: %v", h, err)
				return nil
			}
			if !bytes.Equal(vals.Hash(), e.chain[c18Rel(h)-1].vals.Hash()) {
				k, w = "state-store:wrong-validators-for-height", fmt.Sprintf("height %d", h)
				return nil
			}
			if _, err := s.ss.LoadConsensusParams(h); err != nil {
				k, w = "state-store:consensus-params-unavailable-in-range", fmt.Sprintf("LoadConsensusParams(%d) with block store [%d,%d]: %v", h, base, height, err)
				return nil
			}
			return nil
		})
		if err != nil {
			return "store:load-panics-in-range", fmt.Sprintf("height %d in [%d,%d]: %v", h, base, height, err)
		}
		if k != "" {
			return k, w
		}
	}
	return "", ""
}

// run executes one case and returns a violation (or "").
func (e *c18Env) run(r *vr.Report, c c18Case) (key, what string) {
	w := vos.NewWorld()
	defer w.Close()
	s := c18Open(w)
	if err := s.ss.Save(e.genesis); err != nil {
		panic(err)
	}
	crashed := false
	lastPruneTo := int64(0)
	prunedOK := false
	func() {
		defer func() {
			if x := recover(); x != nil {
				if _, ok := x.(vos.CrashPanic); ok {
					crashed = true
					return
				}
				panic(x)
			}
		}()
		if c.Crash >= 0 && c.Torn >= 0 {
			w.CrashBefore(c.Crash + 1) // the batch entry itself is journalled, then torn
		} else if c.Crash >= 0 {
			w.CrashBefore(c.Crash)
		}
		for _, op := range c.Ops {
			prunedOK = false
			if err := c18Safe(func() error { return e.apply(s, op) }); err != nil {
				key, what = "store:operation-fails-on-consistent-store", fmt.Sprintf("%+v: %v", op, err)
				return
			}
			if op.Kind == "prune" && op.To > lastPruneTo {
				lastPruneTo, prunedOK = op.To, true
			}
			if c.Crash >= 0 {
				continue // audited by the crash-free case of the same history
			}
			if k, wh := e.audit(s); k != "" {
				key, what = k, fmt.Sprintf("after %+v (no crash): %s", op, wh)
				return
			}
			if prunedOK {
				// pruning removes exactly the heights below the retain height
				if s.bs.Base() != c18Abs(op.To) {
					key, what = "store:prune-did-not-move-base-to-retain-height", fmt.Sprintf("prune(%d): base %d", c18Abs(op.To), s.bs.Base())
					return
				}
				for h := c18Abs(1); h < c18Abs(op.To); h++ {
					if s.bs.LoadBlockMeta(h) != nil {
						key, what = "store:pruned-height-still-present", fmt.Sprintf("prune(%d): height %d still has meta", op.To, h)
						return
					}
				}
			}
		}
	}()
	if key != "" || c.Crash < 0 {
		return key, what
	}
	if !crashed {
		return "", "" // the crash point lies beyond this history
	}
	pol := vos.Policy{KeepUnsynced: true, MachineDB: c.DBMode == "machine"}
	var nw *vos.World
	if c.Torn >= 0 {
		nw = w.MaterialiseTorn(c.Crash, c.Torn, pol)
	} else {
		nw = w.Materialise(c.Crash, pol)
	}
	defer nw.Close()
	var s2 *c18Stores
	if err := c18Safe(func() error {
		s2 = c18Open(nw)
		// what node start-up does (LoadStateFromDBOrGenesisDoc): an empty state store is seeded from genesis
		if st, err := s2.ss.Load(); err == nil && st.IsEmpty() {
			return s2.ss.Save(e.genesis)
		}
		return nil
	}); err != nil {
		return "store:reopen-fails-after-crash", err.Error()
	}
	if k, wh := e.audit(s2); k != "" {
		return k, fmt.Sprintf("after crash before journal entry %d of %v: %s", c.Crash, c.Ops, wh)
	}
	if c.After != nil {
		if err := c18Safe(func() error { return e.apply(s2, *c.After) }); err != nil {
			return "store:operation-fails-after-recovery", fmt.Sprintf("%+v after crash before %d: %v", *c.After, c.Crash, err)
		}
		if k, wh := e.audit(s2); k != "" {
			return k, fmt.Sprintf("after crash before journal entry %d and then %+v: %s", c.Crash, *c.After, wh)
		}
	}
	return "", ""
}

// journalOf runs the history without a crash and returns its journal.
func (e *c18Env) journalOf(ops []c18Op) []vos.Op {
	w := vos.NewWorld()
	defer w.Close()
	s := c18Open(w)
	if err := s.ss.Save(e.genesis); err != nil {
		panic(err)
	}
	for _, op := range ops {
		if err := c18Safe(func() error { return e.apply(s, op) }); err != nil {
			break
		}
	}
	return w.Journal()
}

func c18Histories(n int, maxPrunes int) [][]c18Op {
	var out [][]c18Op
	var rec func(ops []c18Op, height, base int64, prunes int)
	rec = func(ops []c18Op, height, base int64, prunes int) {
		if height == int64(n) {
			out = append(out, append([]c18Op{}, ops...))
		}
		if height < int64(n) {
			rec(append(ops, c18Op{Kind: "save"}), height+1, max64(base, 1), prunes)
		}
		if prunes < maxPrunes && len(ops) > 0 && ops[len(ops)-1].Kind != "prune" {
			for to := base + 1; to <= height; to++ {
				rec(append(ops, c18Op{Kind: "prune", To: to}), height, to, prunes+1)
			}
		}
	}
	rec(nil, 0, 0, 0)
	return out
}

func max64(a, b int64) int64 {
	if a > b {
		return a
	}
	return b
}

func TestVerifC18(t *testing.T) { c18Main("store", 1) }

// TestVerifC18Init: the same histories on a chain whose genesis sets initial_height = 1000 (shorter chain: the dimension is the
// genesis boundary, not the history length).
func TestVerifC18Init(t *testing.T) { c18Main("init", 1000) }

// TestVerifC18Checkpoint: the same histories on a chain that starts at 99998, so that its third block is height 100000, where the
// state store writes a full validator-set checkpoint; the validator set changes right behind it (at the fourth and sixth block).
func TestVerifC18Checkpoint(t *testing.T) { c18Main("checkpoint", 99998) }

func c18Main(part string, initial int64) {
	c18Init = initial
	r := vr.Start("C18", part, 140*time.Second, 22*time.Minute)
	defer r.Finish()
	r.Rule = "histories = all sequences of save-next-height / prune(retain) over a valid chain (validator and parameter changes); for each history every journal entry " +
		"(database write or batch) is a crash point, under the process-crash and the machine-crash database model; after reopening, the full audit runs, then one more operation " +
		"(save or every legal prune) and the audit again; a case = (history, crash point, db model, follow-up op); every case is distinct; non-trivial = there is a crash"
	r.Assume("the database is MemDB behind a journal: goleveldb's own recovery is not modelled; batches are atomic (torn batches are explored as diagnostics only)")
	var rc c18Case
	n := vr.Pick(7, 9)
	if initial != 1 {
		n = vr.Pick(5, 7)
		r.Assume(fmt.Sprintf("heights in cases are relative to the first block; the chain starts at height %d", initial))
	}
	env := &c18Env{}
	if rep, skip := r.ReplayCase(&rc); skip {
		return
	} else if rep {
		env.genesis, env.chain = c18BuildChain(rc.Chain)
		r.Eval()
		if k, w := env.run(r, rc); k != "" {
			r.Violation(k, w, rc)
		}
		return
	}
	env.genesis, env.chain = c18BuildChain(n)
	hists := c18Histories(n, vr.Pick(3, 3))
	r.Set("histories", len(hists))
	k := 0
	try := func(c c18Case) {
		r.Eval()
		if c.Crash >= 0 {
			r.NTCount(1)
		}
		key, what := env.run(r, c)
		if key == "" {
			r.Outcome("ok")
			return
		}
		if c.Torn >= 0 {
			r.Add("diag_torn_batch_inconsistency:"+key, 1)
			return
		}
		k2, _ := env.run(r, c)
		k3, _ := env.run(r, c)
		if k2 != key || k3 != key {
			panic("C18: violation does not reproduce: harness fault")
		}
		r.Outcome(key)
		r.Violation(key, what, c)
	}
	stop := false
	for hi, ops := range hists {
		if stop {
			break
		}
		if !r.Mine(hi) {
			continue
		}
		if r.Deadline("C18 histories") {
			break
		}
		jr := env.journalOf(ops)
		try(c18Case{Chain: n, Ops: ops, Crash: -1, Torn: -1, DBMode: "process"})
		// crash points only inside the LAST operation of the history (earlier ones belong to shorter histories' extensions... they
		// are prefixes of other histories only for saves; prunes differ), so take all of them
		height, base := int64(0), int64(0)
		for _, op := range ops {
			if op.Kind == "save" {
				height++
				if base == 0 {
					base = 1
				}
			} else {
				base = op.To
			}
		}
		afters := []*c18Op{nil, {Kind: "save"}}
		for to := base + 1; to <= height; to++ {
			afters = append(afters, &c18Op{Kind: "prune", To: to})
		}
		for cp := 1; cp <= len(jr); cp++ {
			for _, mode := range []string{"process", "machine"} {
				for _, af := range afters {
					k++
					try(c18Case{Chain: n, Ops: ops, Crash: cp, Torn: -1, DBMode: mode, After: af})
				}
			}
			if cp < len(jr) && jr[cp].Kind == "dbbatch" && jr[cp].BatchLen() > 1 {
				for tn := 1; tn < jr[cp].BatchLen(); tn++ {
					try(c18Case{Chain: n, Ops: ops, Crash: cp, Torn: tn, DBMode: "process"})
				}
			}
		}
		if hi%97 == 0 {
			r.Sample(map[string]interface{}{"history": ops, "journal_entries": len(jr), "follow_ups": len(afters)})
		}
	}
	r.Bound = fmt.Sprintf("chain of %d heights; <= %d prunes per history; every journal entry as crash point; 1 follow-up operation", n, 3)
}

// TestVerifC18Long crosses the hard-coded 1000-block prune batch: one long chain, one prune, every journal entry a crash point.
func TestVerifC18Long(t *testing.T) {
	r := vr.Start("C18", "store-long", 140*time.Second, 22*time.Minute)
	defer r.Finish()
	r.Rule = "one chain of 1000+k blocks, prune(retain) spanning more than one delete batch, every journal entry of the prune as crash point; distinct by crash point"
	var rc c18Case
	n := vr.Pick(1030, 2050)
	env := &c18Env{}
	replaying, skip := r.ReplayCase(&rc)
	if skip {
		return
	}
	if replaying {
		n = rc.Chain
	}
	env.genesis, env.chain = c18BuildChain(n)
	if replaying {
		r.Eval()
		if k, w := env.run(r, rc); k != "" {
			r.Violation(k, w, rc)
		}
		return
	}
	var ops []c18Op
	for i := 0; i < n; i++ {
		ops = append(ops, c18Op{Kind: "save"})
	}
	retain := int64(n - 10)
	ops = append(ops, c18Op{Kind: "prune", To: retain})
	saves := env.journalOf(ops[:n])
	jr := env.journalOf(ops)
	r.Set("journal_entries_of_prune", len(jr)-len(saves))
	try := func(c c18Case) {
		r.Eval()
		r.NTCount(1)
		key, what := env.run(r, c)
		if key == "" {
			r.Outcome("ok")
			return
		}
		if k2, _ := env.run(r, c); k2 != key {
			panic("C18 long: violation does not reproduce: harness fault")
		}
		r.Outcome(key)
		r.Violation(key, what, c)
	}
	for cp := len(saves); cp <= len(jr); cp++ {
		if !r.Mine(cp) {
			continue
		}
		if r.Deadline("C18 long crash points") {
			break
		}
		try(c18Case{Chain: n, Ops: ops, Crash: cp, Torn: -1, DBMode: "process", After: &c18Op{Kind: "prune", To: retain + 5}})
		try(c18Case{Chain: n, Ops: ops, Crash: cp, Torn: -1, DBMode: "machine"})
	}
	r.Sample(map[string]interface{}{"chain": n, "prune_to": retain, "crash_points": len(jr) - len(saves) + 1})
	r.Bound = fmt.Sprintf("chain %d, prune(%d)", n, retain)
}
