package time

// Clock seam injected by /verif (go build -overlay); not part of the repository.

import (
	"sync/atomic"
	"time"
)

var verifClock atomic.Value // func() time.Time

// SetVerifClock pins Now() to f (nil restores the wall clock).
func SetVerifClock(f func() time.Time) {
	if f == nil {
		verifClock.Store((func() time.Time)(nil))
		return
	}
	verifClock.Store(f)
}

func verifNow() time.Time {
	if f, _ := verifClock.Load().(func() time.Time); f != nil {
		return f()
	}
	return time.Now()
}
