package statesync

// C17 part "statesync" — hostile-but-decodable messages against the real statesync Reactor.
//
// Node modes: idle (no sync: syncer nil), discovering (real syncer with its snapshot pool, no
// restore running), restoring (real syncer whose chunk queue is open for snapshot
// {height 10, format 1, 4 chunks}, with or without chunk 0 already received).
// Messages: every message type with each numeric field over its boundary menu (full product where
// small), on the right and on the wrong channel, plus a spam sequence of 12 distinct snapshots.
// Receive runs under the connection's recover (panic = peer error, allowed). Oracle: no lock
// (reactor, syncer, snapshot pool, chunk queue) is left held; the snapshot pool keeps at most
// recentSnapshots entries for the peer; the chunk queue stores at most snapshot.Chunks files and
// no more bytes than the peer sent; the consumers the sync goroutines run (Best/Ranked/GetPeers,
// Next on an available chunk, Retry/Discard, Close) do not panic afterwards.

import (
	"bytes"
	"context"
	"errors"
	"fmt"
	"math"
	"net"
	"os"
	"path/filepath"
	"sync"
	"sync/atomic"
	"testing"
	"time"

	"github.com/gogo/protobuf/proto"

	abci "github.com/tendermint/tendermint/abci/types"
	"github.com/tendermint/tendermint/config"
	"github.com/tendermint/tendermint/internal/verif/vr"
	"github.com/tendermint/tendermint/libs/log"
	"github.com/tendermint/tendermint/libs/service"
	"github.com/tendermint/tendermint/p2p"
	tmconn "github.com/tendermint/tendermint/p2p/conn"
	ssproto "github.com/tendermint/tendermint/proto/tendermint/statesync"
	sm "github.com/tendermint/tendermint/state"
	"github.com/tendermint/tendermint/types"
)

type c17Peer struct {
	id      p2p.ID
	mtx     sync.Mutex
	kv      map[string]interface{}
	stopped int32
	sent    int32
}

var _ p2p.Peer = (*c17Peer)(nil)
var _ service.Service = (*c17Peer)(nil)

func newC17Peer(id string) *c17Peer                { return &c17Peer{id: p2p.ID(id), kv: map[string]interface{}{}} }
func (p *c17Peer) Start() error                    { return nil }
func (p *c17Peer) OnStart() error                  { return nil }
func (p *c17Peer) Stop() error                     { atomic.AddInt32(&p.stopped, 1); return nil }
func (p *c17Peer) OnStop()                         {}
func (p *c17Peer) Reset() error                    { return nil }
func (p *c17Peer) OnReset() error                  { return nil }
func (p *c17Peer) Quit() <-chan struct{}           { return make(chan struct{}) }
func (p *c17Peer) String() string                  { return "c17Peer{" + string(p.id) + "}" }
func (p *c17Peer) SetLogger(log.Logger)            {}
func (p *c17Peer) IsRunning() bool                 { return atomic.LoadInt32(&p.stopped) == 0 }
func (p *c17Peer) FlushStop()                      {}
func (p *c17Peer) ID() p2p.ID                      { return p.id }
func (p *c17Peer) RemoteIP() net.IP                { return net.IPv4(10, 0, 0, 17) }
func (p *c17Peer) RemoteAddr() net.Addr            { return &net.TCPAddr{IP: p.RemoteIP(), Port: 26656} }
func (p *c17Peer) IsOutbound() bool                { return false }
func (p *c17Peer) IsPersistent() bool              { return false }
func (p *c17Peer) CloseConn() error                { return nil }
func (p *c17Peer) NodeInfo() p2p.NodeInfo          { return p2p.DefaultNodeInfo{} }
func (p *c17Peer) Status() tmconn.ConnectionStatus { return tmconn.ConnectionStatus{} }
func (p *c17Peer) SocketAddr() *p2p.NetAddress     { return p2p.NewNetAddressIPPort(p.RemoteIP(), 26656) }
func (p *c17Peer) Send(byte, []byte) bool          { atomic.AddInt32(&p.sent, 1); return true }
func (p *c17Peer) TrySend(byte, []byte) bool       { atomic.AddInt32(&p.sent, 1); return true }
func (p *c17Peer) Set(k string, v interface{})     { p.mtx.Lock(); p.kv[k] = v; p.mtx.Unlock() }
func (p *c17Peer) Get(k string) interface{}        { p.mtx.Lock(); defer p.mtx.Unlock(); return p.kv[k] }
func (p *c17Peer) SetRemovalFailed()               {}
func (p *c17Peer) GetRemovalFailed() bool          { return false }

// app: two local snapshots; chunk loading echoes the request
type c17App struct{}

func (c17App) Error() error { return nil }
func (c17App) ListSnapshotsSync(abci.RequestListSnapshots) (*abci.ResponseListSnapshots, error) {
	return &abci.ResponseListSnapshots{Snapshots: []*abci.Snapshot{{Height: 5, Format: 1, Chunks: 2, Hash: []byte("h5")}, {Height: 8, Format: 1, Chunks: 3, Hash: []byte("h8")}}}, nil
}
func (c17App) OfferSnapshotSync(abci.RequestOfferSnapshot) (*abci.ResponseOfferSnapshot, error) {
	return &abci.ResponseOfferSnapshot{Result: abci.ResponseOfferSnapshot_ACCEPT}, nil
}
func (c17App) LoadSnapshotChunkSync(r abci.RequestLoadSnapshotChunk) (*abci.ResponseLoadSnapshotChunk, error) {
	if r.Height == 5 && r.Format == 1 && r.Chunk < 2 {
		return &abci.ResponseLoadSnapshotChunk{Chunk: []byte{byte(r.Chunk), 1, 2}}, nil
	}
	return &abci.ResponseLoadSnapshotChunk{}, nil
}
func (c17App) ApplySnapshotChunkSync(abci.RequestApplySnapshotChunk) (*abci.ResponseApplySnapshotChunk, error) {
	return &abci.ResponseApplySnapshotChunk{Result: abci.ResponseApplySnapshotChunk_ACCEPT}, nil
}

type c17SP struct{}

func (c17SP) AppHash(_ context.Context, h uint64) ([]byte, error) {
	if h > 100 {
		return nil, errors.New("height not available from the light client")
	}
	return []byte("apphash"), nil
}
func (c17SP) Commit(context.Context, uint64) (*types.Commit, error) { return nil, errors.New("n/a") }
func (c17SP) State(context.Context, uint64) (sm.State, error)      { return sm.State{}, errors.New("n/a") }

type c17SCase struct {
	Mode    int    `json:"mode"` // 0 idle, 1 discovering, 2 restoring, 3 restoring with chunk 0 present
	Kind    string `json:"kind"` // SnapshotsRequest SnapshotsResponse ChunkRequest ChunkResponse Spam Empty Garbage
	Ch      byte   `json:"ch"`
	Height  uint64 `json:"height"`
	Format  uint32 `json:"format"`
	Chunks  uint32 `json:"chunks"`
	Index   uint32 `json:"index"`
	HashLen int    `json:"hash_len"`
	MetaLen int    `json:"meta_len"`
	BodyLen int    `json:"body_len"` // -1 = nil chunk
	Missing bool   `json:"missing"`
	Twice   bool   `json:"twice"`
}

func c17SBytes(c c17SCase) []byte {
	var w p2p.Wrapper
	switch c.Kind {
	case "SnapshotsRequest":
		w = &ssproto.SnapshotsRequest{}
	case "SnapshotsResponse":
		w = &ssproto.SnapshotsResponse{Height: c.Height, Format: c.Format, Chunks: c.Chunks, Hash: bytes.Repeat([]byte{7}, c.HashLen), Metadata: bytes.Repeat([]byte{9}, c.MetaLen)}
	case "ChunkRequest":
		w = &ssproto.ChunkRequest{Height: c.Height, Format: c.Format, Index: c.Index}
	case "ChunkResponse":
		m := &ssproto.ChunkResponse{Height: c.Height, Format: c.Format, Index: c.Index, Missing: c.Missing}
		if c.BodyLen >= 0 {
			m.Chunk = bytes.Repeat([]byte{5}, c.BodyLen)
		}
		w = m
	case "Empty":
		bz, _ := proto.Marshal(&ssproto.Message{})
		return bz
	default:
		return []byte{0x0a, 0xff, 0xff, 0xff, 0x0f, 0x01}
	}
	bz, err := proto.Marshal(w.Wrap())
	if err != nil {
		panic(err)
	}
	return bz
}

func c17SRun(tmp string, c c17SCase) (key, what, outcome string) {
	cfg := config.DefaultStateSyncConfig()
	r := NewReactor(*cfg, c17App{}, nil, tmp)
	r.SetLogger(log.NewNopLogger())
	tr := p2p.NewMultiplexTransport(p2p.DefaultNodeInfo{}, p2p.NodeKey{}, tmconn.DefaultMConnConfig())
	sw := p2p.NewSwitch(config.DefaultP2PConfig(), tr)
	sw.SetLogger(log.NewNopLogger())
	sw.AddReactor("STATESYNC", r)
	if err := r.Start(); err != nil {
		panic(err)
	}
	defer r.Stop() //nolint
	var sy *syncer
	snap := &snapshot{Height: 10, Format: 1, Chunks: 4, Hash: []byte("snap-hash")}
	if c.Mode >= 1 {
		sy = newSyncer(*cfg, log.NewNopLogger(), c17App{}, nil, c17SP{}, tmp)
		r.mtx.Lock()
		r.syncer = sy
		r.mtx.Unlock()
	}
	sentBytes := 0
	if c.Mode >= 2 {
		q, err := newChunkQueue(snap, tmp)
		if err != nil {
			panic(err)
		}
		sy.mtx.Lock()
		sy.chunks = q
		sy.mtx.Unlock()
		if c.Mode == 3 {
			if _, err := q.Add(&chunk{Height: 10, Format: 1, Index: 0, Chunk: []byte("chunk-0"), Sender: "honest"}); err != nil {
				panic(err)
			}
			sentBytes += 7
		}
	}
	peer := newC17Peer("hostile")
	recvPanics := 0
	recv := func(ch byte, bz []byte) {
		defer func() {
			if x := recover(); x != nil {
				recvPanics++
			}
		}()
		r.Receive(ch, peer, bz)
	}
	if c.Kind == "Spam" {
		for i := 0; i < 12; i++ {
			cc := c
			cc.Kind, cc.Height, cc.Format, cc.Chunks, cc.HashLen = "SnapshotsResponse", 20+uint64(i), 1, 3, 8+i
			recv(SnapshotChannel, c17SBytes(cc))
		}
	} else {
		bz := c17SBytes(c)
		n := 1
		if c.Twice {
			n = 2
		}
		for i := 0; i < n; i++ {
			recv(c.Ch, bz)
		}
		if c.Kind == "ChunkResponse" && c.BodyLen > 0 {
			sentBytes += c.BodyLen
		}
	}
	desc := fmt.Sprintf("%+v", c)
	if !r.mtx.TryLock() {
		return "statesync:reactor-mutex-left-locked-after-Receive", desc, ""
	}
	r.mtx.Unlock()
	poolN, files := 0, 0
	if sy != nil {
		if !sy.mtx.TryLock() {
			return "statesync:syncer-mutex-left-locked-after-Receive", desc, ""
		}
		sy.mtx.Unlock()
		if !sy.snapshots.TryLock() {
			return "statesync:snapshot-pool-mutex-left-locked-after-Receive", desc, ""
		}
		poolN = len(sy.snapshots.peerIndex[peer.id])
		total := len(sy.snapshots.snapshots)
		sy.snapshots.Unlock()
		if poolN > recentSnapshots || total > recentSnapshots {
			return "statesync:snapshot-pool-exceeds-per-peer-bound", fmt.Sprintf("%d snapshots kept for one peer (bound %d): %s", total, recentSnapshots, desc), ""
		}
		if q := sy.chunks; q != nil {
			if !q.TryLock() {
				return "statesync:chunk-queue-mutex-left-locked-after-Receive", desc, ""
			}
			files = len(q.chunkFiles)
			dir := q.dir
			q.Unlock()
			var onDisk int64
			ents, _ := os.ReadDir(dir)
			for _, e := range ents {
				if fi, err := os.Stat(filepath.Join(dir, e.Name())); err == nil {
					onDisk += fi.Size()
				}
			}
			if files > int(snap.Chunks) || len(ents) > int(snap.Chunks) || onDisk > int64(sentBytes) {
				return "statesync:chunk-queue-stores-more-than-the-snapshot-allows", fmt.Sprintf("%d chunk entries, %d files, %d bytes on disk (snapshot has %d chunks, %d bytes were sent): %s", files, len(ents), onDisk, snap.Chunks, sentBytes, desc), ""
			}
		}
	}
	var cons string
	func() {
		defer func() {
			if x := recover(); x != nil {
				cons = fmt.Sprint(x)
			}
		}()
		if sy == nil {
			return
		}
		if b := sy.snapshots.Best(); b != nil {
			_ = sy.snapshots.GetPeers(b)
			_ = sy.snapshots.GetPeer(b)
		}
		for _, s := range sy.snapshots.Ranked() {
			_ = s.Key()
		}
		if q := sy.chunks; q != nil {
			_ = q.Size()
			for i := uint32(0); i < snap.Chunks; i++ {
				_ = q.GetSender(i)
			}
			if q.Has(0) {
				ch, err := q.Next()
				if err != nil || ch == nil {
					panic(fmt.Sprintf("chunk 0 present but Next failed: %v", err))
				}
				q.Retry(0)
				if err := q.Discard(0); err != nil {
					panic(err)
				}
			}
			if err := q.DiscardSender(peer.id); err != nil {
				panic(err)
			}
			if err := q.Close(); err != nil {
				panic(err)
			}
		}
		sy.snapshots.RemovePeer(peer.id)
	}()
	if cons != "" {
		return "statesync:sync-consumer-panics-after-hostile-message", "snapshot pool / chunk queue operation of the sync goroutines panicked: " + cons + ": " + desc, ""
	}
	out := "accepted"
	if recvPanics > 0 {
		out = "recv-panic(peer-error)"
	} else if atomic.LoadInt32(&peer.stopped) > 0 {
		out = "peer-stopped"
	}
	return "", "", fmt.Sprintf("%s:%s:pool=%d:chunks=%d:replies=%d", c.Kind, out, poolN, files, atomic.LoadInt32(&peer.sent))
}

func TestVerifC17Statesync(t *testing.T) {
	r := vr.Start("C17", "statesync", 40*time.Second, 5*time.Minute)
	defer r.Finish()
	r.Rule = "odometer over (node mode, message): full product of the per-field boundary menus of SnapshotsResponse / ChunkRequest / ChunkResponse, each on the right and the wrong channel, sent once or twice, plus a 12-snapshot spam and undecodable payloads"
	tmp, err := os.MkdirTemp("", "c17-statesync")
	if err != nil {
		panic(err)
	}
	defer os.RemoveAll(tmp)
	var rc c17SCase
	if rep, skip := r.ReplayCase(&rc); skip {
		return
	} else if rep {
		r.Eval()
		if k, w, _ := c17SRun(tmp, rc); k != "" {
			r.Violation(k, w, rc)
		}
		return
	}
	var msgs []c17SCase
	for _, k := range []string{"SnapshotsRequest", "Spam", "Empty", "Garbage"} {
		msgs = append(msgs, c17SCase{Kind: k, Ch: SnapshotChannel})
	}
	msgs = append(msgs, c17SCase{Kind: "SnapshotsRequest", Ch: ChunkChannel}, c17SCase{Kind: "SnapshotsRequest", Ch: 0x7f})
	for _, h := range []uint64{0, 1, 10, 100, 101, math.MaxUint64} {
		for _, f := range []uint32{0, 1, math.MaxUint32} {
			for _, n := range []uint32{0, 1, 4, math.MaxUint32} {
				for _, hl := range []int{0, 1, 32, 1000} {
					for _, ml := range []int{0, 1000} {
						msgs = append(msgs, c17SCase{Kind: "SnapshotsResponse", Ch: SnapshotChannel, Height: h, Format: f, Chunks: n, HashLen: hl, MetaLen: ml})
					}
				}
			}
			for _, ix := range []uint32{0, 1, 2, 3, 4, math.MaxUint32} {
				msgs = append(msgs, c17SCase{Kind: "ChunkRequest", Ch: ChunkChannel, Height: h, Format: f, Index: ix})
			}
		}
	}
	msgs = append(msgs, c17SCase{Kind: "SnapshotsResponse", Ch: ChunkChannel, Height: 10, Format: 1, Chunks: 4, HashLen: 32},
		c17SCase{Kind: "ChunkRequest", Ch: SnapshotChannel, Height: 5, Format: 1, Index: 0})
	for _, h := range []uint64{0, 9, 10, 11, math.MaxUint64} {
		for _, f := range []uint32{0, 1, 2, math.MaxUint32} {
			for _, ix := range []uint32{0, 1, 3, 4, math.MaxUint32} {
				for _, bl := range []int{-1, 0, 1, 1000} {
					for _, miss := range []bool{false, true} {
						for _, tw := range []bool{false, true} {
							msgs = append(msgs, c17SCase{Kind: "ChunkResponse", Ch: ChunkChannel, Height: h, Format: f, Index: ix, BodyLen: bl, Missing: miss, Twice: tw})
						}
					}
				}
			}
		}
	}
	msgs = append(msgs, c17SCase{Kind: "ChunkResponse", Ch: SnapshotChannel, Height: 10, Format: 1, Index: 1, BodyLen: 5})
	k := 0
	for mode := 0; mode < 4; mode++ {
		for _, m := range msgs {
			k++
			if !r.Mine(k) {
				continue
			}
			if k%64 == 0 && r.Deadline("C17 statesync enumeration") {
				return
			}
			c := m
			c.Mode = mode
			r.Eval()
			r.NTCount(1)
			key, what, out := c17SRun(tmp, c)
			if key != "" {
				if !vr.Confirm(3, fmt.Errorf("%s", key), func() error {
					k2, _, _ := c17SRun(tmp, c)
					if k2 == "" {
						return nil
					}
					return fmt.Errorf("%s", k2)
				}) {
					r.Cap("unstable failure " + key)
					continue
				}
				r.Violation(key, what, c)
				r.Outcome("violation")
				continue
			}
			r.Outcome(out)
			if k%991 == 1 {
				r.Sample(c)
			}
		}
	}
	r.Bound = fmt.Sprintf("4 node modes x %d messages", len(msgs))
	if r.Shard == 0 {
		r.Set("cases_enumerated_total", k)
	}
}
