package statesync

// C14, part "light": the real lightClientStateProvider, built by the real NewLightClientStateProvider over
// real light/provider/http providers and a real light.Client, talking JSON-RPC over loopback to two
// in-process servers (primary, witness) that serve a harness-generated chain honestly or lie about the
// blocks at H, H+1, H+2 and about the consensus parameters. What the provider hands to the syncer
// (AppHash, State, Commit) is compared with the chain the harness generated (ground truth by
// construction); then the real syncer is run end-to-end on top of it.

import (
	"context"
	"fmt"
	"net/http"
	"reflect"
	"sync"
	"testing"
	"time"

	"github.com/tendermint/tendermint/crypto"
	"github.com/tendermint/tendermint/crypto/ed25519"
	"github.com/tendermint/tendermint/crypto/tmhash"
	"github.com/tendermint/tendermint/internal/verif/vr"
	"github.com/tendermint/tendermint/libs/log"
	"github.com/tendermint/tendermint/light"
	tmstate "github.com/tendermint/tendermint/proto/tendermint/state"
	tmproto "github.com/tendermint/tendermint/proto/tendermint/types"
	tmversion "github.com/tendermint/tendermint/proto/tendermint/version"
	ctypes "github.com/tendermint/tendermint/rpc/core/types"
	rpcserver "github.com/tendermint/tendermint/rpc/jsonrpc/server"
	rpctypes "github.com/tendermint/tendermint/rpc/jsonrpc/types"
	sm "github.com/tendermint/tendermint/state"
	"github.com/tendermint/tendermint/types"
	"github.com/tendermint/tendermint/version"
)

const c14LCHeights = int64(9)

// ---------------------------------------------------------------------------------------------
// chain with a different validator set, app hash, results hash at every height and a parameter change

type c14Chain struct {
	keys   []crypto.PrivKey
	t0     time.Time
	blocks map[int64]*types.LightBlock
	forged map[string]*types.LightBlock
	psh    types.PartSetHeader
}

func (c *c14Chain) vals(h int64) *types.ValidatorSet {
	vv := make([]*types.Validator, len(c.keys))
	for i, k := range c.keys {
		p := int64(10)
		if int64(i) == h%int64(len(c.keys)) {
			p += h
		}
		vv[i] = types.NewValidator(k.PubKey(), p)
	}
	return types.NewValidatorSet(vv)
}

func (c *c14Chain) params(h int64) tmproto.ConsensusParams {
	p := *types.DefaultConsensusParams()
	if h >= 4 {
		p.Block.MaxBytes = 2 * 1024 * 1024
	}
	if h >= 6 {
		p.Block.MaxGas = 77
	}
	return p
}

func (c *c14Chain) appVersion(h int64) uint64 {
	if h >= 5 {
		return 8
	}
	return 7
}

func (c *c14Chain) header(h int64, prev types.BlockID, appTag string) *types.Header {
	vs := c.vals(h)
	return &types.Header{
		Version:            tmversion.Consensus{Block: version.BlockProtocol, App: c.appVersion(h)},
		ChainID:            c14ChainID,
		Height:             h,
		Time:               c.t0.Add(time.Duration(h) * time.Second),
		LastBlockID:        prev,
		LastCommitHash:     tmhash.Sum([]byte(fmt.Sprintf("c14-lastcommit-%d", h))),
		DataHash:           tmhash.Sum([]byte(fmt.Sprintf("c14-data-%d", h))),
		ValidatorsHash:     vs.Hash(),
		NextValidatorsHash: c.vals(h + 1).Hash(),
		ConsensusHash:      types.HashConsensusParams(c.params(h)),
		AppHash:            tmhash.Sum([]byte(fmt.Sprintf("c14-app-%s-%d", appTag, h))),
		LastResultsHash:    tmhash.Sum([]byte(fmt.Sprintf("c14-results-%d", h))),
		EvidenceHash:       tmhash.Sum([]byte("c14-evidence")),
		ProposerAddress:    vs.Validators[0].Address,
	}
}

// commit over hdr signed by the validators whose index (in key order) is in signers
func (c *c14Chain) commit(hdr *types.Header, signers map[int]bool) *types.Commit {
	vs := c.vals(hdr.Height)
	bid := types.BlockID{Hash: hdr.Hash(), PartSetHeader: c.psh}
	sigs := make([]types.CommitSig, vs.Size())
	for i, v := range vs.Validators {
		ki := -1
		for j, k := range c.keys {
			if string(k.PubKey().Address()) == string(v.Address) {
				ki = j
			}
		}
		if !signers[ki] {
			sigs[i] = types.NewCommitSigAbsent()
			continue
		}
		vote := &types.Vote{Type: tmproto.PrecommitType, Height: hdr.Height, Round: 0, BlockID: bid, Timestamp: hdr.Time,
			ValidatorAddress: v.Address, ValidatorIndex: int32(i)}
		sig, err := c.keys[ki].Sign(types.VoteSignBytes(c14ChainID, vote.ToProto()))
		if err != nil {
			panic(err)
		}
		sigs[i] = types.CommitSig{BlockIDFlag: types.BlockIDFlagCommit, ValidatorAddress: v.Address, Timestamp: hdr.Time, Signature: sig}
	}
	return &types.Commit{Height: hdr.Height, Round: 0, BlockID: bid, Signatures: sigs}
}

func newC14Chain() *c14Chain {
	c := &c14Chain{blocks: map[int64]*types.LightBlock{}, forged: map[string]*types.LightBlock{},
		t0:  time.Now().Add(-2 * time.Hour).Truncate(time.Second).UTC(),
		psh: types.PartSetHeader{Total: 1, Hash: tmhash.Sum([]byte("c14-parts"))}}
	for i := 0; i < 4; i++ {
		c.keys = append(c.keys, ed25519.GenPrivKeyFromSecret([]byte(fmt.Sprintf("verif-c14-key-%d", i))))
	}
	all := map[int]bool{0: true, 1: true, 2: true, 3: true}
	prev := types.BlockID{}
	for h := int64(1); h <= c14LCHeights; h++ {
		hdr := c.header(h, prev, "true")
		cm := c.commit(hdr, all)
		c.blocks[h] = &types.LightBlock{SignedHeader: &types.SignedHeader{Header: hdr, Commit: cm}, ValidatorSet: c.vals(h)}
		prev = cm.BlockID
	}
	return c
}

// lie kinds
var c14LieKinds = []string{"unsigned-apphash", "fork-signed-by-1of4", "fork-signed-by-2of4", "fork-signed-by-3of4", "missing", "block-of-next-height", "valset-of-next-height"}

// served returns what a server with the given lie serves for height h: (block, validator set shown, rpc error text)
func (c *c14Chain) served(h int64, lie string) (*types.LightBlock, string) {
	if h <= 0 || h > c14LCHeights {
		return nil, fmt.Sprintf("height %d must be less than or equal to the current blockchain height %d", h, c14LCHeights)
	}
	tru := c.blocks[h]
	if lie == "" {
		return tru, ""
	}
	k := fmt.Sprintf("%s/%d", lie, h)
	if lb, ok := c.forged[k]; ok {
		return lb, ""
	}
	var lb *types.LightBlock
	fork := func(signers map[int]bool) *types.LightBlock {
		hdr := c.header(h, tru.LastBlockID, "FORGED")
		return &types.LightBlock{SignedHeader: &types.SignedHeader{Header: hdr, Commit: c.commit(hdr, signers)}, ValidatorSet: c.vals(h)}
	}
	switch lie {
	case "unsigned-apphash":
		hdr := *tru.Header
		hdr.AppHash = tmhash.Sum([]byte("c14-app-FORGED"))
		lb = &types.LightBlock{SignedHeader: &types.SignedHeader{Header: &hdr, Commit: tru.Commit}, ValidatorSet: tru.ValidatorSet}
	case "fork-signed-by-1of4":
		lb = fork(map[int]bool{0: true})
	case "fork-signed-by-2of4":
		lb = fork(map[int]bool{0: true, 1: true})
	case "fork-signed-by-3of4":
		lb = fork(map[int]bool{0: true, 1: true, 2: true})
	case "missing":
		return nil, fmt.Sprintf("height %d is not available", h)
	case "block-of-next-height":
		if h+1 > c14LCHeights {
			return tru, ""
		}
		lb = c.blocks[h+1]
	case "valset-of-next-height":
		lb = &types.LightBlock{SignedHeader: tru.SignedHeader, ValidatorSet: c.vals(h + 1)}
	default:
		panic("unknown lie " + lie)
	}
	c.forged[k] = lb
	return lb, ""
}

// ---------------------------------------------------------------------------------------------
// loopback JSON-RPC servers

type c14Behaviour struct {
	Lies   map[int64]string // height -> lie kind
	Params string           // "", "of-height-2", "of-height-6", "forged", "error"
}

type c14Server struct {
	chain *c14Chain
	url   string
	mtx   sync.Mutex
	beh   c14Behaviour
	hits  map[string]int
}

func (s *c14Server) set(b c14Behaviour) {
	s.mtx.Lock()
	s.beh = b
	s.hits = map[string]int{}
	s.mtx.Unlock()
}

func (s *c14Server) block(hp *int64, route string) (*types.LightBlock, error) {
	s.mtx.Lock()
	defer s.mtx.Unlock()
	s.hits[route]++
	h := c14LCHeights
	if hp != nil {
		h = *hp
	}
	lb, e := s.chain.served(h, s.beh.Lies[h])
	if e != "" {
		return nil, fmt.Errorf("%s", e)
	}
	return lb, nil
}

func (s *c14Server) commit(_ *rpctypes.Context, hp *int64) (*ctypes.ResultCommit, error) {
	lb, err := s.block(hp, "commit")
	if err != nil {
		return nil, err
	}
	return &ctypes.ResultCommit{SignedHeader: *lb.SignedHeader, CanonicalCommit: true}, nil
}

func (s *c14Server) validators(_ *rpctypes.Context, hp *int64, _, _ *int) (*ctypes.ResultValidators, error) {
	lb, err := s.block(hp, "validators")
	if err != nil {
		return nil, err
	}
	h := c14LCHeights
	if hp != nil {
		h = *hp
	}
	vs := lb.ValidatorSet.Validators
	return &ctypes.ResultValidators{BlockHeight: h, Validators: vs, Count: len(vs), Total: len(vs)}, nil
}

func (s *c14Server) consensusParams(_ *rpctypes.Context, hp *int64) (*ctypes.ResultConsensusParams, error) {
	s.mtx.Lock()
	mode := s.beh.Params
	s.hits["consensus_params"]++
	s.mtx.Unlock()
	h := c14LCHeights
	if hp != nil {
		h = *hp
	}
	switch mode {
	case "":
		return &ctypes.ResultConsensusParams{BlockHeight: h, ConsensusParams: s.chain.params(h)}, nil
	case "of-height-2":
		return &ctypes.ResultConsensusParams{BlockHeight: 2, ConsensusParams: s.chain.params(2)}, nil
	case "of-height-6":
		return &ctypes.ResultConsensusParams{BlockHeight: 6, ConsensusParams: s.chain.params(6)}, nil
	case "forged":
		p := s.chain.params(h)
		p.Block.MaxBytes = 12345678
		return &ctypes.ResultConsensusParams{BlockHeight: h, ConsensusParams: p}, nil
	default:
		return nil, fmt.Errorf("height %d is not available", h)
	}
}

func newC14Server(chain *c14Chain) (*c14Server, error) {
	s := &c14Server{chain: chain, hits: map[string]int{}}
	mux := http.NewServeMux()
	rpcserver.RegisterRPCFuncs(mux, map[string]*rpcserver.RPCFunc{
		"commit":           rpcserver.NewRPCFunc(s.commit, "height"),
		"validators":       rpcserver.NewRPCFunc(s.validators, "height,page,per_page"),
		"consensus_params": rpcserver.NewRPCFunc(s.consensusParams, "height"),
	}, log.NewNopLogger())
	cfg := rpcserver.DefaultConfig()
	l, err := rpcserver.Listen("tcp://127.0.0.1:0", cfg)
	if err != nil {
		return nil, err
	}
	go func() { _ = rpcserver.Serve(l, mux, log.NewNopLogger(), cfg) }()
	s.url = "http://" + l.Addr().String()
	return s, nil
}

// ---------------------------------------------------------------------------------------------
// ground truth of the generated chain, in the shape the syncer oracle wants

type c14ChainTruth struct{ c *c14Chain }

func (t c14ChainTruth) Known(h uint64) bool     { return h >= 1 && int64(h)+2 <= c14LCHeights }
func (t c14ChainTruth) AppHash(h uint64) []byte { return t.c.blocks[int64(h)+1].AppHash }
func (t c14ChainTruth) AppVersion(h uint64) uint64 {
	return t.c.blocks[int64(h)+1].Version.App
}
func (t c14ChainTruth) CommitEq(h uint64, cm *types.Commit) (bool, string) {
	want := t.c.blocks[int64(h)].Commit
	if cm == nil || cm.Height != want.Height || !cm.BlockID.Equals(want.BlockID) {
		return false, fmt.Sprintf("commit returned for height %d is not a commit for the block the chain has there", h)
	}
	if err := t.c.vals(int64(h)).VerifyCommitLight(c14ChainID, want.BlockID, int64(h), cm); err != nil {
		return false, fmt.Sprintf("commit returned for height %d does not verify: %v", h, err)
	}
	return true, ""
}

// field-by-field: which field of the state is not the verified one ("" = all fine); params separately
func (t c14ChainTruth) stateDiff(h uint64, st sm.State) (field, what string) {
	H := int64(h)
	last, cur, next := t.c.blocks[H], t.c.blocks[H+1], t.c.blocks[H+2]
	eqVals := func(a *types.ValidatorSet, b *types.ValidatorSet) bool {
		return a != nil && string(a.Hash()) == string(b.Hash())
	}
	switch {
	case st.ChainID != c14ChainID:
		return "ChainID", st.ChainID
	case st.LastBlockHeight != H:
		return "LastBlockHeight", fmt.Sprint(st.LastBlockHeight)
	case !st.LastBlockID.Equals(last.Commit.BlockID):
		return "LastBlockID", "not the id of the block at the snapshot height"
	case !st.LastBlockTime.Equal(last.Time):
		return "LastBlockTime", st.LastBlockTime.String()
	case string(st.AppHash) != string(cur.AppHash):
		return "AppHash", fmt.Sprintf("%X, header H+1 has %X", st.AppHash, cur.AppHash)
	case string(st.LastResultsHash) != string(cur.LastResultsHash):
		return "LastResultsHash", "not the one of header H+1"
	case !eqVals(st.LastValidators, last.ValidatorSet):
		return "LastValidators", "not the validator set of H"
	case !eqVals(st.Validators, cur.ValidatorSet):
		return "Validators", "not the validator set of H+1"
	case !eqVals(st.NextValidators, next.ValidatorSet):
		return "NextValidators", "not the validator set of H+2"
	case st.Version.Consensus != cur.Version:
		return "Version.Consensus", fmt.Sprintf("%v, header H+1 has %v", st.Version.Consensus, cur.Version)
	case st.InitialHeight != 1:
		return "InitialHeight", fmt.Sprint(st.InitialHeight)
	}
	return "", ""
}

func (t c14ChainTruth) StateEq(h uint64, st sm.State) (bool, string) {
	if f, w := t.stateDiff(h, st); f != "" {
		return false, fmt.Sprintf("state.%s is not the light-verified value (%s)", f, w)
	}
	return true, ""
}

func (t c14ChainTruth) paramsOK(h uint64, st sm.State) bool {
	return reflect.DeepEqual(st.ConsensusParams, t.c.params(int64(h)+1))
}

// ---------------------------------------------------------------------------------------------

type c14LightCase struct {
	H       uint64 `json:"h"`       // snapshot height
	Trust   int64  `json:"trust"`   // trusted height given to the light client
	Lie     string `json:"lie"`     // "" = honest primary
	At      []int  `json:"at"`      // offsets from H at which the primary lies (0,1,2)
	Collude bool   `json:"collude"` // the witness tells the same lie
	Params  string `json:"params"`  // consensus_params behaviour of the primary RPC
	Sync    bool   `json:"sync"`    // run the real syncer on top (one-snapshot scenario at height 3), with these verdict choices
	Choices []int  `json:"choices,omitempty"`
}

type c14LightEnv struct {
	chain            *c14Chain
	primary, witness *c14Server
	truth            c14ChainTruth
	tmp              string
}

func (e *c14LightEnv) provider(c c14LightCase) (StateProvider, error) {
	lies := map[int64]string{}
	if c.Lie != "" {
		for _, o := range c.At {
			lies[int64(c.H)+int64(o)] = c.Lie
		}
	}
	e.primary.set(c14Behaviour{Lies: lies, Params: c.Params})
	if c.Collude {
		e.witness.set(c14Behaviour{Lies: lies})
	} else {
		e.witness.set(c14Behaviour{})
	}
	ctx, cancel := context.WithTimeout(context.Background(), 60*time.Second)
	defer cancel()
	return NewLightClientStateProvider(ctx, c14ChainID, tmstate.Version{Consensus: tmversion.Consensus{Block: version.BlockProtocol, App: 1}}, 1,
		[]string{e.primary.url, e.witness.url},
		light.TrustOptions{Period: 100 * time.Hour, Height: c.Trust, Hash: e.chain.blocks[c.Trust].Hash()}, log.NewNopLogger())
}

// run returns a violation (key, what) or "", and an outcome class
func (e *c14LightEnv) run(r *vr.Report, c c14LightCase, count bool) (key, what, outcome string) {
	sp, err := e.provider(c)
	if err != nil {
		return "", "", "init-error"
	}
	assumptionBroken := c.Lie == "fork-signed-by-3of4" && c.Collude // >= 2/3 Byzantine and no honest witness
	if c.Sync {
		cs := c14Case{Sweep: c14Sweep{Scenario: "single", L: 5, Kv: 5, Ka: 0}, Choices: c.Choices}
		w, err := c14NewWorld(e.tmp, cs, e.truth, sp, 0)
		if err != nil {
			panic(err)
		}
		w.start()
		for {
			st := w.waitStable()
			if st.kind == "done" {
				break
			}
			if st.kind == "timeout" {
				return "", "", "inconclusive"
			}
			if st.kind == "call" {
				w.atCall(st.call)
			} else {
				w.atBlocked(st.idx)
			}
		}
		res := w.result()
		if assumptionBroken {
			return "", "", "sync:assumption-broken"
		}
		k, wh, _ := c14Check(res.Journal, e.truth)
		if k != "" {
			return k, wh, "violation"
		}
		if count {
			for _, ev := range res.Journal {
				if ev.K == "done" && ev.Err == "" && !e.truth.paramsOK(3, *ev.State) {
					r.Add("diag_state_consensus_params_not_of_height_H_plus_1", 1)
				}
			}
		}
		return "", "", "sync:" + c14Outcome(res.Journal)
	}
	ctx, cancel := context.WithTimeout(context.Background(), 60*time.Second)
	defer cancel()
	out := ""
	ah, err := sp.AppHash(ctx, c.H)
	if err != nil {
		out += "apphash:err"
	} else {
		out += "apphash:ok"
		if !assumptionBroken && string(ah) != string(e.truth.AppHash(c.H)) {
			return "statesync/stateprovider.go:AppHash:app-hash-not-the-verified-one-of-H-plus-1",
				fmt.Sprintf("AppHash(%d) returned %X, header %d of the chain has %X", c.H, ah, c.H+1, e.truth.AppHash(c.H)), "violation"
		}
	}
	st, err := sp.State(ctx, c.H)
	if err != nil {
		out += " state:err"
	} else {
		out += " state:ok"
		if !assumptionBroken {
			if f, w := e.truth.stateDiff(c.H, st); f != "" {
				return "statesync/stateprovider.go:State:" + f + "-not-the-verified-one",
					fmt.Sprintf("State(%d).%s is not the light-verified value: %s", c.H, f, w), "violation"
			}
			if !e.truth.paramsOK(c.H, st) {
				out += "(params-of-other-height)"
				if count {
					r.Add("diag_state_consensus_params_not_of_height_H_plus_1", 1)
				}
			}
		}
	}
	cm, err := sp.Commit(ctx, c.H)
	if err != nil {
		out += " commit:err"
	} else {
		out += " commit:ok"
		if !assumptionBroken {
			if ok, why := e.truth.CommitEq(c.H, cm); !ok {
				return "statesync/stateprovider.go:Commit:commit-not-the-verified-one", why, "violation"
			}
		}
	}
	if assumptionBroken {
		out += " (assumption-broken)"
	}
	return "", "", out
}

func TestVerifC14Light(t *testing.T) {
	r := vr.Start("C14", "light", 80*time.Second, 10*time.Minute)
	defer r.Finish()
	r.Rule = "odometer over (snapshot height H in 2..5, trusted height 1 or 8, primary lie kind x lie position subset of {H,H+1,H+2}, witness honest/colluding, " +
		"consensus_params RPC honest / params of another verified height / forged / error); each tuple builds the real lightClientStateProvider over loopback JSON-RPC " +
		"and calls AppHash, State, Commit; a second block runs the real syncer end-to-end on the real provider for every lie kind x verdict history of length <= 2"
	r.Assume("fewer than 1/3 of the voting power signs forged blocks, or an honest witness is present (the 3-of-4 fork with a colluding witness is executed but not judged)")
	r.Assume("the harness servers lie only in what they serve; transport-level faults (timeouts, truncated responses) are not modelled")
	chain := newC14Chain()
	p, err := newC14Server(chain)
	if err != nil {
		r.Cap("loopback listener unavailable: " + err.Error())
		return
	}
	w, err := newC14Server(chain)
	if err != nil {
		r.Cap("loopback listener unavailable: " + err.Error())
		return
	}
	e := &c14LightEnv{chain: chain, primary: p, witness: w, truth: c14ChainTruth{chain}, tmp: c14TempDir(t)}

	var rc c14LightCase
	if replaying, skip := r.ReplayCase(&rc); skip {
		return
	} else if replaying {
		r.Eval()
		key, what, out := e.run(r, rc, true)
		if key != "" {
			r.Violation(key, what, rc)
		}
		r.Sample(map[string]interface{}{"case": rc, "outcome": out})
		return
	}
	k := 0
	stop := false
	try := func(c c14LightCase) {
		if stop {
			return
		}
		k++
		if !r.Mine(k) {
			return
		}
		if r.Deadline("C14 light enumeration") {
			stop = true
			return
		}
		r.Eval()
		if c.Lie != "" || c.Params != "" {
			r.NTCount(1)
		}
		key, what, out := e.run(r, c, true)
		if key != "" {
			stable := vr.Confirm(2, fmt.Errorf("%s", key), func() error {
				k2, _, _ := e.run(r, c, false)
				if k2 == "" {
					return nil
				}
				return fmt.Errorf("%s", k2)
			})
			if stable {
				r.Violation(key, what, c)
			} else {
				r.Cap("a failing light case did not fail identically on re-execution: " + key)
			}
		}
		if c.Lie != "" {
			r.Outcome(c.Lie + " -> " + out)
		} else {
			r.Outcome("honest -> " + out)
		}
		if k%97 == 1 {
			r.Sample(map[string]interface{}{"case": c, "outcome": out})
		}
	}
	ats := [][]int{{0}, {1}, {2}, {0, 1, 2}}
	heights := []uint64{2, 3, 4, 5}
	trusts := []int64{1, 8}
	paramModes := []string{"", "of-height-2", "of-height-6", "forged", "error"}
	if !vr.Thorough() {
		heights = []uint64{3, 4}
	}
	// 1. provider calls
	for _, H := range heights {
		for _, T := range trusts {
			for _, pm := range paramModes {
				try(c14LightCase{H: H, Trust: T, Params: pm})
			}
			for _, lie := range c14LieKinds {
				for _, at := range ats {
					for _, col := range []bool{false, true} {
						pms := []string{""}
						if vr.Thorough() {
							pms = []string{"", "of-height-2", "forged"}
						}
						for _, pm := range pms {
							try(c14LightCase{H: H, Trust: T, Lie: lie, At: at, Collude: col, Params: pm})
						}
					}
				}
			}
		}
	}
	// 2. the real syncer on the real provider (one 3-chunk snapshot at height 3 advertised by peer a)
	hist := [][]int{nil, {1}, {0, 1}, {0, 2}, {0, 7}, {0, 0, 0, 0, 1}, {0, 0, 0, 0, 3}}
	for _, T := range trusts {
		for _, pm := range paramModes {
			try(c14LightCase{H: 3, Trust: T, Params: pm, Sync: true})
		}
		for _, lie := range c14LieKinds {
			for _, at := range ats {
				for _, col := range []bool{false, true} {
					hs := hist[:1]
					if len(at) == 1 && at[0] == 1 {
						hs = hist
					}
					for _, ch := range hs {
						try(c14LightCase{H: 3, Trust: T, Lie: lie, At: at, Collude: col, Sync: true, Choices: ch})
					}
				}
			}
		}
		for _, ch := range hist {
			try(c14LightCase{H: 3, Trust: T, Sync: true, Choices: ch})
		}
	}
	r.Bound = fmt.Sprintf("heights %v x trust %v x %d lie kinds x %d positions x 2 witnesses x params modes; syncer block at H=3", heights, trusts, len(c14LieKinds), len(ats))
}
