package statesync

// C14, part "pool": "a rejected snapshot, format or sender is never used again" on the real snapshotPool, closed
// under every sequence of the operations the syncer and the reactor perform on it: advertisement by a peer,
// peer removal (disconnect), Reject of a snapshot (held by the syncer, whether or not the pool still lists it),
// RejectFormat, RejectPeer. Breadth-first search over operation sequences; every state is rebuilt by replaying its
// shortest history on a fresh pool; states are merged on a canonical dump of all of the pool's maps; the search
// runs to the fixed point (the state space is finite), so the result holds for histories of every length over the
// alphabet.

import (
	"fmt"
	"sort"
	"strings"
	"testing"
	"time"

	"github.com/tendermint/tendermint/internal/verif/vr"
	"github.com/tendermint/tendermint/p2p"
)

type c14pPeer struct {
	p2p.Peer
	id p2p.ID
}

func (p *c14pPeer) ID() p2p.ID { return p.id }

type c14pOp struct {
	K    string `json:"op"` // add | rm | reject | rejfmt | rejpeer
	Peer string `json:"peer,omitempty"`
	Snap int    `json:"snap,omitempty"` // index into c14pSnaps
	Fmt  uint32 `json:"format,omitempty"`
}

func (o c14pOp) String() string {
	switch o.K {
	case "add":
		return fmt.Sprintf("add(%s,S%d)", o.Peer, o.Snap)
	case "rm":
		return "rm(" + o.Peer + ")"
	case "reject":
		return fmt.Sprintf("reject(S%d)", o.Snap)
	case "rejfmt":
		return fmt.Sprintf("rejectFormat(%d)", o.Fmt)
	}
	return "rejectPeer(" + o.Peer + ")"
}

type c14pCase struct {
	Ops []c14pOp `json:"ops"`
}

func c14pSnaps() []*snapshot {
	return []*snapshot{
		{Height: 2, Format: 1, Chunks: 1, Hash: []byte("s0")},
		{Height: 1, Format: 1, Chunks: 1, Hash: []byte("s1")},
		{Height: 2, Format: 2, Chunks: 1, Hash: []byte("s2")},
	}
}

var c14pPeers = []string{"a", "b"}

func c14pAlphabet() []c14pOp {
	var ops []c14pOp
	for _, p := range c14pPeers {
		for s := range c14pSnaps() {
			ops = append(ops, c14pOp{K: "add", Peer: p, Snap: s})
		}
	}
	for _, p := range c14pPeers {
		ops = append(ops, c14pOp{K: "rm", Peer: p})
	}
	for s := range c14pSnaps() {
		ops = append(ops, c14pOp{K: "reject", Snap: s})
	}
	ops = append(ops, c14pOp{K: "rejfmt", Fmt: 1}, c14pOp{K: "rejfmt", Fmt: 2})
	for _, p := range c14pPeers {
		ops = append(ops, c14pOp{K: "rejpeer", Peer: p})
	}
	return ops
}

// reference: what has been rejected so far
type c14pRef struct {
	snaps map[int]bool
	fmts  map[uint32]bool
	peers map[string]bool
}

// c14pRun replays ops on a fresh real pool, checking after every operation. It returns the canonical state.
func c14pRun(ops []c14pOp) (canon, key, what string) {
	pool := newSnapshotPool()
	snaps := c14pSnaps()
	ref := c14pRef{snaps: map[int]bool{}, fmts: map[uint32]bool{}, peers: map[string]bool{}}
	idx := map[snapshotKey]int{}
	for i, s := range snaps {
		idx[s.Key()] = i
	}
	for n, o := range ops {
		switch o.K {
		case "add":
			s := *snaps[o.Snap] // the reactor builds a fresh object for every advertisement
			added, err := pool.Add(&c14pPeer{id: p2p.ID(o.Peer)}, &s)
			if err != nil {
				return "", "statesync/snapshots.go:Add:fails", err.Error()
			}
			if added && (ref.snaps[o.Snap] || ref.fmts[s.Format] || ref.peers[o.Peer]) {
				return "", "statesync/snapshots.go:Add:accepts-something-rejected", fmt.Sprintf("after %v: %v reported a new snapshot although the snapshot, its format or the peer had been rejected", ops[:n], o)
			}
		case "rm":
			pool.RemovePeer(p2p.ID(o.Peer))
		case "reject":
			s := *snaps[o.Snap]
			pool.Reject(&s)
			ref.snaps[o.Snap] = true
		case "rejfmt":
			pool.RejectFormat(o.Fmt)
			ref.fmts[o.Fmt] = true
		case "rejpeer":
			pool.RejectPeer(p2p.ID(o.Peer))
			ref.peers[o.Peer] = true
		}
		// nothing rejected is on offer, nothing on offer is without a usable peer
		for _, s := range pool.Ranked() {
			i := idx[s.Key()]
			if ref.snaps[i] {
				return "", "statesync/snapshots.go:pool:rejected-snapshot-on-offer-again", fmt.Sprintf("after %v the pool ranks S%d, which was rejected", ops[:n+1], i)
			}
			if ref.fmts[s.Format] {
				return "", "statesync/snapshots.go:pool:snapshot-of-rejected-format-on-offer", fmt.Sprintf("after %v the pool ranks S%d, whose format %d was rejected", ops[:n+1], i, s.Format)
			}
			peers := pool.GetPeers(s)
			if len(peers) == 0 {
				return "", "statesync/snapshots.go:pool:snapshot-on-offer-without-peer", fmt.Sprintf("after %v the pool ranks S%d but knows no peer for it", ops[:n+1], i)
			}
			for _, p := range peers {
				if ref.peers[string(p.ID())] {
					return "", "statesync/snapshots.go:pool:rejected-peer-still-a-source", fmt.Sprintf("after %v the pool names the rejected peer %s as a source of S%d", ops[:n+1], p.ID(), i)
				}
			}
		}
		if best := pool.Best(); best != nil && (ref.snaps[idx[best.Key()]] || ref.fmts[best.Format]) {
			return "", "statesync/snapshots.go:Best:returns-something-rejected", fmt.Sprintf("after %v", ops[:n+1])
		}
	}
	// canonical dump of the complete pool state
	var b strings.Builder
	dumpKeys := func(name string, m map[snapshotKey]bool) {
		var ks []int
		for k := range m {
			ks = append(ks, idx[k])
		}
		sort.Ints(ks)
		fmt.Fprintf(&b, "%s%v;", name, ks)
	}
	var have []int
	for k := range pool.snapshots {
		have = append(have, idx[k])
	}
	sort.Ints(have)
	fmt.Fprintf(&b, "S%v;", have)
	for i, s := range snaps {
		var ps []string
		for id := range pool.snapshotPeers[s.Key()] {
			ps = append(ps, string(id))
		}
		sort.Strings(ps)
		fmt.Fprintf(&b, "P%d%v;", i, ps)
	}
	for _, f := range []uint32{1, 2} {
		dumpKeys(fmt.Sprintf("F%d", f), pool.formatIndex[f])
		fmt.Fprintf(&b, "bf%v;", pool.formatBlacklist[f])
	}
	for _, h := range []uint64{1, 2} {
		dumpKeys(fmt.Sprintf("H%d", h), pool.heightIndex[h])
	}
	for _, p := range c14pPeers {
		dumpKeys("I"+p, pool.peerIndex[p2p.ID(p)])
		fmt.Fprintf(&b, "bp%v;", pool.peerBlacklist[p2p.ID(p)])
	}
	dumpKeys("bs", pool.snapshotBlacklist)
	// the reference is part of the state: two histories are merged only if they also rejected the same things
	fmt.Fprintf(&b, "|ref:%v%v%v", ref.snaps, ref.fmts, ref.peers)
	return b.String(), "", ""
}

func TestVerifC14Pool(t *testing.T) {
	r := vr.Start("C14", "pool", 60*time.Second, 5*time.Minute)
	defer r.Finish()
	r.Rule = "breadth-first search to the fixed point over sequences of add(peer, snapshot) / removePeer / reject(snapshot) / rejectFormat / rejectPeer on the real snapshotPool (2 peers, 3 snapshots in 2 formats and 2 heights); " +
		"a state = canonical dump of every map of the pool, rebuilt by replaying its shortest history on a fresh pool; after every operation: nothing rejected is ranked / best / accepted as new, every ranked snapshot has a peer, no rejected peer is a source; all states distinct"
	var rc c14pCase
	if rep, skip := r.ReplayCase(&rc); skip {
		return
	} else if rep {
		r.Eval()
		if _, k, w := c14pRun(rc.Ops); k != "" {
			r.Violation(k, w, rc)
		}
		return
	}
	if !r.Mine(0) {
		return
	}
	alpha := c14pAlphabet()
	c0, _, _ := c14pRun(nil)
	seen := map[string]bool{c0: true}
	frontier := [][]c14pOp{nil}
	depth := 0
	var trans int64
	reported := map[string]bool{}
	for len(frontier) > 0 {
		if r.Deadline("C14 pool search") {
			break
		}
		var next [][]c14pOp
		for _, h := range frontier {
			for _, o := range alpha {
				nh := append(append([]c14pOp{}, h...), o)
				c, key, what := c14pRun(nh)
				trans++
				r.Eval()
				if key != "" {
					if !reported[key] {
						reported[key] = true
						r.Outcome(key)
						r.Violation(key, what, c14pCase{Ops: nh})
					}
					continue
				}
				if !seen[c] {
					seen[c] = true
					next = append(next, nh)
				}
			}
		}
		frontier = next
		if len(next) > 0 {
			depth++
		}
	}
	r.States, r.Transitions, r.MaxDepth = int64(len(seen)), trans, depth
	r.NTCount(int64(len(seen)))
	r.Outcome(fmt.Sprintf("fixed-point:%d-states", len(seen)))
	r.Bound = fmt.Sprintf("fixed point: %d states, longest shortest history %d operations", len(seen), depth)
}
