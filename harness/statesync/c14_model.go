package statesync

// C14 — shared machinery of the state-sync check.
//
// A *run* is one execution of the real syncer.SyncAny (real snapshotPool, real chunkQueue on a temp
// dir, real offerSnapshot/applyChunks/verifyApp) against
//   - a recording ABCI app whose verdicts are chosen by the enumerator,
//   - a StateProvider (harness fake answering from a canonical chain, or — part "light" — the real
//     lightClientStateProvider),
//   - a network the enumerator owns: every chunk arrival, snapshot advertisement and peer removal
//     is an explicit event executed while the syncer goroutine is at a *stable point*:
//     (a) inside an app callback, waiting for the verdict, or (b) blocked in chunkQueue.Next()
//     on a missing chunk. (b) is detected in-band: with chunkFetchers = 0 the only code that
//     registers a waiter in chunkQueue.waiters is Next(), so "a waiter exists" <=> "the syncer
//     goroutine is parked on that index". No sleeps, no wall-clock expectations.
//
// The run is a function of a *choice vector*: at every decision point (verdict of an app call,
// next network event at a stable point) the driver takes choice[k] (0 = default: accept / deliver
// the needed chunk from a legitimate peer / no extra event). The explorer enumerates all vectors
// inside the bounds of a sweep (stateless depth-first search, every leaf is a full execution on the
// real code). The oracle is evaluated on the journal of the run and encodes the statement of C14.

import (
	"context"
	"crypto/sha256"
	"encoding/hex"
	"errors"
	"fmt"
	"os"
	"reflect"
	"runtime"
	"sort"
	"strings"
	"sync"
	"time"

	abci "github.com/tendermint/tendermint/abci/types"
	"github.com/tendermint/tendermint/config"
	"github.com/tendermint/tendermint/libs/log"
	"github.com/tendermint/tendermint/p2p"
	tmstate "github.com/tendermint/tendermint/proto/tendermint/state"
	tmversion "github.com/tendermint/tendermint/proto/tendermint/version"
	sm "github.com/tendermint/tendermint/state"
	"github.com/tendermint/tendermint/types"
	"github.com/tendermint/tendermint/version"
)

const (
	c14ChainID    = "verif-c14"
	c14AppVersion = uint64(7)
	c14MaxHeight  = uint64(6) // the canonical chain of the fake state provider has heights 1..6 (+2 for the provider)
	c14Rescue     = "z"       // a peer that never advertises and is never rejected: delivers when nobody else may
)

// ---------------------------------------------------------------------------------------------
// canonical chain of the fake state provider

func c14CanonAppHash(h uint64) []byte { return []byte(fmt.Sprintf("verified-app-hash-%d", h)) }

func c14CanonCommit(h uint64) *types.Commit {
	return &types.Commit{Height: int64(h), Round: 0, BlockID: types.BlockID{Hash: []byte(fmt.Sprintf("verified-block-%02d", h))}}
}

func c14CanonState(h uint64) sm.State {
	return sm.State{
		ChainID: c14ChainID,
		Version: tmstate.Version{Consensus: tmversion.Consensus{Block: version.BlockProtocol, App: c14AppVersion},
			Software: version.TMCoreSemVer},
		InitialHeight:                    1,
		LastBlockHeight:                  int64(h),
		LastBlockID:                      types.BlockID{Hash: []byte(fmt.Sprintf("verified-block-%02d", h))},
		LastBlockTime:                    time.Date(2022, 1, 1, 0, 0, int(h), 0, time.UTC),
		LastResultsHash:                  []byte(fmt.Sprintf("verified-results-%d", h)),
		AppHash:                          c14CanonAppHash(h),
		ConsensusParams:                  *types.DefaultConsensusParams(),
		LastHeightConsensusParamsChanged: int64(h) + 1,
		LastHeightValidatorsChanged:      int64(h) + 2,
	}
}

// c14Truth is what "verified" means for a run: the values a correct light client would hand out.
// The fake provider answers from it; the light part installs the values of its generated chain.
type c14Truth interface {
	Known(h uint64) bool
	AppHash(h uint64) []byte
	StateEq(h uint64, st sm.State) (bool, string)
	CommitEq(h uint64, c *types.Commit) (bool, string)
	AppVersion(h uint64) uint64
}

type c14FakeTruth struct{}

func (c14FakeTruth) Known(h uint64) bool        { return h >= 1 && h <= c14MaxHeight }
func (c14FakeTruth) AppHash(h uint64) []byte    { return c14CanonAppHash(h) }
func (c14FakeTruth) AppVersion(h uint64) uint64 { return c14AppVersion }
func (c14FakeTruth) StateEq(h uint64, st sm.State) (bool, string) {
	want := c14CanonState(h)
	if !reflect.DeepEqual(want, st) {
		return false, fmt.Sprintf("state for height %d differs from the verified one: got last=%d apphash=%q", h, st.LastBlockHeight, st.AppHash)
	}
	return true, ""
}
func (c14FakeTruth) CommitEq(h uint64, c *types.Commit) (bool, string) {
	if !reflect.DeepEqual(c14CanonCommit(h), c) {
		return false, fmt.Sprintf("commit for height %d differs from the verified one", h)
	}
	return true, ""
}

// ---------------------------------------------------------------------------------------------
// scenario and case

type c14SnapSpec struct {
	H     uint64   `json:"h"`
	F     uint32   `json:"f"`
	N     uint32   `json:"n"`
	Tag   string   `json:"tag"` // distinguishes the hash a peer claims
	Peers []string `json:"peers"`
}

func (s c14SnapSpec) snap() *snapshot {
	return &snapshot{Height: s.H, Format: s.F, Chunks: s.N, Hash: []byte("claimed-hash-" + s.Tag), Metadata: []byte("meta-" + s.Tag)}
}

func c14SnapKey(h uint64, f uint32, n uint32, hash, meta []byte) string {
	return fmt.Sprintf("%d/%d/%d/%s/%s", h, f, n, hash, meta)
}

func (s c14SnapSpec) key() string {
	x := s.snap()
	return c14SnapKey(x.Height, x.Format, x.Chunks, x.Hash, x.Metadata)
}

type c14Scenario struct {
	Name  string
	Snaps []c14SnapSpec
	Peers []string      // menu peers (order fixed)
	Late  []c14SnapSpec // snapshots that may be advertised during the run (family c14FamAdv); Peers[0] is the advertiser
}

// event families a sweep may enable at stable points (bit mask)
const (
	c14FamOrder   = 1 << iota // good chunks of any index from the menu peers (out of order, duplicates, other senders)
	c14FamBad                 // wrong index / wrong format / wrong height / nil body
	c14FamAdv                 // snapshot advertisements during the run (re-advertise, new snapshot by any menu peer)
	c14FamRemove              // peer disappears (RemovePeer)
	c14FamAtOffer             // network events also while the app is deciding on an offer
	c14FamAtInfo              // ... and while it answers Info
)

type c14Sweep struct {
	Scenario string `json:"scenario"`
	L        int    `json:"l"`    // app verdicts (offer / chunk / info) that are enumerated; later ones take the default
	Kv       int    `json:"kv"`   // at most this many non-default verdicts
	Ka       int    `json:"ka"`   // at most this many non-default network events
	Fam      int    `json:"fam"`  // enabled event families
	Full     bool   `json:"full"` // full verdict alphabet (result x refetch set x reject set) instead of the lean one
}

type c14Case struct {
	Sweep   c14Sweep `json:"sweep"`
	Choices []int    `json:"choices"`
}

// ---------------------------------------------------------------------------------------------
// journal

type c14Ev struct {
	K       string   `json:"k"` // adv rm sp offer offer-v arr apply apply-v info info-v done
	Peer    string   `json:"peer,omitempty"`
	H       uint64   `json:"h,omitempty"`
	F       uint32   `json:"f,omitempty"`
	N       uint32   `json:"n,omitempty"`
	Hash    string   `json:"hash,omitempty"`
	Meta    string   `json:"meta,omitempty"`
	Idx     uint32   `json:"idx,omitempty"`
	Data    string   `json:"data,omitempty"`
	AppHash string   `json:"app_hash,omitempty"`
	What    string   `json:"what,omitempty"` // sp: which call; arr: variant
	Res     int      `json:"res,omitempty"`
	Refetch []uint32 `json:"refetch,omitempty"`
	Reject  []string `json:"reject,omitempty"`
	Added   bool     `json:"added,omitempty"`
	Err     string   `json:"err,omitempty"`
	Seq     int      `json:"seq,omitempty"`
	// done
	State  *sm.State     `json:"-"`
	Commit *types.Commit `json:"-"`
	// info-v
	InfoHash string `json:"info_hash,omitempty"`
	InfoH    int64  `json:"info_h,omitempty"`
	InfoV    uint64 `json:"info_v,omitempty"`
}

func (e c14Ev) String() string {
	switch e.K {
	case "adv":
		return fmt.Sprintf("adv(%s h%d/f%d/n%d/%s)=%v", e.Peer, e.H, e.F, e.N, e.Hash, e.Added)
	case "rm":
		return fmt.Sprintf("rm(%s)", e.Peer)
	case "sp":
		return fmt.Sprintf("sp.%s(%d)%s", e.What, e.H, e.Err)
	case "offer":
		return fmt.Sprintf("offer(h%d/f%d/n%d/%s apphash=%s)", e.H, e.F, e.N, e.Hash, e.AppHash)
	case "offer-v":
		return "->" + abci.ResponseOfferSnapshot_Result(e.Res).String()
	case "arr":
		return fmt.Sprintf("arr#%d(%s %s h%d/f%d i%d)=%v%s", e.Seq, e.Peer, e.What, e.H, e.F, e.Idx, e.Added, e.Err)
	case "apply":
		return fmt.Sprintf("apply(i%d from %s %q)", e.Idx, e.Peer, e.Data)
	case "apply-v":
		return fmt.Sprintf("->%s refetch=%v reject=%v", abci.ResponseApplySnapshotChunk_Result(e.Res), e.Refetch, e.Reject)
	case "info":
		return "info"
	case "info-v":
		return fmt.Sprintf("->(%s,%d,v%d)", e.InfoHash, e.InfoH, e.InfoV)
	case "done":
		return "done(" + e.Err + ")"
	case "req":
		return fmt.Sprintf("req(%s i%d)", e.Peer, e.Idx)
	}
	return e.K
}

// signature without arrival sequence numbers / payload stamps: identifies the *behaviour* class
func (e c14Ev) sig() string {
	switch e.K {
	case "arr":
		return fmt.Sprintf("arr(%s %s h%d/f%d i%d)=%v", e.Peer, e.What, e.H, e.F, e.Idx, e.Added)
	case "apply":
		return fmt.Sprintf("apply(i%d from %s)", e.Idx, e.Peer)
	}
	return e.String()
}

func c14JournalString(j []c14Ev) string {
	var b strings.Builder
	for i, e := range j {
		if i > 0 {
			b.WriteString(" ; ")
		}
		b.WriteString(e.String())
	}
	return b.String()
}

func c14JournalSig(j []c14Ev) string {
	h := sha256.New()
	for _, e := range j {
		h.Write([]byte(e.sig()))
		h.Write([]byte{0})
	}
	return hex.EncodeToString(h.Sum(nil)[:12])
}

// c14JournalHash: the same identity as a 64-bit FNV-1a hash computed without formatting (hot path)
func c14JournalHash(j []c14Ev) uint64 {
	h := uint64(14695981039346656037)
	b := func(x byte) { h = (h ^ uint64(x)) * 1099511628211 }
	s := func(x string) {
		for i := 0; i < len(x); i++ {
			b(x[i])
		}
		b(0xff)
	}
	u := func(x uint64) {
		for i := 0; i < 8; i++ {
			b(byte(x >> (8 * i)))
		}
	}
	for _, e := range j {
		s(e.K)
		s(e.Peer)
		u(e.H)
		u(uint64(e.F)<<32 | uint64(e.N))
		u(uint64(e.Idx)<<8 | uint64(e.Res))
		s(e.Hash)
		s(e.What)
		s(e.AppHash)
		s(e.Err)
		s(e.InfoHash)
		u(uint64(e.InfoH)<<8 | e.InfoV)
		if e.Added {
			b(1)
		}
		for _, r := range e.Refetch {
			u(uint64(r) + 1)
		}
		for _, r := range e.Reject {
			s(r)
		}
		b(0xfe)
	}
	return h
}

// ---------------------------------------------------------------------------------------------
// peers, app, state provider

type c14Peer struct {
	p2p.Peer // nil: only ID and the send methods are used by statesync
	id       p2p.ID
	w        *c14World
}

func (p *c14Peer) ID() p2p.ID { return p.id }
func (p *c14Peer) SendEnvelope(e p2p.Envelope) bool {
	if p.w != nil && p.w.onSend != nil {
		return p.w.onSend(p, e)
	}
	return true
}
func (p *c14Peer) TrySendEnvelope(e p2p.Envelope) bool { return p.SendEnvelope(e) }
func (p *c14Peer) Send(byte, []byte) bool              { return true }
func (p *c14Peer) TrySend(byte, []byte) bool           { return true }
func (p *c14Peer) String() string                      { return string(p.id) }

type c14Call struct {
	kind  string // offer apply info
	offer abci.RequestOfferSnapshot
	apply abci.RequestApplySnapshotChunk
	// replies
	reply chan c14Reply
}

type c14Reply struct {
	offer *abci.ResponseOfferSnapshot
	apply *abci.ResponseApplySnapshotChunk
	info  *abci.ResponseInfo
}

type c14App struct{ w *c14World }

func (a *c14App) Error() error { return nil }
func (a *c14App) ListSnapshotsSync(abci.RequestListSnapshots) (*abci.ResponseListSnapshots, error) {
	return &abci.ResponseListSnapshots{}, nil
}
func (a *c14App) LoadSnapshotChunkSync(abci.RequestLoadSnapshotChunk) (*abci.ResponseLoadSnapshotChunk, error) {
	return &abci.ResponseLoadSnapshotChunk{}, nil
}
func (a *c14App) OfferSnapshotSync(req abci.RequestOfferSnapshot) (*abci.ResponseOfferSnapshot, error) {
	c := &c14Call{kind: "offer", offer: req, reply: make(chan c14Reply, 1)}
	a.w.calls <- c
	return (<-c.reply).offer, nil
}
func (a *c14App) ApplySnapshotChunkSync(req abci.RequestApplySnapshotChunk) (*abci.ResponseApplySnapshotChunk, error) {
	c := &c14Call{kind: "apply", apply: req, reply: make(chan c14Reply, 1)}
	a.w.calls <- c
	return (<-c.reply).apply, nil
}

type c14Query struct{ w *c14World }

func (a *c14Query) Error() error                                { return nil }
func (a *c14Query) EchoSync(string) (*abci.ResponseEcho, error) { return &abci.ResponseEcho{}, nil }
func (a *c14Query) QuerySync(abci.RequestQuery) (*abci.ResponseQuery, error) {
	return &abci.ResponseQuery{}, nil
}
func (a *c14Query) InfoSync(abci.RequestInfo) (*abci.ResponseInfo, error) {
	c := &c14Call{kind: "info", reply: make(chan c14Reply, 1)}
	a.w.calls <- c
	return (<-c.reply).info, nil
}

// fake state provider: answers from the canonical chain; heights off the chain cannot be verified.
type c14SP struct{ w *c14World }

func (p *c14SP) AppHash(_ context.Context, h uint64) ([]byte, error) {
	if !p.w.truth.Known(h) {
		p.w.log(c14Ev{K: "sp", What: "AppHash", H: h, Err: "!unverifiable"})
		return nil, errors.New("light client: cannot verify height")
	}
	p.w.log(c14Ev{K: "sp", What: "AppHash", H: h})
	return c14CanonAppHash(h), nil
}
func (p *c14SP) Commit(_ context.Context, h uint64) (*types.Commit, error) {
	if !p.w.truth.Known(h) {
		return nil, errors.New("light client: cannot verify height")
	}
	p.w.log(c14Ev{K: "sp", What: "Commit", H: h})
	return c14CanonCommit(h), nil
}
func (p *c14SP) State(_ context.Context, h uint64) (sm.State, error) {
	if !p.w.truth.Known(h) {
		return sm.State{}, errors.New("light client: cannot verify height")
	}
	p.w.log(c14Ev{K: "sp", What: "State", H: h})
	return c14CanonState(h), nil
}

// ---------------------------------------------------------------------------------------------
// the world of one run

type c14World struct {
	sc    *c14Scenario
	sw    c14Sweep
	truth c14Truth
	s     *syncer
	peers map[string]*c14Peer
	calls chan *c14Call
	done  chan struct{}

	jmtx    sync.Mutex
	journal []c14Ev
	seq     int

	onSend func(p *c14Peer, e p2p.Envelope) bool // part "fetch": request capture
	gate   *c14Gate                              // part "fetch": deliveries are responses to captured requests only

	// chooser
	choices  []int
	eff      []int
	arities  []int
	kinds    []string
	nVerdict int
	vdev     int
	adev     int

	// driver's view (from what it has observed and decided; used only to build menus)
	cur      *c14Ev // last offer request
	rejected map[string]bool
	seenKeys []c14SnapSpec // snapshots advertised so far, in order (for re-advertisement menu)
	lateUsed map[string]bool

	inconclusive string
	panicked     string
	pendingCall  *c14Call
}

func (w *c14World) log(e c14Ev) {
	w.jmtx.Lock()
	w.journal = append(w.journal, e)
	w.jmtx.Unlock()
}

func (w *c14World) peer(id string) *c14Peer {
	if p, ok := w.peers[id]; ok {
		return p
	}
	p := &c14Peer{id: p2p.ID(id), w: w}
	w.peers[id] = p
	return p
}

// pick consumes one decision. class "v" = app verdict, "a" = network event. n = number of options.
func (w *c14World) pick(class string, n int) int {
	if n <= 1 {
		return 0
	}
	if class == "v" {
		w.nVerdict++
		if w.nVerdict > w.sw.L || w.vdev >= w.sw.Kv {
			return 0
		}
	} else if w.adev >= w.sw.Ka {
		return 0
	}
	k := len(w.eff)
	c := 0
	if k < len(w.choices) {
		c = w.choices[k]
	}
	if c >= n || c < 0 {
		// a replay file written for another tree shape; clamp and flag
		w.inconclusive = fmt.Sprintf("choice %d out of range at decision %d (arity %d)", c, k, n)
		c = 0
	}
	w.eff = append(w.eff, c)
	w.arities = append(w.arities, n)
	w.kinds = append(w.kinds, class)
	if c != 0 {
		if class == "v" {
			w.vdev++
		} else {
			w.adev++
		}
	}
	return c
}

// ---------------------------------------------------------------------------------------------
// verdict alphabets

type c14Verdict struct {
	Res     abci.ResponseApplySnapshotChunk_Result
	Refetch []uint32
	Reject  []string
}

var c14OfferMenu = []abci.ResponseOfferSnapshot_Result{abci.ResponseOfferSnapshot_ACCEPT, abci.ResponseOfferSnapshot_REJECT,
	abci.ResponseOfferSnapshot_REJECT_FORMAT, abci.ResponseOfferSnapshot_REJECT_SENDER, abci.ResponseOfferSnapshot_ABORT}

func (w *c14World) applyMenu(idx uint32, sender string) []c14Verdict {
	const (
		A  = abci.ResponseApplySnapshotChunk_ACCEPT
		R  = abci.ResponseApplySnapshotChunk_RETRY
		RS = abci.ResponseApplySnapshotChunk_RETRY_SNAPSHOT
		XS = abci.ResponseApplySnapshotChunk_REJECT_SNAPSHOT
		AB = abci.ResponseApplySnapshotChunk_ABORT
	)
	n := w.cur.N
	other := (idx + 1) % n
	otherPeer := ""
	for _, p := range w.sc.Peers {
		if p != sender {
			otherPeer = p
			break
		}
	}
	me := []uint32{idx}
	ot := []uint32{other}
	s := []string{sender}
	if !w.sw.Full {
		m := []c14Verdict{{A, nil, nil}, {R, nil, nil}, {RS, nil, nil}, {XS, nil, nil}, {AB, nil, nil},
			{A, me, nil}, {R, me, nil}, {A, nil, s}, {R, me, s}, {A, me, s}, {RS, me, nil}, {RS, nil, s}, {XS, nil, s}, {R, nil, s}}
		if n > 1 {
			m = append(m, c14Verdict{A, ot, nil}, c14Verdict{RS, ot, nil})
		}
		if otherPeer != "" {
			m = append(m, c14Verdict{A, nil, []string{otherPeer}})
		}
		if w.gate != nil {
			// part "fetch": one fetcher per queue (see c14Gate.settle) => no RETRY_SNAPSHOT there
			var g []c14Verdict
			for _, v := range m {
				if v.Res != RS {
					g = append(g, v)
				}
			}
			return g
		}
		return m
	}
	refs := [][]uint32{nil, me}
	if n > 1 {
		all := []uint32{}
		for i := uint32(0); i < n; i++ {
			all = append(all, i)
		}
		refs = append(refs, ot, all)
	}
	rejs := [][]string{nil, s}
	if otherPeer != "" {
		rejs = append(rejs, []string{otherPeer}, []string{sender, otherPeer})
	}
	var m []c14Verdict
	for _, rj := range rejs {
		for _, rf := range refs {
			for _, res := range []abci.ResponseApplySnapshotChunk_Result{A, R, RS, XS, AB} {
				m = append(m, c14Verdict{res, rf, rj})
			}
		}
	}
	return m
}

// ---------------------------------------------------------------------------------------------
// network events

type c14Net struct {
	Kind string // good bad-index bad-format bad-height nil adv rm
	Peer string
	Idx  uint32
	Snap c14SnapSpec
}

// legitimate default sender for the current snapshot: first advertiser (scenario order, then late
// advertisers) the app has not rejected; the rescue peer when none is left.
func (w *c14World) defaultPeer() string {
	if w.cur == nil {
		return c14Rescue
	}
	key := c14SnapKey(w.cur.H, w.cur.F, w.cur.N, []byte(w.cur.Hash), []byte(w.cur.Meta))
	for _, sp := range w.seenKeys {
		if sp.key() != key {
			continue
		}
		for _, p := range sp.Peers {
			if !w.rejected[p] {
				return p
			}
		}
	}
	// a fresh honest peer steps in for every rescue peer the app has rejected as well
	for k := 0; ; k++ {
		p := c14Rescue
		if k > 0 {
			p = fmt.Sprintf("%s%d", c14Rescue, k)
		}
		if !w.rejected[p] {
			return p
		}
	}
}

// menu of non-default network events at a stable point. need < 0: not blocked.
func (w *c14World) netMenu(need int) []c14Net {
	var m []c14Net
	if w.cur == nil {
		return m
	}
	if w.gate != nil {
		return w.gate.menu(need)
	}
	def := w.defaultPeer()
	n := w.cur.N
	if w.sw.Fam&c14FamOrder != 0 {
		for _, p := range w.sc.Peers {
			for i := uint32(0); i < n; i++ {
				if need >= 0 && p == def && int(i) == need {
					continue // that is the default
				}
				m = append(m, c14Net{Kind: "good", Peer: p, Idx: i})
			}
		}
	}
	if w.sw.Fam&c14FamBad != 0 {
		i := uint32(0)
		if need >= 0 {
			i = uint32(need)
		}
		p := w.sc.Peers[0]
		m = append(m, c14Net{Kind: "bad-index", Peer: p, Idx: n}, c14Net{Kind: "bad-format", Peer: p, Idx: i},
			c14Net{Kind: "bad-height", Peer: p, Idx: i}, c14Net{Kind: "nil", Peer: p, Idx: i})
	}
	if w.sw.Fam&c14FamAdv != 0 {
		// every menu peer re-advertises the snapshot being restored; late snapshots by their advertiser
		for _, p := range w.sc.Peers {
			m = append(m, c14Net{Kind: "adv", Peer: p, Snap: c14SnapSpec{H: w.cur.H, F: w.cur.F, N: w.cur.N,
				Tag: strings.TrimPrefix(w.cur.Hash, "claimed-hash-"), Peers: []string{p}}})
		}
		for _, ls := range w.sc.Late {
			if !w.lateUsed[ls.key()+ls.Peers[0]] {
				m = append(m, c14Net{Kind: "adv", Peer: ls.Peers[0], Snap: ls})
			}
		}
	}
	if w.sw.Fam&c14FamRemove != 0 {
		for _, p := range w.sc.Peers {
			m = append(m, c14Net{Kind: "rm", Peer: p})
		}
	}
	return m
}

func (w *c14World) advertise(p string, sp c14SnapSpec) {
	added, err := w.s.AddSnapshot(w.peer(p), sp.snap())
	e := c14Ev{K: "adv", Peer: p, H: sp.H, F: sp.F, N: sp.N, Hash: string(sp.snap().Hash), Meta: string(sp.snap().Metadata), Added: added}
	if err != nil {
		e.Err = "!" + err.Error()
	}
	w.log(e)
	// driver's bookkeeping for default senders
	for i := range w.seenKeys {
		if w.seenKeys[i].key() == sp.key() {
			for _, q := range w.seenKeys[i].Peers {
				if q == p {
					return
				}
			}
			w.seenKeys[i].Peers = append(w.seenKeys[i].Peers, p)
			return
		}
	}
	cp := sp
	cp.Peers = []string{p}
	w.seenKeys = append(w.seenKeys, cp)
}

func (w *c14World) deliver(kind, p string, idx uint32) {
	w.seq++
	h, f := w.cur.H, w.cur.F
	switch kind {
	case "bad-format":
		f++
	case "bad-height":
		h++
	}
	data := []byte(fmt.Sprintf("#%d:%s:h%d:f%d:i%d", w.seq, p, h, f, idx))
	if kind == "nil" {
		data = nil
	}
	added, err := w.s.AddChunk(&chunk{Height: h, Format: f, Index: idx, Chunk: data, Sender: p2p.ID(p)})
	e := c14Ev{K: "arr", Seq: w.seq, Peer: p, What: kind, H: h, F: f, Idx: idx, Data: string(data), Added: added}
	if err != nil {
		e.Err = "!" + err.Error()
	}
	w.log(e)
}

func (w *c14World) doNet(ev c14Net) {
	switch ev.Kind {
	case "adv":
		w.lateUsed[ev.Snap.key()+ev.Peer] = true
		w.advertise(ev.Peer, ev.Snap)
	case "rm":
		w.s.RemovePeer(w.peer(ev.Peer))
		w.log(c14Ev{K: "rm", Peer: ev.Peer})
	case "respond":
		w.gate.respond(ev)
	default:
		w.deliver(ev.Kind, ev.Peer, ev.Idx)
	}
}

// ---------------------------------------------------------------------------------------------
// stable points

type c14Stable struct {
	kind string // call blocked done timeout
	call *c14Call
	idx  uint32
}

func (w *c14World) blockedOn() (uint32, bool) {
	w.s.mtx.RLock()
	q := w.s.chunks
	w.s.mtx.RUnlock()
	if q == nil {
		return 0, false
	}
	q.Lock()
	defer q.Unlock()
	found, idx := false, uint32(0)
	for i, ws := range q.waiters {
		if len(ws) > 0 && (!found || i < idx) {
			found, idx = true, i
		}
	}
	return idx, found
}

var c14StableTimeout = 60 * time.Second

func (w *c14World) waitStable() c14Stable {
	var deadline time.Time
	for spins := 0; ; spins++ {
		select {
		case c := <-w.calls:
			if w.gate != nil && c.kind != "offer" && !w.gate.settle() {
				w.pendingCall = c
				return c14Stable{kind: "timeout"}
			}
			return c14Stable{kind: "call", call: c}
		case <-w.done:
			return c14Stable{kind: "done"}
		default:
		}
		if idx, ok := w.blockedOn(); ok {
			if w.gate != nil && !w.gate.settle() {
				return c14Stable{kind: "timeout"}
			}
			return c14Stable{kind: "blocked", idx: idx}
		}
		if w.gate != nil {
			// part "fetch" runs many worlds concurrently and waits on a 2 s poll of the code under test: do not spin
			if spins < 20 {
				runtime.Gosched()
				continue
			}
			d := time.Duration(spins) * 10 * time.Microsecond
			if d > 2*time.Millisecond {
				d = 2 * time.Millisecond
			}
			time.Sleep(d)
		} else if spins < 2000 {
			runtime.Gosched()
			continue
		} else {
			time.Sleep(100 * time.Microsecond)
		}
		if deadline.IsZero() {
			deadline = time.Now().Add(c14StableTimeout)
		}
		if spins%64 == 0 && time.Now().After(deadline) {
			return c14Stable{kind: "timeout"}
		}
	}
}

func (w *c14World) netAtCall(kind string) {
	if kind == "offer" && w.sw.Fam&c14FamAtOffer == 0 {
		return
	}
	if kind == "info" && w.sw.Fam&c14FamAtInfo == 0 {
		return
	}
	for {
		m := w.netMenu(-1)
		k := w.pick("a", 1+len(m))
		if k == 0 {
			return
		}
		w.doNet(m[k-1])
	}
}

func (w *c14World) atCall(c *c14Call) {
	switch c.kind {
	case "offer":
		sn := c.offer.Snapshot
		e := c14Ev{K: "offer", H: sn.Height, F: sn.Format, N: sn.Chunks, Hash: string(sn.Hash), Meta: string(sn.Metadata), AppHash: string(c.offer.AppHash)}
		w.log(e)
		w.cur = &e
		w.netAtCall("offer")
		res := c14OfferMenu[w.pick("v", len(c14OfferMenu))]
		w.log(c14Ev{K: "offer-v", Res: int(res)})
		if res == abci.ResponseOfferSnapshot_REJECT_SENDER {
			// the driver's own view of who may still legitimately deliver
			key := c14SnapKey(e.H, e.F, e.N, []byte(e.Hash), []byte(e.Meta))
			for _, sp := range w.seenKeys {
				if sp.key() == key {
					for _, p := range sp.Peers {
						w.rejected[p] = true
					}
				}
			}
		}
		c.reply <- c14Reply{offer: &abci.ResponseOfferSnapshot{Result: res}}
	case "apply":
		w.log(c14Ev{K: "apply", Idx: c.apply.Index, Peer: c.apply.Sender, Data: string(c.apply.Chunk)})
		w.netAtCall("apply")
		m := w.applyMenu(c.apply.Index, c.apply.Sender)
		v := m[w.pick("v", len(m))]
		if w.gate != nil {
			w.gate.beforeReject(v.Reject)
		}
		w.log(c14Ev{K: "apply-v", Res: int(v.Res), Refetch: v.Refetch, Reject: v.Reject})
		for _, p := range v.Reject {
			w.rejected[p] = true
		}
		c.reply <- c14Reply{apply: &abci.ResponseApplySnapshotChunk{Result: v.Res, RefetchChunks: v.Refetch, RejectSenders: v.Reject}}
	case "info":
		w.log(c14Ev{K: "info"})
		w.netAtCall("info")
		h := uint64(0)
		if w.cur != nil {
			h = w.cur.H
		}
		inf := &abci.ResponseInfo{AppVersion: w.truth.AppVersion(h), LastBlockHeight: int64(h), LastBlockAppHash: w.truth.AppHash(h)}
		switch w.pick("v", 5) {
		case 1:
			inf.LastBlockAppHash = []byte("some-other-app-hash")
		case 2:
			inf.LastBlockHeight--
		case 3:
			inf.AppVersion++
		case 4:
			inf.LastBlockHeight++
		}
		w.log(c14Ev{K: "info-v", InfoHash: string(inf.LastBlockAppHash), InfoH: inf.LastBlockHeight, InfoV: inf.AppVersion})
		c.reply <- c14Reply{info: inf}
	}
}

func (w *c14World) atBlocked(idx uint32) {
	m := w.netMenu(int(idx))
	if w.gate != nil {
		// the first option answers the request for the chunk the syncer is waiting for
		if len(m) == 0 {
			w.inconclusive = "syncer waits for a chunk nobody was asked for"
			return
		}
		w.doNet(m[w.pick("a", len(m))])
		return
	}
	k := w.pick("a", 1+len(m))
	if k == 0 {
		w.deliver("good", w.defaultPeer(), idx)
		return
	}
	w.doNet(m[k-1])
}

// ---------------------------------------------------------------------------------------------
// one run

type c14Result struct {
	Journal      []c14Ev
	Eff          []int
	Arities      []int
	Kinds        []string
	Inconclusive string
	Panicked     string
	Extra        map[string]int
}

var c14Scenarios = map[string]*c14Scenario{}

func c14AddScenario(sc *c14Scenario) { c14Scenarios[sc.Name] = sc }

func init() {
	a3 := c14SnapSpec{H: 3, F: 1, N: 3, Tag: "X", Peers: []string{"a"}}
	c14AddScenario(&c14Scenario{Name: "single", Snaps: []c14SnapSpec{a3}, Peers: []string{"a", "b"},
		Late: []c14SnapSpec{{H: 4, F: 1, N: 1, Tag: "La", Peers: []string{"a"}}, {H: 4, F: 2, N: 1, Tag: "Lb", Peers: []string{"b"}}}})
	c14AddScenario(&c14Scenario{Name: "single2", Snaps: []c14SnapSpec{{H: 3, F: 1, N: 2, Tag: "X", Peers: []string{"a"}}}, Peers: []string{"a", "b"},
		Late: []c14SnapSpec{{H: 4, F: 1, N: 1, Tag: "La", Peers: []string{"a"}}, {H: 2, F: 1, N: 1, Tag: "Lb", Peers: []string{"b"}}}})
	// two advertisers of the genuine snapshot and a twin with another claimed hash (same height/format => chunk
	// messages of the two are indistinguishable on the wire)
	c14AddScenario(&c14Scenario{Name: "twin", Snaps: []c14SnapSpec{{H: 3, F: 1, N: 2, Tag: "X", Peers: []string{"a", "c"}},
		{H: 3, F: 1, N: 2, Tag: "BOGUS", Peers: []string{"b"}}}, Peers: []string{"a", "b"}})
	// a newer snapshot by b, then the older one by a
	c14AddScenario(&c14Scenario{Name: "heights", Snaps: []c14SnapSpec{{H: 4, F: 1, N: 2, Tag: "Y", Peers: []string{"b"}}, a3}, Peers: []string{"a", "b"},
		Late: []c14SnapSpec{{H: 5, F: 1, N: 1, Tag: "Lb", Peers: []string{"b"}}, {H: 5, F: 2, N: 1, Tag: "La", Peers: []string{"a"}}}})
	// same height, two formats
	c14AddScenario(&c14Scenario{Name: "formats", Snaps: []c14SnapSpec{{H: 3, F: 2, N: 2, Tag: "F2", Peers: []string{"b"}}, a3,
		{H: 2, F: 2, N: 1, Tag: "F2old", Peers: []string{"c"}}}, Peers: []string{"a", "b"},
		Late: []c14SnapSpec{{H: 5, F: 2, N: 1, Tag: "Lc", Peers: []string{"c"}}}})
	// a snapshot at a height the light client cannot verify is advertised as the best one
	c14AddScenario(&c14Scenario{Name: "unverifiable", Snaps: []c14SnapSpec{{H: 9, F: 1, N: 1, Tag: "FUTURE", Peers: []string{"c"}}, a3}, Peers: []string{"a", "c"}})
	// a advertises two snapshots, b shares the older one
	c14AddScenario(&c14Scenario{Name: "shared", Snaps: []c14SnapSpec{{H: 4, F: 1, N: 1, Tag: "Y", Peers: []string{"a"}},
		{H: 3, F: 1, N: 2, Tag: "X", Peers: []string{"a", "b"}}}, Peers: []string{"a", "b"},
		Late: []c14SnapSpec{{H: 5, F: 1, N: 1, Tag: "La", Peers: []string{"a"}}}})
	// three one-chunk snapshots by three peers
	c14AddScenario(&c14Scenario{Name: "three", Snaps: []c14SnapSpec{{H: 5, F: 1, N: 1, Tag: "C", Peers: []string{"c"}},
		{H: 4, F: 1, N: 1, Tag: "B", Peers: []string{"b"}}, {H: 3, F: 1, N: 1, Tag: "A", Peers: []string{"a"}}}, Peers: []string{"a", "b", "c"},
		Late: []c14SnapSpec{{H: 6, F: 1, N: 1, Tag: "Lc", Peers: []string{"c"}}, {H: 6, F: 2, N: 1, Tag: "Lb", Peers: []string{"b"}}}})
}

func c14NewWorld(tmp string, c c14Case, truth c14Truth, sp StateProvider, fetchers int32) (*c14World, error) {
	sc := c14Scenarios[c.Sweep.Scenario]
	if sc == nil {
		return nil, fmt.Errorf("unknown scenario %q", c.Sweep.Scenario)
	}
	w := &c14World{sc: sc, sw: c.Sweep, truth: truth, peers: map[string]*c14Peer{}, calls: make(chan *c14Call), done: make(chan struct{}),
		choices: c.Choices, rejected: map[string]bool{}, lateUsed: map[string]bool{}}
	cfg := config.DefaultStateSyncConfig()
	cfg.ChunkFetchers = fetchers
	cfg.ChunkRequestTimeout = time.Hour
	if sp == nil {
		sp = &c14SP{w: w}
	}
	w.s = newSyncer(*cfg, log.NewNopLogger(), &c14App{w: w}, &c14Query{w: w}, sp, tmp)
	return w, nil
}

func (w *c14World) start() {
	for _, sp := range w.sc.Snaps {
		for _, p := range sp.Peers {
			w.advertise(p, sp)
		}
	}
	go func() {
		defer close(w.done)
		defer func() {
			if x := recover(); x != nil {
				w.panicked = fmt.Sprint(x)
				w.log(c14Ev{K: "done", Err: "PANIC: " + w.panicked})
			}
		}()
		st, cm, err := w.s.SyncAny(0, func() {})
		e := c14Ev{K: "done", State: &st, Commit: cm}
		if err != nil {
			e.Err = err.Error()
		}
		w.log(e)
	}()
}

func (w *c14World) result() *c14Result {
	return &c14Result{Journal: w.journal, Eff: w.eff, Arities: w.arities, Kinds: w.kinds, Inconclusive: w.inconclusive, Panicked: w.panicked}
}

func c14Run(tmp string, c c14Case) *c14Result {
	w, err := c14NewWorld(tmp, c, c14FakeTruth{}, nil, 0)
	if err != nil {
		return &c14Result{Inconclusive: err.Error()}
	}
	w.start()
	for steps := 0; ; steps++ {
		st := w.waitStable()
		switch st.kind {
		case "done":
			return w.result()
		case "timeout":
			w.inconclusive = "no stable point reached within " + c14StableTimeout.String()
			return w.result()
		case "call":
			w.atCall(st.call)
		case "blocked":
			w.atBlocked(st.idx)
		}
		if steps > 10000 {
			w.inconclusive = "run does not terminate"
			return w.result()
		}
	}
}

// ---------------------------------------------------------------------------------------------
// the oracle: the statement of C14 evaluated on a journal

type c14Arr struct {
	pos, session int
	peer         string
	h            uint64
	f            uint32
	idx          uint32
	ok           bool  // AddChunk said "added"
	applied      []int // journal positions at which it was handed to the app
}

type c14Attempt struct {
	key       string
	h         uint64
	f         uint32
	n         uint32
	live      bool
	session   int
	returned  map[uint32]bool
	inval     map[uint32]int
	lastApply int
	infoPos   int
	info      *c14Ev
	passStart int // position of the offer that started the current pass over the chunks (a RETRY_SNAPSHOT starts another)
}

type c14Diag struct{ Key, What string }

// c14Check returns the first violation (key, what) of the statement in the journal, and diagnostics
// (observations that are stricter than, or outside, the statement).
func c14Check(j []c14Ev, truth c14Truth) (key, what string, diags []c14Diag) {
	rejPeer := map[string]int{}
	rejLast := map[string]int{} // the latest verdict that named the peer
	rejFmt := map[uint32]bool{}
	rejSnap := map[string]bool{}
	srcs := map[string]map[string]bool{}   // snapshot key -> peers that advertised it while not rejected and are still not rejected
	gone := map[string]bool{}              // "snapshot key|peer": the peer was removed (disconnected) and has not advertised that snapshot since
	escaped := map[string]bool{}           // peer was a sender of a sender-rejected snapshot while disconnected
	allSrc := map[string]map[string]bool{} // snapshot key -> every peer that ever advertised it (validly or after escaping a rejection)
	arrs := map[string]*c14Arr{}
	// peers known to the node as sources of the snapshot on offer at some moment between the offer and the app's verdict: those are
	// "the senders" a REJECT_SENDER verdict names. A peer that left before the offer and has not come back with this snapshot is not
	// among them (the node has no record of it any more, and the statement does not ask for one).
	offerSenders := map[string]bool{}
	offerOpen := false
	var cur *c14Attempt
	session := 0
	expectRetry := ""
	pendingApply := -1
	aborted := false
	diag := func(k, w string) { diags = append(diags, c14Diag{k, w}) }
	fail := func(k, w string, pos int) (string, string, []c14Diag) {
		return k, fmt.Sprintf("%s [event %d of: %s]", w, pos, c14JournalString(j)), diags
	}
	for pos, e := range j {
		switch e.K {
		case "adv":
			k := c14SnapKey(e.H, e.F, e.N, []byte(e.Hash), []byte(e.Meta))
			_, rp := rejPeer[e.Peer]
			if allSrc[k] == nil {
				allSrc[k] = map[string]bool{}
			}
			allSrc[k][e.Peer] = true
			if rp || rejFmt[e.F] || rejSnap[k] {
				continue // an advertisement of something rejected gives the snapshot no legitimate source
			}
			delete(gone, k+"|"+e.Peer)
			if srcs[k] == nil {
				srcs[k] = map[string]bool{}
			}
			srcs[k][e.Peer] = true
			if offerOpen && cur != nil && cur.key == k {
				offerSenders[e.Peer] = true
			}
		case "rm":
			// a peer that disappears stays a legitimate source of what it advertised (it was not rejected)
			for k, m := range srcs {
				if m[e.Peer] {
					gone[k+"|"+e.Peer] = true
				}
			}
		case "offer":
			if aborted {
				diag("diag_app_call_after_abort", "offer after ABORT")
			}
			k := c14SnapKey(e.H, e.F, e.N, []byte(e.Hash), []byte(e.Meta))
			if !truth.Known(e.H) {
				return fail("statesync/syncer.go:Sync:snapshot-at-unverifiable-height-offered",
					fmt.Sprintf("a snapshot at height %d, which the light client cannot verify, was offered to the app", e.H), pos)
			}
			if e.AppHash != string(truth.AppHash(e.H)) {
				return fail("statesync/syncer.go:offerSnapshot:app-hash-not-light-verified",
					fmt.Sprintf("OfferSnapshot for height %d carried app hash %q, the light-verified one is %q", e.H, e.AppHash, truth.AppHash(e.H)), pos)
			}
			retry := expectRetry != "" && expectRetry == k
			if expectRetry != "" && !retry {
				return fail("statesync/syncer.go:SyncAny:retry-snapshot-not-honoured",
					"the app asked to retry the snapshot; the next offer is for a different snapshot", pos)
			}
			expectRetry = ""
			if rejSnap[k] {
				return fail("statesync/syncer.go:SyncAny:rejected-snapshot-offered-again", "a snapshot the app (or verification) rejected was offered again", pos)
			}
			if rejFmt[e.F] {
				return fail("statesync/syncer.go:SyncAny:rejected-format-offered-again", fmt.Sprintf("format %d was rejected, a snapshot in that format was offered afterwards", e.F), pos)
			}
			if len(srcs[k]) == 0 {
				if retry {
					diag("diag_retry_snapshot_of_rejected_sender", "app rejected the only sender and asked to retry the snapshot in the same response; the retry is honoured")
				} else if func() bool {
					for p := range allSrc[k] {
						if escaped[p] {
							return true
						}
					}
					return false
				}() {
					return fail("statesync/syncer.go:SyncAny:reject-sender-misses-disconnected-peer",
						"the app answered REJECT_SENDER for a snapshot whose sender had disconnected meanwhile; that sender later advertised this snapshot and it was offered", pos)
				} else {
					return fail("statesync/syncer.go:SyncAny:snapshot-of-rejected-sender-offered",
						"every peer that (validly) advertised the offered snapshot had been rejected before the offer", pos)
				}
			}
			if !retry || cur == nil {
				session++
				cur = &c14Attempt{key: k, h: e.H, f: e.F, n: e.N, session: session, returned: map[uint32]bool{}, inval: map[uint32]int{}}
			} else {
				cur.returned = map[uint32]bool{}
			}
			cur.passStart = pos
			cur.live = false
			cur.info = nil
			offerSenders, offerOpen = map[string]bool{}, true
			for p := range srcs[k] {
				if !gone[k+"|"+p] {
					offerSenders[p] = true
				}
			}
		case "offer-v":
			offerOpen = false
			switch abci.ResponseOfferSnapshot_Result(e.Res) {
			case abci.ResponseOfferSnapshot_ACCEPT:
				cur.live = true
			case abci.ResponseOfferSnapshot_REJECT:
				rejSnap[cur.key] = true
			case abci.ResponseOfferSnapshot_REJECT_FORMAT:
				rejFmt[cur.f] = true
			case abci.ResponseOfferSnapshot_REJECT_SENDER:
				for p := range srcs[cur.key] {
					if !offerSenders[p] {
						diag("diag_advertiser_gone_before_the_offer_not_rejected", "a peer that had advertised the snapshot left before it was offered; REJECT_SENDER does not reach it")
						continue
					}
					rejPeer[p] = pos
					if gone[cur.key+"|"+p] {
						escaped[p] = true
					}
				}
				for _, m := range srcs {
					for p := range m {
						if _, r := rejPeer[p]; r {
							delete(m, p)
						}
					}
				}
			case abci.ResponseOfferSnapshot_ABORT:
				aborted = true
			}
		case "arr":
			if e.Data == "" {
				continue
			}
			arrs[e.Data] = &c14Arr{pos: pos, session: session, peer: e.Peer, h: e.H, f: e.F, idx: e.Idx, ok: e.Added}
		case "apply":
			if aborted {
				diag("diag_app_call_after_abort", "chunk applied after ABORT")
			}
			if cur == nil || !cur.live {
				return fail("statesync/syncer.go:applyChunks:apply-without-accepted-offer", "a chunk was applied although no offered snapshot is currently accepted", pos)
			}
			next := uint32(0)
			for next < cur.n && cur.returned[next] {
				next++
			}
			if e.Idx != next {
				return fail("statesync/chunks.go:Next:chunk-applied-out-of-index-order",
					fmt.Sprintf("chunk %d was applied, the lowest chunk the app has not accepted (or asked again for) is %d", e.Idx, next), pos)
			}
			a := arrs[e.Data]
			if a == nil {
				return fail("statesync/chunks.go:load:chunk-bytes-not-as-arrived", fmt.Sprintf("chunk %d was applied with bytes %q that never arrived", e.Idx, e.Data), pos)
			}
			if a.idx != e.Idx || a.h != cur.h || a.f != cur.f {
				return fail("statesync/chunks.go:load:chunk-bytes-not-as-arrived",
					fmt.Sprintf("chunk %d of h%d/f%d was applied with the bytes that arrived as chunk %d of h%d/f%d", e.Idx, cur.h, cur.f, a.idx, a.h, a.f), pos)
			}
			if a.peer != e.Peer {
				return fail("statesync/chunks.go:load:chunk-sender-misattributed",
					fmt.Sprintf("chunk %d was applied with sender %q, the bytes arrived from %q", e.Idx, e.Peer, a.peer), pos)
			}
			if a.session != cur.session {
				return fail("statesync/syncer.go:applyChunks:chunk-of-other-restore-applied",
					fmt.Sprintf("chunk %d arrived during the restore of another snapshot and was applied to this one", e.Idx), pos)
			}
			if iv, ok := cur.inval[e.Idx]; ok && a.pos < iv {
				return fail("statesync/chunks.go:Discard:stale-chunk-applied-after-refetch",
					fmt.Sprintf("the app asked to refetch chunk %d; it was applied again with the bytes that had arrived before that request", e.Idx), pos)
			}
			if rp, ok := rejPeer[e.Peer]; ok {
				handed := false
				for _, ap := range a.applied {
					if ap < rp {
						handed = true
					}
				}
				switch {
				case escaped[e.Peer]:
					return fail("statesync/syncer.go:SyncAny:reject-sender-misses-disconnected-peer",
						fmt.Sprintf("the app answered REJECT_SENDER for a snapshot whose sender %q had disconnected meanwhile; a chunk from it was applied afterwards", e.Peer), pos)
				case a.pos > rp:
					return fail("statesync/chunks.go:Add:chunk-from-rejected-sender-stored-and-applied",
						fmt.Sprintf("sender %q was rejected by the app; a chunk (%d) that arrived from it afterwards was stored and applied", e.Peer, e.Idx), pos)
				case !handed:
					return fail("statesync/chunks.go:DiscardSender:queued-chunk-of-rejected-sender-applied",
						fmt.Sprintf("sender %q was rejected by the app; its queued, not yet applied chunk %d was applied afterwards", e.Peer, e.Idx), pos)
				case func() bool {
					// the app named the sender again in a later pass (after RETRY_SNAPSHOT everything is pending again): what it
					// had not been given in THIS pass before that verdict is queued, not applied, and must be dropped like before
					last := rejLast[e.Peer]
					if last <= rp || last < cur.passStart {
						return false
					}
					for _, ap := range a.applied {
						if ap >= cur.passStart && ap < last {
							return false
						}
					}
					return true
				}():
					return fail("statesync/chunks.go:DiscardSender:queued-chunk-of-rejected-sender-applied",
						fmt.Sprintf("sender %q was rejected by the app again after a snapshot retry; chunk %d from it, pending again and not yet given to the app in this pass, was applied afterwards", e.Peer, e.Idx), pos)
				default:
					diag("diag_reapplied_chunk_of_rejected_sender", "a chunk the app had already been given before it rejected the sender was applied again (retry / retry-snapshot without refetch; ABCI: already applied chunks are not refetched unless requested)")
				}
			}
			a.applied = append(a.applied, pos)
			cur.returned[e.Idx] = true
			cur.lastApply = pos
			pendingApply = int(e.Idx)
		case "apply-v":
			idx := uint32(pendingApply)
			for _, rf := range e.Refetch {
				delete(cur.returned, rf)
				cur.inval[rf] = pos
			}
			for _, p := range e.Reject {
				if p == "" {
					continue
				}
				if _, ok := rejPeer[p]; !ok {
					rejPeer[p] = pos
				}
				rejLast[p] = pos
				for _, m := range srcs {
					delete(m, p)
				}
			}
			switch abci.ResponseApplySnapshotChunk_Result(e.Res) {
			case abci.ResponseApplySnapshotChunk_ACCEPT:
			case abci.ResponseApplySnapshotChunk_RETRY:
				delete(cur.returned, idx)
			case abci.ResponseApplySnapshotChunk_RETRY_SNAPSHOT:
				expectRetry = cur.key
				cur.live = false
			case abci.ResponseApplySnapshotChunk_REJECT_SNAPSHOT:
				rejSnap[cur.key] = true
				cur.live = false
			case abci.ResponseApplySnapshotChunk_ABORT:
				aborted = true
				cur.live = false
			}
		case "info":
			if cur != nil {
				cur.infoPos = pos
			}
		case "info-v":
			if cur != nil {
				ee := e
				cur.info = &ee
			}
		case "done":
			if expectRetry != "" && !strings.HasPrefix(e.Err, "PANIC") {
				return fail("statesync/syncer.go:SyncAny:retry-snapshot-not-honoured", "the app asked to retry the snapshot; SyncAny returned instead ("+e.Err+")", pos)
			}
			if e.Err != "" {
				continue
			}
			if cur == nil || !cur.live {
				return fail("statesync/syncer.go:Sync:success-without-accepted-snapshot", "SyncAny returned success although no offered snapshot is currently accepted", pos)
			}
			for i := uint32(0); i < cur.n; i++ {
				if !cur.returned[i] {
					return fail("statesync/syncer.go:Sync:success-without-all-chunks-accepted",
						fmt.Sprintf("SyncAny returned success although chunk %d was not (re)applied and accepted after the app's last retry/refetch request", i), pos)
				}
			}
			if cur.info == nil || cur.infoPos < cur.lastApply {
				return fail("statesync/syncer.go:verifyApp:success-without-app-info", "SyncAny returned success without asking the app for its Info after the last chunk", pos)
			}
			if cur.info.InfoHash != string(truth.AppHash(cur.h)) {
				return fail("statesync/syncer.go:verifyApp:success-with-wrong-app-hash",
					fmt.Sprintf("success although the app reports hash %q, verified is %q", cur.info.InfoHash, truth.AppHash(cur.h)), pos)
			}
			if cur.info.InfoH != int64(cur.h) {
				return fail("statesync/syncer.go:verifyApp:success-with-wrong-app-height",
					fmt.Sprintf("success although the app reports height %d, the snapshot height is %d", cur.info.InfoH, cur.h), pos)
			}
			if cur.info.InfoV != truth.AppVersion(cur.h) {
				return fail("statesync/syncer.go:verifyApp:success-with-wrong-app-version",
					fmt.Sprintf("success although the app reports version %d, the verified header says %d", cur.info.InfoV, truth.AppVersion(cur.h)), pos)
			}
			if ok, why := truth.StateEq(cur.h, *e.State); !ok {
				return fail("statesync/syncer.go:Sync:returned-state-not-the-verified-one", why, pos)
			}
			if ok, why := truth.CommitEq(cur.h, e.Commit); !ok {
				return fail("statesync/syncer.go:Sync:returned-commit-not-the-verified-one", why, pos)
			}
		}
	}
	return "", "", diags
}

// outcome class of a run (vacuity histogram)
func c14Outcome(j []c14Ev) string {
	offers, applies := 0, 0
	end := "?"
	for _, e := range j {
		switch e.K {
		case "offer":
			offers++
		case "apply":
			applies++
		case "done":
			switch {
			case e.Err == "":
				end = "restored"
			case strings.HasPrefix(e.Err, "PANIC"):
				end = "panic"
			case e.Err == errAbort.Error():
				end = "abort"
			case e.Err == errNoSnapshots.Error():
				end = "no-snapshots"
			case strings.Contains(e.Err, errVerifyFailed.Error()):
				end = "verify-failed"
			case strings.Contains(e.Err, "app version mismatch"):
				end = "version-mismatch"
			default:
				end = "error"
			}
		}
	}
	if applies > 9 {
		applies = 9
	}
	return fmt.Sprintf("%s/offers=%d/applies=%d", end, offers, applies)
}

// ---------------------------------------------------------------------------------------------
// explorer: stateless depth-first search over choice vectors

type c14Explorer struct {
	run      func(c c14Case) *c14Result
	visit    func(c c14Case, res *c14Result) bool // false: stop
	mine     func(k int) bool
	cut      int // subtrees rooted at vectors with this many non-default choices are distributed over shards
	k        int
	Runs     int64
	MaxDepth int
	stopped  bool
}

func (x *c14Explorer) explore(sw c14Sweep) {
	x.rec(sw, nil, 0)
}

func (x *c14Explorer) rec(sw c14Sweep, prefix []int, devs int) {
	if x.stopped {
		return
	}
	owned := true
	if devs == x.cut {
		x.k++
		if !x.mine(x.k) {
			return
		}
	} else if devs < x.cut {
		// shallow runs are executed by every shard (their arities are needed to enumerate the children) but
		// counted by one
		x.k++
		owned = x.mine(x.k)
	}
	c := c14Case{Sweep: sw, Choices: append([]int{}, prefix...)}
	res := x.run(c)
	x.Runs++
	if len(res.Eff) > x.MaxDepth {
		x.MaxDepth = len(res.Eff)
	}
	if owned {
		c.Choices = c14Trim(res.Eff)
		if !x.visit(c, res) {
			x.stopped = true
			return
		}
	}
	if res.Inconclusive != "" {
		return
	}
	for i := len(prefix); i < len(res.Eff); i++ {
		for v := 1; v < res.Arities[i]; v++ {
			child := append(append([]int{}, res.Eff[:i]...), v)
			x.rec(sw, child, devs+1)
			if x.stopped {
				return
			}
		}
	}
}

func c14Trim(v []int) []int {
	n := len(v)
	for n > 0 && v[n-1] == 0 {
		n--
	}
	return append([]int{}, v[:n]...)
}

// helpers used by several parts

func c14SortedKeys(m map[string]int64) []string {
	ks := make([]string, 0, len(m))
	for k := range m {
		ks = append(ks, k)
	}
	sort.Strings(ks)
	return ks
}

// c14TempDir: the chunk queues' temp dir. A run creates and removes a directory and a file per chunk; on a
// loaded disk the metadata syscalls dominate the run time, so a memory file system is used when there is one.
func c14TempDir(t interface {
	TempDir() string
	Cleanup(func())
}) string {
	if st, err := os.Stat("/dev/shm"); err == nil && st.IsDir() {
		if d, err := os.MkdirTemp("/dev/shm", "C14-"); err == nil {
			t.Cleanup(func() { os.RemoveAll(d) })
			return d
		}
	}
	return t.TempDir()
}
