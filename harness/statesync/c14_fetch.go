package statesync

// C14, part "fetch": the same journal oracle with the real chunk fetcher in the loop (chunkFetchers = 1, real
// fetchChunks / requestChunk / snapshotPool.GetPeer). Chunks are delivered only as responses to requests the
// syncer really sent (captured at the peer mock); the enumerator decides *when* an outstanding response
// arrives relative to the app's verdicts — in particular after the app has rejected the peer that is
// answering. A request is "in flight" for as long as the mock's SendEnvelope has not returned, so the
// fetcher goroutine never parks in chunkQueue.WaitFor on a missing chunk and "a waiter exists" still
// means "the syncer goroutine is parked in Next()".

import (
	"fmt"
	"runtime"
	"sort"
	"strings"
	"sync"
	"sync/atomic"
	"testing"
	"time"

	"github.com/tendermint/tendermint/internal/verif/vr"
	"github.com/tendermint/tendermint/p2p"
	ssproto "github.com/tendermint/tendermint/proto/tendermint/statesync"
)

type c14Req struct {
	peer     string
	h        uint64
	f        uint32
	idx      uint32
	release  chan struct{}
	seen     bool // logged in the journal
	answered bool
}

type c14Gate struct {
	w      *c14World
	mtx    sync.Mutex
	parked []*c14Req
	quit   chan struct{}
	fresh  int
	// diagnostics
	toRejected int
	refused    int
	sawFetcher bool // the goroutine listing showed this syncer's fetcher while it was known to be alive
}

var c14SettleTimeout = 40 * time.Second

func newC14Gate(w *c14World) *c14Gate {
	g := &c14Gate{w: w, quit: make(chan struct{})}
	w.gate = g
	w.onSend = g.onSend
	return g
}

// onSend runs on the fetcher goroutine: the request is captured and stays in flight until answered.
func (g *c14Gate) onSend(p *c14Peer, e p2p.Envelope) bool {
	req, ok := e.Message.(*ssproto.ChunkRequest)
	if !ok || e.ChannelID != ChunkChannel {
		return true
	}
	r := &c14Req{peer: string(p.id), h: req.Height, f: req.Format, idx: req.Index, release: make(chan struct{})}
	g.mtx.Lock()
	g.parked = append(g.parked, r)
	g.mtx.Unlock()
	select {
	case <-r.release:
	case <-g.quit:
	}
	return true
}

// outstanding requests for the queue that is being restored
func (g *c14Gate) open() []*c14Req {
	g.mtx.Lock()
	defer g.mtx.Unlock()
	var o []*c14Req
	for _, r := range g.parked {
		if !r.answered && g.w.cur != nil && r.h == g.w.cur.H && r.f == g.w.cur.F {
			o = append(o, r)
		}
	}
	sort.SliceStable(o, func(i, j int) bool { return o[i].idx < o[j].idx })
	return o
}

// settle waits until the one fetcher of the current queue is parked in a send or idle: every allocated chunk is in
// the queue or requested-and-unanswered, and either a request is outstanding (the fetcher sits in SendEnvelope) or
// every chunk is allocated (the fetcher polls Allocate, gets errDone and sleeps). Nothing moves then until the
// driver acts. RETRY_SNAPSHOT is excluded from this part's alphabet, so a queue never has a second fetcher.
func (g *c14Gate) settle() bool {
	w := g.w
	deadline := time.Now().Add(c14SettleTimeout)
	for spins := 0; ; spins++ {
		w.s.mtx.RLock()
		q := w.s.chunks
		w.s.mtx.RUnlock()
		if q == nil {
			return true
		}
		open := map[uint32]bool{}
		for _, r := range g.open() {
			open[r.idx] = true
		}
		ok := true
		q.Lock()
		if q.snapshot != nil {
			all := true
			for i := uint32(0); i < q.snapshot.Chunks; i++ {
				if !q.chunkAllocated[i] {
					all = false
				} else if q.chunkFiles[i] == "" && !open[i] {
					ok = false
				}
			}
			if !all && len(open) == 0 {
				ok = false
			}
		}
		q.Unlock()
		if ok {
			if !g.sawFetcher && len(open) > 0 {
				// the fetcher sits in a send right now: the goroutine listing must show it (otherwise the listing is not usable
				// for this run and the "no fetcher left" judgement is never made)
				g.sawFetcher = c14FetcherAlive(w.s)
			}
			// log newly observed requests in a deterministic order
			for _, r := range g.open() {
				if !r.seen {
					r.seen = true
					w.log(c14Ev{K: "req", Peer: r.peer, H: r.h, F: r.f, Idx: r.idx})
					if w.rejected[r.peer] {
						g.toRejected++
					}
				}
			}
			return true
		}
		// a chunk is missing from the queue and nobody is asked for it: if no fetcher goroutine exists any more (they run until the
		// restore is over in the unchanged code), nobody ever will be — the refetch / discard the app asked for is not honoured.
		// Goroutine exit is permanent, so this is not a timing judgement; it is looked at twice all the same.
		if spins > 60 && g.sawFetcher && q.snapshot != nil && !c14FetcherAlive(w.s) {
			time.Sleep(5 * time.Millisecond)
			if !c14FetcherAlive(w.s) {
				w.log(c14Ev{K: "nofetcher", H: q.snapshot.Height, F: q.snapshot.Format})
				w.inconclusive = "a chunk is neither queued nor requested and no fetcher goroutine is left"
				return false
			}
		}
		if time.Now().After(deadline) {
			g.mtx.Lock()
			np := len(g.parked)
			g.mtx.Unlock()
			w.inconclusive = fmt.Sprintf("fetchers did not settle: a chunk is neither queued nor requested (request lost with a cancelled fetcher, or no peer left) [captured requests %d, open %d]", np, len(open))
			return false
		}
		if spins < 20 {
			runtime.Gosched()
		} else if spins < 200 {
			time.Sleep(100 * time.Microsecond)
		} else {
			time.Sleep(3 * time.Millisecond)
		}
	}
}

func (g *c14Gate) menu(need int) []c14Net {
	var m, first []c14Net
	for _, r := range g.open() {
		ev := c14Net{Kind: "respond", Peer: r.peer, Idx: r.idx}
		if need >= 0 && int(r.idx) == need && len(first) == 0 {
			first = append(first, ev)
		} else {
			m = append(m, ev)
		}
	}
	return append(first, m...)
}

func (g *c14Gate) respond(ev c14Net) {
	var r *c14Req
	for _, x := range g.open() {
		if x.peer == ev.Peer && x.idx == ev.Idx {
			r = x
			break
		}
	}
	if r == nil {
		g.w.inconclusive = "response to a request that is not outstanding"
		return
	}
	// The send returns first: the fetcher moves on to chunks.WaitFor(idx) and registers a waiter (observable);
	// only then does the response arrive. The other order would leave a window in which the app's next verdict
	// discards the chunk before the fetcher has looked for it, parking the fetcher for the whole request timeout.
	w := g.w
	w.s.mtx.RLock()
	q := w.s.chunks
	w.s.mtx.RUnlock()
	before := -1
	if q != nil {
		q.Lock()
		if q.snapshot != nil && q.snapshot.Height == r.h && q.snapshot.Format == r.f && q.chunkFiles[r.idx] == "" {
			before = len(q.waiters[r.idx])
		}
		q.Unlock()
	}
	g.mtx.Lock()
	r.answered = true
	g.mtx.Unlock()
	close(r.release)
	if before >= 0 {
		deadline := time.Now().Add(c14SettleTimeout)
		for spins := 0; ; spins++ {
			q.Lock()
			n := len(q.waiters[r.idx])
			q.Unlock()
			if n > before {
				break
			}
			if time.Now().After(deadline) {
				w.inconclusive = "fetcher did not start waiting for the chunk it requested"
				return
			}
			if spins < 500 {
				runtime.Gosched()
			} else {
				time.Sleep(100 * time.Microsecond)
			}
		}
	}
	w.deliver("good", r.peer, r.idx)
	if before >= 0 && !q.Has(r.idx) {
		// The queue refused the response (a tree in which chunks of rejected senders are not accepted). The fetcher
		// now waits for its retry ticker (ChunkRequestTimeout, one hour here) before asking someone else; that retry
		// is emulated by the arrival of the same chunk from the current legitimate sender.
		g.refused++
		w.deliver("good", w.defaultPeer(), r.idx)
	}
	g.settle()
}

// beforeReject: when the app is about to reject the last legitimate sender of the snapshot being restored, a
// fresh honest peer advertises the same snapshot first, so that the fetcher always has exactly one peer to ask.
func (g *c14Gate) beforeReject(rej []string) {
	w := g.w
	if w.cur == nil || len(rej) == 0 {
		return
	}
	will := map[string]bool{}
	for p := range w.rejected {
		will[p] = true
	}
	for _, p := range rej {
		will[p] = true
	}
	key := c14SnapKey(w.cur.H, w.cur.F, w.cur.N, []byte(w.cur.Hash), []byte(w.cur.Meta))
	for _, sp := range w.seenKeys {
		if sp.key() != key {
			continue
		}
		for _, p := range sp.Peers {
			if !will[p] {
				return
			}
		}
		g.fresh++
		np := fmt.Sprintf("n%d", g.fresh)
		w.advertise(np, c14SnapSpec{H: sp.H, F: sp.F, N: sp.N, Tag: sp.Tag, Peers: []string{np}})
		return
	}
}

func c14RunFetch(tmp string, c c14Case) *c14Result {
	w, err := c14NewWorld(tmp, c, c14FakeTruth{}, nil, 1)
	if err != nil {
		return &c14Result{Inconclusive: err.Error()}
	}
	g := newC14Gate(w)
	defer close(g.quit)
	w.start()
	for steps := 0; ; steps++ {
		st := w.waitStable()
		switch st.kind {
		case "done":
			res := w.result()
			res.Extra = map[string]int{"requests_to_rejected_peer": g.toRejected, "responses_refused": g.refused}
			return res
		case "timeout":
			if w.inconclusive == "" {
				w.inconclusive = "no stable point reached within " + c14StableTimeout.String()
			}
			return w.result()
		case "call":
			w.atCall(st.call)
		case "blocked":
			w.atBlocked(st.idx)
		}
		if w.inconclusive != "" || steps > 10000 {
			if w.inconclusive == "" {
				w.inconclusive = "run does not terminate"
			}
			return w.result()
		}
	}
}

type c14Found struct {
	c    c14Case
	what string
	n    int
}

// c14Simpler: shorter choice vector first, then lexicographic
func c14Simpler(a, b []int) bool {
	if len(a) != len(b) {
		return len(a) < len(b)
	}
	for i := range a {
		if a[i] != b[i] {
			return a[i] < b[i]
		}
	}
	return false
}

// c14ParExplorer: the depth-first enumeration of c14Explorer with subtrees handed to goroutines while slots are
// free. Runs of this part spend their time in the 2 s idle poll of the fetcher under test, not on the CPU.
type c14ParExplorer struct {
	run     func(c c14Case) *c14Result
	visit   func(c c14Case, res *c14Result) bool
	mine    func(k int) bool
	sem     chan struct{}
	wg      sync.WaitGroup
	kmtx    sync.Mutex
	k       int
	runs    int64
	depth   int64
	stopped int32
}

func (x *c14ParExplorer) rec(sw c14Sweep, prefix []int, devs int) {
	if atomic.LoadInt32(&x.stopped) != 0 {
		return
	}
	c := c14Case{Sweep: sw, Choices: append([]int{}, prefix...)}
	res := x.run(c)
	atomic.AddInt64(&x.runs, 1)
	for {
		d := atomic.LoadInt64(&x.depth)
		if int64(len(res.Eff)) <= d || atomic.CompareAndSwapInt64(&x.depth, d, int64(len(res.Eff))) {
			break
		}
	}
	c.Choices = c14Trim(res.Eff)
	if (devs > 0 || x.mine(0)) && !x.visit(c, res) { // the root run is executed by every shard, counted by shard 0
		atomic.StoreInt32(&x.stopped, 1)
		return
	}
	if res.Inconclusive != "" {
		return
	}
	for i := len(prefix); i < len(res.Eff); i++ {
		for v := 1; v < res.Arities[i]; v++ {
			child := append(append([]int{}, res.Eff[:i]...), v)
			if devs == 0 {
				// first-level subtrees are distributed over the shards (deterministic numbering: the root run is sequential)
				x.k++
				if !x.mine(x.k) {
					continue
				}
			}
			select {
			case x.sem <- struct{}{}:
				x.wg.Add(1)
				go func() {
					defer x.wg.Done()
					defer func() { <-x.sem }()
					x.rec(sw, child, devs+1)
				}()
			default:
				x.rec(sw, child, devs+1)
			}
		}
	}
}

func TestVerifC14Fetch(t *testing.T) {
	r := vr.Start("C14", "fetch", 90*time.Second, 12*time.Minute)
	defer r.Finish()
	r.Rule = "same choice-vector enumeration as part sync, with chunkFetchers = 1 and request-gated delivery: a network choice is which outstanding (really requested) " +
		"response arrives at the stable point, or none yet; verdicts from the lean alphabet; sweeps bounded by (L, Kv, Ka); subtrees run concurrently because the fetcher's " +
		"idle poll is a fixed 2 s sleep in the code under test"
	r.Assume("one legitimate sender per snapshot at any time (a fresh peer advertises the snapshot just before the app rejects the last one), so GetPeer's rand.Intn has one choice")
	r.Assume("a run in which a chunk is neither queued nor requested within 40 s is inconclusive (never a violation)")
	tmp := c14TempDir(t)
	truth := c14FakeTruth{}
	run := func(c c14Case) *c14Result { return c14RunFetch(tmp, c) }

	var rc c14Case
	if replaying, skip := r.ReplayCase(&rc); skip {
		return
	} else if replaying {
		r.Eval()
		res := run(rc)
		if res.Inconclusive != "" {
			r.Cap("replay inconclusive: " + res.Inconclusive)
			return
		}
		if key, what := c14Judge(r, res, truth, true); key != "" {
			r.Violation(key, what, rc)
		}
		r.Sample(c14Describe(rc, res))
		return
	}

	var mtx sync.Mutex
	seen := map[uint64]struct{}{}
	found := map[string]*c14Found{}
	defer func() {
		for key, f := range found {
			for i := 0; i < f.n; i++ {
				r.Violation(key, f.what, f.c)
			}
		}
	}()
	stop := false
	visit := func(c c14Case, res *c14Result) bool {
		mtx.Lock()
		defer mtx.Unlock()
		if stop {
			return false
		}
		r.Eval()
		r.Traces++
		nofetcher := false
		for _, e := range res.Journal {
			nofetcher = nofetcher || e.K == "nofetcher"
		}
		if res.Inconclusive != "" && !nofetcher {
			r.Cap("inconclusive run: " + res.Inconclusive)
			r.Outcome("inconclusive")
			r.Add("inconclusive_runs", 1)
			if r.Extra["inconclusive_runs"].(int64) <= 3 {
				r.Note("inconclusive: " + fmt.Sprint(c) + " after " + c14JournalString(res.Journal))
			}
			return true
		}
		if n := res.Extra["requests_to_rejected_peer"]; n > 0 {
			r.Add("diag_request_sent_to_rejected_peer", int64(n))
		}
		if n := res.Extra["responses_refused"]; n > 0 {
			r.Add("responses_refused_by_queue_retry_emulated", int64(n))
		}
		sig := c14JournalHash(res.Journal)
		if _, dup := seen[sig]; !dup && len(c.Choices) > 0 {
			seen[sig] = struct{}{}
			r.NTCount(1)
		}
		key, what := c14Judge(r, res, truth, true)
		if key != "" {
			mtx.Unlock()
			stable := vr.Confirm(2, fmt.Errorf("%s", key), func() error {
				k2, _ := c14Judge(r, run(c), truth, false)
				if k2 == "" {
					return nil
				}
				return fmt.Errorf("%s", k2)
			})
			mtx.Lock()
			if !stable {
				r.Cap("a failing case did not fail identically on re-execution (harness nondeterminism): " + key)
				r.Note("unstable: " + fmt.Sprint(c))
			} else {
				// subtrees run concurrently: report the simplest failing case per key, not the first one found
				f := found[key]
				if f == nil {
					f = &c14Found{}
					found[key] = f
				}
				f.n++
				if f.n == 1 || c14Simpler(c.Choices, f.c.Choices) {
					f.c, f.what = c, what
				}
			}
			r.Outcome("violation")
		} else {
			r.Outcome(c14Outcome(res.Journal))
		}
		if r.Evaluations%500 == 1 {
			r.Sample(c14Describe(c, res))
		}
		if r.Deadline("C14 fetch sweeps") {
			stop = true
			return false
		}
		return true
	}

	sweeps := []c14Sweep{
		{Scenario: "single2", L: 4, Kv: 2, Ka: 2},
		{Scenario: "single", L: 5, Kv: 1, Ka: 2},
		{Scenario: "heights", L: 5, Kv: 2, Ka: 1},
	}
	if vr.Thorough() {
		sweeps = []c14Sweep{
			{Scenario: "single2", L: 5, Kv: 3, Ka: 2},
			{Scenario: "single", L: 6, Kv: 2, Ka: 2},
			{Scenario: "heights", L: 6, Kv: 2, Ka: 2},
			{Scenario: "three", L: 5, Kv: 2, Ka: 2},
		}
	}
	total := int64(0)
	maxDepth := 0
	for si, sw := range sweeps {
		x := &c14ParExplorer{run: run, visit: visit, mine: r.Mine, sem: make(chan struct{}, 40)}
		x.rec(sw, nil, 0)
		x.wg.Wait()
		total += atomic.LoadInt64(&x.runs)
		if d := int(atomic.LoadInt64(&x.depth)); d > maxDepth {
			maxDepth = d
		}
		mtx.Lock()
		st := stop
		mtx.Unlock()
		if st {
			break
		}
		r.Set(fmt.Sprintf("sweep_%02d_%s_L%d_Kv%d_Ka%d", si+1, sw.Scenario, sw.L, sw.Kv, sw.Ka), atomic.LoadInt64(&x.runs))
	}
	r.MaxDepth = maxDepth
	r.Set("runs_on_impl", total)
	r.Bound = fmt.Sprintf("%d sweeps (scenario, L, Kv, Ka): %v", len(sweeps), sweeps)
}

// c14FetcherAlive reports whether a goroutine is executing fetchChunks of this syncer (the receiver is the first argument in the
// goroutine listing; other worlds run in the same process).
func c14FetcherAlive(s *syncer) bool {
	buf := make([]byte, 1<<20)
	for {
		n := runtime.Stack(buf, true)
		if n < len(buf) {
			return strings.Contains(string(buf[:n]), fmt.Sprintf("statesync.(*syncer).fetchChunks(%p", s))
		}
		buf = make([]byte, 2*len(buf))
	}
}
