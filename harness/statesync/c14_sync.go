package statesync

// C14, part "sync": verdict histories x network schedules on the real syncer / chunkQueue / snapshotPool
// with the canonical-chain state provider. See c14_model.go for the machinery and the oracle.

import (
	"fmt"
	"os"
	"testing"
	"time"

	"github.com/tendermint/tendermint/internal/verif/vr"
)

// c14Sweeps is the list of bounded spaces that are closed, simplest first.
func c14Sweeps() []c14Sweep {
	all := c14FamOrder | c14FamBad | c14FamAdv | c14FamRemove
	var sw []c14Sweep
	add := func(sc string, l, kv, ka, fam int, full bool) {
		sw = append(sw, c14Sweep{Scenario: sc, L: l, Kv: kv, Ka: ka, Fam: fam, Full: full})
	}
	every := []string{"single2", "twin", "shared", "three", "heights", "formats", "unverifiable", "single"}
	if !vr.Thorough() {
		L := 5
		// 1. complete verdict histories of length 5 over the lean alphabet, honest in-order network
		for _, sc := range every[:7] {
			add(sc, L, L, 0, 0, false)
		}
		add("single", 4, 4, 0, 0, false)
		// 2. network schedules proper: no verdict deviation, up to 3 network deviations, every event family
		add("single2", L, 0, 3, all|c14FamAtOffer|c14FamAtInfo, false)
		add("single", L, 0, 2, all|c14FamAtOffer, false)
		add("single", L, 0, 3, c14FamOrder, false)
		add("twin", L, 0, 2, all|c14FamAtOffer, false)
		// 3. <= 2 verdict deviations x <= 1 network deviation, every family
		for _, sc := range []string{"single2", "twin", "shared", "three"} {
			add(sc, L, 2, 1, all|c14FamAtOffer|c14FamAtInfo, false)
		}
		// 4. <= 1 verdict deviation x <= 2 network deviations
		add("single2", L, 1, 2, c14FamOrder|c14FamBad|c14FamAtOffer, false)
		add("shared", L, 1, 2, all|c14FamAtOffer, false)
		add("three", L, 1, 2, all|c14FamAtOffer, false)
		// 5. full verdict alphabet (result x refetch set x reject set)
		add("single2", L, 2, 0, 0, true)
		add("shared", L, 2, 0, 0, true)
		return sw
	}
	// thorough: the same shapes one notch deeper, simplest first; the sweeps whose size is least predictable come last
	L := 7
	// 1. complete verdict histories: length 7 on the scenarios with short snapshots, length 6 on the others
	for _, sc := range []string{"single2", "three", "shared"} {
		add(sc, 7, 7, 0, 0, false)
	}
	for _, sc := range []string{"twin", "heights", "formats", "unverifiable", "single"} {
		add(sc, 6, 6, 0, 0, false)
	}
	// 2. network schedules proper
	add("single2", L, 0, 3, all|c14FamAtOffer|c14FamAtInfo, false)
	add("single", L, 0, 3, all|c14FamAtOffer, false)
	add("single", L, 0, 4, c14FamOrder, false)
	add("twin", L, 0, 3, all|c14FamAtOffer, false)
	add("single2", L, 0, 4, c14FamOrder|c14FamBad|c14FamAtOffer, false)
	// 3. <= 2 verdict deviations x <= 1 network deviation and <= 1 x <= 2, every family, every scenario
	for _, sc := range every {
		add(sc, L, 2, 1, all|c14FamAtOffer|c14FamAtInfo, false)
	}
	for _, sc := range every {
		add(sc, L, 1, 2, all|c14FamAtOffer, false)
	}
	// 4. full verdict alphabet
	for _, sc := range []string{"single2", "shared", "twin"} {
		add(sc, L, 2, 0, 0, true)
		add(sc, L, 1, 1, c14FamOrder|c14FamAdv, true)
	}
	// 5. deeper mixes on the small scenarios
	for _, sc := range []string{"single2", "shared", "three"} {
		add(sc, L, 3, 1, c14FamOrder|c14FamAdv|c14FamRemove, false)
	}
	add("shared", L, 2, 2, all|c14FamAtOffer, false)
	return sw
}

func c14Describe(c c14Case, res *c14Result) map[string]interface{} {
	return map[string]interface{}{"case": c, "journal": c14JournalString(res.Journal)}
}

// c14Judge runs the oracle on a result; returns "" or the violation.
func c14Judge(r *vr.Report, res *c14Result, truth c14Truth, count bool) (key, what string) {
	for pos, e := range res.Journal {
		if e.K == "nofetcher" {
			return "statesync/syncer.go:fetchChunks:missing-chunk-never-requested-again:no-fetcher-left",
				fmt.Sprintf("the restore waits for a chunk that is neither in the queue nor requested from any peer (the app asked to refetch it, or discarded its sender), and no fetcher goroutine is left to request it [event %d of: %s]", pos, c14JournalString(res.Journal))
		}
	}
	if res.Inconclusive != "" {
		return "", ""
	}
	key, what, diags := c14Check(res.Journal, truth)
	if count {
		seen := map[string]bool{}
		for _, d := range diags {
			if !seen[d.Key] {
				seen[d.Key] = true
				r.Add(d.Key, 1)
			}
		}
	}
	return key, what
}

func TestVerifC14Sync(t *testing.T) {
	r := vr.Start("C14", "sync", 100*time.Second, 20*time.Minute)
	defer r.Finish()
	r.Rule = "stateless depth-first enumeration of choice vectors: one choice per app verdict (offer: 5 results; chunk: result x refetch set x reject-sender set, " +
		"17-option lean or 80-option full alphabet; info: true / wrong hash / height-1 / wrong version / height+1) and per network event at every stable point of the syncer goroutine " +
		"(in an app callback, or parked in chunkQueue.Next): good chunk of any index from any menu peer, wrong index/format/height, nil body, (re-)advertisement, peer removal; " +
		"bounded per sweep by (history length L, <=Kv non-default verdicts, <=Ka non-default network events); every vector is one full execution of the real SyncAny; " +
		"distinct_nontrivial = distinct journals (behaviour signatures) with at least one non-default choice"
	r.Assume("StateProvider of this part is a fake answering from a canonical chain (the real light-client provider is part \"light\")")
	r.Assume("chunkFetchers = 0 in this part: chunk arrival is an enumerator event and may be unsolicited (the reactor forwards any ChunkResponse to AddChunk); fetchChunks/requestChunk run in part \"fetch\"")
	r.Assume("timeouts (chunkTimeout 2 min, chunk request timeout) never fire: waiting is on conditions")
	tmp := c14TempDir(t)
	truth := c14FakeTruth{}
	run := func(c c14Case) *c14Result { return c14Run(tmp, c) }

	var rc c14Case
	if replaying, skip := r.ReplayCase(&rc); skip {
		return
	} else if replaying {
		r.Eval()
		res := run(rc)
		if res.Inconclusive != "" {
			r.Cap("replay inconclusive: " + res.Inconclusive)
			return
		}
		if key, what := c14Judge(r, res, truth, true); key != "" {
			r.Violation(key, what, rc)
		}
		r.Sample(c14Describe(rc, res))
		return
	}

	selfcheck := int64(0)
	seen := map[uint64]struct{}{} // distinct behaviours (journal identities) of this shard
	visit := func(c c14Case, res *c14Result) bool {
		r.Eval()
		r.Traces++
		if res.Inconclusive != "" {
			r.Cap("inconclusive run: " + res.Inconclusive)
			r.Outcome("inconclusive")
			r.Add("inconclusive_runs", 1)
			return r.Extra["inconclusive_runs"].(int64) < 5
		}
		sig := c14JournalHash(res.Journal)
		if _, dup := seen[sig]; !dup && len(c.Choices) > 0 {
			seen[sig] = struct{}{}
			r.NTCount(1)
		}
		if res.Panicked != "" {
			r.Add("diag_syncer_panicked", 1)
			r.Note("SyncAny panicked: " + res.Panicked + " on " + fmt.Sprint(c))
		}
		key, what := c14Judge(r, res, truth, true)
		if key != "" {
			stable := vr.Confirm(3, fmt.Errorf("%s", key), func() error {
				r2 := run(c)
				k2, _ := c14Judge(r, r2, truth, false)
				if k2 == "" {
					return nil
				}
				return fmt.Errorf("%s", k2)
			})
			if !stable {
				r.Cap("a failing case did not fail identically on re-execution (harness nondeterminism): " + key)
				r.Note("unstable: " + fmt.Sprint(c))
			} else {
				r.Violation(key, what, c)
			}
			r.Outcome("violation")
		} else {
			r.Outcome(c14Outcome(res.Journal))
		}
		// determinism self-check on a sample: same vector, same journal
		if r.Evaluations%257 == 0 {
			selfcheck++
			if s2 := c14JournalHash(run(c).Journal); s2 != sig {
				r.Cap("self-check: the same choice vector produced two different journals")
				r.Note("nondeterministic: " + fmt.Sprint(c))
			}
		}
		if r.Evaluations%5000 == 1 {
			r.Sample(c14Describe(c, res))
		}
		if r.Evaluations%256 == 0 && r.Deadline("C14 sync sweeps") {
			return false
		}
		return true
	}
	x := &c14Explorer{run: run, visit: visit, mine: r.Mine, cut: 2}
	done := 0
	sweeps := c14Sweeps()
	for _, sw := range sweeps {
		before := x.Runs
		x.explore(sw)
		if x.stopped {
			break
		}
		done++
		r.Set(fmt.Sprintf("sweep_%02d_%s_L%d_Kv%d_Ka%d_fam%d_full%v", done, sw.Scenario, sw.L, sw.Kv, sw.Ka, sw.Fam, sw.Full), x.Runs-before)
	}
	r.MaxDepth = x.MaxDepth
	r.Set("runs_on_impl_including_shared_prefix_runs", x.Runs)
	r.Set("selfchecks", selfcheck)
	r.Bound = fmt.Sprintf("%d of %d sweeps closed in every shard that reports no cap", done, len(sweeps))
	if os.Getenv("VERIF_VERBOSE") != "" {
		fmt.Printf("C14 sync: sweeps closed %d/%d, runs %d\n", done, len(sweeps), x.Runs)
	}
}
