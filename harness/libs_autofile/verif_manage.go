package autofile

// Injected by /verif (go build -overlay) together with the rewrite of this package's "sync" import to the cooperative
// scheduler's drop-in: puts the group's mutex under the scheduler (see engine/gosched).

import "github.com/tendermint/tendermint/internal/verif/gosched"

// VerifManage makes every operation on the group's mutex a scheduling point of s.
func (g *Group) VerifManage(s *gosched.Sched) { g.mtx.Manage(s, "group") }
