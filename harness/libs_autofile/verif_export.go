package autofile

// Injected by /verif (go build -overlay): lets harnesses in other packages run, as explicit
// operations, the two maintenance actions that production runs from a ticker.

// VerifCheckHeadSizeLimit rotates the head if it exceeds the head size limit.
func (g *Group) VerifCheckHeadSizeLimit() { g.checkHeadSizeLimit() }

// VerifCheckTotalSizeLimit removes oldest files while the group exceeds the total size limit.
func (g *Group) VerifCheckTotalSizeLimit() { g.checkTotalSizeLimit() }
