// Package c13kit is the shared scenario kit of the C13 harness parts (block sync applies only the
// canonical chain). It is injected as github.com/tendermint/tendermint/internal/verif/c13kit and
// imports neither a blockchain reactor nor package consensus, so every part can use it.
//
// It provides
//   - a deterministic canonical chain (fixed keys, fixed times) with a validator-set change,
//     produced by the real BlockExecutor against a tiny ABCI application;
//   - the adversary's response menu (the "lies") as wire messages, built from the canonical blocks;
//   - the enumeration of adversary strategies (which peer of which height tells which lie);
//   - reference functions that know, by recomputation over the canonical validator sets, what a commit
//     really proves, and the store oracle that encodes the property statement.
package c13kit

import (
	"bytes"
	"fmt"
	"sort"
	"time"

	dbm "github.com/tendermint/tm-db"

	abci "github.com/tendermint/tendermint/abci/types"
	"github.com/tendermint/tendermint/crypto"
	"github.com/tendermint/tendermint/crypto/ed25519"
	"github.com/tendermint/tendermint/crypto/merkle"
	"github.com/tendermint/tendermint/libs/log"
	mpmock "github.com/tendermint/tendermint/mempool/mock"
	bcproto "github.com/tendermint/tendermint/proto/tendermint/blockchain"
	tmproto "github.com/tendermint/tendermint/proto/tendermint/types"
	"github.com/tendermint/tendermint/proxy"
	sm "github.com/tendermint/tendermint/state"
	"github.com/tendermint/tendermint/store"
	"github.com/tendermint/tendermint/types"
)

const (
	ChainID = "verif-c13"
	// N blocks are produced; the syncing node can store 1..Tip (block h needs block h+1's LastCommit);
	// peers serve heights 1..Tip+1; block N = Tip+2 only exists as a "wrong height" payload.
	N   = 6
	Tip = 4
	// the validator update is returned by EndBlock(UpdateAt) and is in force from height UpdateAt+2
	UpdateAt = 1
)

// ---------------------------------------------------------------------------------------------
// application

// App is a minimal ABCI application: no state, one validator addition at height UpdateAt.
type App struct {
	abci.BaseApplication
	Update abci.ValidatorUpdate
}

func (a *App) EndBlock(req abci.RequestEndBlock) abci.ResponseEndBlock {
	if req.Height == UpdateAt {
		return abci.ResponseEndBlock{ValidatorUpdates: []abci.ValidatorUpdate{a.Update}}
	}
	return abci.ResponseEndBlock{}
}

// ---------------------------------------------------------------------------------------------
// node = the stores / executor of one tendermint instance

// EvPool is the node's evidence pool: empty, with a hook that runs inside BlockExecutor.ValidateBlock (the only place a
// block-sync reactor's own routine can be stopped between looking at a block and committing to it).
type EvPool struct {
	sm.EmptyEvidencePool
	Hook func()
}

func (p *EvPool) CheckEvidence(types.EvidenceList) error {
	if p.Hook != nil {
		p.Hook()
	}
	return nil
}

type Node struct {
	Ev         *EvPool
	BlockStore *store.BlockStore
	StateStore sm.Store
	BlockExec  *sm.BlockExecutor
	Genesis    sm.State
	Conns      proxy.AppConns
}

func (c *Chain) NewNode() *Node {
	n := c.NewNodeOn(dbm.NewMemDB(), dbm.NewMemDB(), &App{Update: c.update})
	if err := n.StateStore.Save(n.Genesis); err != nil {
		panic(err)
	}
	return n
}

// NewApp returns the canonical chain's application (for harnesses that wrap it).
func (c *Chain) NewApp() App { return App{Update: c.update} }

// NewNodeOn builds a node on the given databases and application the way the node does at boot: the state is
// loaded from the database, or made from the genesis document when the database is empty; nothing is written.
// Genesis holds that state.
func (c *Chain) NewNodeOn(blockDB, stateDB dbm.DB, app abci.Application) *Node {
	conns := proxy.NewAppConns(proxy.NewLocalClientCreator(app))
	conns.SetLogger(log.NewNopLogger())
	if err := conns.Start(); err != nil {
		panic(err)
	}
	ss := sm.NewStore(stateDB, sm.StoreOptions{DiscardABCIResponses: false})
	st, err := ss.LoadFromDBOrGenesisDoc(c.GenDoc)
	if err != nil {
		panic(err)
	}
	ev := &EvPool{}
	be := sm.NewBlockExecutor(ss, log.NewNopLogger(), conns.Consensus(), mpmock.Mempool{}, ev)
	return &Node{Ev: ev, BlockStore: store.NewBlockStore(blockDB), StateStore: ss, BlockExec: be, Genesis: st, Conns: conns}
}

func (n *Node) Close() { _ = n.Conns.Stop() }

// ---------------------------------------------------------------------------------------------
// canonical chain

type Chain struct {
	GenDoc  *types.GenesisDoc
	keys    map[string]crypto.PrivKey
	update  abci.ValidatorUpdate
	Blocks  []*types.Block     // [h], 1..N
	IDs     []types.BlockID    // [h]
	Commits []*types.Commit    // [h] canonical commit for block h (every validator signs), 1..N
	States  []sm.State         // [h] state after block h; [0] genesis
	Alt     []*types.Block     // [h] a second, valid-looking block at height h on top of block h-1
	AltIDs  []types.BlockID    // [h]
	Byz     crypto.PrivKey     // the one validator (< 1/3 power) whose key the adversary holds
	genTime time.Time
}

func key(name string) crypto.PrivKey { return ed25519.GenPrivKeyFromSecret([]byte("verif-c13-" + name)) }

// ValsAt returns the validator set in force at height h (the set that must sign block h).
func (c *Chain) ValsAt(h int64) *types.ValidatorSet { return c.States[h-1].Validators }

func (c *Chain) voteTime(h int64, idx int) time.Time {
	return c.genTime.Add(time.Duration(h)*10*time.Second + time.Duration(idx)*time.Millisecond)
}

// SignSlot produces the CommitSig validator idx of `vals` would produce for (h, round 0, id).
func (c *Chain) SignSlot(vals *types.ValidatorSet, idx int, h int64, id types.BlockID, forNil bool) types.CommitSig {
	val := vals.Validators[idx]
	k := c.keys[string(val.Address)]
	v := &types.Vote{Type: tmproto.PrecommitType, Height: h, Round: 0, BlockID: id, Timestamp: c.voteTime(h, idx),
		ValidatorAddress: val.Address, ValidatorIndex: int32(idx)}
	flag := types.BlockIDFlagCommit
	if forNil {
		v.BlockID = types.BlockID{}
		flag = types.BlockIDFlagNil
	}
	sig, err := k.Sign(types.VoteSignBytes(ChainID, v.ToProto()))
	if err != nil {
		panic(err)
	}
	return types.CommitSig{BlockIDFlag: flag, ValidatorAddress: val.Address, Timestamp: v.Timestamp, Signature: sig}
}

func (c *Chain) fullCommit(h int64, id types.BlockID) *types.Commit {
	vals := c.ValsAt(h)
	sigs := make([]types.CommitSig, vals.Size())
	for i := range sigs {
		sigs[i] = c.SignSlot(vals, i, h, id, false)
	}
	return types.NewCommit(h, 0, id, sigs)
}

// NewChain builds the canonical chain. Validators: A(30) B(10) C(10) D(10), total 60 — {A,x} is exactly
// 2/3, {A,x,y} is more, the last slot is never needed. EndBlock(1) adds E(30): from height 3 the set is
// {A,E}(30) {B,C,D}(10), total 90 — {A,E} is exactly 2/3, the old quorum {A,x,y} = 50 is not enough.
func NewChain() *Chain { return newChain(false) }

// NewBootedChain is the same chain as a network produces it whose nodes all went through the ABCI handshake at
// genesis: InitChain leaves the hash of an empty result list in the initial state, and block 1 carries it.
// States[0] is that state. For harnesses whose node boots through the real Handshaker.
func NewBootedChain() *Chain { return newChain(true) }

func newChain(booted bool) *Chain {
	c := &Chain{keys: map[string]crypto.PrivKey{}, genTime: time.Date(2022, 6, 1, 12, 0, 0, 0, time.UTC)}
	names := []string{"A", "B", "C", "D", "E"}
	pows := []int64{30, 10, 10, 10, 30}
	gvals := []types.GenesisValidator{}
	for i, n := range names {
		k := key(n)
		c.keys[string(k.PubKey().Address())] = k
		if i < 4 {
			gvals = append(gvals, types.GenesisValidator{PubKey: k.PubKey(), Power: pows[i], Name: n})
		}
	}
	c.Byz = key("B")
	c.update = types.TM2PB.NewValidatorUpdate(key("E").PubKey(), 30)
	c.GenDoc = &types.GenesisDoc{GenesisTime: c.genTime, ChainID: ChainID, Validators: gvals, InitialHeight: 1,
		ConsensusParams: types.DefaultConsensusParams()}
	if err := c.GenDoc.ValidateAndComplete(); err != nil {
		panic(err)
	}
	prod := c.NewNode()
	defer prod.Close()
	st := prod.Genesis
	if booted {
		st.LastResultsHash = merkle.HashFromByteSlices(nil)
	}
	c.Blocks = make([]*types.Block, N+1)
	c.IDs = make([]types.BlockID, N+1)
	c.Commits = make([]*types.Commit, N+1)
	c.States = make([]sm.State, N+1)
	c.Alt = make([]*types.Block, N+1)
	c.AltIDs = make([]types.BlockID, N+1)
	c.States[0] = st.Copy()
	last := types.NewCommit(0, 0, types.BlockID{}, nil)
	for h := int64(1); h <= N; h++ {
		prop := st.Validators.GetProposer().Address
		blk, parts := st.MakeBlock(h, []types.Tx{types.Tx(fmt.Sprintf("tx-%d", h))}, last, nil, prop)
		id := types.BlockID{Hash: blk.Hash(), PartSetHeader: parts.Header()}
		alt, altParts := st.MakeBlock(h, []types.Tx{types.Tx(fmt.Sprintf("tx-%d", h)), types.Tx("double-spend")}, last, nil, prop)
		c.Blocks[h], c.IDs[h] = blk, id
		c.Alt[h], c.AltIDs[h] = alt, types.BlockID{Hash: alt.Hash(), PartSetHeader: altParts.Header()}
		if err := prod.BlockExec.ValidateBlock(st, alt); err != nil {
			panic(fmt.Sprintf("alt block %d is not valid-looking: %v", h, err))
		}
		c.Commits[h] = c.fullCommit(h, id)
		var err error
		st, _, err = prod.BlockExec.ApplyBlock(st, id, blk)
		if err != nil {
			panic(err)
		}
		c.States[h] = st.Copy()
		last = c.Commits[h]
	}
	if c.ValsAt(1).Size() != 4 || c.ValsAt(UpdateAt+2).Size() != 5 || c.ValsAt(UpdateAt+1).Size() != 4 {
		panic("validator change did not happen where expected")
	}
	return c
}

// ---------------------------------------------------------------------------------------------
// reference: what does a commit really prove?

type CommitTruth struct {
	ForBlock int64 // power of slots that are a valid for-block signature of the slot's validator over exactly (chain, h, round, id)
	Total    int64
	BadSlots []int // non-absent slots that are not a valid vote of the validator at that index (bad signature or wrong address)
	Shape    string
}

// Quorum: more than two thirds.
func (t CommitTruth) Quorum() bool { return t.Shape == "" && 3*t.ForBlock > 2*t.Total }

// RefCommit recomputes, slot by slot and without any early exit, what `commit` proves about block `id` at
// height h under validator set vals. ed25519 verification is the black box.
func RefCommit(vals *types.ValidatorSet, h int64, id types.BlockID, commit *types.Commit) CommitTruth {
	t := CommitTruth{Total: vals.TotalVotingPower()}
	if commit == nil {
		t.Shape = "nil commit"
		return t
	}
	if commit.Height != h {
		t.Shape = fmt.Sprintf("commit height %d, want %d", commit.Height, h)
		return t
	}
	if !commit.BlockID.Equals(id) {
		t.Shape = "commit is for another block id"
		return t
	}
	if len(commit.Signatures) != vals.Size() {
		t.Shape = fmt.Sprintf("%d slots for %d validators", len(commit.Signatures), vals.Size())
		return t
	}
	for i, cs := range commit.Signatures {
		if cs.Absent() {
			continue
		}
		val := vals.Validators[i]
		okAddr := bytes.Equal(cs.ValidatorAddress, val.Address)
		okSig := val.PubKey.VerifySignature(commit.VoteSignBytes(ChainID, int32(i)), cs.Signature)
		if !okAddr || !okSig {
			t.BadSlots = append(t.BadSlots, i)
		}
		// the statement asks for valid signatures of the validator set covering the block: the address field
		// is not part of the signed bytes, so a slot with a valid signature of validator i counts as signed by i.
		if cs.ForBlock() && okSig {
			t.ForBlock += val.VotingPower
		}
	}
	return t
}

// BadSlotCause names why the first slot of `commit` that is not a valid vote of the validator at its index
// (the slot types.CommitToVoteSet trips over) is not one; "" if every present slot is a valid vote.
func (c *Chain) BadSlotCause(h int64, commit *types.Commit) string {
	if commit == nil {
		return "seen-commit-missing"
	}
	vals := c.ValsAt(h)
	if len(commit.Signatures) != vals.Size() {
		return "slot-count-mismatch"
	}
	for i, cs := range commit.Signatures {
		if cs.Absent() {
			continue
		}
		val := vals.Validators[i]
		if !bytes.Equal(cs.ValidatorAddress, val.Address) {
			return "wrong-validator-address"
		}
		if !val.PubKey.VerifySignature(commit.VoteSignBytes(ChainID, int32(i)), cs.Signature) {
			if cs.ForBlock() {
				return "invalid-signature-in-for-block-slot-after-two-thirds"
			}
			return "invalid-signature-in-nil-slot"
		}
	}
	return ""
}

// ---------------------------------------------------------------------------------------------
// the adversary's menu

type Lie int

const (
	Honest          Lie = iota // canonical block
	ForgeLast                  // LastCommit: last slot's signature replaced by garbage (slot lies beyond the +2/3 before it)
	NilGarbageLast             // LastCommit: last slot re-flagged nil with a garbage signature
	WrongAddrFirst             // LastCommit: slot 0 keeps its valid signature but carries the address of validator 1
	WrongAddrLast              // LastCommit: last slot keeps its valid signature but carries the address of validator 0
	DropLast                   // LastCommit: last slot made absent — still a valid +2/3 commit (benign variant)
	ReflagLast                 // LastCommit: last slot's for-block signature re-flagged as nil (signature no longer matches)
	ForgeFirst                 // LastCommit: slot 0's signature replaced by garbage
	ExactTwoThirds             // LastCommit: only the slots adding up to exactly 2/3 stay
	OldQuorum                  // LastCommit: only three signatures stay: A and two small ones (a quorum of the 4-set, not of the 5-set)
	ForkBlock                  // another valid-looking block at this height (different txs), canonical LastCommit
	ForkCommit                 // canonical block h but LastCommit = commit for the fork block h-1 signed by the one Byzantine key
	Transplant                 // LastCommit names the fork block h-1 and carries the canonical commit's signatures
	HeightPlus                 // canonical block h+1
	HeightMinus                // canonical block h-1
	NoBlock                    // NoBlockResponse
	Silence                    // nothing
	PaddedKeepHash             // forge-last-slot edit of LastCommit but the header keeps the canonical LastCommitHash (not well-formed)
	NLies
)

var lieNames = []string{"honest", "forge-last-slot", "nil-garbage-last-slot", "wrong-address-slot0", "wrong-address-last-slot",
	"drop-last-slot", "reflag-last-slot-nil", "forge-slot0", "exactly-two-thirds", "old-set-quorum", "fork-block",
	"fork-commit-byz-only", "transplanted-signatures", "block-h+1", "block-h-1", "no-block", "silence", "padded-commit-keeping-header-hash"}

func (l Lie) String() string { return lieNames[l] }

// Applicable says whether lie l exists for a request at height h (1..Tip+1).
func Applicable(l Lie, h int64) bool {
	switch l {
	case Honest, ForkBlock, HeightPlus, NoBlock, Silence:
		return true
	case HeightMinus:
		return h >= 2
	default: // edits of LastCommit
		return h >= 2
	}
}

var garbage = func() []byte {
	g := make([]byte, 64)
	for i := range g {
		g[i] = byte(i*7 + 3)
	}
	return g
}()

// Response is what a peer sends for a request.
type Response struct {
	Lie   Lie
	Msg   *bcproto.Message // nil = silence
	Block *types.Block     // decoded block when Msg is a block response that survives BlockFromProto, else nil
	// Usable: ground truth. A response is usable for the request at height h if it is a block of height h,
	// whose hash is the canonical one when h <= Tip (block Tip+1 itself is never stored), and whose
	// LastCommit (h >= 2) has more than 2/3 valid for-block signatures for the canonical block h-1.
	Usable bool
	// Clean: usable and every non-absent LastCommit slot is a valid vote of the validator at that index.
	Clean bool
	Truth CommitTruth
}

func (c *Chain) editCommit(l Lie, h int64) *types.Commit {
	prev := h - 1
	vals := c.ValsAt(prev)
	base := c.Commits[prev]
	sigs := make([]types.CommitSig, len(base.Signatures))
	copy(sigs, base.Signatures)
	id := base.BlockID
	n := len(sigs)
	switch l {
	case ForgeLast, PaddedKeepHash:
		sigs[n-1].Signature = garbage
	case NilGarbageLast:
		sigs[n-1].BlockIDFlag = types.BlockIDFlagNil
		sigs[n-1].Signature = garbage
	case WrongAddrFirst:
		sigs[0].ValidatorAddress = vals.Validators[1].Address
	case WrongAddrLast:
		sigs[n-1].ValidatorAddress = vals.Validators[0].Address
	case DropLast:
		sigs[n-1] = types.NewCommitSigAbsent()
	case ReflagLast:
		sigs[n-1].BlockIDFlag = types.BlockIDFlagNil
	case ForgeFirst:
		sigs[0].Signature = garbage
	case ExactTwoThirds:
		// validators are sorted by power: keep the shortest prefix whose power is exactly 2/3
		var sum int64
		for i := range sigs {
			if 3*sum == 2*vals.TotalVotingPower() {
				sigs[i] = types.NewCommitSigAbsent()
				continue
			}
			sum += vals.Validators[i].VotingPower
		}
		if 3*sum != 2*vals.TotalVotingPower() {
			panic("no exact two-thirds prefix")
		}
	case OldQuorum:
		// keep A (the validator of the genesis set with power 30) and the first two validators of power 10
		addrA := key("A").PubKey().Address()
		small := 0
		for i := range sigs {
			v := vals.Validators[i]
			if bytes.Equal(v.Address, addrA) {
				continue
			}
			if v.VotingPower == 10 && small < 2 {
				small++
				continue
			}
			sigs[i] = types.NewCommitSigAbsent()
		}
	case ForkCommit:
		id = c.AltIDs[prev]
		for i := range sigs {
			if bytes.Equal(vals.Validators[i].Address, c.Byz.PubKey().Address()) {
				sigs[i] = c.SignSlot(vals, i, prev, id, false)
			} else {
				sigs[i] = types.NewCommitSigAbsent()
			}
		}
	case Transplant:
		id = c.AltIDs[prev]
	default:
		panic("not a commit edit")
	}
	return types.NewCommit(prev, 0, id, sigs)
}

func blockMsg(b *tmproto.Block) *bcproto.Message {
	return &bcproto.Message{Sum: &bcproto.Message_BlockResponse{BlockResponse: &bcproto.BlockResponse{Block: b}}}
}

// Respond builds the response of a peer telling lie l to a request for height h.
func (c *Chain) Respond(l Lie, h int64) *Response {
	r := &Response{Lie: l}
	var pb *tmproto.Block
	var err error
	switch l {
	case Silence:
		return r
	case NoBlock:
		r.Msg = &bcproto.Message{Sum: &bcproto.Message_NoBlockResponse{NoBlockResponse: &bcproto.NoBlockResponse{Height: h}}}
		return r
	case Honest:
		pb, err = c.Blocks[h].ToProto()
	case ForkBlock:
		pb, err = c.Alt[h].ToProto()
	case HeightPlus:
		pb, err = c.Blocks[h+1].ToProto()
	case HeightMinus:
		pb, err = c.Blocks[h-1].ToProto()
	default:
		pb, err = c.Blocks[h].ToProto()
		if err == nil {
			ec := c.editCommit(l, h)
			pb.LastCommit = ec.ToProto()
			if l != PaddedKeepHash {
				pb.Header.LastCommitHash = ec.Hash()
			}
		}
	}
	if err != nil {
		panic(err)
	}
	r.Msg = blockMsg(pb)
	blk, err := types.BlockFromProto(pb)
	if err != nil {
		return r // not even well-formed: the reactor will not look at it
	}
	r.Block = blk
	if blk.Height != h {
		return r
	}
	if h <= Tip && !bytes.Equal(blk.Hash(), c.IDs[h].Hash) {
		return r
	}
	if h >= 2 {
		r.Truth = RefCommit(c.ValsAt(h-1), h-1, c.IDs[h-1], blk.LastCommit)
		if !r.Truth.Quorum() {
			return r
		}
	}
	r.Usable = true
	r.Clean = len(r.Truth.BadSlots) == 0
	return r
}

func StatusMsg(base, height int64) *bcproto.Message {
	return &bcproto.Message{Sum: &bcproto.Message_StatusResponse{StatusResponse: &bcproto.StatusResponse{Base: base, Height: height}}}
}

// ---------------------------------------------------------------------------------------------
// strategies

// Strategy: for every served height 1..Tip+1 the lies told by the successive peers (or successive
// answers) for that height; after the list is used up the answers are honest.
type Strategy struct {
	Lies [][]Lie `json:"lies"` // index h-1
}

func (s Strategy) NumLies() int {
	n := 0
	for _, l := range s.Lies {
		n += len(l)
	}
	return n
}

func (s Strategy) String() string {
	out := ""
	for i, l := range s.Lies {
		if len(l) == 0 {
			continue
		}
		out += fmt.Sprintf("h%d:", i+1)
		for j, x := range l {
			if j > 0 {
				out += ">"
			}
			out += x.String()
		}
		out += " "
	}
	if out == "" {
		return "all-honest"
	}
	return out[:len(out)-1]
}

// Next returns the lie of the k-th answer (k = 0,1,…) for height h.
func (s Strategy) Next(h int64, k int) Lie {
	if int(h) <= len(s.Lies) && k < len(s.Lies[h-1]) {
		return s.Lies[h-1][k]
	}
	return Honest
}

// Enumerate calls f for every strategy with at most maxLies lies drawn from menu, simplest first:
// all placements of 0, then 1, then 2 … lies over heights 1..Tip+1 (several lies at one height are
// told by successive peers, so their order matters), every applicable lie kind at every position.
func Enumerate(menuFor func(total int) []Lie, maxLies int, f func(Strategy) bool) {
	H := Tip + 1
	var menu []Lie
	var rec func(total int, h int, cur [][]Lie, left int) bool
	rec = func(total int, h int, cur [][]Lie, left int) bool {
		if h > H {
			if left != 0 {
				return true
			}
			cp := make([][]Lie, H)
			for i := range cur {
				cp[i] = append([]Lie{}, cur[i]...)
			}
			return f(Strategy{Lies: cp})
		}
		// choose how many lies at height h, then which
		for cnt := 0; cnt <= left; cnt++ {
			var fill func(pos int) bool
			seq := make([]Lie, cnt)
			fill = func(pos int) bool {
				if pos == cnt {
					cur[h-1] = seq
					return rec(total, h+1, cur, left-cnt)
				}
				for _, l := range menu {
					if l == Honest || !Applicable(l, int64(h)) {
						continue
					}
					seq[pos] = l
					if !fill(pos + 1) {
						return false
					}
				}
				return true
			}
			if !fill(0) {
				return false
			}
		}
		cur[h-1] = nil
		return true
	}
	for total := 0; total <= maxLies; total++ {
		menu = menuFor(total)
		if !rec(total, 1, make([][]Lie, H), total) {
			return
		}
	}
}

// FullMenu is every lie kind; CoreMenu leaves out the kinds whose effect on the reactors duplicates another kind
// (a second wrong-address position, the transplanted-signatures variant of the fork commit, the two "not usable at
// all" variants block-h+1 / malformed block, silence, re-flagging).
func FullMenu() []Lie {
	m := []Lie{}
	for l := Lie(1); l < NLies; l++ {
		m = append(m, l)
	}
	return m
}

func CoreMenu() []Lie {
	return []Lie{ForgeLast, NilGarbageLast, WrongAddrFirst, DropLast, ForgeFirst, ExactTwoThirds, OldQuorum, ForkBlock, ForkCommit, HeightMinus, NoBlock}
}

// ---------------------------------------------------------------------------------------------
// store oracle

// CheckStores encodes the safety half of the statement on what a node has stored: every stored block is the
// canonical block of its height, the seen commit saved with it has more than 2/3 valid for-block signatures
// of the canonical validator set of that height for exactly that block id (hash + part-set header), the block
// passes full validation against the canonical pre-state, and the node's own state is the canonical state.
// It returns "" or (key, what). diag receives non-violating observations.
func (c *Chain) CheckStores(n *Node, where string, diag func(string)) (key, what string) {
	top := n.BlockStore.Height()
	if top > N {
		return where + ":stored-beyond-chain", fmt.Sprintf("store height %d", top)
	}
	for h := int64(1); h <= top; h++ {
		blk := n.BlockStore.LoadBlock(h)
		if blk == nil {
			return where + ":stored-block-missing", fmt.Sprintf("height %d of %d cannot be loaded", h, top)
		}
		parts := blk.MakePartSet(types.BlockPartSizeBytes)
		id := types.BlockID{Hash: blk.Hash(), PartSetHeader: parts.Header()}
		if !id.Equals(c.IDs[h]) {
			return where + ":stored-non-canonical-block", fmt.Sprintf("height %d: stored %v, canonical %v", h, id, c.IDs[h])
		}
		meta := n.BlockStore.LoadBlockMeta(h)
		if meta == nil || !meta.BlockID.Equals(c.IDs[h]) {
			return where + ":stored-meta-mismatch", fmt.Sprintf("height %d: block meta does not name the canonical block id", h)
		}
		seen := n.BlockStore.LoadSeenCommit(h)
		t := RefCommit(c.ValsAt(h), h, c.IDs[h], seen)
		if !t.Quorum() {
			return where + ":stored-without-two-thirds-commit", fmt.Sprintf("height %d: seen commit proves %d of %d for the block (%s)", h, t.ForBlock, t.Total, t.Shape)
		}
		if len(t.BadSlots) > 0 && diag != nil {
			if h == top {
				diag("tip_seen_commit_has_invalid_slots")
			} else {
				diag("inner_seen_commit_has_invalid_slots")
			}
		}
		if err := n.BlockExec.ValidateBlock(c.States[h-1], blk); err != nil {
			return where + ":stored-block-fails-validation", fmt.Sprintf("height %d: %v", h, err)
		}
	}
	st, err := n.StateStore.Load()
	if err != nil {
		return where + ":state-unloadable", err.Error()
	}
	if st.LastBlockHeight > top {
		return where + ":state-ahead-of-store", fmt.Sprintf("state %d store %d", st.LastBlockHeight, top)
	}
	if st.LastBlockHeight > 0 {
		want := c.States[st.LastBlockHeight]
		if !st.LastBlockID.Equals(want.LastBlockID) || !bytes.Equal(st.Validators.Hash(), want.Validators.Hash()) ||
			!bytes.Equal(st.AppHash, want.AppHash) || !bytes.Equal(st.NextValidators.Hash(), want.NextValidators.Hash()) {
			return where + ":executed-state-not-canonical", fmt.Sprintf("state at %d differs from the canonical state", st.LastBlockHeight)
		}
	}
	return "", ""
}

// SortedLieNames is used for the vacuity histogram.
func SortedLieNames(s Strategy) string {
	names := []string{}
	for _, l := range s.Lies {
		for _, x := range l {
			names = append(names, x.String())
		}
	}
	sort.Strings(names)
	return fmt.Sprint(names)
}

// ---------------------------------------------------------------------------------------------
// commit-level enumeration: a commit for block h whose every slot is drawn from a menu

const (
	SlotValid      = iota // the validator's for-block signature
	SlotAbsent            // absent
	SlotValidNil          // the validator's genuine nil precommit
	SlotGarbage           // flag commit, 64 bytes of garbage
	SlotNilGarbage        // flag nil, garbage signature
	SlotWrongAddr         // genuine for-block signature, ValidatorAddress of the next validator
	SlotReflagNil         // genuine for-block signature re-flagged nil
	NSlotKinds
)

var SlotKindNames = []string{"for-block", "absent", "nil", "garbage-commit", "garbage-nil", "wrong-address", "for-block-sig-flagged-nil"}

func SlotNames(ks []int) []string {
	out := make([]string, len(ks))
	for i, k := range ks {
		out[i] = SlotKindNames[k]
	}
	return out
}

// SlotCommit builds the commit for canonical block h whose slot i is of kind kinds[i].
func (c *Chain) SlotCommit(h int64, kinds []int) *types.Commit {
	vals := c.ValsAt(h)
	base := c.Commits[h]
	sigs := make([]types.CommitSig, len(base.Signatures))
	copy(sigs, base.Signatures)
	for i, k := range kinds {
		switch k {
		case SlotValid:
		case SlotAbsent:
			sigs[i] = types.NewCommitSigAbsent()
		case SlotValidNil:
			sigs[i] = c.SignSlot(vals, i, h, base.BlockID, true)
		case SlotGarbage:
			sigs[i].Signature = garbage
		case SlotNilGarbage:
			sigs[i].BlockIDFlag = types.BlockIDFlagNil
			sigs[i].Signature = garbage
		case SlotWrongAddr:
			sigs[i].ValidatorAddress = vals.Validators[(i+1)%vals.Size()].Address
		case SlotReflagNil:
			sigs[i].BlockIDFlag = types.BlockIDFlagNil
		}
	}
	return types.NewCommit(h, 0, base.BlockID, sigs)
}

// CarrierBlock returns block h+1 as a peer would send it when its LastCommit is `commit` (header hash updated),
// after a wire round trip; nil if it is not wire-expressible.
func (c *Chain) CarrierBlock(h int64, commit *types.Commit) *types.Block {
	pb, err := c.Blocks[h+1].ToProto()
	if err != nil {
		panic(err)
	}
	pb.LastCommit = commit.ToProto()
	pb.Header.LastCommitHash = commit.Hash()
	blk, err := types.BlockFromProto(pb)
	if err != nil {
		return nil
	}
	return blk
}

// NewNodeAt returns a node whose stores are what an honest sync up to height h leaves behind.
func (c *Chain) NewNodeAt(h int64) *Node {
	n := c.NewNode()
	for g := int64(1); g <= h; g++ {
		n.BlockStore.SaveBlock(c.Blocks[g], c.Blocks[g].MakePartSet(types.BlockPartSizeBytes), c.Blocks[g+1].LastCommit)
	}
	for g := int64(1); g <= h; g++ {
		if err := n.StateStore.Save(c.States[g]); err != nil {
			panic(err)
		}
	}
	return n
}
