package evidence

// C11 — the evidence alphabet: genuine duplicate-vote and light-client-attack evidence built on the fixture
// chain plus every single-field perturbation. Ground truth ("does this item prove what it claims against the
// validator set and block time of its height?") is known by construction: the generator signed, mis-signed or
// mis-labelled every field itself, so the reference never re-implements verification.

import (
	"bytes"
	"fmt"
	"strings"
	"time"

	"github.com/tendermint/tendermint/crypto"
	tmproto "github.com/tendermint/tendermint/proto/tendermint/types"
	"github.com/tendermint/tendermint/types"
)

type c11Item struct {
	Name  string
	Class string // perturbation class; part of violation keys
	IsLC  bool
	Ev    types.Evidence
	Hash  string
	Bz    []byte
	EvH   int64     // Evidence.Height()
	ConfH int64     // LC: height of the conflicting block
	ConfT time.Time // LC: time of the conflicting block
	Base  bool      // proves what it claims (once the chain holds the heights it refers to)
	Misb  string    // identity of the underlying misbehaviour (malleability diagnostics)
	Raw   bool      // handed to the pool without the wire round trip (wire decoding refuses or alters it)
	// genuine duplicate votes, as consensus would report them
	Genuine      bool
	VoteA, VoteB *types.Vote
}

const (
	c11No = iota
	c11Yes
	c11Unspecified
)

// validAt: does the item prove its claim to a node whose last block is H?
// c11Unspecified: light-client-attack evidence that refers to the head block itself (common height or conflicting
// height == H). Judging it needs the canonical commit of H, which a node only learns with block H+1; the statement
// does not say whether such evidence has to be admitted one block early, so either answer is accepted (and counted).
func (it *c11Item) validAt(H int64) int {
	if !it.Base || it.EvH > H {
		return c11No
	}
	if it.IsLC && it.ConfH > H {
		// a block above the node's head is provably an attack only if it breaks time monotonicity
		if it.ConfT.After(c11T(H)) {
			return c11No
		}
		if it.EvH == H {
			return c11Unspecified
		}
		return c11Yes
	}
	if it.IsLC && (it.EvH == H || it.ConfH == H) {
		return c11Unspecified
	}
	return c11Yes
}

func c11Roundtrip(ev types.Evidence) (types.Evidence, error) {
	pb, err := types.EvidenceToProto(ev)
	if err != nil {
		return nil, err
	}
	bz, err := pb.Marshal()
	if err != nil {
		return nil, err
	}
	var pb2 tmproto.Evidence
	if err := pb2.Unmarshal(bz); err != nil {
		return nil, err
	}
	return types.EvidenceFromProto(&pb2)
}

func c11BlockID(tag string) types.BlockID {
	return types.BlockID{Hash: crypto.Sha256([]byte("c11-hash-" + tag)),
		PartSetHeader: types.PartSetHeader{Total: 1, Hash: crypto.Sha256([]byte("c11-psh-" + tag))}}
}

// c11WithSameHash adds the same-hash duplicate-vote items to the alphabet (set by TestVerifC11SameHash before the alphabet is built).
var c11WithSameHash bool

type c11Alphabet struct {
	items        []*c11Item
	byName       map[string]int
	byWire       map[string]int // wire form of the tmproto.Evidence wrapper (what the pool stores) -> item
	decodeRefuse []string       // perturbations refused by the wire decoding (never reach the pool in production)
}

func (al *c11Alphabet) add(it *c11Item) {
	if !it.Raw {
		ev, err := c11Roundtrip(it.Ev)
		if err != nil {
			al.decodeRefuse = append(al.decodeRefuse, it.Name+": "+err.Error())
			return
		}
		it.Ev = ev
	}
	it.Bz = it.Ev.Bytes()
	it.Hash = string(it.Ev.Hash())
	it.EvH = it.Ev.Height()
	if lc, ok := it.Ev.(*types.LightClientAttackEvidence); ok {
		it.IsLC = true
		it.ConfH = lc.ConflictingBlock.Height
		it.ConfT = lc.ConflictingBlock.Time
	}
	if _, dup := al.byName[it.Name]; dup {
		panic("C11: duplicate item name " + it.Name)
	}
	al.byName[it.Name] = len(al.items)
	if pb, err := types.EvidenceToProto(it.Ev); err == nil {
		if w, err := pb.Marshal(); err == nil {
			if _, dup := al.byWire[string(w)]; !dup {
				al.byWire[string(w)] = len(al.items)
			}
		}
	}
	al.items = append(al.items, it)
}

func c11FlipSig(v *types.Vote) {
	s := append([]byte{}, v.Signature...)
	s[7] ^= 0x40
	v.Signature = s
}

// ---- duplicate votes -------------------------------------------------------------------------

func (ch *c11Chain) c11DVVote(ki int, chain string, h int64, round int32, typ tmproto.SignedMsgType, bid types.BlockID, addrOf int) *types.Vote {
	addr := ch.keys[addrOf].PubKey().Address()
	idx, _ := ch.vals[h].GetByAddress(addr)
	if idx < 0 {
		idx = 0
	}
	return c11SignVote(ch.keys[ki], chain, &types.Vote{Type: typ, Height: h, Round: round, BlockID: bid,
		Timestamp: c11T(h).Add(time.Second), ValidatorAddress: addr, ValidatorIndex: idx})
}

func (ch *c11Chain) c11AddDV(al *c11Alphabet, h int64, full bool) {
	x, y := c11BlockID(fmt.Sprintf("x-%d", h)), c11BlockID(fmt.Sprintf("y-%d", h))
	if strings.Compare(x.Key(), y.Key()) >= 0 {
		x, y = y, x
	}
	vals := ch.vals[h]
	pc := tmproto.PrecommitType
	powerOf := func(ki int, hh int64) int64 {
		_, v := ch.vals[hh].GetByAddress(ch.keys[ki].PubKey().Address())
		if v == nil {
			return 0
		}
		return v.VotingPower
	}
	mk := func(a, b *types.Vote, vp, tp int64, ts time.Time) *types.DuplicateVoteEvidence {
		return &types.DuplicateVoteEvidence{VoteA: a, VoteB: b, ValidatorPower: vp, TotalVotingPower: tp, Timestamp: ts}
	}
	a0 := func() *types.Vote { return ch.c11DVVote(0, c11ChainID, h, 0, pc, x, 0) }
	b0 := func() *types.Vote { return ch.c11DVVote(0, c11ChainID, h, 0, pc, y, 0) }
	vp, tp, ts := powerOf(0, h), vals.TotalVotingPower(), c11T(h)
	misb := fmt.Sprintf("dv-v0-h%d", h)
	put := func(name, class string, base, raw bool, ev *types.DuplicateVoteEvidence) {
		it := &c11Item{Name: fmt.Sprintf("dv%d/%s", h, name), Class: "dv:" + class, Ev: ev, Base: base, Raw: raw, Misb: misb}
		if name == "genuine" {
			it.Genuine, it.VoteA, it.VoteB = true, ev.VoteA.Copy(), ev.VoteB.Copy()
		}
		al.add(it)
	}
	put("genuine", "genuine", true, false, mk(a0(), b0(), vp, tp, ts))
	// two votes of validator 1 for the same block hash with different part-set headers: different values all the same
	// (only in part "samehash": it would otherwise double the base menu of the other parts)
	if c11WithSameHash {
		y2 := types.BlockID{Hash: x.Hash, PartSetHeader: types.PartSetHeader{Total: 2, Hash: crypto.Sha256([]byte(fmt.Sprintf("c11-psh-other-%d", h)))}}
		lo, hi := x, y2
		if strings.Compare(lo.Key(), hi.Key()) >= 0 {
			lo, hi = hi, lo
		}
		ev := mk(ch.c11DVVote(1, c11ChainID, h, 0, pc, lo, 1), ch.c11DVVote(1, c11ChainID, h, 0, pc, hi, 1), powerOf(1, h), tp, ts)
		it := &c11Item{Name: fmt.Sprintf("dv%d/genuine-same-hash", h), Class: "dv:genuine-same-hash-other-parts", Ev: ev, Base: true, Misb: fmt.Sprintf("dv-v1-h%d", h)}
		it.Genuine, it.VoteA, it.VoteB = true, ev.VoteA.Copy(), ev.VoteB.Copy()
		al.add(it)
		// validator 0 equivocates a second time in the same height: conflicting precommits in round 1 as well as in round 0
		// ("genuine"). Same validator, height and vote type, another round: a different piece of evidence (different hash)
		// of a different misbehaviour; reported next to "genuine" before the height is decided, both must become pending.
		ev1 := mk(ch.c11DVVote(0, c11ChainID, h, 1, pc, x, 0), ch.c11DVVote(0, c11ChainID, h, 1, pc, y, 0), vp, tp, ts)
		it1 := &c11Item{Name: fmt.Sprintf("dv%d/genuine-round1", h), Class: "dv:genuine-second-equivocation-round1", Ev: ev1, Base: true, Misb: misb + "-r1"}
		it1.Genuine, it1.VoteA, it1.VoteB = true, ev1.VoteA.Copy(), ev1.VoteB.Copy()
		al.add(it1)
	}
	// sign bytes do not cover the validator index: different bytes, same proven misbehaviour
	{
		a := a0()
		a.ValidatorIndex++
		put("validator-index", "validator-index-changed", true, false, mk(a, b0(), vp, tp, ts))
	}
	if !full {
		// a reduced menu for the other heights keeps one representative per verification stage
		put("timestamp+1s", "timestamp", false, false, mk(a0(), b0(), vp, tp, ts.Add(time.Second)))
		{
			b := b0()
			c11FlipSig(b)
			put("bad-sig-b", "bad-signature-b", false, false, mk(a0(), b, vp, tp, ts))
		}
		otherH := c11ChangeAt - 1
		if h < c11ChangeAt {
			otherH = c11ChangeAt
		}
		put("powers-of-other-epoch", "powers-of-other-epoch", false, false, mk(a0(), b0(), powerOf(0, otherH), ch.vals[otherH].TotalVotingPower(), ts))
		out := 4
		if h >= c11ChangeAt {
			out = 3
		}
		put("not-in-set", "validator-not-in-set-at-height", false, false,
			mk(ch.c11DVVote(out, c11ChainID, h, 0, pc, x, out), ch.c11DVVote(out, c11ChainID, h, 0, pc, y, out), 10, tp, ts))
		return
	}
	put("swapped-order", "swapped-order", false, false, mk(b0(), a0(), vp, tp, ts))
	put("same-block-id", "same-block-id", false, true, mk(a0(), a0(), vp, tp, ts))
	put("other-validator-vote-b", "other-validator", false, false, mk(a0(), ch.c11DVVote(1, c11ChainID, h, 0, pc, y, 1), vp, tp, ts))
	put("validator-power+1", "validator-power", false, false, mk(a0(), b0(), vp+1, tp, ts))
	put("total-power+1", "total-power", false, false, mk(a0(), b0(), vp, tp+1, ts))
	otherH := c11ChangeAt - 1
	if h < c11ChangeAt {
		otherH = c11ChangeAt
	}
	put("powers-of-other-epoch", "powers-of-other-epoch", false, false, mk(a0(), b0(), powerOf(0, otherH), ch.vals[otherH].TotalVotingPower(), ts))
	put("timestamp+1s", "timestamp", false, false, mk(a0(), b0(), vp, tp, ts.Add(time.Second)))
	put("timestamp-of-next-block", "timestamp", false, false, mk(a0(), b0(), vp, tp, c11T(h+1)))
	{
		a := a0()
		c11FlipSig(a)
		put("bad-sig-a", "bad-signature-a", false, false, mk(a, b0(), vp, tp, ts))
		b := b0()
		c11FlipSig(b)
		put("bad-sig-b", "bad-signature-b", false, false, mk(a0(), b, vp, tp, ts))
	}
	put("other-chain-sig", "signed-for-other-chain", false, false,
		mk(ch.c11DVVote(0, c11OtherChain, h, 0, pc, x, 0), ch.c11DVVote(0, c11OtherChain, h, 0, pc, y, 0), vp, tp, ts))
	put("sig-by-other-key", "signed-by-other-key", false, false, mk(a0(), ch.c11DVVote(1, c11ChainID, h, 0, pc, y, 0), vp, tp, ts))
	out := 4 // joins at c11ChangeAt
	if h >= c11ChangeAt {
		out = 3 // left at c11ChangeAt
	}
	put("not-in-set", "validator-not-in-set-at-height", false, false,
		mk(ch.c11DVVote(out, c11ChainID, h, 0, pc, x, out), ch.c11DVVote(out, c11ChainID, h, 0, pc, y, out), 10, tp, ts))
	put("outsider", "never-a-validator", false, false,
		mk(ch.c11DVVote(5, c11ChainID, h, 0, pc, x, 5), ch.c11DVVote(5, c11ChainID, h, 0, pc, y, 5), 10, tp, ts))
	put("round-mismatch", "round-mismatch", false, false, mk(a0(), ch.c11DVVote(0, c11ChainID, h, 1, pc, y, 0), vp, tp, ts))
	put("type-mismatch", "type-mismatch", false, false, mk(a0(), ch.c11DVVote(0, c11ChainID, h, 0, tmproto.PrevoteType, y, 0), vp, tp, ts))
	put("height-mismatch", "height-mismatch", false, false, mk(a0(), ch.c11DVVote(0, c11ChainID, h+1, 0, pc, y, 0), vp, tp, ts))
	{
		a := a0()
		a.Timestamp = a.Timestamp.Add(time.Second)
		put("vote-timestamp-altered", "vote-timestamp-altered", false, false, mk(a, b0(), vp, tp, ts))
	}
}

// ---- light client attacks ----------------------------------------------------------------------

type c11LCSpec struct {
	common, confH int64
	vals          *types.ValidatorSet // validator set the conflicting block claims
	edit          func(h *types.Header)
	round         int32
	kind          func(ki int) int // per key index: 0 signs for the block, 1 absent, 2 commit-flag garbage, 3 nil-flag garbage
	chain         string
	useCanonical  bool // take header and commit of the real chain (no conflict at all)
}

func (ch *c11Chain) c11KeyIndex(addr []byte) int {
	for i, k := range ch.keys {
		if bytes.Equal(k.PubKey().Address(), addr) {
			return i
		}
	}
	return -1
}

func (ch *c11Chain) c11LightBlock(s c11LCSpec) *types.LightBlock {
	if s.useCanonical {
		hdr := ch.blocks[s.confH].Header
		return &types.LightBlock{SignedHeader: &types.SignedHeader{Header: &hdr, Commit: ch.seen[s.confH]}, ValidatorSet: ch.vals[s.confH].Copy()}
	}
	src := s.confH
	if src > c11N {
		src = c11N
	}
	hdr := ch.blocks[src].Header // copy
	hdr.Height = s.confH
	hdr.ValidatorsHash = s.vals.Hash()
	if s.edit != nil {
		s.edit(&hdr)
	}
	chain := s.chain
	if chain == "" {
		chain = c11ChainID
	}
	bid := types.BlockID{Hash: hdr.Hash(), PartSetHeader: types.PartSetHeader{Total: 1, Hash: crypto.Sha256([]byte("c11-lc-parts"))}}
	commit := ch.c11MakeCommit(chain, s.confH, s.round, bid, s.vals, hdr.Time.Add(time.Second), func(addr []byte) int {
		return s.kind(ch.c11KeyIndex(addr))
	})
	return &types.LightBlock{SignedHeader: &types.SignedHeader{Header: &hdr, Commit: commit}, ValidatorSet: s.vals}
}

func (ch *c11Chain) c11ValsOf(h int64, kis ...int) []*types.Validator {
	var out []*types.Validator
	for _, ki := range kis {
		_, v := ch.vals[h].GetByAddress(ch.keys[ki].PubKey().Address())
		if v == nil {
			panic(fmt.Sprintf("C11: key %d not a validator at %d", ki, h))
		}
		out = append(out, v.Copy())
	}
	return c11ByPower(out)
}

func c11Signers(absent ...int) func(int) int {
	return func(ki int) int {
		for _, a := range absent {
			if a == ki {
				return 1
			}
		}
		return 0
	}
}

func c11Kinds(m map[int]int) func(int) int {
	return func(ki int) int { return m[ki] }
}

func (ch *c11Chain) c11AddLC(al *c11Alphabet, full bool) {
	put := func(name, class, misb string, base, raw bool, lb *types.LightBlock, common int64, byz []*types.Validator, total int64, ts time.Time) {
		ev := &types.LightClientAttackEvidence{ConflictingBlock: lb, CommonHeight: common, ByzantineValidators: byz, TotalVotingPower: total, Timestamp: ts}
		al.add(&c11Item{Name: "lc/" + name, Class: "lc:" + class, Ev: ev, Base: base, Raw: raw, Misb: misb})
	}
	setA := func() *types.ValidatorSet { return ch.vals[4].Copy() }
	lastOf := func(vs *types.ValidatorSet) int { return ch.c11KeyIndex(vs.Validators[len(vs.Validators)-1].Address) }
	bogusApp := func(h *types.Header) { h.AppHash = crypto.Sha256([]byte("c11-lunatic-app-hash")) }

	// --- lunatic: common 4 (epoch A), conflicting block at 6 claiming epoch A's set and a bogus app hash
	lun := c11LCSpec{common: 4, confH: 6, vals: setA(), edit: bogusApp, kind: c11Signers(3)}
	lunLB := ch.c11LightBlock(lun)
	byz3 := ch.c11ValsOf(4, 0, 1, 2)
	put("lunatic", "lunatic:genuine", "lunatic-6", true, false, lunLB, 4, byz3, 40, c11T(4))
	lun4 := lun
	lun4.vals, lun4.kind = setA(), c11Signers()
	put("lunatic-4sig", "lunatic:genuine-all-sign", "lunatic-6", true, false, ch.c11LightBlock(lun4), 4, ch.c11ValsOf(4, 0, 1, 2, 3), 40, c11T(4))
	// the last slot (never reached by the early-exit commit checks) carries garbage, yet its owner is listed as byzantine
	{
		s := lun
		s.vals = setA()
		last := lastOf(s.vals)
		s.kind = c11Kinds(map[int]int{last: 2})
		put("lunatic-unsigned-member-listed", "lunatic:listed-byzantine-validator-did-not-sign", "lunatic-6-frame", false, false,
			ch.c11LightBlock(s), 4, ch.c11ValsOf(4, 0, 1, 2, 3), 40, c11T(4))
	}
	// a properly signed slot is re-labelled with the address of a validator that did not sign; the commit checks either
	// go by slot index or stop before they reach it, so the named validator ends up in the byzantine list
	{
		s := lun
		s.vals = setA()
		lb := ch.c11LightBlock(s)
		lastSigner := -1
		for i, cs := range lb.Commit.Signatures {
			if cs.ForBlock() {
				lastSigner = i
			}
		}
		relabelled := ch.c11KeyIndex(lb.Commit.Signatures[lastSigner].ValidatorAddress)
		lb.Commit.Signatures[lastSigner].ValidatorAddress = ch.keys[3].PubKey().Address()
		listed := []int{3}
		for _, ki := range []int{0, 1, 2} {
			if ki != relabelled {
				listed = append(listed, ki)
			}
		}
		put("lunatic-slot-relabelled", "lunatic:listed-byzantine-validator-named-in-relabelled-slot", "lunatic-6-frame2", false, false,
			lb, 4, ch.c11ValsOf(4, listed...), 40, c11T(4))
	}
	put("lunatic/byz-drop", "lunatic:byzantine-list-short", "lunatic-6", false, false, lunLB, 4, byz3[:2], 40, c11T(4))
	put("lunatic/byz-extra", "lunatic:byzantine-list-extra", "lunatic-6", false, false, lunLB, 4, ch.c11ValsOf(4, 0, 1, 2, 3), 40, c11T(4))
	put("lunatic/total+1", "lunatic:total-power", "lunatic-6", false, false, lunLB, 4, byz3, 41, c11T(4))
	put("lunatic/timestamp+1s", "lunatic:timestamp", "lunatic-6", false, false, lunLB, 4, byz3, 40, c11T(4).Add(time.Second))
	put("lunatic/common-3-raw", "lunatic:common-height-only", "lunatic-6", false, false, lunLB, 3, byz3, 40, c11T(4))
	// any height whose validators hold 1/3 of the signatures is an honest "common height": same attack, other hash
	put("lunatic/common-3", "lunatic:genuine-other-common-height", "lunatic-6", true, false, lunLB, 3, ch.c11ValsOf(3, 0, 1, 2), 40, c11T(3))
	{
		s := lun
		s.vals = types.NewValidatorSet([]*types.Validator{types.NewValidator(ch.keys[3].PubKey(), 10)})
		s.kind = c11Signers()
		put("lunatic/below-third", "lunatic:signers-below-one-third-of-common", "lunatic-6-low", false, false, ch.c11LightBlock(s), 4, ch.c11ValsOf(4, 3), 40, c11T(4))
	}
	{
		s := lun
		s.vals, s.kind = setA(), c11Signers(2, 3)
		put("lunatic/below-two-thirds", "lunatic:signers-below-two-thirds-of-own-set", "lunatic-6-low2", false, false, ch.c11LightBlock(s), 4, ch.c11ValsOf(4, 0, 1), 40, c11T(4))
	}
	{
		s := lun
		s.vals = setA()
		// of the three signers the one in the middle of the set order is garbage: 2/3 is not reached without it
		order := []int{}
		for _, v := range s.vals.Validators {
			if ki := ch.c11KeyIndex(v.Address); ki != 3 {
				order = append(order, ki)
			}
		}
		s.kind = c11Kinds(map[int]int{3: 1, order[1]: 2})
		put("lunatic/needed-sig-garbage", "lunatic:needed-signature-invalid", "lunatic-6-bad", false, false, ch.c11LightBlock(s), 4, byz3, 40, c11T(4))
	}
	if full {
		rev := []*types.Validator{byz3[2], byz3[1], byz3[0]}
		put("lunatic/byz-reversed", "lunatic:byzantine-list-order", "lunatic-6", false, false, lunLB, 4, rev, 40, c11T(4))
		pw := c11ByPower(byz3)
		pw[0].VotingPower++
		put("lunatic/byz-power", "lunatic:byzantine-power", "lunatic-6", false, false, lunLB, 4, pw, 40, c11T(4))
		put("lunatic/timestamp-of-3", "lunatic:timestamp", "lunatic-6", false, false, lunLB, 4, byz3, 40, c11T(3))
		s := lun
		s.vals, s.chain = setA(), c11OtherChain
		put("lunatic/other-chain", "lunatic:signed-for-other-chain", "lunatic-6-chain", false, false, ch.c11LightBlock(s), 4, byz3, 40, c11T(4))
		put("no-conflict", "no-conflict:canonical-block", "none", false, false,
			ch.c11LightBlock(c11LCSpec{confH: 6, useCanonical: true}), 4, ch.c11ValsOf(4, 0, 1, 2), 40, c11T(4))
	}

	// --- forward lunatic: a block far above the head whose time is not after blocks the node already has
	{
		s := c11LCSpec{common: 4, confH: 20, vals: setA(), kind: c11Signers(3), edit: func(h *types.Header) {
			bogusApp(h)
			h.Time = c11T(4).Add(time.Second)
		}}
		put("forward-lunatic", "forward-lunatic:genuine", "forward-20", true, false, ch.c11LightBlock(s), 4, byz3, 40, c11T(4))
	}

	// --- equivocation at 6 (epoch B; canonical commit lacks v4): v0, v1, v4 sign a second block in round 0
	otherData := func(tag string) func(h *types.Header) {
		return func(h *types.Header) { h.DataHash = crypto.Sha256([]byte("c11-other-data-" + tag)) }
	}
	eq := c11LCSpec{common: 6, confH: 6, vals: ch.vals[6].Copy(), edit: otherData("eq"), kind: c11Signers(2)}
	eqLB := ch.c11LightBlock(eq)
	eqByz := ch.c11ValsOf(6, 0, 1) // signed both
	put("equivocation", "equivocation:genuine", "equiv-6", true, false, eqLB, 6, eqByz, 45, c11T(6))
	put("equivocation/byz-drop", "equivocation:byzantine-list-short", "equiv-6", false, false, eqLB, 6, eqByz[:1], 45, c11T(6))
	put("equivocation/byz-extra", "equivocation:byzantine-list-extra", "equiv-6", false, false, eqLB, 6, ch.c11ValsOf(6, 0, 1, 4), 45, c11T(6))
	{
		// v2's slot is a nil vote with a garbage signature; v2 is then listed as having voted twice
		s := eq
		s.vals, s.kind = ch.vals[6].Copy(), c11Kinds(map[int]int{2: 3})
		put("equivocation-unsigned-member-listed", "equivocation:listed-byzantine-validator-did-not-sign", "equiv-6-frame", false, false,
			ch.c11LightBlock(s), 6, ch.c11ValsOf(6, 0, 1, 2), 45, c11T(6))
	}
	if full {
		put("equivocation/total+1", "equivocation:total-power", "equiv-6", false, false, eqLB, 6, eqByz, 46, c11T(6))
		put("equivocation/timestamp+1s", "equivocation:timestamp", "equiv-6", false, false, eqLB, 6, eqByz, 45, c11T(6).Add(time.Second))
		s := eq
		s.vals, s.kind = ch.vals[6].Copy(), c11Kinds(map[int]int{2: 1, 1: 2})
		put("equivocation/needed-sig-garbage", "equivocation:needed-signature-invalid", "equiv-6-bad", false, false, ch.c11LightBlock(s), 6, eqByz, 45, c11T(6))
	}

	// --- amnesia at 5 (epoch A): a second block committed in another round; nobody can be singled out
	am := c11LCSpec{common: 5, confH: 5, vals: ch.vals[5].Copy(), edit: otherData("am"), round: 1, kind: c11Signers(3)}
	amLB := ch.c11LightBlock(am)
	put("amnesia", "amnesia:genuine", "amnesia-5", true, false, amLB, 5, nil, 40, c11T(5))
	// the same evidence as an in-memory value that never crossed the wire (nil instead of empty validator list)
	put("amnesia-undecoded", "amnesia:genuine-undecoded", "amnesia-5", true, true, amLB, 5, nil, 40, c11T(5))
	put("amnesia/byz-nonempty", "amnesia:byzantine-list-nonempty", "amnesia-5", false, false, amLB, 5, ch.c11ValsOf(5, 0), 40, c11T(5))
}

func c11BuildAlphabet(ch *c11Chain, thorough bool) *c11Alphabet {
	al := &c11Alphabet{byName: map[string]int{}, byWire: map[string]int{}}
	ch.c11AddDV(al, 6, true)
	ch.c11AddDV(al, 3, thorough)
	ch.c11AddDV(al, 8, thorough)
	// the last height of validator epoch A: the Update that decides it has Validators (epoch B) != LastValidators (epoch A),
	// which is where evidence built from reported votes must still use the set of the votes' own height
	ch.c11AddDV(al, c11ChangeAt-1, false)
	ch.c11AddLC(al, thorough)
	return al
}
