package evidence

// C17 part "evidence" — hostile-but-decodable EvidenceList messages against the real evidence
// Reactor over a real Pool (real state store and block store with 10 blocks, one validator whose key
// the harness holds, so both well-formed and mutated evidence can be produced).
//
// Messages: lists of 0/1/2 items; each item is a duplicate-vote or light-client-attack evidence
// with one numeric field moved over its boundary menu, nil sub-messages, or both votes equal.
// Receive runs under the connection's recover (panic = peer error, allowed). Oracle: the pool's
// lock is free afterwards; the pool holds no more pending evidence than the peer sent and no more
// bytes than the evidence channel's message capacity; what consensus does with the pool in its
// unprotected goroutine (PendingEvidence, CheckEvidence on it, Update at the next height) does
// not panic.

import (
	"fmt"
	"math"
	"net"
	"sync"
	"sync/atomic"
	"testing"
	"time"

	"github.com/gogo/protobuf/proto"
	dbm "github.com/tendermint/tm-db"

	"github.com/tendermint/tendermint/config"
	"github.com/tendermint/tendermint/crypto/ed25519"
	"github.com/tendermint/tendermint/crypto/tmhash"
	"github.com/tendermint/tendermint/internal/verif/vr"
	"github.com/tendermint/tendermint/libs/log"
	"github.com/tendermint/tendermint/libs/service"
	"github.com/tendermint/tendermint/p2p"
	tmconn "github.com/tendermint/tendermint/p2p/conn"
	tmproto "github.com/tendermint/tendermint/proto/tendermint/types"
	tmversion "github.com/tendermint/tendermint/proto/tendermint/version"
	sm "github.com/tendermint/tendermint/state"
	"github.com/tendermint/tendermint/store"
	"github.com/tendermint/tendermint/types"
	"github.com/tendermint/tendermint/version"
)

type c17Peer struct {
	id      p2p.ID
	mtx     sync.Mutex
	kv      map[string]interface{}
	stopped int32
}

var _ p2p.Peer = (*c17Peer)(nil)
var _ service.Service = (*c17Peer)(nil)

func newC17Peer(id string) *c17Peer                { return &c17Peer{id: p2p.ID(id), kv: map[string]interface{}{}} }
func (p *c17Peer) Start() error                    { return nil }
func (p *c17Peer) OnStart() error                  { return nil }
func (p *c17Peer) Stop() error                     { atomic.AddInt32(&p.stopped, 1); return nil }
func (p *c17Peer) OnStop()                         {}
func (p *c17Peer) Reset() error                    { return nil }
func (p *c17Peer) OnReset() error                  { return nil }
func (p *c17Peer) Quit() <-chan struct{}           { return make(chan struct{}) }
func (p *c17Peer) String() string                  { return "c17Peer{" + string(p.id) + "}" }
func (p *c17Peer) SetLogger(log.Logger)            {}
func (p *c17Peer) IsRunning() bool                 { return atomic.LoadInt32(&p.stopped) == 0 }
func (p *c17Peer) FlushStop()                      {}
func (p *c17Peer) ID() p2p.ID                      { return p.id }
func (p *c17Peer) RemoteIP() net.IP                { return net.IPv4(10, 0, 0, 17) }
func (p *c17Peer) RemoteAddr() net.Addr            { return &net.TCPAddr{IP: p.RemoteIP(), Port: 26656} }
func (p *c17Peer) IsOutbound() bool                { return false }
func (p *c17Peer) IsPersistent() bool              { return false }
func (p *c17Peer) CloseConn() error                { return nil }
func (p *c17Peer) NodeInfo() p2p.NodeInfo          { return p2p.DefaultNodeInfo{} }
func (p *c17Peer) Status() tmconn.ConnectionStatus { return tmconn.ConnectionStatus{} }
func (p *c17Peer) SocketAddr() *p2p.NetAddress     { return p2p.NewNetAddressIPPort(p.RemoteIP(), 26656) }
func (p *c17Peer) Send(byte, []byte) bool          { return true }
func (p *c17Peer) TrySend(byte, []byte) bool       { return true }
func (p *c17Peer) Set(k string, v interface{})     { p.mtx.Lock(); p.kv[k] = v; p.mtx.Unlock() }
func (p *c17Peer) Get(k string) interface{}        { p.mtx.Lock(); defer p.mtx.Unlock(); return p.kv[k] }
func (p *c17Peer) SetRemovalFailed()               {}
func (p *c17Peer) GetRemovalFailed() bool          { return false }

const c17EChain = "c17-evidence"
const c17EHeight = int64(10)

var c17ETime = time.Date(2022, 5, 1, 0, 0, 0, 0, time.UTC)

type c17EEnv struct {
	pv     types.MockPV
	valSet *types.ValidatorSet
}

func newC17EEnv() *c17EEnv {
	pv := types.NewMockPVWithParams(ed25519.GenPrivKeyFromSecret([]byte("c17-evidence-val")), false, false)
	pk, _ := pv.GetPubKey()
	val := &types.Validator{Address: pk.Address(), VotingPower: 10, PubKey: pk}
	return &c17EEnv{pv: pv, valSet: &types.ValidatorSet{Validators: []*types.Validator{val}, Proposer: val}}
}

func (e *c17EEnv) newPool() (*Pool, sm.State) {
	stateStore := sm.NewStore(dbm.NewMemDB(), sm.StoreOptions{})
	state := sm.State{ChainID: c17EChain, InitialHeight: 1, LastBlockHeight: c17EHeight, LastBlockTime: c17ETime.Add(time.Duration(c17EHeight) * time.Minute),
		Validators: e.valSet, NextValidators: e.valSet.CopyIncrementProposerPriority(1), LastValidators: e.valSet, LastHeightValidatorsChanged: 1,
		ConsensusParams: tmproto.ConsensusParams{Block: tmproto.BlockParams{MaxBytes: 22020096, MaxGas: -1},
			Evidence: tmproto.EvidenceParams{MaxAgeNumBlocks: 20, MaxAgeDuration: 20 * time.Minute, MaxBytes: 1000}}}
	for i := int64(0); i <= c17EHeight; i++ {
		s := state
		s.LastBlockHeight = i
		if err := stateStore.Save(s); err != nil {
			panic(err)
		}
	}
	bs := store.NewBlockStore(dbm.NewMemDB())
	addr := e.valSet.Validators[0].Address
	mk := func(h int64, bid types.BlockID) *types.Commit {
		if h == 0 {
			return types.NewCommit(0, 0, types.BlockID{}, nil)
		}
		return types.NewCommit(h, 0, bid, []types.CommitSig{{BlockIDFlag: types.BlockIDFlagCommit, ValidatorAddress: addr, Timestamp: c17ETime, Signature: []byte("Signature")}})
	}
	last := mk(0, types.BlockID{})
	for i := int64(1); i <= c17EHeight; i++ {
		block, _ := state.MakeBlock(i, []types.Tx{}, last, nil, addr)
		block.Header.Time = c17ETime.Add(time.Duration(i) * time.Minute)
		block.Header.Version = tmversion.Consensus{Block: version.BlockProtocol, App: 1}
		ps := block.MakePartSet(types.BlockPartSizeBytes)
		last = mk(i, types.BlockID{Hash: block.Hash(), PartSetHeader: ps.Header()})
		bs.SaveBlock(block, ps, last)
	}
	pool, err := NewPool(dbm.NewMemDB(), stateStore, bs)
	if err != nil {
		panic(err)
	}
	pool.SetLogger(log.NewNopLogger())
	return pool, state
}

func (e *c17EEnv) vote(h int64, r int32, idx int32, hash byte) *types.Vote {
	v := &types.Vote{Type: tmproto.PrecommitType, Height: h, Round: r, ValidatorIndex: idx, ValidatorAddress: e.valSet.Validators[0].Address,
		Timestamp: c17ETime.Add(time.Duration(h) * time.Minute),
		BlockID:   types.BlockID{Hash: tmhash.Sum([]byte{hash}), PartSetHeader: types.PartSetHeader{Total: 1, Hash: tmhash.Sum([]byte{hash, 1})}}}
	pv := v.ToProto()
	if err := e.pv.SignVote(c17EChain, pv); err != nil {
		panic(err)
	}
	v.Signature = pv.Signature
	return v
}

type c17ECase struct {
	Items []c17EItem `json:"items"`
	Kind  int        `json:"kind"` // 0 evidence list, 1 garbage bytes
}

type c17EItem struct {
	Type  string `json:"type"`  // dup | lca | empty
	Field string `json:"field"` // which field is varied
	V     int64  `json:"v"`
}

// item builds the proto evidence: a valid base with one edit.
func (e *c17EEnv) item(pool *Pool, it c17EItem) tmproto.Evidence {
	switch it.Type {
	case "dup":
		h := int64(8)
		if it.Field == "height" {
			h = it.V
		}
		va, vb := e.vote(h, 0, 0, 1), e.vote(h, 0, 0, 2)
		if va.BlockID.Key() > vb.BlockID.Key() {
			va, vb = vb, va
		}
		ev := &types.DuplicateVoteEvidence{VoteA: va, VoteB: vb, TotalVotingPower: 10, ValidatorPower: 10, Timestamp: c17ETime.Add(time.Duration(h) * time.Minute)}
		pb := ev.ToProto()
		switch it.Field {
		case "total_power":
			pb.TotalVotingPower = it.V
		case "validator_power":
			pb.ValidatorPower = it.V
		case "vote_a_nil":
			pb.VoteA = nil
		case "vote_b_nil":
			pb.VoteB = nil
		case "same_votes":
			pb.VoteB = pb.VoteA
		case "round_b":
			pb.VoteB.Round = int32(it.V)
		case "index_a":
			pb.VoteA.ValidatorIndex = int32(it.V)
		case "index_both":
			pb.VoteA.ValidatorIndex, pb.VoteB.ValidatorIndex = int32(it.V), int32(it.V)
		case "height_b":
			pb.VoteB.Height = it.V
		case "type_b":
			pb.VoteB.Type = tmproto.SignedMsgType(it.V)
		case "zero_time":
			pb.Timestamp = time.Time{}
		case "sig_len":
			pb.VoteA.Signature = make([]byte, it.V)
		case "addr_len":
			pb.VoteA.ValidatorAddress = make([]byte, it.V)
		}
		return tmproto.Evidence{Sum: &tmproto.Evidence_DuplicateVoteEvidence{DuplicateVoteEvidence: pb}}
	case "lca":
		ch := int64(8)
		meta := pool.blockStore.LoadBlockMeta(ch + 1)
		hdr := meta.Header
		hdr.AppHash = []byte("forged-app-hash-forged-app-hash!")[:32]
		bid := types.BlockID{Hash: hdr.Hash(), PartSetHeader: types.PartSetHeader{Total: 1, Hash: tmhash.Sum([]byte("p"))}}
		vote, err := types.MakeVote(hdr.Height, bid, e.valSet, e.pv, c17EChain, hdr.Time)
		if err != nil {
			panic(err)
		}
		commit := types.NewCommit(hdr.Height, 0, bid, []types.CommitSig{vote.CommitSig()})
		ev := &types.LightClientAttackEvidence{
			ConflictingBlock:    &types.LightBlock{SignedHeader: &types.SignedHeader{Header: &hdr, Commit: commit}, ValidatorSet: e.valSet},
			CommonHeight:        ch,
			ByzantineValidators: e.valSet.Validators,
			TotalVotingPower:    10,
			Timestamp:           pool.blockStore.LoadBlockMeta(ch).Header.Time,
		}
		pb, err := ev.ToProto()
		if err != nil {
			panic(err)
		}
		switch it.Field {
		case "common_height":
			pb.CommonHeight = it.V
		case "total_power":
			pb.TotalVotingPower = it.V
		case "block_nil":
			pb.ConflictingBlock = nil
		case "signed_header_nil":
			pb.ConflictingBlock.SignedHeader = nil
		case "header_nil":
			pb.ConflictingBlock.SignedHeader.Header = nil
		case "commit_nil":
			pb.ConflictingBlock.SignedHeader.Commit = nil
		case "valset_nil":
			pb.ConflictingBlock.ValidatorSet = nil
		case "valset_empty":
			pb.ConflictingBlock.ValidatorSet.Validators = nil
			pb.ConflictingBlock.ValidatorSet.Proposer = nil
		case "byz_nil_entry":
			pb.ByzantineValidators = append(pb.ByzantineValidators, &tmproto.Validator{}) // what a zero-length element decodes to
		case "byz_empty":
			pb.ByzantineValidators = nil
		case "byz_power":
			pb.ByzantineValidators[0].VotingPower = it.V
		case "header_height":
			pb.ConflictingBlock.SignedHeader.Header.Height = it.V
		case "commit_height":
			pb.ConflictingBlock.SignedHeader.Commit.Height = it.V
		case "commit_round":
			pb.ConflictingBlock.SignedHeader.Commit.Round = int32(it.V)
		case "commit_sigs_none":
			pb.ConflictingBlock.SignedHeader.Commit.Signatures = nil
		case "commit_sigs_two":
			s := pb.ConflictingBlock.SignedHeader.Commit.Signatures
			pb.ConflictingBlock.SignedHeader.Commit.Signatures = append(s, s[0])
		case "val_power":
			pb.ConflictingBlock.ValidatorSet.Validators[0].VotingPower = it.V
		case "valset_total":
			pb.ConflictingBlock.ValidatorSet.TotalVotingPower = it.V
		case "zero_time":
			pb.Timestamp = time.Time{}
		}
		return tmproto.Evidence{Sum: &tmproto.Evidence_LightClientAttackEvidence{LightClientAttackEvidence: pb}}
	}
	return tmproto.Evidence{}
}

func (e *c17EEnv) run(c c17ECase) (key, what, outcome string) {
	pool, state := e.newPool()
	r := NewReactor(pool)
	r.SetLogger(log.NewNopLogger())
	tr := p2p.NewMultiplexTransport(p2p.DefaultNodeInfo{}, p2p.NodeKey{}, tmconn.DefaultMConnConfig())
	sw := p2p.NewSwitch(config.DefaultP2PConfig(), tr)
	sw.SetLogger(log.NewNopLogger())
	sw.AddReactor("EVIDENCE", r)
	peer := newC17Peer("hostile")
	var bz []byte
	if c.Kind == 1 {
		bz = []byte{0x0a, 0xff, 0xff, 0xff, 0x0f, 0x01}
	} else {
		l := &tmproto.EvidenceList{}
		for _, it := range c.Items {
			l.Evidence = append(l.Evidence, e.item(pool, it))
		}
		var err error
		bz, err = proto.Marshal(l)
		if err != nil {
			panic(err)
		}
	}
	recvPanic := ""
	func() {
		defer func() {
			if x := recover(); x != nil {
				recvPanic = fmt.Sprint(x)
			}
		}()
		r.Receive(EvidenceChannel, peer, bz)
	}()
	desc := fmt.Sprintf("%+v", c)
	if !pool.mtx.TryLock() {
		return "evidence:pool-mutex-left-locked-after-Receive", "evidence pool lock still held after Receive (panic=" + recvPanic + "): consensus would block in Update: " + desc, ""
	}
	pool.mtx.Unlock()
	pending, size := pool.PendingEvidence(-1)
	if len(pending) > len(c.Items) || size > int64(maxMsgSize) {
		return "evidence:pool-holds-more-than-the-peer-sent", fmt.Sprintf("%d pending items / %d bytes after a %d-item list: %s", len(pending), size, len(c.Items), desc), ""
	}
	var cons string
	func() {
		defer func() {
			if x := recover(); x != nil {
				cons = fmt.Sprint(x)
			}
		}()
		_ = pool.CheckEvidence(pending)
		_, _ = pool.PendingEvidence(state.ConsensusParams.Evidence.MaxBytes)
		s2 := state
		s2.LastBlockHeight++
		s2.LastBlockTime = s2.LastBlockTime.Add(time.Minute)
		pool.Update(s2, pending)
		_, _ = pool.PendingEvidence(-1)
	}()
	if cons != "" {
		return "evidence:consensus-side-pool-operation-panics-after-hostile-evidence", "CheckEvidence/PendingEvidence/Update panicked (called from the consensus goroutine): " + cons + ": " + desc, ""
	}
	out := "accepted"
	if recvPanic != "" {
		if len(recvPanic) > 48 {
			recvPanic = recvPanic[:48]
		}
		out = "recv-panic(peer-error: " + recvPanic + ")"
	} else if atomic.LoadInt32(&peer.stopped) > 0 {
		out = "peer-stopped"
	}
	return "", "", fmt.Sprintf("%s:pending=%d", out, len(pending))
}

func TestVerifC17Evidence(t *testing.T) {
	r := vr.Start("C17", "evidence", 40*time.Second, 5*time.Minute)
	defer r.Finish()
	r.Rule = "odometer over evidence lists of length 0/1/2 whose items are a valid duplicate-vote or light-client-attack evidence with one field moved over its boundary menu (or a nil sub-message); all ordered pairs of items (thorough), pairs with a valid first item (quick)"
	e := newC17EEnv()
	var rc c17ECase
	if rep, skip := r.ReplayCase(&rc); skip {
		return
	} else if rep {
		r.Eval()
		if k, w, _ := e.run(rc); k != "" {
			r.Violation(k, w, rc)
		}
		return
	}
	i64 := []int64{-1, 0, 1, 9, 10, 11, math.MaxInt32, math.MaxInt64}
	var items []c17EItem
	items = append(items, c17EItem{Type: "dup", Field: "valid"}, c17EItem{Type: "lca", Field: "valid"}, c17EItem{Type: "empty"})
	for _, f := range []string{"vote_a_nil", "vote_b_nil", "same_votes", "zero_time"} {
		items = append(items, c17EItem{Type: "dup", Field: f})
	}
	for _, f := range []string{"height", "total_power", "validator_power", "round_b", "index_a", "index_both", "height_b"} {
		for _, v := range i64 {
			items = append(items, c17EItem{Type: "dup", Field: f, V: v})
		}
	}
	for _, v := range []int64{0, 1, 2, 3, 32} {
		items = append(items, c17EItem{Type: "dup", Field: "type_b", V: v})
	}
	for _, v := range []int64{0, 63, 64, 65} {
		items = append(items, c17EItem{Type: "dup", Field: "sig_len", V: v})
	}
	for _, v := range []int64{0, 19, 21} {
		items = append(items, c17EItem{Type: "dup", Field: "addr_len", V: v})
	}
	for _, f := range []string{"block_nil", "signed_header_nil", "header_nil", "commit_nil", "valset_nil", "valset_empty", "byz_nil_entry", "byz_empty", "commit_sigs_none", "commit_sigs_two", "zero_time"} {
		items = append(items, c17EItem{Type: "lca", Field: f})
	}
	for _, f := range []string{"common_height", "total_power", "byz_power", "header_height", "commit_height", "commit_round", "val_power", "valset_total"} {
		for _, v := range i64 {
			items = append(items, c17EItem{Type: "lca", Field: f, V: v})
		}
	}
	var cases []c17ECase
	cases = append(cases, c17ECase{Kind: 1}, c17ECase{})
	for _, a := range items {
		cases = append(cases, c17ECase{Items: []c17EItem{a}})
	}
	for i, a := range items {
		for _, b := range items {
			if vr.Thorough() || i < 2 {
				cases = append(cases, c17ECase{Items: []c17EItem{a, b}})
			}
		}
	}
	for k, c := range cases {
		if !r.Mine(k + 1) {
			continue
		}
		if k%32 == 0 && r.Deadline("C17 evidence enumeration") {
			break
		}
		r.Eval()
		r.NTCount(1)
		key, what, out := e.run(c)
		if key != "" {
			if !vr.Confirm(3, fmt.Errorf("%s", key), func() error {
				k2, _, _ := e.run(c)
				if k2 == "" {
					return nil
				}
				return fmt.Errorf("%s", k2)
			}) {
				r.Cap("unstable failure " + key)
				continue
			}
			r.Violation(key, what, c)
			r.Outcome("violation")
			continue
		}
		r.Outcome(out)
		if k%97 == 1 {
			r.Sample(c)
		}
	}
	r.Bound = fmt.Sprintf("%d item variants; lists of 0, 1 and 2 items (%d cases)", len(items), len(cases))
	if r.Shard == 0 {
		r.Set("cases_enumerated_total", len(cases))
	}
}
