package evidence

// C11 — chain fixture: a real, fully validated tendermint chain generated once per process through the
// production BlockExecutor.ApplyBlock / BlockStore.SaveBlock / sm.Store.Save, with a validator change in the
// middle, MaxAgeNumBlocks = 3, MaxAgeDuration = 30s and block times chosen so that height-expiry and
// time-expiry disagree at several heights. Per-height snapshots of the two databases let every explored
// pool instance start from byte-identical real stores.

import (
	"bytes"
	"fmt"
	"sort"
	"time"

	dbm "github.com/tendermint/tm-db"

	abci "github.com/tendermint/tendermint/abci/types"
	"github.com/tendermint/tendermint/crypto"
	"github.com/tendermint/tendermint/crypto/ed25519"
	"github.com/tendermint/tendermint/libs/log"
	mmock "github.com/tendermint/tendermint/mempool/mock"
	tmproto "github.com/tendermint/tendermint/proto/tendermint/types"
	"github.com/tendermint/tendermint/proxy"
	sm "github.com/tendermint/tendermint/state"
	"github.com/tendermint/tendermint/store"
	"github.com/tendermint/tendermint/types"
)

const (
	c11ChainID    = "verif-c11"
	c11OtherChain = "verif-c11-other"
	c11N          = 13 // chain length
	c11MaxBlocks  = int64(3)
	c11MaxDur     = 30 * time.Second
	c11ChangeAt   = int64(6) // first height of validator epoch B
)

// block time of height h, in seconds after genesis. Gaps: 10,10,5,5,5,5,10,50,10,...
//
//	evidence@3 (t=20): height-expired from H=7, time-expired from H=9 (dur(8)=30 is the exact boundary)  → expired from H=9
//	evidence@4 (t=25): height-expired from H=8, time-expired from H=9                                      → expired from H=9
//	evidence@5 (t=30): height-expired from H=9, time-expired from H=9                                      → expired from H=9
//	evidence@6 (t=35): time-expired from H=9, height-expired from H=10 (H=9 is the exact height boundary)  → expired from H=10
//	evidence@8 (t=50): time-expired from H=9, height-expired from H=12                                     → expired from H=12
var c11Secs = []int64{0, 0, 10, 20, 25, 30, 35, 40, 50, 100, 110, 120, 130, 140}

var c11Genesis = time.Date(2022, 1, 1, 0, 0, 0, 0, time.UTC)

func c11T(h int64) time.Time { return c11Genesis.Add(time.Duration(c11Secs[h]) * time.Second) }

type c11App struct {
	abci.BaseApplication
	updates map[int64][]abci.ValidatorUpdate
}

func (a *c11App) EndBlock(req abci.RequestEndBlock) abci.ResponseEndBlock {
	return abci.ResponseEndBlock{ValidatorUpdates: a.updates[req.Height]}
}

type c11Chain struct {
	keys      []crypto.PrivKey // 0..4 validators (3 leaves, 4 joins at c11ChangeAt), 5 = outsider
	keyOf     map[string]crypto.PrivKey
	blocks    []*types.Block
	parts     []*types.PartSet
	seen      []*types.Commit
	states    []sm.State            // states[h] = state after block h (states[0] = genesis)
	vals      []*types.ValidatorSet // vals[h] = validator set of height h
	snapBlock []map[string][]byte
	snapState []map[string][]byte
	// which validators are absent from the canonical commit of a height
	absent map[int64]int // height -> key index
}

func c11Snap(db dbm.DB) map[string][]byte {
	m := map[string][]byte{}
	it, err := db.Iterator(nil, nil)
	if err != nil {
		panic(err)
	}
	defer it.Close()
	for ; it.Valid(); it.Next() {
		m[string(it.Key())] = append([]byte{}, it.Value()...)
	}
	return m
}

func c11Restore(m map[string][]byte) dbm.DB {
	db := dbm.NewMemDB()
	for k, v := range m {
		if err := db.Set([]byte(k), v); err != nil {
			panic(err)
		}
	}
	return db
}

func c11SignVote(k crypto.PrivKey, chain string, v *types.Vote) *types.Vote {
	sig, err := k.Sign(types.VoteSignBytes(chain, v.ToProto()))
	if err != nil {
		panic(err)
	}
	v.Signature = sig
	return v
}

// c11MakeCommit signs a commit for (height, round, blockID) by the members of vals in set order; kind decides
// per key index what the slot holds: 0 for-block, 1 absent, 2 garbage signature (flag commit), 3 nil vote with garbage signature
func (ch *c11Chain) c11MakeCommit(chain string, height int64, round int32, bid types.BlockID, vals *types.ValidatorSet,
	ts time.Time, kind func(addr []byte) int) *types.Commit {
	sigs := make([]types.CommitSig, len(vals.Validators))
	for i, val := range vals.Validators {
		switch kind(val.Address) {
		case 1:
			sigs[i] = types.NewCommitSigAbsent()
		case 2:
			g := make([]byte, 64)
			for j := range g {
				g[j] = byte(j*5 + 1)
			}
			sigs[i] = types.CommitSig{BlockIDFlag: types.BlockIDFlagCommit, ValidatorAddress: val.Address, Timestamp: ts, Signature: g}
		case 3:
			g := make([]byte, 64)
			for j := range g {
				g[j] = byte(j*3 + 2)
			}
			sigs[i] = types.CommitSig{BlockIDFlag: types.BlockIDFlagNil, ValidatorAddress: val.Address, Timestamp: ts, Signature: g}
		default:
			k := ch.keyOf[string(val.Address)]
			v := c11SignVote(k, chain, &types.Vote{Type: tmproto.PrecommitType, Height: height, Round: round, BlockID: bid,
				Timestamp: ts, ValidatorAddress: val.Address, ValidatorIndex: int32(i)})
			sigs[i] = v.CommitSig()
		}
	}
	return types.NewCommit(height, round, bid, sigs)
}

func c11ByPower(vs []*types.Validator) []*types.Validator {
	out := make([]*types.Validator, len(vs))
	for i, v := range vs {
		out[i] = v.Copy()
	}
	sort.SliceStable(out, func(i, j int) bool {
		if out[i].VotingPower == out[j].VotingPower {
			return bytes.Compare(out[i].Address, out[j].Address) < 0
		}
		return out[i].VotingPower > out[j].VotingPower
	})
	return out
}

// c11EvMaxBytes is the chain's Evidence.MaxBytes; part "smalllimit" lowers it before the chain is built so that the pending
// evidence of a few items exceeds what one block may carry.
var c11EvMaxBytes int64 = 1 << 20

func c11ConsensusParams() tmproto.ConsensusParams {
	p := *types.DefaultConsensusParams()
	p.Evidence.MaxAgeNumBlocks = c11MaxBlocks
	p.Evidence.MaxAgeDuration = c11MaxDur
	p.Evidence.MaxBytes = c11EvMaxBytes
	return p
}

// c11BuildChain runs the production block pipeline for c11N heights.
func c11BuildChain() *c11Chain {
	// ed25519 signing/verification are pure; the framework's memoisation overlay (rewrite set "ed25519memo") caches
	// their results because the search verifies the same few hundred signatures millions of times
	ed25519.SetVerifMemo(true)
	ch := &c11Chain{keyOf: map[string]crypto.PrivKey{}, absent: map[int64]int{6: 4, 4: 3}}
	for i := 0; i < 6; i++ {
		k := ed25519.GenPrivKeyFromSecret([]byte(fmt.Sprintf("verif-c11-key-%d", i)))
		ch.keys = append(ch.keys, k)
		ch.keyOf[string(k.PubKey().Address())] = k
	}
	cp := c11ConsensusParams()
	gen := &types.GenesisDoc{ChainID: c11ChainID, GenesisTime: c11T(1), InitialHeight: 1, ConsensusParams: &cp}
	for i := 0; i < 4; i++ {
		gen.Validators = append(gen.Validators, types.GenesisValidator{PubKey: ch.keys[i].PubKey(), Power: 10, Name: fmt.Sprintf("v%d", i)})
	}
	state, err := sm.MakeGenesisState(gen)
	if err != nil {
		panic(err)
	}
	app := &c11App{updates: map[int64][]abci.ValidatorUpdate{
		// returned at EndBlock(h) → in force from h+2
		c11ChangeAt - 2: {
			abci.Ed25519ValidatorUpdate(ch.keys[3].PubKey().Bytes(), 0),
			abci.Ed25519ValidatorUpdate(ch.keys[4].PubKey().Bytes(), 10),
			abci.Ed25519ValidatorUpdate(ch.keys[0].PubKey().Bytes(), 15),
		},
	}}
	pa := proxy.NewAppConns(proxy.NewLocalClientCreator(app))
	pa.SetLogger(log.NewNopLogger())
	if err := pa.Start(); err != nil {
		panic(err)
	}
	defer pa.Stop() //nolint:errcheck
	stateDB, blockDB := dbm.NewMemDB(), dbm.NewMemDB()
	ss := sm.NewStore(stateDB, sm.StoreOptions{DiscardABCIResponses: false})
	bs := store.NewBlockStore(blockDB)
	if err := ss.Save(state); err != nil {
		panic(err)
	}
	exec := sm.NewBlockExecutor(ss, log.NewNopLogger(), pa.Consensus(), mmock.Mempool{}, sm.EmptyEvidencePool{})
	ch.blocks = make([]*types.Block, c11N+1)
	ch.parts = make([]*types.PartSet, c11N+1)
	ch.seen = make([]*types.Commit, c11N+1)
	ch.states = make([]sm.State, c11N+1)
	ch.vals = make([]*types.ValidatorSet, c11N+2)
	ch.snapBlock = make([]map[string][]byte, c11N+1)
	ch.snapState = make([]map[string][]byte, c11N+1)
	ch.states[0] = state.Copy()
	ch.snapBlock[0], ch.snapState[0] = c11Snap(blockDB), c11Snap(stateDB)
	lastCommit := types.NewCommit(0, 0, types.BlockID{}, nil)
	for h := int64(1); h <= c11N; h++ {
		vals := state.Validators.Copy()
		ch.vals[h] = vals
		block, parts := state.MakeBlock(h, []types.Tx{types.Tx(fmt.Sprintf("tx-%d", h))}, lastCommit, nil, state.Validators.GetProposer().Address)
		bid := types.BlockID{Hash: block.Hash(), PartSetHeader: parts.Header()}
		if !block.Time.Equal(c11T(h)) {
			panic(fmt.Sprintf("C11 chain: block %d has time %v, want %v", h, block.Time, c11T(h)))
		}
		ns, _, err := exec.ApplyBlock(state, bid, block)
		if err != nil {
			panic(fmt.Sprintf("C11 chain: ApplyBlock(%d): %v", h, err))
		}
		var nextT time.Time
		if h < c11N {
			nextT = c11T(h + 1)
		} else {
			nextT = c11T(h).Add(10 * time.Second)
		}
		abs, hasAbs := ch.absent[h]
		commit := ch.c11MakeCommit(c11ChainID, h, 0, bid, vals, nextT, func(addr []byte) int {
			if hasAbs && bytes.Equal(addr, ch.keys[abs].PubKey().Address()) {
				return 1
			}
			return 0
		})
		bs.SaveBlock(block, parts, commit)
		ch.blocks[h], ch.parts[h], ch.seen[h] = block, parts, commit
		state = ns
		ch.states[h] = ns.Copy()
		ch.snapBlock[h], ch.snapState[h] = c11Snap(blockDB), c11Snap(stateDB)
		lastCommit = commit
	}
	ch.vals[c11N+1] = state.Validators.Copy()
	// sanity: the epoch change happened where the fixture says
	if ch.vals[c11ChangeAt-1].Size() != 4 || ch.vals[c11ChangeAt].TotalVotingPower() != 45 || ch.vals[c11ChangeAt-1].TotalVotingPower() != 40 {
		panic("C11 chain: validator change not where expected")
	}
	if ch.vals[c11ChangeAt].HasAddress(ch.keys[3].PubKey().Address()) || !ch.vals[c11ChangeAt].HasAddress(ch.keys[4].PubKey().Address()) {
		panic("C11 chain: validator change not as expected")
	}
	return ch
}

// refFresh: not expired by BOTH limits (the property's wording) at pool height H.
func c11Fresh(evH, H int64) bool {
	if evH > H {
		return true
	}
	return !(H-evH > c11MaxBlocks && c11T(H).Sub(c11T(evH)) > c11MaxDur)
}
