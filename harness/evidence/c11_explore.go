package evidence

// C11 — evidence is admitted exactly when valid, fresh and new, and is used once.
//
// Explicit-state search over operation sequences on the REAL evidence.Pool, backed by a real store.BlockStore
// and a real sm.Store (MemDB) holding a generated, fully validated chain. After every operation the pool is
// compared with a non-deterministic specification ("what the property statement permits / demands"), which
// follows the implementation wherever the statement leaves a choice (e.g. when expired items are dropped).
//
// States: a state is (root height, operation path). Real pools are not cloned: a state is re-created by building
// a fresh instance from the root snapshot and replaying its path. Non-mutating operations are executed on the
// same live instance (the full canonical encoding before and after is compared).
//
// Canonical encoding = the COMPLETE mutable state of the pool and its stores, not an abstraction:
// height (which fixes both stores' content, because the chain is fixed), every pending key with the digest of
// its value, every committed key, evidenceSize, the multiset of evidence in the gossip list, the consensus
// buffer (multiset of vote pairs), pruningHeight, pruningTime — plus the specification's own state. Two paths
// with the same encoding therefore drive identical deterministic code from identical data and have the same
// futures. The only normalisations are (a) order of the gossip list and of the buffer: no operation of the
// alphabet branches on either order (removeEvidenceFromList deletes by key, processConsensusBuffer handles
// every pair independently and de-duplicates through the store); (b) the path itself.

import (
	"crypto/sha256"
	"encoding/binary"
	"errors"
	"fmt"
	"math/rand"
	"reflect"
	"runtime"
	"sort"
	"strings"
	"sync"
	"testing"
	"time"

	dbm "github.com/tendermint/tm-db"

	"github.com/tendermint/tendermint/internal/verif/vr"
	"github.com/tendermint/tendermint/libs/clist"
	tmproto "github.com/tendermint/tendermint/proto/tendermint/types"
	sm "github.com/tendermint/tendermint/state"
	"github.com/tendermint/tendermint/store"
	"github.com/tendermint/tendermint/types"
)

// ---- operations ---------------------------------------------------------------------------------

const (
	c11OpAdd = iota
	c11OpCheck
	c11OpUpdate
	c11OpPending
	c11OpReport
	c11OpRestart
)

var c11OpNames = []string{"add", "check", "update", "pending", "report", "restart"}

type c11OpDef struct {
	kind  int
	items []int // indices into the alphabet
	max   int64
	swap  bool
}

// JSON form (replay files, samples)
type c11Op struct {
	K     string   `json:"op"`
	Items []string `json:"items,omitempty"`
	Max   int64    `json:"max,omitempty"`
	Swap  bool     `json:"swap,omitempty"`
}

type c11Case struct {
	Root int64   `json:"root_height"`
	Ops  []c11Op `json:"ops"`
}

func (al *c11Alphabet) toJSON(op *c11OpDef) c11Op {
	o := c11Op{K: c11OpNames[op.kind], Max: op.max, Swap: op.swap}
	for _, i := range op.items {
		o.Items = append(o.Items, al.items[i].Name)
	}
	return o
}

func (al *c11Alphabet) fromJSON(o c11Op) (*c11OpDef, error) {
	d := &c11OpDef{kind: -1, max: o.Max, swap: o.Swap}
	for k, n := range c11OpNames {
		if n == o.K {
			d.kind = k
		}
	}
	if d.kind < 0 {
		return nil, fmt.Errorf("unknown op %q", o.K)
	}
	for _, n := range o.Items {
		i, ok := al.byName[n]
		if !ok {
			return nil, fmt.Errorf("unknown item %q", n)
		}
		d.items = append(d.items, i)
	}
	return d, nil
}

// ---- instance -----------------------------------------------------------------------------------

type c11Inst struct {
	ch   *c11Chain
	al   *c11Alphabet
	H    int64
	evDB dbm.DB
	bDB  dbm.DB
	sDB  dbm.DB
	bs   *store.BlockStore
	ss   sm.Store
	pool *Pool
	// specification state
	rPending   map[string]string // evidence hash -> bytes currently stored (follows the pool where permitted)
	rCommitted map[string]bool
	rBuffer    []int // genuine duplicate-vote items whose votes were reported and not yet flushed
	// per-step scratch for outcome statistics
	out    []string
	hcache map[types.Evidence]string // evidence object (pointer identity) -> hash; evidence values are immutable
}

func c11NewInst(ch *c11Chain, al *c11Alphabet, root int64) *c11Inst {
	in := &c11Inst{ch: ch, al: al, H: root, evDB: dbm.NewMemDB(), rPending: map[string]string{}, rCommitted: map[string]bool{},
		hcache: map[types.Evidence]string{}}
	in.bDB, in.sDB = c11Restore(ch.snapBlock[root]), c11Restore(ch.snapState[root])
	in.bs = store.NewBlockStore(in.bDB)
	in.ss = sm.NewStore(in.sDB, sm.StoreOptions{DiscardABCIResponses: false})
	p, err := NewPool(in.evDB, in.ss, in.bs)
	if err != nil {
		panic("C11: NewPool on fresh stores: " + err.Error())
	}
	in.pool = p
	return in
}

// The fields of Pool this harness knows how to copy. If the struct differs (a changed tree), cloning is
// switched off and every state is re-created by replaying its path.
var c11PoolFields = []string{"logger", "evidenceStore", "evidenceList", "evidenceSize", "stateDB", "blockStore", "mtx", "state",
	"consensusBuffer", "pruningHeight", "pruningTime"}

var c11CanClone = c11Cloneable()

func c11Cloneable() bool {
	t := reflect.TypeOf(Pool{})
	if t.NumField() != len(c11PoolFields) {
		return false
	}
	for i, n := range c11PoolFields {
		if t.Field(i).Name != n {
			return false
		}
	}
	return true
}

// clone copies an instance reached by a pure replay so that several operations can be tried from the same
// state without replaying its path for each: the three databases are copied key by key, the stores are re-opened
// on the copies (as a restart would) and the pool's in-memory fields are copied one by one. A clone is only ever
// one operation away from a replayed state, and every successor found on a clone is re-created by pure replay
// when it is expanded and compared with the encoding recorded here (a difference is a harness fault).
func (in *c11Inst) clone() *c11Inst {
	c := &c11Inst{ch: in.ch, al: in.al, H: in.H, evDB: c11Restore(c11Snap(in.evDB)), bDB: c11Restore(c11Snap(in.bDB)), sDB: c11Restore(c11Snap(in.sDB)),
		rPending: map[string]string{}, rCommitted: map[string]bool{}, rBuffer: append([]int{}, in.rBuffer...), hcache: in.hcache}
	for k, v := range in.rPending {
		c.rPending[k] = v
	}
	for k, v := range in.rCommitted {
		c.rCommitted[k] = v
	}
	c.bs = store.NewBlockStore(c.bDB)
	c.ss = sm.NewStore(c.sDB, sm.StoreOptions{DiscardABCIResponses: false})
	p := in.pool
	p.mtx.Lock()
	np := &Pool{logger: p.logger, evidenceStore: c.evDB, evidenceList: clist.New(), evidenceSize: p.Size(), stateDB: c.ss, blockStore: c.bs,
		state: p.state, consensusBuffer: append(make([]duplicateVoteSet, 0), p.consensusBuffer...), pruningHeight: p.pruningHeight, pruningTime: p.pruningTime}
	p.mtx.Unlock()
	for e := p.evidenceList.Front(); e != nil; e = e.Next() {
		np.evidenceList.PushBack(e.Value)
	}
	c.pool = np
	return c
}

type c11Obs struct {
	pend map[string]string // hash -> bytes, read from the pending key space of the evidence DB
	size uint32
}

func (in *c11Inst) observe() c11Obs {
	o := c11Obs{pend: map[string]string{}, size: in.pool.Size()}
	it, err := dbm.IteratePrefix(in.evDB, []byte{baseKeyPending})
	if err != nil {
		panic(err)
	}
	defer it.Close()
	for ; it.Valid(); it.Next() {
		// fast path: the stored value is the wire form of an alphabet item
		if i, ok := in.al.byWire[string(it.Value())]; ok {
			o.pend[in.al.items[i].Hash] = string(in.al.items[i].Bz)
			continue
		}
		var pb tmproto.Evidence
		if err := pb.Unmarshal(it.Value()); err != nil {
			panic("C11: undecodable pending value: " + err.Error())
		}
		ev, err := types.EvidenceFromProto(&pb)
		if err != nil {
			// stored evidence that no longer decodes: keep it visible under its key
			o.pend["undecodable:"+string(it.Key())] = string(it.Value())
			continue
		}
		o.pend[string(ev.Hash())] = string(ev.Bytes())
	}
	return o
}

func (in *c11Inst) hashOf(ev types.Evidence) string {
	if h, ok := in.hcache[ev]; ok {
		return h
	}
	h := string(ev.Hash())
	in.hcache[ev] = h
	return h
}

func (in *c11Inst) canon() [16]byte {
	h := sha256.New()
	var b8 [8]byte
	w64 := func(v int64) { binary.BigEndian.PutUint64(b8[:], uint64(v)); h.Write(b8[:]) }
	w64(in.H)
	it, err := in.evDB.Iterator(nil, nil)
	if err != nil {
		panic(err)
	}
	for ; it.Valid(); it.Next() {
		w64(int64(len(it.Key())))
		h.Write(it.Key())
		d := sha256.Sum256(it.Value())
		h.Write(d[:])
	}
	it.Close()
	w64(int64(in.pool.Size()))
	var l []string
	for e := in.pool.evidenceList.Front(); e != nil; e = e.Next() {
		l = append(l, in.hashOf(e.Value.(types.Evidence)))
	}
	sort.Strings(l)
	w64(int64(len(l)))
	for _, s := range l {
		h.Write([]byte(s))
	}
	in.pool.mtx.Lock()
	var bf []string
	for _, vs := range in.pool.consensusBuffer {
		bf = append(bf, string(vs.VoteA.Signature)+"|"+string(vs.VoteB.Signature))
	}
	ps := in.pool.state.LastBlockHeight
	in.pool.mtx.Unlock()
	sort.Strings(bf)
	w64(int64(len(bf)))
	for _, s := range bf {
		h.Write([]byte(s))
	}
	w64(ps)
	w64(in.pool.pruningHeight)
	w64(in.pool.pruningTime.UnixNano())
	// specification state
	var rc []string
	for k := range in.rCommitted {
		rc = append(rc, k)
	}
	sort.Strings(rc)
	w64(int64(len(rc)))
	for _, s := range rc {
		h.Write([]byte(s))
	}
	rb := append([]int{}, in.rBuffer...)
	sort.Ints(rb)
	for _, i := range rb {
		w64(int64(i))
	}
	var out [16]byte
	copy(out[:], h.Sum(nil))
	return out
}

func c11Short(err error) string {
	if err == nil {
		return "<nil>"
	}
	s := err.Error()
	if i := strings.Index(s, ". Evidence: "); i > 0 {
		s = s[:i]
	}
	if len(s) > 240 {
		s = s[:240] + "…"
	}
	return s
}

func c11SortedKeys(m map[string]string) []string {
	l := make([]string, 0, len(m))
	for k := range m {
		l = append(l, k)
	}
	sort.Strings(l)
	return l
}

func c11Safe(f func() error) (err error, panicked string) {
	defer func() {
		if x := recover(); x != nil {
			panicked = fmt.Sprint(x)
		}
	}()
	return f(), ""
}

// whyNot: why the statement forbids admitting `it` now ("" = admission permitted as far as validity, age and
// commit go); must = the statement also demands admission (valid, fresh, uncommitted, and not the unspecified case).
func (in *c11Inst) whyNot(it *c11Item) (why string, must bool) {
	v := it.validAt(in.H)
	switch {
	case in.rCommitted[it.Hash]:
		return "already-committed", false
	case !it.Base:
		return "invalid", false
	case v == c11No:
		return "not-provable-at-this-height", false
	case !c11Fresh(it.EvH, in.H):
		return "expired", false
	}
	return "", v == c11Yes
}

func (in *c11Inst) itemByBytes(cands []int, bz string) *c11Item {
	for _, i := range cands {
		if string(in.al.items[i].Bz) == bz {
			return in.al.items[i]
		}
	}
	return nil
}

func (in *c11Inst) heightOfHash(h string) int64 {
	for _, it := range in.al.items {
		if it.Hash == h {
			return it.EvH
		}
	}
	return -1
}

// reconcile compares the pool after an operation with what the statement permits, and moves the specification
// along. offered = items handed to the pool by this operation (only those may appear); committedNow = hashes
// committed by this operation (those, and expired items, may disappear).
func (in *c11Inst) reconcile(opName string, offered []int, committedNow map[string]bool, sizeCause string) (string, string) {
	post := in.observe()
	for _, h := range c11SortedKeys(post.pend) { // sorted: the first difference reported must not depend on map order
		bz := post.pend[h]
		if old, ok := in.rPending[h]; ok && old == bz {
			continue
		}
		it := in.itemByBytes(offered, bz)
		if it == nil {
			return opName + ":pending-store-gained-evidence-not-offered", fmt.Sprintf("pending key %X holds evidence this operation did not offer", h)
		}
		if why, _ := in.whyNot(it); why != "" && !committedNow[h] {
			return fmt.Sprintf("%s:admits-%s:%s", opName, why, it.Class),
				fmt.Sprintf("%s made %s pending at pool height %d although it is %s", opName, it.Name, in.H, why)
		}
		in.rPending[h] = bz
	}
	for _, h := range c11SortedKeys(in.rPending) {
		if _, ok := post.pend[h]; ok {
			continue
		}
		evH := in.heightOfHash(h)
		if !committedNow[h] && c11Fresh(evH, in.H) {
			return opName + ":drops-pending-evidence-neither-committed-nor-expired",
				fmt.Sprintf("%s removed pending evidence of height %d at pool height %d (age %d blocks, %v)", opName, evH, in.H, in.H-evH, c11T(in.H).Sub(c11T(evH)))
		}
		delete(in.rPending, h)
	}
	for _, h := range c11SortedKeys(post.pend) {
		if in.rCommitted[h] {
			return opName + ":committed-evidence-is-pending", fmt.Sprintf("evidence %X is committed and pending at once", h)
		}
	}
	if int(post.size) != len(post.pend) {
		return "Size:" + sizeCause, fmt.Sprintf("after %s: Size() = %d but the pending store holds %d item(s)", opName, post.size, len(post.pend))
	}
	return "", ""
}

// acceptable: may a block carry exactly this list now (ok), and must it be accepted (must)?
func (in *c11Inst) acceptable(items []int) (ok bool, must bool, why string, bad *c11Item) {
	seen := map[string]bool{}
	must = true
	for _, i := range items {
		it := in.al.items[i]
		w, m := in.whyNot(it)
		if w != "" {
			if _, p := in.rPending[it.Hash]; p && w == "expired" {
				w = "expired-but-still-pending"
			}
			return false, false, w, it
		}
		if seen[it.Hash] {
			return false, false, "same-evidence-twice-in-list", it
		}
		seen[it.Hash] = true
		must = must && m
	}
	return true, must, "", nil
}

func (in *c11Inst) classes(items []int) string {
	var s []string
	for _, i := range items {
		s = append(s, in.al.items[i].Class)
	}
	return strings.Join(s, "+")
}

func (in *c11Inst) enabled(op *c11OpDef) bool {
	switch op.kind {
	case c11OpUpdate:
		if in.H+1 > c11N {
			return false
		}
		_, must, _, _ := in.acceptable(op.items)
		return must
	case c11OpReport:
		d := in.al.items[op.items[0]]
		// consensus at height H+1 sees conflicts among its own height's votes and among late precommits of H
		return d.EvH == in.H+1 || d.EvH == in.H
	}
	return true
}

type c11V struct{ key, what string }

func c11Keys(vs []c11V) string {
	var l []string
	for _, v := range vs {
		l = append(l, v.key)
	}
	return strings.Join(l, " | ")
}

// step executes one operation with the oracle. It returns every violation the step shows (several clauses of the
// statement can fail at once, and a known failure must not hide a different one), or nil.
func (in *c11Inst) step(op *c11OpDef) []c11V {
	vs := in.step1(op)
	if len(vs) > 0 {
		in.out = in.out[:0]
	}
	return vs
}

func (in *c11Inst) step1(op *c11OpDef) (vs []c11V) {
	add := func(k, w string) bool {
		if k != "" {
			vs = append(vs, c11V{k, w})
		}
		return k != ""
	}
	in.out = in.out[:0]
	oc := func(s string) { in.out = append(in.out, s) }
	evs := func() types.EvidenceList {
		l := types.EvidenceList{}
		for _, i := range op.items {
			l = append(l, in.al.items[i].Ev)
		}
		return l
	}
	switch op.kind {
	case c11OpAdd:
		it := in.al.items[op.items[0]]
		why, must := in.whyNot(it)
		_, wasPending := in.rPending[it.Hash]
		err, pan := c11Safe(func() error { return in.pool.AddEvidence(it.Ev) })
		if pan != "" {
			add("AddEvidence:panic:"+it.Class, pan)
			return
		}
		add(in.reconcile("AddEvidence", op.items, nil, "mismatch-after-AddEvidence"))
		_, isPending := in.rPending[it.Hash]
		if must && !isPending {
			add("AddEvidence:rejects-valid-fresh-new:"+it.Class,
				fmt.Sprintf("AddEvidence(%s) at pool height %d: %s; the evidence is genuine, not expired by both limits, not committed", it.Name, in.H, c11Short(err)))
		}
		if len(vs) > 0 {
			return
		}
		res := "err"
		if err == nil {
			res = "nil"
		}
		switch {
		case wasPending:
			oc("add:" + it.Class + ":already-pending:" + res)
		case why != "":
			oc("add:" + it.Class + ":" + why + ":" + res)
		case !must && !isPending:
			oc("diag:add:" + it.Class + ":refers-to-head-block:refused")
		default:
			oc("add:" + it.Class + ":admitted")
		}
	case c11OpCheck:
		ok, must, why, bad := in.acceptable(op.items)
		cause := "mismatch-after-CheckEvidence"
		lcSeen := map[string]bool{}
		for _, i := range op.items {
			it := in.al.items[i]
			if !it.IsLC {
				continue
			}
			if _, p := in.rPending[it.Hash]; p {
				cause = "overcount:CheckEvidence-of-already-pending-light-client-attack-evidence"
			} else if lcSeen[it.Hash] {
				cause = "overcount:CheckEvidence-list-repeats-light-client-attack-evidence"
			}
			lcSeen[it.Hash] = true
		}
		var pre *c11Inst // copy of the state before the call, to name the member a refused list fails on
		if len(op.items) > 1 && must && c11CanClone {
			pre = in.clone()
		}
		err, pan := c11Safe(func() error { return in.pool.CheckEvidence(evs()) })
		if pan != "" {
			add("CheckEvidence:panic:"+in.classes(op.items), pan)
			return
		}
		add(in.reconcile("CheckEvidence", op.items, nil, cause))
		if err == nil && !ok {
			cls := bad.Class
			if why == "expired-but-still-pending" { // one failure class whatever variant of the evidence is pending
				cls = map[bool]string{true: "light-client-attack-evidence", false: "duplicate-vote-evidence"}[bad.IsLC]
			}
			add(fmt.Sprintf("CheckEvidence:accepts-%s:%s", why, cls),
				fmt.Sprintf("CheckEvidence(%v) returned nil at pool height %d although %s is %s", in.names(op.items), in.H, bad.Name, why))
		}
		if err != nil && must {
			// name the member the pool refuses on its own (asked of the real pool on copies of the state before the
			// call), so that the key does not depend on the rest of the list; a list whose members all pass singly
			// gets a key of its own
			cls := in.classes(op.items)
			if len(op.items) > 1 {
				cls += ":only-as-a-list"
				for _, i := range op.items {
					if pre == nil {
						break
					}
					probe := pre.clone()
					if e, _ := c11Safe(func() error { return probe.pool.CheckEvidence(types.EvidenceList{in.al.items[i].Ev}) }); e != nil {
						cls = in.al.items[i].Class
						break
					}
				}
			}
			add("CheckEvidence:rejects-acceptable-list:"+cls,
				fmt.Sprintf("CheckEvidence(%v) at pool height %d: %s; every item is genuine, not expired by both limits, not committed, and no item repeats", in.names(op.items), in.H, c11Short(err)))
		}
		if len(vs) > 0 {
			return
		}
		if ok && err != nil {
			oc(fmt.Sprintf("diag:check%d:refers-to-head-block:refused", len(op.items)))
		} else if ok {
			oc(fmt.Sprintf("check%d:accepted:%s", len(op.items), in.classes(op.items)))
		} else {
			oc(fmt.Sprintf("check%d:refused:%s:%s", len(op.items), why, bad.Class))
		}
	case c11OpUpdate:
		nh := in.H + 1
		committedNow := map[string]bool{}
		for _, i := range op.items {
			committedNow[in.al.items[i].Hash] = true
		}
		// production order: consensus saves the block, ApplyBlock updates the pool, then saves the state
		in.bs.SaveBlock(in.ch.blocks[nh], in.ch.parts[nh], in.ch.seen[nh])
		_, pan := c11Safe(func() error { in.pool.Update(in.ch.states[nh].Copy(), evs()); return nil })
		if pan != "" {
			add("Update:panic", pan)
			return
		}
		if err := in.ss.Save(in.ch.states[nh]); err != nil {
			panic(err)
		}
		in.H = nh
		for h := range committedNow {
			in.rCommitted[h] = true
		}
		buf := in.rBuffer
		in.rBuffer = nil
		add(in.reconcile("Update", buf, committedNow, "mismatch-after-Update"))
		for _, i := range buf {
			d := in.al.items[i]
			if _, p := in.rPending[d.Hash]; !p && !in.rCommitted[d.Hash] && c11Fresh(d.EvH, in.H) {
				add("Update:reported-conflicting-votes-not-pending-after-their-height-was-decided",
					fmt.Sprintf("votes of %s were reported; after Update to height %d the evidence is neither pending nor committed", d.Name, in.H))
				break
			}
		}
		if len(vs) > 0 {
			return
		}
		for _, i := range op.items {
			for _, jt := range in.al.items {
				if jt.Misb == in.al.items[i].Misb && jt.Hash != in.al.items[i].Hash && in.rCommitted[jt.Hash] {
					oc("diag:one-misbehaviour-committed-under-two-evidence-hashes:" + in.al.items[i].Class)
				}
			}
		}
		oc(fmt.Sprintf("update:commit%d:flush%d", len(op.items), len(buf)))
	case c11OpPending:
		before := in.canon()
		var list []types.Evidence
		var size int64
		_, pan := c11Safe(func() error { list, size = in.pool.PendingEvidence(op.max); return nil })
		if pan != "" {
			add("PendingEvidence:panic", pan)
			return
		}
		seen := map[string]bool{}
		pl := tmproto.EvidenceList{}
		for _, ev := range list {
			h := string(ev.Hash())
			if seen[h] {
				add("PendingEvidence:same-evidence-twice", fmt.Sprintf("PendingEvidence(%d) lists %X twice", op.max, h))
				return
			}
			seen[h] = true
			if in.rCommitted[h] {
				add("PendingEvidence:returns-committed-evidence", fmt.Sprintf("PendingEvidence(%d) returns committed evidence %X", op.max, h))
				return
			}
			if bz, ok := in.rPending[h]; !ok || bz != string(ev.Bytes()) {
				add("PendingEvidence:returns-evidence-not-pending", fmt.Sprintf("PendingEvidence(%d) returns %X which is not pending", op.max, h))
				return
			}
			pb, _ := types.EvidenceToProto(ev)
			pl.Evidence = append(pl.Evidence, *pb)
		}
		if op.max >= 0 && int64(pl.Size()) > op.max {
			add("PendingEvidence:exceeds-max-bytes", fmt.Sprintf("PendingEvidence(%d) returned %d bytes", op.max, pl.Size()))
				return
		}
		if op.max < 0 && len(list) != len(in.rPending) {
			add("PendingEvidence:differs-from-pending-store", fmt.Sprintf("PendingEvidence(-1) returned %d of %d", len(list), len(in.rPending)))
				return
		}
		if in.canon() != before {
			add("PendingEvidence:mutates-the-pool", "state changed by a read")
				return
		}
		_ = size
		nexp := 0
		for h := range seen {
			if !c11Fresh(in.heightOfHash(h), in.H) {
				nexp++
			}
		}
		if nexp > 0 {
			oc("diag:pending-returns-expired")
		}
		oc(fmt.Sprintf("pending:max%d:%d-of-%d", op.max, len(list), len(in.rPending)))
	case c11OpReport:
		d := in.al.items[op.items[0]]
		a, b := d.VoteA.Copy(), d.VoteB.Copy()
		if op.swap {
			a, b = b, a
		}
		_, pan := c11Safe(func() error { in.pool.ReportConflictingVotes(a, b); return nil })
		if pan != "" {
			add("ReportConflictingVotes:panic", pan)
			return
		}
		in.rBuffer = append(in.rBuffer, op.items[0])
		if add(in.reconcile("ReportConflictingVotes", nil, nil, "mismatch-after-ReportConflictingVotes")) {
			return
		}
		oc(fmt.Sprintf("report:height-%+d", d.EvH-in.H))
	case c11OpRestart:
		var np *Pool
		err, pan := c11Safe(func() error {
			var e error
			np, e = NewPool(in.evDB, in.ss, in.bs)
			return e
		})
		if pan != "" {
			add("Restart:panic", pan)
			return
		}
		if err != nil {
			add("Restart:NewPool-fails", err.Error())
			return
		}
		in.pool = np
		in.rBuffer = nil // votes buffered in memory are re-detected by consensus' own WAL replay, not by the pool
		n := len(in.rPending)
		if add(in.reconcile("Restart", nil, nil, "mismatch-after-restart")) {
			return
		}
		oc(fmt.Sprintf("restart:kept%d:pruned%d", len(in.rPending), n-len(in.rPending)))
	}
	return
}

func (in *c11Inst) names(items []int) []string {
	var s []string
	for _, i := range items {
		s = append(s, in.al.items[i].Name)
	}
	return s
}

// ---- the operation table ------------------------------------------------------------------------

func c11BuildOps(al *c11Alphabet, allPairs bool) []*c11OpDef {
	var ops []*c11OpDef
	have := func(names ...string) ([]int, bool) {
		var l []int
		for _, n := range names {
			i, ok := al.byName[n]
			if !ok {
				return nil, false
			}
			l = append(l, i)
		}
		return l, true
	}
	var base []int
	for i, it := range al.items {
		if it.Base {
			base = append(base, i)
		}
	}
	for i := range al.items {
		ops = append(ops, &c11OpDef{kind: c11OpAdd, items: []int{i}})
	}
	for i := range al.items {
		ops = append(ops, &c11OpDef{kind: c11OpCheck, items: []int{i}})
	}
	pairs := map[[2]int]bool{}
	pair := func(a, b int) {
		if !pairs[[2]int{a, b}] {
			pairs[[2]int{a, b}] = true
			ops = append(ops, &c11OpDef{kind: c11OpCheck, items: []int{a, b}})
		}
	}
	for _, i := range base { // the same evidence twice in one list
		pair(i, i)
	}
	// same hash, different bytes
	if l, ok := have("lc/lunatic", "lc/lunatic-4sig"); ok {
		pair(l[0], l[1])
		pair(l[1], l[0])
	}
	var core []int
	for _, n := range []string{"dv6/genuine", "dv3/genuine", "dv6/validator-index", "lc/lunatic", "lc/equivocation"} {
		if l, ok := have(n); ok {
			core = append(core, l[0])
		}
	}
	if allPairs {
		core = base
	}
	for _, a := range core {
		for _, b := range core {
			if a != b {
				pair(a, b)
			}
		}
	}
	for _, vn := range []string{"dv6/genuine", "lc/lunatic"} {
		for _, xn := range []string{"dv6/bad-sig-b", "lc/lunatic/byz-extra"} {
			if l, ok := have(vn, xn); ok {
				pair(l[0], l[1])
				pair(l[1], l[0])
			}
		}
	}
	// blocks
	ops = append(ops, &c11OpDef{kind: c11OpUpdate})
	for _, i := range base {
		ops = append(ops, &c11OpDef{kind: c11OpUpdate, items: []int{i}})
	}
	if l, ok := have("dv6/genuine", "lc/lunatic"); ok {
		ops = append(ops, &c11OpDef{kind: c11OpUpdate, items: l})
	}
	if l, ok := have("dv3/genuine", "dv6/genuine"); ok {
		ops = append(ops, &c11OpDef{kind: c11OpUpdate, items: l})
	}
	// proposals
	maxes := []int64{-1, 0, 1 << 20}
	if l, ok := have("dv6/genuine"); ok {
		one := tmproto.EvidenceList{}
		pb, _ := types.EvidenceToProto(al.items[l[0]].Ev)
		one.Evidence = append(one.Evidence, *pb)
		maxes = append(maxes, int64(one.Size()))
	}
	for _, m := range maxes {
		ops = append(ops, &c11OpDef{kind: c11OpPending, max: m})
	}
	for i, it := range al.items {
		if it.Genuine {
			ops = append(ops, &c11OpDef{kind: c11OpReport, items: []int{i}})
			ops = append(ops, &c11OpDef{kind: c11OpReport, items: []int{i}, swap: true})
		}
	}
	ops = append(ops, &c11OpDef{kind: c11OpRestart})
	return ops
}

// ---- running one path (replay, confirmation) ----------------------------------------------------------

func c11RunPath(ch *c11Chain, al *c11Alphabet, root int64, ops []*c11OpDef) (vs []c11V, note string, at int) {
	in := c11NewInst(ch, al, root)
	for i, op := range ops {
		if !in.enabled(op) {
			return nil, fmt.Sprintf("operation %d (%s) is not enabled in the state the path reaches", i, c11OpNames[op.kind]), -1
		}
		if vs := in.step(op); len(vs) > 0 {
			return vs, "", i
		}
	}
	return nil, "", -1
}

// ---- the search -------------------------------------------------------------------------------------

type c11Node struct {
	root  int64
	path  []uint16
	canon [16]byte
}

type c11Succ struct {
	op    uint16
	canon [16]byte
}

type c11Viol struct {
	key, what string
	c         c11Case
}

type c11Result struct {
	succ        []c11Succ
	viols       []c11Viol
	transitions int64
	rebuilds    int64
	outcomes    map[string]int64
}

type c11Search struct {
	ch        *c11Chain
	al        *c11Alphabet
	ops       []*c11OpDef
	confirmed sync.Map // violation key -> true once confirmed by three fresh replays
	cloning   bool
}

func (s *c11Search) build(n c11Node) *c11Inst {
	in := c11NewInst(s.ch, s.al, n.root)
	for _, oi := range n.path {
		if vs := in.step(s.ops[oi]); len(vs) > 0 {
			panic(fmt.Sprintf("C11 harness: path to a visited state now violates (%s) — nondeterminism", c11Keys(vs)))
		}
	}
	return in
}

func (s *c11Search) caseOf(n c11Node, extra *c11OpDef) c11Case {
	c := c11Case{Root: n.root, Ops: []c11Op{}}
	for _, oi := range n.path {
		c.Ops = append(c.Ops, s.al.toJSON(s.ops[oi]))
	}
	if extra != nil {
		c.Ops = append(c.Ops, s.al.toJSON(extra))
	}
	return c
}

func (s *c11Search) expand(n c11Node) *c11Result {
	res := &c11Result{outcomes: map[string]int64{}}
	base := s.build(n)
	res.rebuilds++
	cur := base.canon()
	if cur != n.canon {
		panic(fmt.Sprintf("C11 harness: replaying %v from root %d does not reproduce the recorded state", n.path, n.root))
	}
	again := func() *c11Inst {
		if s.cloning {
			c := base.clone()
			if c.canon() != cur {
				panic("C11 harness: clone differs from its original")
			}
			return c
		}
		res.rebuilds++
		return s.build(n)
	}
	in := again()
	for oi, op := range s.ops {
		if !in.enabled(op) {
			continue
		}
		vs := in.step(op)
		res.transitions++
		for _, o := range in.out {
			res.outcomes[o]++
		}
		after := in.canon()
		if len(vs) > 0 {
			c := s.caseOf(n, op)
			fresh := false
			for _, v := range vs {
				if _, done := s.confirmed.Load(v.key); !done {
					fresh = true
				}
			}
			if fresh {
				full := append(append([]*c11OpDef{}, s.pathOps(n)...), op)
				first := errors.New(c11Keys(vs))
				if !vr.Confirm(3, first, func() error {
					v2, _, _ := c11RunPath(s.ch, s.al, n.root, full)
					if len(v2) == 0 {
						return nil
					}
					return errors.New(c11Keys(v2))
				}) {
					panic("C11 harness: violation " + c11Keys(vs) + " does not reproduce on fresh instances — nondeterminism")
				}
				for _, v := range vs {
					s.confirmed.Store(v.key, true)
				}
			}
			for _, v := range vs {
				res.viols = append(res.viols, c11Viol{key: v.key, what: v.what, c: c})
				res.outcomes["violation:"+v.key]++
			}
			if after != cur {
				// the pool left the specification: the successor is not explored (see notes), re-create the state
				in = again()
			}
			continue
		}
		if after != cur {
			res.succ = append(res.succ, c11Succ{op: uint16(oi), canon: after})
			in = again()
		}
	}
	return res
}

func (s *c11Search) pathOps(n c11Node) []*c11OpDef {
	var l []*c11OpDef
	for _, oi := range n.path {
		l = append(l, s.ops[oi])
	}
	return l
}

// c11SelfCheck hands every genuine item, together with complete chain data (the seen commit stands in where the
// canonical commit of the head is not stored yet), directly to the production verification functions. It documents
// that a refusal of a genuine item by the pool is due to the pool, not to the fixture. Result: item -> error.
func c11SelfCheck(ch *c11Chain, al *c11Alphabet) map[string]string {
	out := map[string]string{}
	for _, it := range al.items {
		if !it.Base {
			continue
		}
		switch ev := it.Ev.(type) {
		case *types.DuplicateVoteEvidence:
			if err := VerifyDuplicateVote(ev, c11ChainID, ch.vals[it.EvH]); err != nil {
				out[it.Name] = err.Error()
			}
		case *types.LightClientAttackEvidence:
			sh := func(h int64) *types.SignedHeader {
				if h > c11N {
					h = c11N
				}
				hdr := ch.blocks[h].Header
				return &types.SignedHeader{Header: &hdr, Commit: ch.seen[h]}
			}
			err, pan := c11Safe(func() error {
				return VerifyLightClientAttack(ev, sh(it.EvH), sh(it.ConfH), ch.vals[it.EvH], c11T(c11N), c11MaxDur)
			})
			if pan != "" {
				out[it.Name] = "panic: " + pan
			} else if err != nil {
				out[it.Name] = err.Error()
			}
		}
	}
	return out
}

type c11Config struct {
	part             string
	roots            []int64
	maxDepth         int
	fullPerturbation bool     // all perturbations at all three duplicate-vote heights and the long light-client menu
	only             []string // when set: restrict the alphabet to these items
	allPairs         bool
	quickBudget      time.Duration
	thoroughBudget   time.Duration
}

func (al *c11Alphabet) filter(names []string) *c11Alphabet {
	out := &c11Alphabet{byName: map[string]int{}, byWire: map[string]int{}, decodeRefuse: al.decodeRefuse}
	for _, n := range names {
		i, ok := al.byName[n]
		if !ok {
			panic("C11: no item " + n)
		}
		out.byName[n] = len(out.items)
		out.items = append(out.items, al.items[i])
	}
	for w, i := range al.byWire {
		if j, ok := out.byName[al.items[i].Name]; ok {
			out.byWire[w] = j
		}
	}
	return out
}

func c11RunSearch(cfg c11Config) {
	r := vr.Start("C11", cfg.part, cfg.quickBudget, cfg.thoroughBudget)
	defer r.Finish()
	r.Rule = "breadth-first search over all sequences of pool operations (AddEvidence, CheckEvidence incl. lists with a repeat, Update with a committed list, " +
		"PendingEvidence(max), ReportConflictingVotes, restart) from several root heights of a generated chain; a state is distinct by the complete canonical " +
		"encoding of pool + stores + specification; non-trivial = distinct (operation kind, evidence class, specification verdict, result) combination"
	r.Assume("ed25519 and the proto codec are black boxes; ground truth about every evidence item is known because the harness constructed it")
	r.Assume("the chain fixture is produced by the production ApplyBlock/SaveBlock/Save pipeline and is therefore a valid tendermint chain")
	r.Assume("Update is called with lists a block could carry (valid, fresh, uncommitted, no repeats), as block validation guarantees in production; " +
		"conflicting votes are reported only for the consensus height and the one before, as consensus does")
	r.Assume("restart = NewPool on the same evidence DB, state store and block store (no torn writes; MemDB)")
	ch := c11BuildChain()
	al := c11BuildAlphabet(ch, cfg.fullPerturbation)
	if cfg.only != nil {
		al = c11BuildAlphabet(ch, true).filter(cfg.only)
	}
	ops := c11BuildOps(al, cfg.allPairs)
	s := &c11Search{ch: ch, al: al, ops: ops, cloning: c11CanClone}
	r.Set("states_recreated_by", map[bool]string{true: "one pure replay per expanded state + field-by-field clones for sibling operations", false: "pure replay for every operation (Pool struct differs from the known layout)"}[s.cloning])
	r.Set("alphabet_items", int64(len(al.items)))
	r.Set("operations", int64(len(ops)))
	r.Set("refused_by_wire_decoding", al.decodeRefuse)
	nBase := 0
	for _, it := range al.items {
		if it.Base {
			nBase++
		}
	}
	r.Set("items_genuine", int64(nBase))

	r.Set("fixture_selfcheck_failures", c11SelfCheck(ch, c11BuildAlphabet(ch, true)))

	var rc c11Case
	if replaying, skip := r.ReplayCase(&rc); skip {
		return
	} else if replaying {
		alr := c11BuildAlphabet(ch, true) // the full alphabet knows every name
		var l []*c11OpDef
		for _, o := range rc.Ops {
			d, err := alr.fromJSON(o)
			if err != nil {
				panic("C11 replay: " + err.Error())
			}
			l = append(l, d)
		}
		r.Eval()
		r.Traces++
		r.States, r.Transitions, r.MaxDepth = int64(len(l)+1), int64(len(l)), len(l)
		vs, note, _ := c11RunPath(ch, alr, rc.Root, l)
		for _, v := range vs {
			r.Violation(v.key, v.what, rc)
		}
		if note != "" {
			r.Note("replay: " + note)
		}
		r.Sample(rc)
		return
	}

	visited := map[[16]byte]struct{}{}
	var frontier []c11Node
	for _, root := range cfg.roots {
		in := c11NewInst(ch, al, root)
		visited[in.canon()] = struct{}{}
		frontier = append(frontier, c11Node{root: root, canon: in.canon()})
	}
	r.States = int64(len(visited))
	workers := runtime.GOMAXPROCS(0)
	completed := 0
	stop := false
	for depth := 1; depth <= cfg.maxDepth && len(frontier) > 0 && !stop; depth++ {
		if r.Seed != 0 { // the seed only permutes the visiting order inside a level
			rand.New(rand.NewSource(r.Seed+int64(depth))).Shuffle(len(frontier), func(i, j int) { frontier[i], frontier[j] = frontier[j], frontier[i] })
		}
		results := make([]*c11Result, len(frontier))
		var next int64
		var mtx sync.Mutex
		var wg sync.WaitGroup
		for w := 0; w < workers; w++ {
			wg.Add(1)
			go func() {
				defer wg.Done()
				for {
					mtx.Lock()
					i := next
					next++
					out := stop
					mtx.Unlock()
					if out || i >= int64(len(frontier)) {
						return
					}
					if r.Deadline(fmt.Sprintf("depth %d not closed", depth)) {
						mtx.Lock()
						stop = true
						mtx.Unlock()
						return
					}
					results[i] = s.expand(frontier[i])
				}
			}()
		}
		wg.Wait()
		var nf []c11Node
		done := 0
		for i, res := range results {
			if res == nil {
				continue
			}
			done++
			r.Transitions += res.transitions
			r.Traces += res.rebuilds
			r.EvalN(res.transitions)
			for k, v := range res.outcomes {
				r.Outcomes[k] += v
				r.NT(k)
				if strings.HasPrefix(k, "diag:") { // stricter-than-the-statement observations: counted, never judged
					r.Add("diag_"+strings.NewReplacer(":", "_", "-", "_").Replace(k[5:]), v)
				}
			}
			for _, v := range res.viols {
				r.Violation(v.key, v.what, v.c)
			}
			for _, sc := range res.succ {
				if _, ok := visited[sc.canon]; ok {
					continue
				}
				visited[sc.canon] = struct{}{}
				p := append(append([]uint16{}, frontier[i].path...), sc.op)
				nf = append(nf, c11Node{root: frontier[i].root, path: p, canon: sc.canon})
			}
		}
		r.States = int64(len(visited))
		r.MaxDepth = depth
		r.Set(fmt.Sprintf("level_%d", depth), fmt.Sprintf("expanded %d of %d states, %d new states", done, len(frontier), len(nf)))
		if !stop {
			completed = depth
		}
		if len(nf) > 0 && len(r.Samples) < 3 {
			r.Sample(s.caseOf(nf[len(nf)/2], nil))
		}
		frontier = nf
	}
	r.Set("unexpanded_states_at_depth_bound", int64(len(frontier)))
	r.Bound = fmt.Sprintf("all operation sequences up to depth %d from root heights %v over %d evidence items / %d operations", completed, cfg.roots, len(al.items), len(ops))
}

// wide: the whole alphabet (every perturbation), shallow.
func TestVerifC11Wide(t *testing.T) {
	cfg := c11Config{part: "wide", roots: []int64{5, 8}, maxDepth: 4, quickBudget: 90 * time.Second, thoroughBudget: 18 * time.Minute}
	if vr.Thorough() {
		cfg.roots, cfg.maxDepth, cfg.fullPerturbation, cfg.allPairs = []int64{3, 4, 5, 6, 7, 8, 9}, 4, true, true
	}
	c11RunSearch(cfg)
}

// smalllimit: the chain allows 800 bytes of evidence per block (two duplicate-vote items); the pool may hold more than that, across
// updates and restarts.
func TestVerifC11SmallLimit(t *testing.T) {
	c11EvMaxBytes = 800
	cfg := c11Config{part: "smalllimit", roots: []int64{8}, maxDepth: 5, quickBudget: 60 * time.Second, thoroughBudget: 10 * time.Minute,
		only: []string{"dv5/genuine", "dv6/genuine", "dv8/genuine", "dv3/genuine"}}
	if vr.Thorough() {
		cfg.roots, cfg.maxDepth = []int64{6, 8}, 6
	}
	c11RunSearch(cfg)
}

// samehash: conflicting votes for one block hash with two part-set headers, reported by consensus in both orders, through the lifecycle;
// and a validator that equivocates twice in one height (rounds 0 and 1, same vote type): both conflicts are reported before the height
// is decided, in every order and multiplicity the depth allows, and each must become pending evidence of its own.
func TestVerifC11SameHash(t *testing.T) {
	c11WithSameHash = true
	cfg := c11Config{part: "samehash", roots: []int64{5, 8}, maxDepth: 4, quickBudget: 60 * time.Second, thoroughBudget: 10 * time.Minute,
		only: []string{"dv5/genuine-same-hash", "dv6/genuine-same-hash", "dv8/genuine-same-hash", "dv6/genuine", "dv6/genuine-round1"}}
	if vr.Thorough() {
		cfg.maxDepth = 6
	}
	c11RunSearch(cfg)
}

// deep: the lifecycle core (genuine items of each kind, a same-hash variant, one invalid representative of each kind), deep.
func TestVerifC11Deep(t *testing.T) {
	cfg := c11Config{part: "deep", roots: []int64{4, 5, 8}, maxDepth: 6, quickBudget: 100 * time.Second, thoroughBudget: 18 * time.Minute,
		only: []string{"dv5/genuine", "dv6/genuine", "dv8/genuine", "lc/lunatic", "lc/lunatic-4sig", "lc/equivocation", "dv6/bad-sig-b", "lc/lunatic/byz-extra"}}
	if vr.Thorough() {
		cfg.roots, cfg.maxDepth = []int64{4, 5, 6, 7, 8}, 8
		cfg.only = append(cfg.only, "dv3/genuine", "dv6/validator-index")
	}
	c11RunSearch(cfg)
}
