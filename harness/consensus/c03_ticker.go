package consensus

// C03, part "ticker": the simulated nodes of C01/C02/C03 use a harness ticker (dsTicker) that decides which requested timeout is the
// pending one — a model of consensus/ticker.go, which runs real timers. This part binds the model to the code: every sequence of
// ScheduleTimeout requests up to a length bound over a small (height, round, step) domain is given to the REAL timeoutTicker (started,
// its routine running) and to the model; the one timeout the real ticker then delivers must be the one the model holds as pending, and a
// second request sequence after that delivery must again agree (the ticker keeps the last accepted timeout as its reference after firing).
// Only identities are compared, never durations; a delivery that does not arrive within a generous wait ends the case inconclusive.

import (
	"fmt"
	"testing"
	"time"

	cstypes "github.com/tendermint/tendermint/consensus/types"
	"github.com/tendermint/tendermint/internal/verif/vr"
	"github.com/tendermint/tendermint/libs/log"
)

type c03tReq struct {
	H int64 `json:"h"`
	R int32 `json:"r"`
	S int   `json:"step"`
}

type c03tCase struct {
	First  []c03tReq `json:"requests_before_the_first_delivery"`
	Second []c03tReq `json:"requests_after_it,omitempty"`
}

func c03tRun(c c03tCase) (key, what, inconcl string) {
	real := NewTimeoutTicker()
	real.SetLogger(log.NewNopLogger())
	if err := real.Start(); err != nil {
		panic(err)
	}
	defer func() { _ = real.Stop() }()
	model := newDsTicker()
	phase := func(name string, reqs []c03tReq) (string, string, string) {
		if len(reqs) == 0 {
			return "", "", ""
		}
		for _, q := range reqs {
			ti := timeoutInfo{Duration: 25 * time.Millisecond, Height: q.H, Round: q.R, Step: cstypes.RoundStepType(q.S)}
			real.ScheduleTimeout(ti)
			model.ScheduleTimeout(ti)
		}
		// requests are handled in order by the routine; the timer of the last accepted one fires 25 ms after it was accepted (far longer than the gap between two back-to-back requests)
		var got timeoutInfo
		if !model.armed {
			// the model ignored every request of this phase (all older than the last accepted one): nothing may be delivered
			select {
			case got = <-real.Chan():
			case <-time.After(12 * time.Millisecond):
				return "", "", ""
			}
		} else {
			select {
			case got = <-real.Chan():
			case <-time.After(20 * time.Second):
				return "", "", "no delivery within 20 s"
			}
		}
		if !model.armed {
			return "consensus/ticker.go:timeoutRoutine:delivers-a-timeout-the-model-does-not-expect", fmt.Sprintf("%s requests %v: real ticker delivered %s, the model has nothing pending", name, reqs, dsTiString(got)), ""
		}
		if got.Height != model.cur.Height || got.Round != model.cur.Round || got.Step != model.cur.Step {
			return "consensus/ticker.go:timeoutRoutine:pending-timeout-differs-from-the-harness-model",
				fmt.Sprintf("%s requests %v: the real ticker delivered the timeout of %s, the model (a later height/round/step replaces the pending one, nothing else does) holds %s",
					name, reqs, dsTiString(got), dsTiString(model.cur)), ""
		}
		model.armed = false // delivered
		// nothing else may be delivered: a replaced timer never fires afterwards (the routine stops and drains it)
		select {
		case extra := <-real.Chan():
			return "consensus/ticker.go:timeoutRoutine:replaced-timeout-still-delivered", fmt.Sprintf("%s requests %v: after %s a second delivery %s", name, reqs, dsTiString(got), dsTiString(extra)), ""
		case <-time.After(6 * time.Millisecond):
		}
		return "", "", ""
	}
	if k, w, inc := phase("first", c.First); k != "" || inc != "" {
		return k, w, inc
	}
	return phase("second", c.Second)
}

func TestVerifC03Ticker(t *testing.T) {
	r := vr.Start("C03", "ticker", 100*time.Second, 10*time.Minute)
	defer r.Finish()
	r.Rule = "conformance of the harness ticker (the model used by the simulated nodes) with the real consensus/ticker.go: every sequence of 1..3 ScheduleTimeout requests over heights {1,2} x rounds {0,1} x steps {propose, prevote-wait, precommit-wait}, " +
		"followed after the delivery by every single further request (first sequences up to length 2 quick, 3 thorough), is given to both; the identity of each delivered timeout is compared; a case = (first sequence, second sequence), all distinct; non-trivial = more than one request"
	r.Assume("identities only: durations are 25 ms and are not judged; a missing delivery after 20 s is inconclusive, not a violation")
	var rc c03tCase
	if rep, skip := r.ReplayCase(&rc); skip {
		return
	} else if rep {
		r.Eval()
		if k, w, _ := c03tRun(rc); k != "" {
			r.Violation(k, w, rc)
		}
		return
	}
	var dom []c03tReq
	for _, h := range []int64{1, 2} {
		for _, rd := range []int32{0, 1} {
			for _, s := range []int{3, 5, 7} {
				dom = append(dom, c03tReq{h, rd, s})
			}
		}
	}
	var seqs func(maxLen int) [][]c03tReq
	seqs = func(maxLen int) [][]c03tReq {
		out := [][]c03tReq{}
		var rec func(cur []c03tReq)
		rec = func(cur []c03tReq) {
			if len(cur) > 0 {
				out = append(out, append([]c03tReq{}, cur...))
			}
			if len(cur) == maxLen {
				return
			}
			for _, q := range dom {
				rec(append(cur, q))
			}
		}
		rec(nil)
		return out
	}
	firsts := seqs(vr.Pick(2, 3))
	seconds := append([][]c03tReq{nil}, seqs(1)...)
	n, mine := 0, 0
	reported := map[string]bool{}
	for _, f := range firsts {
		for _, s2 := range seconds {
			n++
			if !r.Mine(n) {
				continue
			}
			mine++
			if mine%16 == 0 && r.Deadline("C03 ticker sequences") {
				return
			}
			c := c03tCase{First: f, Second: s2}
			r.Eval()
			if len(f)+len(s2) > 1 {
				r.NTCount(1)
			}
			k, w, inc := c03tRun(c)
			if inc != "" {
				r.Cap("ticker: " + inc)
				continue
			}
			if k != "" {
				// a scheduling hiccup longer than the timer (the routine handles the first request, is descheduled for 25 ms, and the
				// first timer fires before the second request is read) produces a stale delivery: a verdict counts only if three
				// re-executions all repeat it; if none does it was such a hiccup
				same := 0
				for i := 0; i < 3; i++ {
					if k2, _, _ := c03tRun(c); k2 == k {
						same++
					}
				}
				if same == 0 {
					r.Add("scheduling_hiccups_retried", 1)
					r.Outcome("real-ticker-agrees-with-model")
					continue
				}
				if same < 3 {
					// neither always nor never: a deterministic divergence would repeat every time. The case counts as a hiccup only
					// if the real ticker then agrees with the model three times in a row (within 12 further executions)
					row := 0
					for i := 0; i < 12 && row < 3; i++ {
						if k2, _, _ := c03tRun(c); k2 == "" {
							row++
						} else {
							row = 0
						}
					}
					if row == 3 {
						r.Add("scheduling_hiccups_retried", 1)
						r.Add("scheduling_hiccups_that_repeated_once_or_twice", 1)
						r.Outcome("real-ticker-agrees-with-model")
						continue
					}
					r.Cap("a ticker case did not reproduce its verdict every time")
					continue
				}
				r.Outcome(k)
				if !reported[k] {
					reported[k] = true
					r.Violation(k, w, c)
				}
				continue
			}
			r.Outcome("real-ticker-agrees-with-model")
		}
	}
	r.Bound = fmt.Sprintf("%d first sequences x %d second sequences", len(firsts), len(seconds))
}
