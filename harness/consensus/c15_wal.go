package consensus

// C15 part 1 — the WAL returns what was durably written, in order.
// Real BaseWAL / autofile.Group / WALEncoder / WALDecoder / SearchForEndHeight / repairWalFile over the
// journalled in-memory file system (vos). Operation sequences over
//   w write · s synced write · f flush+fsync · r rotate · p size-limit pruning · e end-height marker
// every journal entry as crash point, every surviving length of the unsynced tail, then the start-up
// procedure of the node (full scan; on a corruption error: backup + repairWalFile, exactly as
// State.OnStart does), two more synced appends, a clean crash, start-up again, read everything.

import (
	"errors"
	"fmt"
	"io"
	"path/filepath"
	"sort"
	"strings"
	"testing"
	"time"

	"github.com/tendermint/tendermint/internal/verif/vos"
	"github.com/tendermint/tendermint/internal/verif/vr"
	auto "github.com/tendermint/tendermint/libs/autofile"
	"github.com/tendermint/tendermint/libs/log"
	tmos "github.com/tendermint/tendermint/libs/os"
)

type c15Case struct {
	Ops    string `json:"ops"`                        // e.g. "wsrwpe"
	Crash  int    `json:"crash_before_journal_entry"` // -1: no crash during the history (crash after it, everything flushed by nobody)
	Tail   int    `json:"surviving_unsynced_tail_bytes"`
	Cycle2 bool   `json:"second_cycle"`       // append two synced records after recovery, crash cleanly, recover again
	Flip   int    `json:"flip_byte_from_end"` // > 0: flip that byte (counted from the end of the head file) before recovery
	// HighIndex: an (empty) rolled file with index 998 exists before the WAL is first opened, so that the head starts as file 999
	// and rotations take the group past index 999 (file names with four digits)
	HighIndex bool `json:"high_index,omitempty"`
}

const (
	c15TotalLimit = 170 // bytes: roughly three small records
)

type c15Rec struct {
	id      int64 // timeoutInfo duration (unique) or -height for end-height markers
	file    int   // index of the file the record went to
	acked   bool  // a synced write / flush covering it returned success
	written bool
}

type c15Model struct {
	recs     []*c15Rec
	maxIndex int
	nextID   int64
	nextH    int64
	removed  map[int]bool // file indexes discarded by size-limit pruning
}

func c15Msg(id int64) WALMessage {
	if id < 0 {
		return EndHeightMessage{Height: -id}
	}
	return timeoutInfo{Duration: time.Duration(id), Height: 1, Round: 0, Step: 1}
}

func c15ID(m WALMessage) (int64, bool) {
	switch x := m.(type) {
	case timeoutInfo:
		return int64(x.Duration), true
	case EndHeightMessage:
		return -x.Height, true
	}
	return 0, false
}

func c15Open(walPath string) (*BaseWAL, error) {
	wal, err := NewWAL(walPath, auto.GroupTotalSizeLimit(c15TotalLimit), auto.GroupCheckDuration(1000*time.Hour))
	if err != nil {
		return nil, err
	}
	wal.SetFlushInterval(1000 * time.Hour)
	wal.SetLogger(log.NewNopLogger())
	if err := wal.Start(); err != nil {
		return nil, err
	}
	return wal, nil
}

func c15Indexes(w *vos.World, walPath string) (idx []int) {
	base := filepath.Base(walPath)
	for p := range w.Files() {
		if filepath.Dir(p) != filepath.Dir(walPath) {
			continue
		}
		name := filepath.Base(p)
		if strings.HasPrefix(name, base+".") && !strings.Contains(name, "CORRUPTED") {
			var i int
			if _, err := fmt.Sscanf(name[len(base)+1:], "%d", &i); err == nil {
				idx = append(idx, i)
			}
		}
	}
	sort.Ints(idx)
	return idx
}

// startUp is what a node does with its WAL when it starts: open it, scan it completely (catchupReplay's
// first SearchForEndHeight has no "ignore corruption" option), and on a corruption error back the
// file up and repair it with the production repairWalFile, then open it again.
func c15StartUp(walPath string) (wal *BaseWAL, repaired bool, err error) {
	wal, err = c15Open(walPath)
	if err != nil {
		return nil, false, err
	}
	_, _, serr := wal.SearchForEndHeight(1<<40, &WALSearchOptions{})
	if serr == nil {
		return wal, false, nil
	}
	if !IsDataCorruptionError(serr) {
		return wal, false, nil // OnStart logs other errors and proceeds
	}
	// verbatim from State.OnStart
	if err := wal.Stop(); err != nil {
		return nil, false, err
	}
	wal.Wait()
	corrupted := fmt.Sprintf("%s.CORRUPTED", walPath)
	if err := tmos.CopyFile(walPath, corrupted); err != nil {
		return nil, false, err
	}
	if err := repairWalFile(corrupted, walPath); err != nil {
		return nil, false, err
	}
	wal, err = c15Open(walPath)
	return wal, true, err
}

// readAll decodes every record reachable by a reader over the whole group.
func c15ReadAll(wal *BaseWAL) (ids []int64, rerr error) {
	gr, err := wal.group.NewReader(wal.group.MinIndex())
	if err != nil {
		return nil, err
	}
	defer gr.Close()
	dec := NewWALDecoder(gr)
	for {
		tm, err := dec.Decode()
		if errors.Is(err, io.EOF) {
			return ids, nil
		}
		if err != nil {
			return ids, err
		}
		if id, ok := c15ID(tm.Msg); ok {
			ids = append(ids, id)
		} else {
			return ids, fmt.Errorf("reader returned a record that was never written: %T", tm.Msg)
		}
	}
}

func c15Stop(wal *BaseWAL) {
	defer func() { _ = recover() }()
	if wal != nil && wal.IsRunning() {
		_ = wal.Stop()
		wal.Wait()
	}
}

// run executes one case. It returns "" or a violation.
func c15Run(r *vr.Report, c c15Case) (key, what string) {
	w := vos.NewWorld()
	defer w.Close()
	walPath := w.Root + "/cs.wal/wal"
	m := &c15Model{nextID: 1, nextH: 1, removed: map[int]bool{}}
	var wal *BaseWAL
	defer func() { w.Freeze(); c15Stop(wal) }()
	crashed := false
	var histErr error
	func() {
		defer func() {
			if x := recover(); x != nil {
				if _, ok := x.(vos.CrashPanic); ok {
					crashed = true
					return
				}
				histErr = fmt.Errorf("panic: %v", x)
			}
		}()
		if c.HighIndex {
			if err := vos.MkdirAll(filepath.Dir(walPath), 0o700); err != nil {
				panic(err)
			}
			if err := vos.WriteFile(walPath+".998", []byte{}, 0o600); err != nil {
				panic(err)
			}
			w.SyncAll()
			m.maxIndex = 999
		}
		if c.Crash >= 0 {
			w.CrashBefore(c.Crash)
		}
		var err error
		// OnStart writes and syncs EndHeight(0) into the empty head
		m.recs = append(m.recs, &c15Rec{id: 0, file: m.maxIndex, written: true})
		wal, err = c15Open(walPath)
		if err != nil {
			histErr = err
			return
		}
		m.recs[0].acked = true
		ackAll := func() {
			for _, rec := range m.recs {
				if rec.written {
					rec.acked = true
				}
			}
		}
		for _, op := range c.Ops {
			switch op {
			case 'w', 's', 'e':
				id := m.nextID
				if op == 'e' {
					id = -m.nextH
					m.nextH++
				} else {
					m.nextID++
				}
				rec := &c15Rec{id: id, file: m.maxIndex, written: true}
				m.recs = append(m.recs, rec)
				if op == 'w' {
					err = wal.Write(c15Msg(id))
				} else {
					err = wal.WriteSync(c15Msg(id))
					if err == nil {
						ackAll()
					}
				}
			case 'f':
				if err = wal.FlushAndSync(); err == nil {
					ackAll()
				}
			case 'r':
				wal.group.RotateFile() // flushes and fsyncs the head, then renames it
				ackAll()
				m.maxIndex++
			case 'p':
				before := c15Indexes(w, walPath)
				wal.group.VerifCheckTotalSizeLimit()
				after := map[int]bool{}
				for _, i := range c15Indexes(w, walPath) {
					after[i] = true
				}
				gone := []int{}
				for _, i := range before {
					if !after[i] {
						gone = append(gone, i)
						m.removed[i] = true
					}
				}
				// only whole OLDEST files may go
				for k, i := range gone {
					if i != before[k] {
						histErr = fmt.Errorf("size limit removed file %d, which is not among the oldest (had %v)", i, before)
					}
				}
			}
			if err != nil {
				histErr = err
				return
			}
		}
	}()
	if histErr != nil && !crashed {
		c15Stop(wal)
		if strings.Contains(histErr.Error(), "not among the oldest") {
			return "consensus/wal:size-limit-discards-a-file-that-is-not-the-oldest", histErr.Error()
		}
		if strings.HasPrefix(histErr.Error(), "panic:") {
			return "consensus/wal:operation-panics-without-crash", histErr.Error()
		}
		return "consensus/wal:operation-fails-without-crash", histErr.Error()
	}
	// the machine dies here (at the armed crash point, or right after the history)
	k := c.Crash
	if !crashed {
		k = w.JournalLen()
		c15Stop2(w, wal)
	}
	pol := vos.Policy{Tail: map[string]int{}}
	for p := range w.Unsynced(k) {
		pol.Tail[p] = c.Tail
	}
	// a pruning pass that was cut short has still removed only what the journal says
	st := w.Materialise(k, pol)
	defer st.Close()
	walPath2 := vos.Rebase(walPath, w, st)
	if len(st.Files()) == 0 {
		return "", "" // crashed before the WAL file existed
	}
	// what survived on disk decides which removed files are really gone
	removed := map[int]bool{}
	present := map[int]bool{}
	for _, i := range c15Indexes(st, walPath2) {
		present[i] = true
	}
	for i := range m.removed {
		if !present[i] {
			removed[i] = true
		}
	}
	if c.Flip > 0 {
		bz := st.FileBytes(walPath2)
		if c.Flip > len(bz) {
			return "", ""
		}
		bz[len(bz)-c.Flip] ^= 0x5a
		st.SetFileBytes(walPath2, bz)
	}
	check := func(stage string, got []int64, rerr error, recs []*c15Rec, requireAcked bool) (string, string) {
		// expected order = written order minus records in discarded whole files
		var want []*c15Rec
		for _, rec := range recs {
			if !removed[rec.file] {
				want = append(want, rec)
			}
		}
		if requireAcked {
			have := map[int64]bool{}
			for _, id := range got {
				have[id] = true
			}
			for _, rec := range want {
				if rec.acked && !have[rec.id] {
					return "consensus/wal:acknowledged-record-not-returned", fmt.Sprintf("%s: record %d was acknowledged as synced but is not among the %d records the reader returns %v (reader error: %v; ops %q)", stage, rec.id, len(got), got, rerr, c.Ops)
				}
			}
		}
		// order: what the reader returns must be the written sequence with only never-acknowledged records
		// missing; any incarnation may add a fresh EndHeight(0) when it finds its head empty
		j := 0
		for i, id := range got {
			for j < len(want) && want[j].id != id && !want[j].acked {
				j++
			}
			if j < len(want) && want[j].id == id {
				j++
				continue
			}
			if id == 0 {
				continue
			}
			exp := "nothing more"
			if j < len(want) {
				exp = fmt.Sprint(want[j].id)
			}
			return "consensus/wal:reader-returns-records-out-of-order-or-never-written", fmt.Sprintf("%s: position %d: got record %d, expected %s; reader returned %v (ops %q)", stage, i, id, exp, got, c.Ops)
		}
		return "", ""
	}
	wal2, repaired, err := c15StartUp(walPath2)
	if err != nil {
		c15Stop(wal2)
		return "consensus/wal:start-up-fails-after-crash", err.Error()
	}
	if repaired {
		r.Outcome("repaired")
	}
	got, rerr := c15ReadAll(wal2)
	if c.Flip > 0 {
		// a damaged record may be lost, together with what follows it; what is returned must still be genuine and ordered
		k1, w1 := check("after corruption", got, rerr, m.recs, false)
		c15Stop(wal2)
		return k1, w1
	}
	if k1, w1 := check("first recovery", got, rerr, m.recs, true); k1 != "" {
		c15Stop(wal2)
		return k1, w1
	}
	// end-height search: found iff durably written (acknowledged) and not discarded
	for _, rec := range m.recs {
		if rec.id >= 0 && rec.id != 0 {
			continue
		}
		_, found, serr := wal2.SearchForEndHeight(-rec.id, &WALSearchOptions{IgnoreDataCorruptionErrors: true})
		inGot := false
		for _, id := range got {
			if id == rec.id {
				inGot = true
			}
		}
		if rec.acked && !removed[rec.file] && !found {
			c15Stop(wal2)
			return "consensus/wal:end-height-marker-durably-written-but-not-found", fmt.Sprintf("height %d (err %v)", -rec.id, serr)
		}
		if found && !inGot {
			c15Stop(wal2)
			return "consensus/wal:end-height-marker-found-but-never-readable", fmt.Sprintf("height %d", -rec.id)
		}
	}
	if !c.Cycle2 {
		c15Stop(wal2)
		return "", ""
	}
	// second incarnation appends two synced records behind whatever the first one left
	survivors := map[int64]bool{}
	for _, id := range got {
		survivors[id] = true
	}
	var recs2 []*c15Rec
	for _, rec := range m.recs {
		if removed[rec.file] {
			continue
		}
		if survivors[rec.id] {
			rec.acked = true // it is on disk and was read back: from now on it must stay
			recs2 = append(recs2, rec)
		}
	}
	for i := 0; i < 2; i++ {
		id := int64(1000 + i)
		if err := wal2.WriteSync(c15Msg(id)); err != nil {
			c15Stop(wal2)
			return "consensus/wal:synced-write-fails-after-recovery", err.Error()
		}
		recs2 = append(recs2, &c15Rec{id: id, acked: true, written: true, file: 1 << 20})
	}
	k2 := st.JournalLen()
	c15Stop2(st, wal2)
	st2 := st.Materialise(k2, vos.Policy{})
	defer st2.Close()
	walPath3 := vos.Rebase(walPath2, st, st2)
	wal3, repaired3, err := c15StartUp(walPath3)
	if err != nil {
		c15Stop(wal3)
		return "consensus/wal:start-up-fails-after-second-crash", err.Error()
	}
	if repaired3 {
		r.Outcome("repaired-in-third-incarnation")
	}
	got3, rerr3 := c15ReadAll(wal3)
	c15Stop(wal3)
	removed = map[int]bool{} // nothing is pruned in the second cycle
	return check("second recovery", got3, rerr3, recs2, true)
}

// c15Stop2 freezes the world first so that Stop's own flush cannot persist anything (the machine is dead).
func c15Stop2(w *vos.World, wal *BaseWAL) {
	w.Freeze()
	func() {
		defer func() { _ = recover() }()
		if wal != nil && wal.IsRunning() {
			_ = wal.Stop()
			wal.Wait()
		}
	}()
}

func c15Sequences(alphabet string, maxLen int, f func(string) bool) {
	var rec func(prefix string) bool
	rec = func(prefix string) bool {
		if len(prefix) > 0 {
			if !f(prefix) {
				return false
			}
		}
		if len(prefix) == maxLen {
			return true
		}
		for _, ch := range alphabet {
			if !rec(prefix + string(ch)) {
				return false
			}
		}
		return true
	}
	rec("")
}

func TestVerifC15Wal(t *testing.T) {
	r := vr.Start("C15", "wal", 140*time.Second, 22*time.Minute)
	defer r.Finish()
	dsPinClock()
	r.Rule = "operation sequences over {w write, s synced write, f flush+fsync, r rotate, p size-limit pruning, e end-height} up to length L; for each sequence every journal entry " +
		"(file create/write/fsync/rename/remove) is a crash point and the unsynced tail survives to every byte length; then node start-up (scan, repair on corruption), full read, " +
		"end-height searches, two more synced appends, clean crash, start-up, full read; plus single-byte corruption of each of the last bytes; a case = (sequence, crash point, tail length | flipped byte); " +
		"all cases distinct; non-trivial = the crash leaves a non-empty proper fragment of a record or a corrupted byte"
	r.Assume("file-system model: directory operations durable in order, content durable at fsync, append-only tails torn at any byte; no reordering of unsynced writes across files")
	r.Assume("records are small timeout/end-height messages; rotation and pruning are explicit operations (the tickers that trigger them in production are set to very long periods)")
	var rc c15Case
	if rep, skip := r.ReplayCase(&rc); skip {
		return
	} else if rep {
		r.Eval()
		if k, w := c15Run(r, rc); k != "" {
			r.Violation(k, w, rc)
		}
		return
	}
	maxLen := vr.Pick(4, 5)
	n := 0
	try := func(c c15Case, nontrivial bool) {
		r.Eval()
		if nontrivial {
			r.NTCount(1)
		}
		key, what := c15Run(r, c)
		if key == "" {
			r.Outcome("ok")
			return
		}
		if k2, _ := c15Run(r, c); k2 != key {
			panic(fmt.Sprintf("C15: violation %s does not reproduce (%s): harness fault", key, k2))
		}
		r.Outcome(key)
		r.Violation(key, what, c)
	}
	c15Sequences("wsfrpe", maxLen, func(ops string) bool {
		n++
		if !r.Mine(n) {
			return true
		}
		if r.Deadline("C15 sequences") {
			return false
		}
		// journal of the crash-free run
		w := vos.NewWorld()
		walPath := w.Root + "/cs.wal/wal"
		var journal []vos.Op
		func() {
			wal, err := c15Open(walPath)
			if err != nil {
				panic(err)
			}
			nextID, nextH := int64(1), int64(1)
			for _, op := range ops {
				switch op {
				case 'w':
					_ = wal.Write(c15Msg(nextID))
					nextID++
				case 's':
					_ = wal.WriteSync(c15Msg(nextID))
					nextID++
				case 'e':
					_ = wal.WriteSync(c15Msg(-nextH))
					nextH++
				case 'f':
					_ = wal.FlushAndSync()
				case 'r':
					wal.group.RotateFile()
				case 'p':
					wal.group.VerifCheckTotalSizeLimit()
				}
			}
			journal = w.Journal()
			c15Stop2(w, wal)
		}()
		for cp := 1; cp <= len(journal); cp++ {
			tails := []int{0}
			for _, rng := range w.Unsynced(cp) {
				for tl := 1; tl <= rng[1]-rng[0]; tl++ {
					tails = append(tails, tl)
				}
			}
			for _, tl := range tails {
				try(c15Case{Ops: ops, Crash: cp, Tail: tl, Cycle2: true}, tl > 0)
			}
		}
		w.Close()
		// crash right after the history, nothing torn; and single-byte corruptions near the end
		try(c15Case{Ops: ops, Crash: -1, Cycle2: true}, false)
		if strings.Contains(ops, "r") {
			try(c15Case{Ops: ops, Crash: -1, Cycle2: true, HighIndex: true}, true)
		}
		if len(ops) == maxLen || len(ops) <= 2 {
			for fb := 1; fb <= 60; fb++ {
				try(c15Case{Ops: ops, Crash: -1, Flip: fb}, true)
			}
		}
		if n%211 == 0 {
			r.Sample(map[string]interface{}{"ops": ops, "journal": fmt.Sprint(journal)})
		}
		return true
	})
	r.Bound = fmt.Sprintf("sequences up to length %d over 6 operations; every crash point x every tail length; 2 recovery cycles", maxLen)
}
