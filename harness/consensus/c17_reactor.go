package consensus

// C17 part "consensus" — hostile-but-decodable messages against the real consensus Reactor with
// live peer state, followed into the consensus state machine and into the consumers of the peer
// state.
//
// A case = (node state, peer-state prefix, one hostile message). For every case a fresh real
// consensus.State (4 validators, MemDB stores, real BlockExecutor, counter app) is driven to the
// node state with properly signed messages, a real Reactor is started over it (waitSync mode, so
// that the harness — not the production goroutines — owns the state machine: the harness makes
// exactly the calls receiveRoutine makes), a mock p2p.Peer gets its real PeerState through
// InitPeer, the prefix and then the hostile message are marshalled and handed to the real
// Reactor.Receive inside the same recover the MConnection recvRoutine applies.
//
// What is then followed, and what counts (second sentence of the property, exactly):
//   * a panic inside Reactor.Receive is caught by the connection => peer error => allowed
//     ("at worst that peer being disconnected"); counted as an outcome, never a violation;
//   * every message the reactor queued for the state machine is handed to the real cs.handleMsg;
//     a panic THERE is outside the connection's recover: production's receiveRoutine logs
//     "CONSENSUS FAILURE" and halts => the node is wedged => violation;
//   * the consumers of the peer state run outside any recover in production
//     (gossipDataRoutine / gossipVotesRoutine / queryMaj23Routine are plain goroutines):
//     the real routines are run for a bounded number of loop iterations (the mock peer's
//     IsRunning() turns false after k calls; the sleep durations are configured to 1ns), once with
//     the node where it is and once after the node has moved to the next height (the peer state is
//     then "lagging", which is what reaches the catch-up branches); a panic there would crash the
//     process => violation;
//   * memory: what the peer's message makes the node retain for that peer (PeerState bit arrays)
//     or in the state machine (the part set allocated from a proposal's header) must not exceed
//     the RecvMessageCapacity of the channel the message arrived on;
//   * not wedged: after the hostile input, +2/3 precommits for a fresh block in a later round and
//     the block's parts (all properly signed, sent by another peer) must still make the node commit
//     and move to the next height.

import (
	"bytes"
	"fmt"
	"math"
	"net"
	"os"
	"runtime"
	"runtime/debug"
	"strings"
	"sync"
	"sync/atomic"
	"testing"
	"time"

	"github.com/gogo/protobuf/proto"
	dbm "github.com/tendermint/tm-db"

	abcicli "github.com/tendermint/tendermint/abci/client"
	"github.com/tendermint/tendermint/abci/example/counter"
	cfg "github.com/tendermint/tendermint/config"
	cstypes "github.com/tendermint/tendermint/consensus/types"
	"github.com/tendermint/tendermint/crypto"
	"github.com/tendermint/tendermint/crypto/ed25519"
	"github.com/tendermint/tendermint/crypto/merkle"
	"github.com/tendermint/tendermint/internal/verif/vr"
	"github.com/tendermint/tendermint/libs/bits"
	"github.com/tendermint/tendermint/libs/log"
	tmrand "github.com/tendermint/tendermint/libs/rand"
	"github.com/tendermint/tendermint/libs/service"
	tmsync "github.com/tendermint/tendermint/libs/sync"
	"github.com/tendermint/tendermint/p2p"
	tmconn "github.com/tendermint/tendermint/p2p/conn"
	tmcons "github.com/tendermint/tendermint/proto/tendermint/consensus"
	tmcrypto "github.com/tendermint/tendermint/proto/tendermint/crypto"
	tmbits "github.com/tendermint/tendermint/proto/tendermint/libs/bits"
	tmproto "github.com/tendermint/tendermint/proto/tendermint/types"
	sm "github.com/tendermint/tendermint/state"
	"github.com/tendermint/tendermint/store"
	"github.com/tendermint/tendermint/types"
)

const c17Chain = "c17-chain"

// ---------------------------------------------------------------------------------------------
// mock peer

type c17Peer struct {
	id  p2p.ID
	mtx sync.Mutex
	kv  map[string]interface{}

	stopped  int32 // Stop() calls (the switch disconnecting the peer)
	counting int32 // 1: IsRunning consumes budget
	budget   int32
	sent     int32
	sentB    int64
}

var _ p2p.Peer = (*c17Peer)(nil)

func newC17Peer(id string) *c17Peer { return &c17Peer{id: p2p.ID(id), kv: map[string]interface{}{}} }

func (p *c17Peer) Start() error          { return nil }
func (p *c17Peer) OnStart() error        { return nil }
func (p *c17Peer) Stop() error           { atomic.AddInt32(&p.stopped, 1); return nil }
func (p *c17Peer) OnStop()               {}
func (p *c17Peer) Reset() error          { return nil }
func (p *c17Peer) OnReset() error        { return nil }
func (p *c17Peer) Quit() <-chan struct{} { return make(chan struct{}) }
func (p *c17Peer) String() string        { return "c17Peer{" + string(p.id) + "}" }
func (p *c17Peer) SetLogger(log.Logger)  {}
func (p *c17Peer) IsRunning() bool {
	if atomic.LoadInt32(&p.stopped) > 0 {
		return false
	}
	if atomic.LoadInt32(&p.counting) == 1 {
		return atomic.AddInt32(&p.budget, -1) >= 0
	}
	return true
}
func (p *c17Peer) FlushStop()                      {}
func (p *c17Peer) ID() p2p.ID                      { return p.id }
func (p *c17Peer) RemoteIP() net.IP                { return net.IPv4(10, 0, 0, 17) }
func (p *c17Peer) RemoteAddr() net.Addr            { return &net.TCPAddr{IP: p.RemoteIP(), Port: 26656} }
func (p *c17Peer) IsOutbound() bool                { return false }
func (p *c17Peer) IsPersistent() bool              { return false }
func (p *c17Peer) CloseConn() error                { return nil }
func (p *c17Peer) NodeInfo() p2p.NodeInfo          { return p2p.DefaultNodeInfo{} }
func (p *c17Peer) Status() tmconn.ConnectionStatus { return tmconn.ConnectionStatus{} }
func (p *c17Peer) SocketAddr() *p2p.NetAddress {
	return p2p.NewNetAddressIPPort(p.RemoteIP(), 26656)
}
func (p *c17Peer) Send(ch byte, b []byte) bool {
	atomic.AddInt32(&p.sent, 1)
	atomic.AddInt64(&p.sentB, int64(len(b)))
	return true
}
func (p *c17Peer) TrySend(ch byte, b []byte) bool { return p.Send(ch, b) }
func (p *c17Peer) Set(k string, v interface{}) {
	p.mtx.Lock()
	p.kv[k] = v
	p.mtx.Unlock()
}
func (p *c17Peer) Get(k string) interface{} {
	p.mtx.Lock()
	defer p.mtx.Unlock()
	return p.kv[k]
}
func (p *c17Peer) SetRemovalFailed()      {}
func (p *c17Peer) GetRemovalFailed() bool { return false }

var _ service.Service = (*c17Peer)(nil)

type c17Ticker struct{ c chan timeoutInfo }

func (t *c17Ticker) Start() error                { return nil }
func (t *c17Ticker) Stop() error                 { return nil }
func (t *c17Ticker) Chan() <-chan timeoutInfo    { return t.c }
func (t *c17Ticker) ScheduleTimeout(timeoutInfo) {}
func (t *c17Ticker) SetLogger(log.Logger)        {}

// ---------------------------------------------------------------------------------------------
// environment: keys, genesis, config (one per process)

type c17Env struct {
	config  *cfg.Config
	keys    []crypto.PrivKey      // in validator-set order
	pvs     []types.PrivValidator // same order
	genesis sm.State
	nodeIdx int // the node's validator index: NOT the proposer of (1,0)
	byzIdx  int // the hostile peer's validator key: the proposer of (1,0)
	garbage []byte
	nvals   int
}

func newC17Env() *c17Env { return newC17EnvN(4) }

// newC17EnvN: nvals validators of equal power (65 makes every validator bit array span two words).
func newC17EnvN(nvals int) *c17Env {
	e := &c17Env{nvals: nvals}
	e.config = cfg.ResetTestRoot("c17_consensus")
	e.config.Consensus.PeerGossipSleepDuration = time.Nanosecond
	e.config.Consensus.PeerQueryMaj23SleepDuration = time.Nanosecond
	var gvals []types.GenesisValidator
	var keys []crypto.PrivKey
	for i := 0; i < nvals; i++ {
		k := ed25519.GenPrivKeyFromSecret([]byte(fmt.Sprintf("c17-validator-%d", i)))
		keys = append(keys, k)
		gvals = append(gvals, types.GenesisValidator{PubKey: k.PubKey(), Power: 10})
	}
	gd := &types.GenesisDoc{GenesisTime: time.Date(2022, 5, 1, 0, 0, 0, 0, time.UTC), ChainID: c17Chain, InitialHeight: 1, Validators: gvals}
	st, err := sm.MakeGenesisState(gd)
	if err != nil {
		panic(err)
	}
	e.genesis = st
	for _, v := range st.Validators.Validators {
		for _, k := range keys {
			if bytes.Equal(k.PubKey().Address(), v.Address) {
				e.keys = append(e.keys, k)
				e.pvs = append(e.pvs, types.NewMockPVWithParams(k, false, false))
			}
		}
	}
	prop := st.Validators.GetProposer().Address
	for i, v := range st.Validators.Validators {
		if bytes.Equal(v.Address, prop) {
			e.byzIdx = i
		}
	}
	e.nodeIdx = (e.byzIdx + 1) % 4
	e.garbage = make([]byte, 64)
	for i := range e.garbage {
		e.garbage[i] = byte(3*i + 1)
	}
	return e
}

func (e *c17Env) cleanup() { os.RemoveAll(e.config.RootDir) }

// ---------------------------------------------------------------------------------------------
// node

type c17Node struct {
	e     *c17Env
	cs    *State
	conR  *Reactor
	sw    *p2p.Switch
	bus   *types.EventBus
	caps  map[byte]int
	block *types.Block // the legit proposal block of the current height (states with a proposal)
	parts *types.PartSet
	prop  *types.Proposal
}

const (
	c17NodeGenesisWait  = 0 // height 1, step NewHeight (a node waiting for genesis time)
	c17NodePropose1     = 1 // height 1 round 0 step Propose, no proposal yet (node is not the proposer)
	c17NodePrevote1     = 2 // height 1 round 0, legit proposal complete, node has prevoted
	c17NodeNewHeight2   = 3 // height 2, step NewHeight (just committed height 1: the timeout-commit window)
	c17NodePropose2     = 4 // height 2 round 0 after enterNewRound
	c17NNodeStatesQuick = 5
	// thorough only
	c17NodePrecommit1  = 5 // height 1 round 0, polka seen, node locked and precommitted
	c17NodeCommitWait1 = 6 // height 1, +2/3 precommits for a block the node does not have: step Commit, waiting for parts
	c17NodeRound1      = 7 // height 1 round 1 (moved by +2/3-any prevotes of round 1), step Propose
	c17NNodeStatesAll  = 8
)

var c17NodeNames = []string{"h1-newheight(genesis-wait)", "h1-r0-propose", "h1-r0-prevote(proposal-complete)", "h2-newheight(after-commit)", "h2-r0-entered",
	"h1-r0-precommit(locked)", "h1-commit(waiting-for-block)", "h1-r1-propose"}

func (e *c17Env) newNode(state int) *c17Node {
	n := &c17Node{e: e}
	db := dbm.NewMemDB()
	blockStore := store.NewBlockStore(db)
	stateStore := sm.NewStore(db, sm.StoreOptions{})
	st := e.genesis.Copy()
	if err := stateStore.Save(st); err != nil {
		panic(err)
	}
	mtx := new(tmsync.Mutex)
	app := counter.NewApplication(true)
	proxy := abcicli.NewLocalClient(mtx, app)
	mp := emptyMempool{}
	evpool := sm.EmptyEvidencePool{}
	blockExec := sm.NewBlockExecutor(stateStore, log.NewNopLogger(), proxy, mp, evpool)
	cs := NewState(e.config.Consensus, st, blockExec, blockStore, mp, evpool)
	cs.SetLogger(log.NewNopLogger())
	cs.SetPrivValidator(e.pvs[e.nodeIdx])
	cs.SetTimeoutTicker(&c17Ticker{c: make(chan timeoutInfo)})
	n.bus = types.NewEventBus()
	n.bus.SetLogger(log.NewNopLogger())
	if err := n.bus.Start(); err != nil {
		panic(err)
	}
	cs.SetEventBus(n.bus)
	n.cs = cs

	conR := NewReactor(cs, true) // waitSync: OnStart does not start the state machine's goroutines
	conR.SetLogger(log.NewNopLogger())
	conR.SetEventBus(n.bus)
	nodeKey := p2p.NodeKey{PrivKey: e.keys[e.nodeIdx]}
	ni := p2p.DefaultNodeInfo{DefaultNodeID: nodeKey.ID(), Network: c17Chain, Moniker: "c17"}
	tr := p2p.NewMultiplexTransport(ni, nodeKey, tmconn.DefaultMConnConfig())
	sw := p2p.NewSwitch(e.config.P2P, tr)
	sw.SetLogger(log.NewNopLogger())
	sw.AddReactor("CONSENSUS", conR)
	n.sw, n.conR = sw, conR
	if err := conR.Start(); err != nil {
		panic(err)
	}
	conR.mtx.Lock()
	conR.waitSync = false // consensus mode, state machine owned by the harness
	conR.mtx.Unlock()
	n.caps = map[byte]int{}
	for _, d := range conR.GetChannels() {
		n.caps[d.ID] = d.RecvMessageCapacity
	}

	if state >= c17NNodeStatesQuick {
		n.timeoutNewHeight()
		switch state {
		case c17NodePrecommit1:
			n.makeProposal(0, e.byzIdx)
			n.feedProposal("honest")
			n.drainInternal()
			bid := types.BlockID{Hash: n.block.Hash(), PartSetHeader: n.parts.Header()}
			for i := 0; i < e.nvals && cs.Step < cstypes.RoundStepPrecommit; i++ {
				if i != e.nodeIdx {
					n.handle(msgInfo{&VoteMessage{n.vote(i, 1, 0, tmproto.PrevoteType, bid)}, "honest"})
				}
			}
			n.drainInternal()
			if cs.Step != cstypes.RoundStepPrecommit || cs.LockedBlock == nil {
				panic(fmt.Sprintf("c17: precommit state not reached: %d/%d/%v", cs.Height, cs.Round, cs.Step))
			}
		case c17NodeCommitWait1:
			n.makeProposal(0, e.byzIdx)
			bid := types.BlockID{Hash: n.block.Hash(), PartSetHeader: n.parts.Header()}
			for i := 0; i < e.nvals; i++ {
				if i != e.nodeIdx {
					n.handle(msgInfo{&VoteMessage{n.vote(i, 1, 0, tmproto.PrecommitType, bid)}, "honest"})
				}
			}
			n.drainInternal()
			if cs.Step != cstypes.RoundStepCommit || cs.ProposalBlock != nil || cs.Height != 1 {
				panic(fmt.Sprintf("c17: commit-wait state not reached: %d/%d/%v", cs.Height, cs.Round, cs.Step))
			}
		case c17NodeRound1:
			for i := 0; i < e.nvals; i++ {
				if i != e.nodeIdx {
					n.handle(msgInfo{&VoteMessage{n.vote(i, 1, 1, tmproto.PrevoteType, types.BlockID{})}, "honest"})
				}
			}
			n.drainInternal()
			if cs.Round != 1 || cs.Height != 1 {
				panic(fmt.Sprintf("c17: round-1 state not reached: %d/%d/%v", cs.Height, cs.Round, cs.Step))
			}
		}
		return n
	}
	if state >= c17NodePropose1 {
		n.timeoutNewHeight()
	}
	if state >= c17NodePrevote1 {
		n.makeProposal(0, e.byzIdx)
		n.feedProposal("honest")
		n.drainInternal()
	}
	if state >= c17NodeNewHeight2 {
		bid := types.BlockID{Hash: n.block.Hash(), PartSetHeader: n.parts.Header()}
		for _, typ := range []tmproto.SignedMsgType{tmproto.PrevoteType, tmproto.PrecommitType} {
			for i := 0; i < e.nvals && cs.Height == 1; i++ {
				// stop as soon as the height is committed: with SkipTimeoutCommit (test config) the 4th
				// precommit would take the node straight into round 0 of height 2
				if i != e.nodeIdx {
					n.handle(msgInfo{&VoteMessage{n.vote(i, 1, 0, typ, bid)}, "honest"})
				}
			}
			n.drainInternal()
		}
		if cs.Height != 2 || cs.Step != cstypes.RoundStepNewHeight {
			panic(fmt.Sprintf("c17: could not drive the node to height 2: %d/%d/%v", cs.Height, cs.Round, cs.Step))
		}
		n.block, n.parts, n.prop = nil, nil, nil
	}
	if state >= c17NodePropose2 {
		n.timeoutNewHeight()
		n.drainInternal()
	}
	want := [][3]int64{{1, 0, int64(cstypes.RoundStepNewHeight)}, {1, 0, int64(cstypes.RoundStepPropose)}, {1, 0, int64(cstypes.RoundStepPrevote)},
		{2, 0, int64(cstypes.RoundStepNewHeight)}, {2, 0, -1}}[state]
	if cs.Height != want[0] || int64(cs.Round) != want[1] || (want[2] >= 0 && int64(cs.Step) != want[2]) {
		panic(fmt.Sprintf("c17: node state %s not reached: %d/%d/%v", c17NodeNames[state], cs.Height, cs.Round, cs.Step))
	}
	return n
}

func (n *c17Node) stop() {
	n.conR.mtx.Lock()
	n.conR.waitSync = true // OnStop would otherwise wait for a state machine that was never started
	n.conR.mtx.Unlock()
	_ = n.conR.Stop()
	_ = n.bus.Stop()
}

func (n *c17Node) timeoutNewHeight() {
	n.cs.handleTimeout(timeoutInfo{Duration: 0, Height: n.cs.Height, Round: 0, Step: cstypes.RoundStepNewHeight}, n.cs.RoundState)
}

// handle = one iteration of receiveRoutine's peer/internal queue branch, with receiveRoutine's recover.
func (n *c17Node) handle(mi msgInfo) (panicked string) {
	defer func() {
		if r := recover(); r != nil {
			panicked = c17PanicSite(fmt.Sprint(r), debug.Stack())
		}
	}()
	n.cs.handleMsg(mi)
	return ""
}

func (n *c17Node) drainInternal() (panicked string) {
	for i := 0; i < 200; i++ {
		select {
		case mi := <-n.cs.internalMsgQueue:
			if p := n.handle(mi); p != "" {
				return p
			}
		default:
			return ""
		}
	}
	return ""
}

func (n *c17Node) vote(valIdx int, h int64, r int32, typ tmproto.SignedMsgType, bid types.BlockID) *types.Vote {
	v := &types.Vote{Type: typ, Height: h, Round: r, BlockID: bid, Timestamp: time.Now().UTC(),
		ValidatorAddress: n.e.keys[valIdx].PubKey().Address(), ValidatorIndex: int32(valIdx)}
	pv := v.ToProto()
	if err := n.e.pvs[valIdx].SignVote(c17Chain, pv); err != nil {
		panic(err)
	}
	v.Signature = pv.Signature
	return v
}

func (n *c17Node) makeProposal(round int32, signer int) {
	n.block, n.parts = n.cs.createProposalBlock()
	if n.block == nil {
		panic("c17: createProposalBlock returned nil")
	}
	p := types.NewProposal(n.cs.Height, round, -1, types.BlockID{Hash: n.block.Hash(), PartSetHeader: n.parts.Header()})
	pp := p.ToProto()
	if err := n.e.pvs[signer].SignProposal(c17Chain, pp); err != nil {
		panic(err)
	}
	p.Signature = pp.Signature
	n.prop = p
}

func (n *c17Node) feedProposal(peer p2p.ID) {
	n.handle(msgInfo{&ProposalMessage{n.prop}, peer})
	for i := 0; i < int(n.parts.Total()); i++ {
		n.handle(msgInfo{&BlockPartMessage{n.cs.Height, n.prop.Round, n.parts.GetPart(i)}, peer})
	}
}

// liveness: +2/3 precommits for a fresh block in round 2 plus its parts must commit the height.
func (n *c17Node) commitViaCatchup() (panicked string, ok bool) {
	h := n.cs.Height
	if n.cs.Step == cstypes.RoundStepCommit && n.cs.ProposalBlock == nil && n.parts != nil {
		// the node already saw +2/3 precommits for n.block and waits for its parts: honest validators
		// cannot precommit a second block, so liveness here means "the parts still complete the commit"
		for i := 0; i < int(n.parts.Total()); i++ {
			if p := n.handle(msgInfo{&BlockPartMessage{h, n.cs.CommitRound, n.parts.GetPart(i)}, "honest"}); p != "" {
				return p, false
			}
			if p := n.drainInternal(); p != "" {
				return p, false
			}
		}
		return "", n.cs.Height == h+1
	}
	block, parts := n.cs.createProposalBlock()
	if block == nil {
		return "", false
	}
	bid := types.BlockID{Hash: block.Hash(), PartSetHeader: parts.Header()}
	for i := 0; i < n.e.nvals; i++ {
		if i != n.e.nodeIdx {
			if p := n.handle(msgInfo{&VoteMessage{n.vote(i, h, 2, tmproto.PrecommitType, bid)}, "honest"}); p != "" {
				return p, false
			}
			if p := n.drainInternal(); p != "" {
				return p, false
			}
		}
	}
	for i := 0; i < int(parts.Total()); i++ {
		if p := n.handle(msgInfo{&BlockPartMessage{h, 2, parts.GetPart(i)}, "honest"}); p != "" {
			return p, false
		}
		if p := n.drainInternal(); p != "" {
			return p, false
		}
	}
	return "", n.cs.Height == h+1
}

// c17PanicSite: "<panic value class> @ <innermost tendermint frame> <- <innermost consensus frame>"
func c17PanicSite(val string, stack []byte) string {
	lines := strings.Split(string(stack), "\n")
	start := 0
	for i, l := range lines {
		if strings.HasPrefix(l, "panic(") {
			start = i
		}
	}
	inner, cons := "", ""
	for _, l := range lines[start:] {
		if !strings.HasPrefix(l, "github.com/tendermint/tendermint/") {
			continue
		}
		f := strings.TrimPrefix(l, "github.com/tendermint/tendermint/")
		if i := strings.LastIndex(f, "("); i > 0 {
			f = f[:i]
		}
		if strings.Contains(f, "c17") {
			break
		}
		if inner == "" {
			inner = f
		}
		if cons == "" && strings.HasPrefix(f, "consensus.") {
			cons = f
		}
	}
	cls := val
	for _, pre := range []string{"runtime error: index out of range", "runtime error: invalid memory address", "runtime error: makeslice", "runtime error: slice bounds out of range", "runtime error: integer divide by zero"} {
		if strings.HasPrefix(val, pre) {
			cls = pre
		}
	}
	if len(cls) > 60 {
		cls = cls[:60]
	}
	s := cls + " @ " + inner
	if cons != "" && cons != inner {
		s += " <- " + cons
	}
	return s
}

// ---------------------------------------------------------------------------------------------
// hostile message description (flat, JSON-replayable)

type c17CMsg struct {
	Type string `json:"type"` // NewRoundStep NewValidBlock Proposal ProposalPOL BlockPart Vote HasVote VoteSetMaj23 VoteSetBits
	Ch   byte   `json:"ch"`
	H    int64  `json:"h"`
	R    int32  `json:"r"`
	// NewRoundStep
	Step uint32 `json:"step,omitempty"`
	Secs int64  `json:"secs,omitempty"`
	LCR  int32  `json:"lcr,omitempty"`
	// part set header / block id
	Total   uint32 `json:"total,omitempty"`
	HashLen int    `json:"hash_len,omitempty"` // length of the part-set-header hash
	BIDKind int    `json:"bid_kind,omitempty"` // 0 complete (block hash 32), 1 nil, 2 hash only (no parts), 3 block hash len 31
	OurHdr  bool   `json:"our_hdr,omitempty"`  // use the node's current proposal part-set header / block id when it has one
	// bit array
	Bits  int64 `json:"bits,omitempty"`
	Elems int   `json:"elems,omitempty"`
	NoBA  bool  `json:"no_ba,omitempty"` // nil bit array (where the field is nullable)
	// misc
	IsCommit bool  `json:"is_commit,omitempty"`
	PolRound int32 `json:"pol_round,omitempty"`
	VType    int32 `json:"vtype,omitempty"`
	Index    int64 `json:"index,omitempty"`
	Sig      int   `json:"sig,omitempty"` // 0 valid by the Byzantine validator, 1 valid by another validator, 2 garbage 64 bytes, 3 empty, 4 65 bytes
	AddrLen  int   `json:"addr_len,omitempty"`
	PType    int32 `json:"ptype,omitempty"` // proposal type field
	// block part
	PartLen    int    `json:"part_len,omitempty"`
	ProofTotal int64  `json:"proof_total,omitempty"`
	ProofIndex int64  `json:"proof_index,omitempty"`
	Aunts      int    `json:"aunts,omitempty"`
	Field      string `json:"field"` // which field is being varied (for the outcome histogram / notes)
}

type c17CCase struct {
	Node  int     `json:"node"`
	Peer  int     `json:"peer"`
	Msg   c17CMsg `json:"msg"`
	NVals int     `json:"validators,omitempty"` // 0 = 4
}

func c17BA(bitsN int64, elems int) tmbits.BitArray {
	ba := tmbits.BitArray{Bits: bitsN}
	if elems > 0 {
		ba.Elems = make([]uint64, elems)
		for i := range ba.Elems {
			ba.Elems[i] = math.MaxUint64
		}
	}
	return ba
}

func c17Hash(n int, tag byte) []byte {
	if n <= 0 {
		return nil
	}
	b := make([]byte, n)
	for i := range b {
		b[i] = tag + byte(i)
	}
	return b
}

func (n *c17Node) psh(m c17CMsg) tmproto.PartSetHeader {
	if m.OurHdr && n.cs.ProposalBlockParts != nil {
		h := n.cs.ProposalBlockParts.Header()
		return tmproto.PartSetHeader{Total: h.Total, Hash: h.Hash}
	}
	return tmproto.PartSetHeader{Total: m.Total, Hash: c17Hash(m.HashLen, 0x40)}
}

func (n *c17Node) bid(m c17CMsg) tmproto.BlockID {
	if m.OurHdr && n.cs.ProposalBlock != nil && n.cs.ProposalBlockParts != nil {
		b := types.BlockID{Hash: n.cs.ProposalBlock.Hash(), PartSetHeader: n.cs.ProposalBlockParts.Header()}
		return b.ToProto()
	}
	switch m.BIDKind {
	case 1:
		return tmproto.BlockID{}
	case 2:
		return tmproto.BlockID{Hash: c17Hash(32, 0x20)}
	case 3:
		return tmproto.BlockID{Hash: c17Hash(31, 0x20), PartSetHeader: n.psh(m)}
	}
	return tmproto.BlockID{Hash: c17Hash(32, 0x20), PartSetHeader: n.psh(m)}
}

func (n *c17Node) sig(kind int, signBytes []byte) []byte {
	switch kind {
	case 0, 1:
		k := n.e.keys[n.e.byzIdx]
		if kind == 1 {
			k = n.e.keys[(n.e.byzIdx+2)%4]
		}
		s, err := k.Sign(signBytes)
		if err != nil {
			panic(err)
		}
		return s
	case 2:
		return n.e.garbage
	case 3:
		return nil
	}
	return append(append([]byte{}, n.e.garbage...), 0x01)
}

// c17SignBytes: the canonicalisation helpers panic on shapes no honest signer produces; a hostile
// signer simply signs something else.
func c17SignBytes(f func() []byte) (b []byte) {
	defer func() {
		if r := recover(); r != nil {
			b = []byte("c17-uncanonicalisable")
		}
	}()
	return f()
}

// build returns the wire bytes of the hostile message (a tmcons.Message).
func (n *c17Node) build(m c17CMsg) []byte {
	var w p2p.Wrapper
	switch m.Type {
	case "NewRoundStep":
		w = &tmcons.NewRoundStep{Height: m.H, Round: m.R, Step: m.Step, SecondsSinceStartTime: m.Secs, LastCommitRound: m.LCR}
	case "NewValidBlock":
		x := &tmcons.NewValidBlock{Height: m.H, Round: m.R, BlockPartSetHeader: n.psh(m), IsCommit: m.IsCommit}
		if !m.NoBA {
			ba := c17BA(m.Bits, m.Elems)
			x.BlockParts = &ba
		}
		w = x
	case "Proposal":
		p := tmproto.Proposal{Type: tmproto.SignedMsgType(m.PType), Height: m.H, Round: m.R, PolRound: m.PolRound, BlockID: n.bid(m), Timestamp: time.Now().UTC()}
		p.Signature = n.sig(m.Sig, c17SignBytes(func() []byte { return types.ProposalSignBytes(c17Chain, &p) }))
		w = &tmcons.Proposal{Proposal: p}
	case "ProposalPOL":
		w = &tmcons.ProposalPOL{Height: m.H, ProposalPolRound: m.PolRound, ProposalPol: c17BA(m.Bits, m.Elems)}
	case "BlockPart":
		part := tmproto.Part{Index: uint32(m.Index), Bytes: bytes.Repeat([]byte{0xab}, m.PartLen),
			Proof: tmcrypto.Proof{Total: m.ProofTotal, Index: m.ProofIndex, LeafHash: c17Hash(32, 0x60)}}
		for i := 0; i < m.Aunts; i++ {
			part.Proof.Aunts = append(part.Proof.Aunts, c17Hash(32, byte(0x70+i)))
		}
		if m.OurHdr && n.parts != nil && m.Index >= 0 && m.Index < int64(n.parts.Total()) {
			pp, _ := n.parts.GetPart(int(m.Index)).ToProto()
			part = *pp
			if m.ProofTotal != 0 {
				part.Proof.Total = m.ProofTotal
			}
			if m.ProofIndex != 0 {
				part.Proof.Index = m.ProofIndex
			}
		}
		w = &tmcons.BlockPart{Height: m.H, Round: m.R, Part: part}
	case "Vote":
		addr := n.e.keys[n.e.byzIdx].PubKey().Address()
		if m.AddrLen != 20 {
			addr = c17Hash(m.AddrLen, 0x11)
		}
		v := &tmproto.Vote{Type: tmproto.SignedMsgType(m.VType), Height: m.H, Round: m.R, BlockID: n.bid(m), Timestamp: time.Now().UTC(),
			ValidatorAddress: addr, ValidatorIndex: int32(m.Index)}
		v.Signature = n.sig(m.Sig, c17SignBytes(func() []byte { return types.VoteSignBytes(c17Chain, v) }))
		w = &tmcons.Vote{Vote: v}
	case "HasVote":
		w = &tmcons.HasVote{Height: m.H, Round: m.R, Type: tmproto.SignedMsgType(m.VType), Index: int32(m.Index)}
	case "VoteSetMaj23":
		w = &tmcons.VoteSetMaj23{Height: m.H, Round: m.R, Type: tmproto.SignedMsgType(m.VType), BlockID: n.bid(m)}
	case "VoteSetBits":
		w = &tmcons.VoteSetBits{Height: m.H, Round: m.R, Type: tmproto.SignedMsgType(m.VType), BlockID: n.bid(m), Votes: c17BA(m.Bits, m.Elems)}
	default:
		panic("c17: unknown message type " + m.Type)
	}
	bz, err := proto.Marshal(w.Wrap())
	if err != nil {
		panic(err)
	}
	return bz
}

// receive = the MConnection's onReceive -> Reactor.Receive under the connection's recover.
func (n *c17Node) receive(peer *c17Peer, ch byte, bz []byte) (panicked string) {
	defer func() {
		if r := recover(); r != nil {
			panicked = c17PanicSite(fmt.Sprint(r), debug.Stack())
		}
	}()
	n.conR.Receive(ch, peer, bz)
	return ""
}

// drainPeerQueue hands everything the reactor queued to the state machine (and what the node then
// tells itself), exactly as receiveRoutine would.
func (n *c17Node) drainPeerQueue() (panicked string, handled int) {
	for i := 0; i < 200; i++ {
		select {
		case mi := <-n.cs.peerMsgQueue:
			handled++
			if p := n.handle(mi); p != "" {
				return p, handled
			}
		case mi := <-n.cs.internalMsgQueue:
			if p := n.handle(mi); p != "" {
				return p, handled
			}
		default:
			return "", handled
		}
	}
	return "", handled
}

// gossip runs k loop iterations of each consumer of the peer state.
func (n *c17Node) gossip(peer *c17Peer, ps *PeerState, k int32) (site string) {
	n.conR.mtx.Lock()
	n.conR.rs = n.cs.GetRoundState()
	n.conR.mtx.Unlock()
	run := func(name string, f func()) {
		if site != "" {
			return
		}
		atomic.StoreInt32(&peer.budget, k)
		atomic.StoreInt32(&peer.counting, 1)
		defer atomic.StoreInt32(&peer.counting, 0)
		defer func() {
			if r := recover(); r != nil {
				site = name + ": " + c17PanicSite(fmt.Sprint(r), debug.Stack())
			}
		}()
		f()
	}
	run("gossipDataRoutine", func() { n.conR.gossipDataRoutine(peer, ps) })
	run("gossipVotesRoutine", func() { n.conR.gossipVotesRoutine(peer, ps) })
	run("queryMaj23Routine", func() { n.conR.queryMaj23Routine(peer, ps) })
	return
}

func c17BABytes(b *bits.BitArray) int64 {
	if b == nil {
		return 0
	}
	return int64(len(b.Elems)) * 8
}

// retained memory attributable to the peer: PeerState bit arrays; and in the state machine: the part set
func (n *c17Node) retained(ps *PeerState) (field string, bytesN int64) {
	prs := ps.GetRoundState()
	for _, f := range []struct {
		n string
		b *bits.BitArray
	}{{"PeerState.ProposalBlockParts", prs.ProposalBlockParts}, {"PeerState.ProposalPOL", prs.ProposalPOL}, {"PeerState.Prevotes", prs.Prevotes},
		{"PeerState.Precommits", prs.Precommits}, {"PeerState.LastCommit", prs.LastCommit}, {"PeerState.CatchupCommit", prs.CatchupCommit}} {
		if x := c17BABytes(f.b); x > bytesN {
			field, bytesN = f.n, x
		}
	}
	if p := n.cs.ProposalBlockParts; p != nil {
		if x := int64(p.Total())*8 + int64(p.Total())/8; x > bytesN {
			field, bytesN = "State.ProposalBlockParts", x
		}
	}
	return
}

// ---------------------------------------------------------------------------------------------
// peer-state prefixes (legit-shaped messages sent by the peer before the hostile one)

const (
	c17PeerFresh       = iota
	c17PeerNRS         // NewRoundStep(h, 0, Propose)
	c17PeerProposal    // + Proposal(h, 0) (the node's own proposal header when it has one)
	c17PeerProposalPOL // NewRoundStep(h, 1, Propose) + Proposal(h, 1, POLRound 0)
	c17PeerCommitted   // NRS + NewValidBlock(IsCommit) + NewRoundStep(h, 0, Commit)
	c17PeerLagging     // NewRoundStep(h-1, 0, Propose)  (only when h-1 >= 1)
	c17PeerAhead       // NewRoundStep(h+1, 0, NewHeight)
	c17NPeerStates
)

var c17PeerNames = []string{"fresh", "after-NewRoundStep", "after-Proposal", "after-Proposal(POLRound=0)", "after-commit", "lagging(h-1)", "ahead(h+1)"}

func (n *c17Node) lcr(h int64) int32 {
	if h <= 1 {
		return -1
	}
	return 0
}

func (n *c17Node) prefix(peerState int) (msgs []c17CMsg, ok bool) {
	h := n.cs.Height
	nrs := func(h int64, r int32, step cstypes.RoundStepType) c17CMsg {
		return c17CMsg{Type: "NewRoundStep", Ch: StateChannel, H: h, R: r, Step: uint32(step), LCR: n.lcr(h)}
	}
	switch peerState {
	case c17PeerFresh:
	case c17PeerNRS:
		msgs = append(msgs, nrs(h, 0, cstypes.RoundStepPropose))
	case c17PeerProposal:
		msgs = append(msgs, nrs(h, 0, cstypes.RoundStepPropose),
			c17CMsg{Type: "Proposal", Ch: DataChannel, H: h, R: 0, PolRound: -1, PType: 32, Total: 1, HashLen: 32, OurHdr: true, Sig: 2})
	case c17PeerProposalPOL:
		msgs = append(msgs, nrs(h, 1, cstypes.RoundStepPropose),
			c17CMsg{Type: "Proposal", Ch: DataChannel, H: h, R: 1, PolRound: 0, PType: 32, Total: 1, HashLen: 32, OurHdr: true, Sig: 2})
	case c17PeerCommitted:
		msgs = append(msgs, nrs(h, 0, cstypes.RoundStepPropose),
			c17CMsg{Type: "NewValidBlock", Ch: StateChannel, H: h, R: 0, Total: 1, HashLen: 32, OurHdr: true, Bits: 1, Elems: 1, IsCommit: true},
			nrs(h, 0, cstypes.RoundStepCommit))
		if n.cs.ProposalBlockParts != nil {
			t := int64(n.cs.ProposalBlockParts.Total())
			msgs[1].Bits, msgs[1].Elems = t, int((t+63)/64)
		}
	case c17PeerLagging:
		if h-1 < 1 {
			return nil, false
		}
		msgs = append(msgs, nrs(h-1, 0, cstypes.RoundStepPropose))
	case c17PeerAhead:
		msgs = append(msgs, nrs(h+1, 0, cstypes.RoundStepNewHeight))
	}
	return msgs, true
}

// ---------------------------------------------------------------------------------------------
// one case

type c17CResult struct {
	key, what string
	outcome   string
	diags     []string
}

func (e *c17Env) run(c c17CCase) (res c17CResult) {
	// BitArray.PickRandom (used by the gossip routines) draws from the global tmrand source: pin it so
	// that a case is a deterministic function of its description
	tmrand.Seed(17)
	n := e.newNode(c.Node)
	defer n.stop()
	peer := newC17Peer("hostile-peer")
	n.conR.InitPeer(peer)
	ps := peer.Get(types.PeerStateKey).(*PeerState)
	pre, ok := n.prefix(c.Peer)
	if !ok {
		res.outcome = "n/a"
		return
	}
	for _, m := range pre {
		if p := n.receive(peer, m.Ch, n.build(m)); p != "" || atomic.LoadInt32(&peer.stopped) > 0 {
			panic(fmt.Sprintf("c17: legit prefix message %+v was rejected (panic %q, stopped %d) in node state %s", m, p, peer.stopped, c17NodeNames[c.Node]))
		}
		if p, _ := n.drainPeerQueue(); p != "" {
			panic("c17: legit prefix message panicked the state machine: " + p)
		}
	}
	h0 := n.cs.Height
	// an honest bystander peer in the node's height/round that has nothing yet: what the node gossips
	// to IT is computed from node state the hostile peer may have influenced
	by := newC17Peer("bystander")
	n.conR.InitPeer(by)
	psBy := by.Get(types.PeerStateKey).(*PeerState)
	{
		m := c17CMsg{Type: "NewRoundStep", Ch: StateChannel, H: h0, R: n.cs.Round, Step: uint32(cstypes.RoundStepPropose), LCR: n.lcr(h0)}
		if p := n.receive(by, m.Ch, n.build(m)); p != "" || atomic.LoadInt32(&by.stopped) > 0 {
			panic("c17: bystander NewRoundStep rejected: " + p)
		}
	}
	capacity := int64(n.caps[c.Msg.Ch])
	bz := n.build(c.Msg)
	desc := fmt.Sprintf("node %s, peer %s, %s varied field %s: %+v (%d wire bytes)", c17NodeNames[c.Node], c17PeerNames[c.Peer], c.Msg.Type, c.Msg.Field, c.Msg, len(bz))

	var m0, m1 runtime.MemStats
	runtime.ReadMemStats(&m0)
	recvPanic := n.receive(peer, c.Msg.Ch, bz)
	stopped := atomic.LoadInt32(&peer.stopped) > 0
	smPanic, handled := n.drainPeerQueue()
	runtime.ReadMemStats(&m1)
	alloc := int64(m1.TotalAlloc - m0.TotalAlloc)

	out := "accepted"
	switch {
	case recvPanic != "":
		out = "recv-panic(peer-error)"
		res.diags = append(res.diags, "diag_receive_panics_recovered_by_connection")
	case stopped:
		out = "peer-stopped"
	}
	if handled > 0 {
		out += "+queued"
	}
	if n.cs.Height > h0 {
		out += "+committed" // the peer's message completed a commit (e.g. it was the real missing block part)
	}
	if smPanic != "" {
		res.key = "consensus/state.go:handleMsg:panic:" + c.Msg.Type + ": " + smPanic
		res.what = "a peer message made the consensus state machine panic (production: CONSENSUS FAILURE, receiveRoutine halts): " + desc
		return
	}
	if f, b := n.retained(ps); capacity > 0 && b > capacity {
		res.key = "consensus:retains-more-than-channel-capacity:" + c.Msg.Type + ":" + f
		res.what = fmt.Sprintf("%s retains %d bytes after one message on channel %#x (RecvMessageCapacity %d): %s", f, b, c.Msg.Ch, capacity, desc)
		return
	}
	if capacity > 0 && alloc > 4*capacity {
		res.diags = append(res.diags, "diag_transient_alloc_over_4x_capacity")
	}
	// consumers of the peer state, node where it is
	if s := n.gossip(peer, ps, 3); s != "" {
		res.key = "consensus/reactor.go:" + s
		res.what = "peer state set by a peer message crashes a gossip goroutine (no recover in production: the process dies): " + desc
		return
	}
	if s := n.gossip(by, psBy, 3); s != "" {
		res.key = "consensus/reactor.go:(to-bystander)" + s
		res.what = "node state set by a peer message crashes the gossip goroutine of ANOTHER peer (no recover in production: the process dies): " + desc
		return
	}
	// not wedged: the node still commits
	if p, ok := n.commitViaCatchup(); p != "" {
		res.key = "consensus/state.go:handleMsg:panic-after-hostile-input:" + c.Msg.Type + ": " + p
		res.what = "after the hostile message, properly signed precommits/parts made the state machine panic: " + desc
		return
	} else if !ok { // ok = the height the node was at when the script started got committed
		res.key = "consensus/state.go:node-does-not-commit-after-hostile-input:" + c.Msg.Type + ":" + c.Msg.Field
		res.what = fmt.Sprintf("after the hostile message, +2/3 precommits and the block parts no longer commit height %d (node at %d/%d/%v): %s", h0, n.cs.Height, n.cs.Round, n.cs.Step, desc)
		return
	}
	// consumers again: the peer state is now one height behind the node (catch-up branches)
	if !stopped && recvPanic == "" {
		if s := n.gossip(peer, ps, 3); s != "" {
			res.key = "consensus/reactor.go:" + s
			res.what = "peer state set by a peer message crashes a gossip goroutine once the node has moved to the next height (no recover in production: the process dies): " + desc
			return
		}
	}
	if s := n.gossip(by, psBy, 3); s != "" {
		res.key = "consensus/reactor.go:(to-bystander)" + s
		res.what = "node state set by a peer message crashes the gossip goroutine of ANOTHER peer once the node has moved to the next height: " + desc
		return
	}
	if atomic.LoadInt32(&peer.sent) > 0 {
		out += "+gossiped"
	}
	res.outcome = out
	return
}

// ---------------------------------------------------------------------------------------------
// the alphabet

func c17Heights(h, ph int64) []int64 {
	hs := []int64{h - 2, h - 1, h, h + 1, h + 2, 0, -1, math.MaxInt64}
	if ph != 0 {
		seen := false
		for _, x := range hs {
			if x == ph {
				seen = true
			}
		}
		if !seen {
			hs = append(hs, ph)
		}
	}
	return hs
}

// c17Messages: for each message type, a base message that applies to the peer/node state, and
// every numeric field varied over its boundary menu one at a time (plus bit-array shape products).
func c17Messages(h, ph int64, nvals int64, partsTotal uint32) []c17CMsg {
	var out []c17CMsg
	if ph == 0 {
		ph = h
	}
	add := func(m c17CMsg, field string) { m.Field = field; out = append(out, m) }
	rounds := []int32{-1, 0, 1, 3, math.MaxInt32}
	i32 := []int64{-1, 0, 1, nvals - 1, nvals, nvals + 1, math.MaxInt32}
	vtypes := []int32{0, 1, 2, 3, 32, -1, math.MaxInt32}
	lcr := int32(0)
	if ph <= 1 {
		lcr = -1
	}
	baShapes := func(n int64) [][2]int64 { // (bits, elems)
		var s [][2]int64
		for _, b := range []int64{-1, 0, 1, n - 1, n, n + 1, 64, 65, 1e6, math.MaxInt32, math.MaxInt64} {
			need := int64(0)
			if b > 0 && b <= 1e6 {
				need = (b + 63) / 64
			}
			for _, el := range []int64{0, need - 1, need, need + 1, 1, 20000} {
				if el < 0 {
					continue
				}
				dup := false
				for _, x := range s {
					if x[0] == b && x[1] == el {
						dup = true
					}
				}
				if !dup {
					s = append(s, [2]int64{b, el})
				}
			}
		}
		return s
	}

	// NewRoundStep
	{
		base := c17CMsg{Type: "NewRoundStep", Ch: StateChannel, H: ph, R: 0, Step: uint32(cstypes.RoundStepPrevote), LCR: lcr}
		for _, x := range c17Heights(h, ph) {
			for _, l := range []int32{-1, 0} {
				m := base
				m.H, m.LCR = x, l
				add(m, "Height")
			}
		}
		for _, x := range rounds {
			m := base
			m.R = x
			add(m, "Round")
		}
		for _, x := range []uint32{0, 1, 2, 3, 4, 5, 6, 7, 8, 9, 255, math.MaxUint32} {
			m := base
			m.Step = x
			add(m, "Step")
		}
		for _, x := range []int64{-1, 1, math.MaxInt64, math.MinInt64} {
			m := base
			m.Secs = x
			add(m, "SecondsSinceStartTime")
		}
		for _, x := range []int32{-2, -1, 0, 1, math.MaxInt32} {
			m := base
			m.LCR = x
			add(m, "LastCommitRound")
			m.H = ph + 1 // next height with that last-commit round (shifts Precommits into LastCommit)
			add(m, "LastCommitRound@h+1")
		}
	}
	// NewValidBlock
	{
		base := c17CMsg{Type: "NewValidBlock", Ch: StateChannel, H: ph, R: 0, Total: 1, HashLen: 32, Bits: 1, Elems: 1}
		for _, x := range c17Heights(h, ph) {
			m := base
			m.H = x
			add(m, "Height")
		}
		for _, x := range rounds {
			for _, ic := range []bool{false, true} {
				m := base
				m.R, m.IsCommit = x, ic
				add(m, "Round")
			}
		}
		for _, hl := range []int{0, 31, 33} {
			m := base
			m.HashLen = hl
			add(m, "PartSetHeader.Hash")
		}
		totals := []uint32{0, 1, 2, 64, 65, types.MaxBlockPartsCount - 1, types.MaxBlockPartsCount, types.MaxBlockPartsCount + 1, 1 << 20, math.MaxInt32, math.MaxUint32}
		if partsTotal > 0 {
			totals = append(totals, partsTotal)
		}
		for _, t := range totals {
			need := (int64(t) + 63) / 64
			for _, el := range []int64{0, need - 1, need, need + 1, 1} {
				if el < 0 || el > 40000 {
					continue
				}
				for _, ic := range []bool{false, true} {
					for _, our := range []bool{false, true} {
						if our && (partsTotal == 0 || t != partsTotal) {
							continue
						}
						m := base
						m.Total, m.Bits, m.Elems, m.IsCommit, m.OurHdr = t, int64(t), int(el), ic, our
						add(m, "Total=BlockParts.Bits,Elems")
					}
				}
			}
		}
		for _, s := range baShapes(1) {
			if s[1] > 40000 {
				continue
			}
			m := base
			m.Bits, m.Elems = s[0], int(s[1])
			add(m, "BlockParts.Bits!=Total")
		}
		m := base
		m.NoBA = true
		add(m, "BlockParts=nil")
	}
	// Proposal
	{
		base := c17CMsg{Type: "Proposal", Ch: DataChannel, H: ph, R: 0, PolRound: -1, PType: 32, Total: 1, HashLen: 32, Sig: 0}
		for _, sig := range []int{0, 1, 2, 3, 4} {
			for _, x := range c17Heights(h, ph) {
				m := base
				m.H, m.Sig = x, sig
				add(m, "Height")
			}
		}
		for _, x := range rounds {
			m := base
			m.R = x
			add(m, "Round")
		}
		for _, x := range []int32{-2, -1, 0, 1, math.MaxInt32} {
			for _, r := range []int32{0, 1} {
				m := base
				m.R, m.PolRound = r, x
				add(m, "POLRound")
			}
		}
		for _, x := range vtypes {
			m := base
			m.PType = x
			add(m, "Type")
		}
		for _, k := range []int{1, 2, 3} {
			m := base
			m.BIDKind = k
			add(m, "BlockID")
		}
		for _, hl := range []int{0, 31, 33} {
			m := base
			m.HashLen = hl
			add(m, "PartSetHeader.Hash")
		}
		for _, sig := range []int{0, 2} {
			for _, t := range []uint32{0, 1, 2, types.MaxBlockPartsCount, types.MaxBlockPartsCount + 1, 1 << 22, 1 << 28, math.MaxInt32, math.MaxUint32} {
				m := base
				m.Total, m.Sig = t, sig
				add(m, "PartSetHeader.Total")
			}
		}
	}
	// ProposalPOL
	{
		base := c17CMsg{Type: "ProposalPOL", Ch: DataChannel, H: ph, PolRound: 0, Bits: nvals, Elems: int((nvals + 63) / 64)}
		for _, x := range c17Heights(h, ph) {
			m := base
			m.H = x
			add(m, "Height")
		}
		for _, x := range rounds {
			m := base
			m.PolRound = x
			add(m, "ProposalPOLRound")
		}
		for _, s := range baShapes(nvals) {
			m := base
			m.Bits, m.Elems = s[0], int(s[1])
			add(m, "ProposalPOL(bits,elems)")
		}
		for _, b := range []int64{types.MaxVotesCount, types.MaxVotesCount + 1} {
			m := base
			m.Bits, m.Elems = b, int((b+63)/64)
			add(m, "ProposalPOL(bits,elems)")
		}
	}
	// BlockPart
	{
		base := c17CMsg{Type: "BlockPart", Ch: DataChannel, H: h, R: 0, Index: 0, PartLen: 10, ProofTotal: 1, ProofIndex: 0}
		for _, x := range c17Heights(h, ph) {
			m := base
			m.H = x
			add(m, "Height")
		}
		for _, x := range rounds {
			m := base
			m.R = x
			add(m, "Round")
		}
		idx := []int64{0, 1, int64(partsTotal) - 1, int64(partsTotal), int64(partsTotal) + 1, 63, 64, math.MaxInt32, math.MaxUint32}
		for _, x := range idx {
			if x < 0 {
				continue
			}
			for _, our := range []bool{false, true} {
				m := base
				m.Index, m.OurHdr = x, our
				add(m, "Part.Index")
			}
		}
		for _, x := range []int{0, 1, int(types.BlockPartSizeBytes), int(types.BlockPartSizeBytes) + 1} {
			m := base
			m.PartLen = x
			add(m, "Part.Bytes")
		}
		for _, x := range []int64{-1, 0, 1, 2, math.MaxInt32, math.MaxInt64} {
			for _, our := range []bool{false, true} {
				m := base
				m.ProofTotal, m.OurHdr = x, our
				add(m, "Proof.Total")
				m = base
				m.ProofIndex, m.OurHdr = x, our
				add(m, "Proof.Index")
			}
		}
		for _, x := range []int{1, 100, 101} {
			m := base
			m.Aunts = x
			add(m, "Proof.Aunts")
		}
	}
	// Vote
	{
		base := c17CMsg{Type: "Vote", Ch: VoteChannel, H: h, R: 0, VType: 1, Index: -100, AddrLen: 20, Sig: 0, Total: 1, HashLen: 32}
		// Index -100 = "the Byzantine validator's true index" (resolved by the caller)
		for _, vt := range []int32{1, 2} {
			for _, bk := range []int{0, 1} {
				for _, x := range c17Heights(h, ph) {
					m := base
					m.H, m.VType, m.BIDKind = x, vt, bk
					add(m, "Height")
				}
				for _, x := range rounds {
					m := base
					m.R, m.VType, m.BIDKind = x, vt, bk
					add(m, "Round")
				}
			}
		}
		for _, x := range vtypes {
			m := base
			m.VType = x
			add(m, "Type")
		}
		for _, x := range i32 {
			for _, sig := range []int{0, 2} {
				m := base
				m.Index, m.Sig = x, sig
				add(m, "ValidatorIndex")
			}
		}
		for _, x := range []int{0, 19, 21} {
			m := base
			m.AddrLen = x
			add(m, "ValidatorAddress")
		}
		for _, x := range []int{1, 2, 3, 4} {
			m := base
			m.Sig = x
			add(m, "Signature")
		}
		for _, k := range []int{2, 3} {
			m := base
			m.BIDKind = k
			add(m, "BlockID")
		}
	}
	// HasVote
	{
		base := c17CMsg{Type: "HasVote", Ch: StateChannel, H: ph, R: 0, VType: 1, Index: 0}
		for _, x := range c17Heights(h, ph) {
			m := base
			m.H = x
			add(m, "Height")
		}
		for _, x := range rounds {
			for _, vt := range []int32{1, 2} {
				m := base
				m.R, m.VType = x, vt
				add(m, "Round")
			}
		}
		for _, x := range vtypes {
			m := base
			m.VType = x
			add(m, "Type")
		}
		for _, x := range i32 {
			for _, vt := range []int32{1, 2} {
				m := base
				m.Index, m.VType = x, vt
				add(m, "Index")
			}
		}
	}
	// VoteSetMaj23
	{
		base := c17CMsg{Type: "VoteSetMaj23", Ch: StateChannel, H: h, R: 0, VType: 1, Total: 1, HashLen: 32}
		for _, x := range c17Heights(h, ph) {
			m := base
			m.H = x
			add(m, "Height")
		}
		for _, x := range rounds {
			for _, vt := range []int32{1, 2} {
				m := base
				m.R, m.VType = x, vt
				add(m, "Round")
			}
		}
		for _, x := range vtypes {
			m := base
			m.VType = x
			add(m, "Type")
		}
		for _, k := range []int{1, 2, 3} {
			m := base
			m.BIDKind = k
			add(m, "BlockID")
		}
		for _, t := range []uint32{0, 2, math.MaxUint32} {
			m := base
			m.Total = t
			add(m, "PartSetHeader.Total")
		}
		m := base
		m.OurHdr = true
		add(m, "BlockID=ours")
	}
	// VoteSetBits
	{
		base := c17CMsg{Type: "VoteSetBits", Ch: VoteSetBitsChannel, H: ph, R: 0, VType: 1, Total: 1, HashLen: 32, Bits: nvals, Elems: int((nvals + 63) / 64)}
		for _, x := range c17Heights(h, ph) {
			m := base
			m.H = x
			add(m, "Height")
		}
		for _, x := range rounds {
			for _, vt := range []int32{1, 2} {
				m := base
				m.R, m.VType = x, vt
				add(m, "Round")
			}
		}
		for _, x := range vtypes {
			m := base
			m.VType = x
			add(m, "Type")
		}
		for _, k := range []int{1, 2, 3} {
			m := base
			m.BIDKind = k
			add(m, "BlockID")
		}
		for _, vt := range []int32{1, 2} {
			for _, hh := range []int64{h, ph} {
				for _, s := range baShapes(nvals) {
					m := base
					m.H, m.VType, m.Bits, m.Elems = hh, vt, s[0], int(s[1])
					add(m, "Votes(bits,elems)")
				}
				if hh == ph && h == ph {
					break
				}
			}
		}
	}
	// every message type on every channel (wrong-channel deliveries)
	for _, t := range []string{"NewRoundStep", "NewValidBlock", "Proposal", "ProposalPOL", "BlockPart", "Vote", "HasVote", "VoteSetMaj23", "VoteSetBits"} {
		for _, m := range out {
			if m.Type == t {
				for _, ch := range []byte{StateChannel, DataChannel, VoteChannel, VoteSetBitsChannel, 0x7f} {
					if ch != m.Ch {
						m2 := m
						m2.Ch = ch
						m2.Field = "channel"
						out = append(out, m2)
					}
				}
				break
			}
		}
	}
	return out
}

func TestVerifC17Consensus(t *testing.T) {
	r := vr.Start("C17", "consensus", 85*time.Second, 18*time.Minute)
	defer r.Finish()
	r.Rule = "odometer over (node state x peer-state prefix x hostile message), hostile message = base message of each of the 9 consensus message types with each numeric " +
		"field varied over its boundary menu and bit arrays over (bits,elems) shapes; each tuple is executed on a fresh real State+Reactor; non-trivial = every case " +
		"(each differs from the well-formed base in at least one field, or is the base in a distinct node/peer state)"
	r.Assume("the hostile peer may hold one validator key (< 1/3 of the power): the proposer of height 1 round 0")
	r.Assume("gossip goroutines are executed as k=3 loop iterations of the real routine bodies in the harness goroutine, not as free-running goroutines")
	envs := map[int]*c17Env{}
	envFor := func(nv int) *c17Env {
		if nv == 0 {
			nv = 4
		}
		if envs[nv] == nil {
			envs[nv] = newC17EnvN(nv)
		}
		return envs[nv]
	}
	defer func() {
		for _, x := range envs {
			x.cleanup()
		}
	}()
	var rc c17CCase
	if rep, skip := r.ReplayCase(&rc); skip {
		return
	} else if rep {
		r.Eval()
		res := envFor(rc.NVals).run(rc)
		if res.key != "" {
			r.Violation(res.key, res.what, rc)
		}
		return
	}
	k := 0
	stop := false
	perType := map[string]int64{}
	// 4 validators: the whole alphabet; 65 validators (every validator bit array spans two words): the messages that carry or
	// address bit arrays and vote indexes
	for _, nv := range []int{4, 65} {
		e := envFor(nv)
		for node := 0; node < vr.Pick(c17NNodeStatesQuick, c17NNodeStatesAll) && !stop; node++ {
			for peerSt := 0; peerSt < c17NPeerStates && !stop; peerSt++ {
				// the heights the alphabet is relative to
				probe := e.newNode(node)
				h := probe.cs.Height
				pt := uint32(0)
				if probe.cs.ProposalBlockParts != nil {
					pt = probe.cs.ProposalBlockParts.Total()
				}
				_, ok := probe.prefix(peerSt)
				probe.stop()
				if !ok {
					continue
				}
				ph := h
				switch peerSt {
				case c17PeerFresh:
					ph = 0
				case c17PeerLagging:
					ph = h - 1
				case c17PeerAhead:
					ph = h + 1
				}
				msgs := c17Messages(h, ph, int64(e.nvals), pt)
				for _, m := range msgs {
					if nv != 4 && m.Type != "ProposalPOL" && m.Type != "NewValidBlock" && m.Type != "VoteSetBits" && m.Type != "HasVote" && m.Type != "VoteSetMaj23" {
						continue
					}
					if m.Type == "Vote" && m.Index == -100 {
						m.Index = int64(e.byzIdx)
					}
					k++
					if !r.Mine(k) {
						continue
					}
					if k%16 == 0 && r.Deadline("C17 consensus enumeration") {
						stop = true
						break
					}
					c := c17CCase{Node: node, Peer: peerSt, Msg: m}
					if nv != 4 {
						c.NVals = nv
					}
					// safety valve: a validly signed proposal makes the state machine allocate 8*Total bytes
					if m.Type == "Proposal" && m.Sig == 0 && m.Total > 1<<22 {
						r.Outcome("skipped:unsafe-to-execute(validly-signed-proposal-total>2^22)")
						continue
					}
					r.Eval()
					r.NTCount(1)
					perType[m.Type]++
					res := e.run(c)
					for _, d := range res.diags {
						r.Add(d, 1)
					}
					if res.key != "" {
						first := fmt.Errorf("%s", res.key)
						if !vr.Confirm(3, first, func() error {
							r2 := e.run(c)
							if r2.key == "" {
								return nil
							}
							return fmt.Errorf("%s", r2.key)
						}) {
							r.Note(fmt.Sprintf("unstable failure %s on %+v", res.key, c))
							r.Cap("a failing case did not fail identically on 3 re-runs; see notes")
							r.Outcome("unstable")
							continue
						}
						r.Violation(res.key, res.what, c)
						r.Outcome("violation:" + m.Type)
						continue
					}
					r.Outcome(m.Type + ":" + res.outcome)
					if k%1777 == 1 {
						r.Sample(c)
					}
				}
			}
		}
	}
	if !stop {
		r.Bound = fmt.Sprintf("%d node states x %d peer states x all one-field variations of 9 message types (4 validators) and of the 5 bit-array / index message types (65 validators)", vr.Pick(c17NNodeStatesQuick, c17NNodeStatesAll), c17NPeerStates)
	}
	for t, n := range perType {
		r.Set("cases_"+t, n)
	}
	if r.Shard == 0 {
		r.Set("cases_enumerated_total", k)
	}
	r.Set("goroutines_at_end", runtime.NumGoroutine())
}

var _ = merkle.HashFromByteSlices

// ---------------------------------------------------------------------------------------------
// part "fullqueue": back-pressure. The queue between the reactor and the state machine holds 1000 messages; a peer can fill it with
// well-formed messages. A connection routine that is then blocked handing over one more message is only waiting — it must not be
// holding the consensus state's mutex while it waits, or the one routine that empties the queue (it takes that mutex for every
// message) can never run again and the node is wedged by input that would not even cost the sender its connection.
// For every node state x message type that is queued (Proposal, BlockPart, Vote): fill the queue, deliver the message on a
// goroutine, wait until the goroutine listing shows it parked in the channel send, then try the write lock.

func c17QueueSenderParked() bool {
	buf := make([]byte, 1<<20)
	for {
		n := runtime.Stack(buf, true)
		if n < len(buf) {
			buf = buf[:n]
			break
		}
		buf = make([]byte, 2*len(buf))
	}
	for _, g := range strings.Split(string(buf), "\n\n") {
		if strings.Contains(g, "consensus.(*Reactor).ReceiveEnvelope") && strings.HasPrefix(g, "goroutine ") && strings.Contains(strings.SplitN(g, "\n", 2)[0], "[chan send") {
			return true
		}
	}
	return false
}

type c17QCase struct {
	Node int     `json:"node"`
	Msg  c17CMsg `json:"msg"`
}

func (e *c17Env) runFullQueue(c c17QCase) (key, what, inconcl string) {
	tmrand.Seed(17)
	n := e.newNode(c.Node)
	defer n.stop()
	peer := newC17Peer("flooding-peer")
	n.conR.InitPeer(peer)
	pre, _ := n.prefix(c17PeerNRS)
	for _, m := range pre {
		if p := n.receive(peer, m.Ch, n.build(m)); p != "" {
			return "", "", "prefix message panicked: " + p
		}
	}
	// the queue is full of well-formed messages nobody has handled yet
	filler := msgInfo{Msg: &HasVoteMessage{Height: n.cs.Height, Round: 0, Type: tmproto.PrevoteType, Index: 0}, PeerID: peer.ID()}
	for full := false; !full; {
		select {
		case n.cs.peerMsgQueue <- filler:
		default:
			full = true
		}
	}
	bz := n.build(c.Msg)
	done := make(chan string, 1)
	go func() { done <- n.receive(peer, c.Msg.Ch, bz) }()
	parked := false
	deadline := time.Now().Add(20 * time.Second)
	for time.Now().Before(deadline) {
		select {
		case p := <-done:
			// refused or dropped before the queue (peer error, or not a queued message): nothing to judge
			_ = p
			return "", "", "not-queued"
		default:
		}
		if c17QueueSenderParked() {
			parked = true
			break
		}
		time.Sleep(200 * time.Microsecond)
	}
	if !parked {
		return "", "", "the delivering goroutine neither returned nor parked in the channel send within 20 s"
	}
	// the routine that empties the queue needs the write lock for every message
	// (other routines of the reactor take the read lock for microseconds at a time — updateRoundStateRoutine every 100 µs — so one
	// failed attempt proves nothing: the lock counts as held only if no attempt in 400 ms succeeds)
	got := false
	for i := 0; i < 4000 && !got; i++ {
		if got = n.cs.mtx.TryLock(); got {
			n.cs.mtx.Unlock()
		} else {
			time.Sleep(100 * time.Microsecond)
		}
	}
	// let the sender go: make room
	<-n.cs.peerMsgQueue
	select {
	case <-done:
	case <-time.After(20 * time.Second):
		return "", "", "the delivering goroutine did not finish after room was made"
	}
	if !got {
		return "consensus/reactor.go:ReceiveEnvelope:state-mutex-held-while-blocked-on-the-full-message-queue:" + c.Msg.Type,
			fmt.Sprintf("node state %s: with the peer message queue full, the connection routine delivering a %s is parked in the channel send and the consensus state's mutex cannot be write-locked: the routine that empties the queue is locked out (deadlock)", c17NodeNames[c.Node], c.Msg.Type), ""
	}
	return "", "", ""
}

func TestVerifC17FullQueue(t *testing.T) {
	r := vr.Start("C17", "fullqueue", 60*time.Second, 5*time.Minute)
	defer r.Finish()
	r.Rule = "every node state x every message type the reactor queues for the state machine (Proposal, BlockPart, Vote), delivered while the queue is full: once the delivering goroutine is parked in the channel send (goroutine listing), the consensus state's mutex must be free (TryLock); a case = (node state, message type); non-trivial = all"
	r.Assume("a goroutine shown as [chan send] inside Reactor.ReceiveEnvelope is the delivering one (nothing else calls the reactor in this harness)")
	e := newC17Env()
	defer e.cleanup()
	var rc c17QCase
	if rep, skip := r.ReplayCase(&rc); skip {
		return
	} else if rep {
		r.Eval()
		if k, w, _ := e.runFullQueue(rc); k != "" {
			r.Violation(k, w, rc)
		}
		return
	}
	k := 0
	for node := 0; node < c17NNodeStatesAll; node++ {
		probe := e.newNode(node)
		h := probe.cs.Height
		pt := uint32(0)
		if probe.cs.ProposalBlockParts != nil {
			pt = probe.cs.ProposalBlockParts.Total()
		}
		probe.stop()
		_ = pt
		for _, m := range []c17CMsg{
			{Type: "Proposal", Ch: DataChannel, H: h, R: 0, PolRound: -1, PType: 32, Total: 1, HashLen: 32, Sig: 0},
			{Type: "BlockPart", Ch: DataChannel, H: h, R: 0, Index: 0, PartLen: 10, ProofTotal: 1, ProofIndex: 0},
			{Type: "Vote", Ch: VoteChannel, H: h, R: 0, VType: 1, Index: int64(e.byzIdx), AddrLen: 20, Sig: 0, Total: 1, HashLen: 32},
			{Type: "Vote", Ch: VoteChannel, H: h, R: 0, VType: 2, Index: int64(e.byzIdx), AddrLen: 20, Sig: 0, Total: 1, HashLen: 32},
		} {
			k++
			if !r.Mine(k) {
				continue
			}
			c := c17QCase{Node: node, Msg: m}
			r.Eval()
			r.NTCount(1)
			key, what, inc := e.runFullQueue(c)
			switch {
			case key != "":
				if k2, _, _ := e.runFullQueue(c); k2 != key {
					r.Cap("a full-queue case did not reproduce its verdict")
					continue
				}
				r.Outcome(key)
				r.Violation(key, what, c)
			case inc == "not-queued":
				r.Outcome(m.Type + ":not-queued-in-this-state")
			case inc != "":
				r.Cap("fullqueue: " + inc)
			default:
				r.Outcome(m.Type + ":parked-without-the-mutex")
			}
		}
	}
	r.Bound = fmt.Sprintf("%d node states x 3 queued message types", c17NNodeStatesAll)
}
