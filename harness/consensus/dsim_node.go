package consensus

// dsim — deterministic consensus simulation kit (DESIGN §3.2), direct mode.
//
// A node is a real consensus.State over MemDB-backed stores and a real BlockExecutor. The harness
// calls cs.handleMsg / cs.handleTimeout — exactly the calls receiveRoutine makes — and owns every
// source of nondeterminism: the TimeoutTicker (dsTicker reproduces the production "newer H/R/S
// replaces older" rule), the wall clock (tmtime.Now is pinned through the injected clock seam, so
// every signature and hash is byte-identical across replays), and message delivery.

import (
	"bytes"
	"crypto/sha256"
	"encoding/hex"
	"encoding/json"
	"fmt"
	"reflect"
	"sort"
	"strings"
	"sync"
	"time"
	"unsafe"

	dbm "github.com/tendermint/tm-db"

	abcicli "github.com/tendermint/tendermint/abci/client"
	abci "github.com/tendermint/tendermint/abci/types"
	cfg "github.com/tendermint/tendermint/config"
	"github.com/tendermint/tendermint/crypto/ed25519"
	"github.com/tendermint/tendermint/libs/log"
	tmsync "github.com/tendermint/tendermint/libs/sync"
	"github.com/tendermint/tendermint/p2p"
	tmproto "github.com/tendermint/tendermint/proto/tendermint/types"
	sm "github.com/tendermint/tendermint/state"
	"github.com/tendermint/tendermint/store"
	"github.com/tendermint/tendermint/types"
	tmtime "github.com/tendermint/tendermint/types/time"
)

var dsGenesisTime = time.Date(2022, 3, 1, 12, 0, 0, 0, time.UTC)

func dsSetClock(now time.Time) { tmtime.SetVerifClock(func() time.Time { return now }) }

func dsPinClock() {
	now := dsGenesisTime.Add(time.Hour)
	tmtime.SetVerifClock(func() time.Time { return now })
	ed25519.SetVerifMemo(true)
}

// ---------------------------------------------------------------------------------------------
// ticker

type dsTicker struct {
	cur   timeoutInfo // last accepted tick (the production routine's `ti`)
	armed bool        // its timer has not fired yet
	stale []timeoutInfo
	c     chan timeoutInfo
}

func newDsTicker() *dsTicker                   { return &dsTicker{c: make(chan timeoutInfo)} }
func (t *dsTicker) Start() error               { return nil }
func (t *dsTicker) Stop() error                { return nil }
func (t *dsTicker) Chan() <-chan timeoutInfo   { return t.c }
func (t *dsTicker) SetLogger(log.Logger)       {}
func (t *dsTicker) ScheduleTimeout(newti timeoutInfo) {
	ti := t.cur
	// verbatim from timeoutTicker.timeoutRoutine
	if newti.Height < ti.Height {
		return
	} else if newti.Height == ti.Height {
		if newti.Round < ti.Round {
			return
		} else if newti.Round == ti.Round {
			if ti.Step > 0 && newti.Step <= ti.Step {
				return
			}
		}
	}
	if t.armed {
		// the replaced timer may already have fired with its tock in flight: keep the last one as a
		// possible stale delivery
		t.stale = append(t.stale, t.cur)
		if len(t.stale) > 1 {
			t.stale = t.stale[len(t.stale)-1:]
		}
	}
	newti.Duration = 0 // durations are not part of the model
	t.cur, t.armed = newti, true
}

func dsTiString(ti timeoutInfo) string { return fmt.Sprintf("%d/%d/%d", ti.Height, ti.Round, ti.Step) }

// ---------------------------------------------------------------------------------------------
// world: genesis, keys, interned messages

type dsMsg struct {
	ID    int
	Key   string
	Kind  string // "proposal" (proposal + all parts), "vote"
	From  int    // validator index
	Round int32
	Type  tmproto.SignedMsgType
	Block string // short block label ("nil" for nil votes)
	POL   int32
	mis   []msgInfo
	Byz   bool
	Forged bool // carries another validator's name under the faulty validator's signature
	rank  string
}

func (m *dsMsg) String() string {
	if m.Kind == "vote" {
		t := "prevote"
		if m.Type == tmproto.PrecommitType {
			t = "precommit"
		}
		if m.Forged {
			t = "FORGED-" + t
		}
		return fmt.Sprintf("%s(v%d,r%d,%s)", t, m.From, m.Round, m.Block)
	}
	return fmt.Sprintf("%s(v%d,r%d,%s,pol%d)", m.Kind, m.From, m.Round, m.Block, m.POL)
}

type dsWorld struct {
	N         int
	Powers    []int64
	Height    int64
	ChainID   string
	conf      *cfg.ConsensusConfig
	genDoc    *types.GenesisDoc
	state0    sm.State
	pvs       []types.MockPV // by validator index (validator-set order)
	EagerOwn  bool           // a node processes its own queued messages immediately
	UseFilePV bool
	TrackSigned bool // the log of signed messages is part of the canonical state (C02 monitor)

	mtx      sync.Mutex
	msgs     []*dsMsg
	msgByKey map[string]int
	labels   map[string]string // block hash hex -> label
	blocks   map[string]*types.Block
	bids     map[string]types.BlockID
	nodeHook func(n *dsNode) // optional per-node customisation
}

func newDsWorld(powers []int64, seed string) *dsWorld {
	dsPinClock()
	w := &dsWorld{N: len(powers), Powers: powers, ChainID: "dsim-chain", Height: 1, EagerOwn: true,
		msgByKey: map[string]int{}, labels: map[string]string{}, blocks: map[string]*types.Block{}, bids: map[string]types.BlockID{}}
	w.conf = cfg.TestConsensusConfig()
	w.conf.SkipTimeoutCommit = false
	w.conf.CreateEmptyBlocks = true
	w.conf.CreateEmptyBlocksInterval = 0
	type kv struct {
		pv  types.MockPV
		pow int64
	}
	var all []kv
	for i := 0; i < w.N; i++ {
		k := ed25519.GenPrivKeyFromSecret([]byte(fmt.Sprintf("dsim-%s-val-%d", seed, i)))
		all = append(all, kv{types.NewMockPVWithParams(k, false, false), powers[i]})
	}
	gvals := make([]types.GenesisValidator, w.N)
	for i, x := range all {
		pk, _ := x.pv.GetPubKey()
		gvals[i] = types.GenesisValidator{Address: pk.Address(), PubKey: pk, Power: x.pow, Name: fmt.Sprintf("v%d", i)}
	}
	w.genDoc = &types.GenesisDoc{GenesisTime: dsGenesisTime, ChainID: w.ChainID, InitialHeight: 1,
		ConsensusParams: types.DefaultConsensusParams(), Validators: gvals}
	st, err := sm.MakeGenesisState(w.genDoc)
	if err != nil {
		panic(err)
	}
	w.state0 = st
	// order keys by validator index
	w.pvs = make([]types.MockPV, w.N)
	for _, x := range all {
		pk, _ := x.pv.GetPubKey()
		idx, _ := st.Validators.GetByAddress(pk.Address())
		w.pvs[idx] = x.pv
	}
	return w
}

// proposerOf returns the validator index that proposes in the given round of the world's height.
func (w *dsWorld) proposerOf(round int32) int {
	vs := w.state0.Validators.Copy()
	if round > 0 {
		vs.IncrementProposerPriority(round)
	}
	idx, _ := vs.GetByAddress(vs.GetProposer().Address)
	return int(idx)
}

func (w *dsWorld) label(hash []byte) string {
	if len(hash) == 0 {
		return "nil"
	}
	h := hex.EncodeToString(hash)
	w.mtx.Lock()
	defer w.mtx.Unlock()
	if l, ok := w.labels[h]; ok {
		return l
	}
	l := "blk" + h[:6]
	w.labels[h] = l
	return l
}

func (w *dsWorld) nameBlock(b *types.Block, name string) {
	h := hex.EncodeToString(b.Hash())
	w.mtx.Lock()
	w.labels[h] = name
	w.blocks[name] = b
	w.mtx.Unlock()
}

// knownBlockIDs lists (sorted) every block id that appears in an interned message.
func (w *dsWorld) knownBlockIDs() []types.BlockID {
	w.mtx.Lock()
	defer w.mtx.Unlock()
	out := make([]types.BlockID, 0, len(w.bids))
	for _, b := range w.bids {
		out = append(out, b)
	}
	sort.Slice(out, func(i, j int) bool { return bytes.Compare(out[i].Hash, out[j].Hash) < 0 })
	return out
}

func (w *dsWorld) msg(id int) *dsMsg { w.mtx.Lock(); defer w.mtx.Unlock(); return w.msgs[id] }

func (w *dsWorld) nMsgs() int { w.mtx.Lock(); defer w.mtx.Unlock(); return len(w.msgs) }

func (w *dsWorld) intern(m *dsMsg) int {
	w.mtx.Lock()
	defer w.mtx.Unlock()
	if id, ok := w.msgByKey[m.Key]; ok {
		return id
	}
	m.ID = len(w.msgs)
	m.rank = dsMsgRank(m)
	w.msgs = append(w.msgs, m)
	for _, mi := range m.mis {
		switch x := mi.Msg.(type) {
		case *VoteMessage:
			if len(x.Vote.BlockID.Hash) > 0 {
				w.bids[string(x.Vote.BlockID.Hash)] = x.Vote.BlockID
			}
		case *ProposalMessage:
			w.bids[string(x.Proposal.BlockID.Hash)] = x.Proposal.BlockID
		}
	}
	w.msgByKey[m.Key] = m.ID
	return m.ID
}

// ensureVoteByKey re-creates (signs and interns) a harness-signed vote from its content key; used by
// replays for votes that the exploration created on demand.
func (w *dsWorld) ensureVoteByKey(key string) bool {
	var idx, typ int
	var h int64
	var rd int32
	var hashHex, sigHex string
	parts := strings.Split(key, "/")
	if len(parts) != 7 || parts[0] != "V" {
		return false
	}
	fmt.Sscan(parts[1], &idx)
	fmt.Sscan(parts[2], &h)
	fmt.Sscan(parts[3], &rd)
	fmt.Sscan(parts[4], &typ)
	hashHex, sigHex = parts[5], parts[6]
	_ = sigHex
	bid := types.BlockID{}
	if hashHex != "" {
		found := false
		for _, b := range w.knownBlockIDs() {
			if fmt.Sprintf("%X", []byte(b.Hash)) == hashHex {
				bid, found = b, true
			}
		}
		if !found {
			return false
		}
	}
	w.byzVote(idx, tmproto.SignedMsgType(typ), rd, bid)
	w.mtx.Lock()
	_, ok := w.msgByKey[key]
	w.mtx.Unlock()
	return ok
}

func dsMsgRank(m *dsMsg) string {
	kind := 0
	if m.Kind == "vote" {
		kind = 1
		if m.Type == tmproto.PrecommitType {
			kind = 2
		}
	}
	return fmt.Sprintf("%03d/%d/%d/%s/%d", m.Round, kind, m.From, m.Block, m.POL)
}

func (w *dsWorld) valIndexOf(addr []byte) int {
	idx, _ := w.state0.Validators.GetByAddress(addr)
	return int(idx)
}

func (w *dsWorld) internVote(v *types.Vote, byz bool) int {
	key := fmt.Sprintf("V/%d/%d/%d/%d/%X/%X", v.ValidatorIndex, v.Height, v.Round, v.Type, v.BlockID.Hash, v.Signature)
	m := &dsMsg{Key: key, Kind: "vote", From: int(v.ValidatorIndex), Round: v.Round, Type: v.Type,
		Block: w.label(v.BlockID.Hash), mis: []msgInfo{{Msg: &VoteMessage{Vote: v}}}, Byz: byz}
	return w.intern(m)
}

func (w *dsWorld) internProposal(from int, p *types.Proposal, parts []*types.Part, byz bool) int {
	key := fmt.Sprintf("P/%d/%d/%d/%d/%X/%X", from, p.Height, p.Round, p.POLRound, p.BlockID.Hash, p.Signature)
	m := &dsMsg{Key: key, Kind: "proposal", From: from, Round: p.Round, POL: p.POLRound, Block: w.label(p.BlockID.Hash), Byz: byz}
	m.mis = append(m.mis, msgInfo{Msg: &ProposalMessage{Proposal: p}})
	for _, part := range parts {
		m.mis = append(m.mis, msgInfo{Msg: &BlockPartMessage{Height: p.Height, Round: p.Round, Part: part}})
	}
	return w.intern(m)
}

// byzVote signs an arbitrary vote with validator idx's key (the harness holds the faulty keys).
func (w *dsWorld) byzVote(idx int, typ tmproto.SignedMsgType, round int32, bid types.BlockID) int {
	pk, _ := w.pvs[idx].GetPubKey()
	v := &types.Vote{Type: typ, Height: w.Height, Round: round, BlockID: bid, Timestamp: tmtime.Now(),
		ValidatorAddress: pk.Address(), ValidatorIndex: int32(idx)}
	pv := v.ToProto()
	if err := w.pvs[idx].SignVote(w.ChainID, pv); err != nil {
		panic(err)
	}
	v.Signature = pv.Signature
	return w.internVote(v, true)
}

// forgedVote is a vote that names validator `victim` but is signed with validator `signer`'s key: well-formed,
// wrong signature. It must be refused and change nothing.
func (w *dsWorld) forgedVote(signer, victim int, typ tmproto.SignedMsgType, round int32, bid types.BlockID) int {
	vpk, _ := w.pvs[victim].GetPubKey()
	v := &types.Vote{Type: typ, Height: w.Height, Round: round, BlockID: bid, Timestamp: tmtime.Now(),
		ValidatorAddress: vpk.Address(), ValidatorIndex: int32(victim)}
	pv := v.ToProto()
	if err := w.pvs[signer].SignVote(w.ChainID, pv); err != nil {
		panic(err)
	}
	v.Signature = pv.Signature
	id := w.internVote(v, true)
	w.mtx.Lock()
	w.msgs[id].Forged = true
	w.mtx.Unlock()
	return id
}

// byzProposal builds a block with the given txs (and optionally a wrong app hash) proposed by idx.
func (w *dsWorld) byzProposal(idx int, round, polRound int32, txs []types.Tx, badAppHash bool, name string) (int, types.BlockID) {
	pk, _ := w.pvs[idx].GetPubKey()
	commit := types.NewCommit(0, 0, types.BlockID{}, nil)
	block, _ := w.state0.MakeBlock(w.Height, txs, commit, nil, pk.Address())
	if badAppHash {
		block.AppHash = []byte("verif-wrong-app-hash-00000000000")
	}
	ps := block.MakePartSet(types.BlockPartSizeBytes)
	bid := types.BlockID{Hash: block.Hash(), PartSetHeader: ps.Header()}
	w.nameBlock(block, name)
	return w.signedProposal(idx, round, polRound, bid, ps), bid
}

func (w *dsWorld) signedProposal(idx int, round, polRound int32, bid types.BlockID, ps *types.PartSet) int {
	p := types.NewProposal(w.Height, round, polRound, bid)
	pp := p.ToProto()
	if err := w.pvs[idx].SignProposal(w.ChainID, pp); err != nil {
		panic(err)
	}
	p.Signature = pp.Signature
	var parts []*types.Part
	for i := 0; i < int(ps.Total()); i++ {
		parts = append(parts, ps.GetPart(i))
	}
	return w.internProposal(idx, p, parts, true)
}

// ---------------------------------------------------------------------------------------------
// node

type dsSigned struct { // one signed message leaving the node, for the C02 monitor
	Msg int
}

type dsNode struct {
	w       *dsWorld
	idx     int
	cs      *State
	ticker  *dsTicker
	bstore  *store.BlockStore
	sstore  sm.Store
	ownQ    []int
	signed  []int // every message the node signed and queued, in order
	sigMark int   // len(signed) when the current event started (monitors judge only what this event signed)
	halted  string
	decided string // label of the decided block (height w.Height)
	decHash []byte
	bus     *types.EventBus
	nEvents int
}

type dsApp struct{ abci.BaseApplication }

var dsStoppedBus = func() *types.EventBus {
	b := types.NewEventBus()
	b.SetLogger(log.NewNopLogger())
	if err := b.Start(); err != nil {
		panic(err)
	}
	if err := b.Stop(); err != nil {
		panic(err)
	}
	return b
}()

func (w *dsWorld) newNode(idx int) *dsNode {
	n := &dsNode{w: w, idx: idx, ticker: newDsTicker()}
	db := dbm.NewMemDB()
	n.bstore = store.NewBlockStore(db)
	n.sstore = sm.NewStore(dbm.NewMemDB(), sm.StoreOptions{DiscardABCIResponses: false})
	state := w.state0.Copy()
	if err := n.sstore.Save(state); err != nil {
		panic(err)
	}
	mtx := new(tmsync.Mutex)
	conn := abcicli.NewLocalClient(mtx, &dsApp{})
	blockExec := sm.NewBlockExecutor(n.sstore, log.NewNopLogger(), conn, emptyMempool{}, sm.EmptyEvidencePool{})
	cs := NewState(w.conf, state, blockExec, n.bstore, emptyMempool{}, sm.EmptyEvidencePool{})
	cs.SetLogger(log.NewNopLogger())
	cs.SetPrivValidator(w.pvs[idx])
	cs.SetEventBus(dsStoppedBus) // a stopped bus: Publish returns at once, no goroutine, no subscribers
	cs.SetTimeoutTicker(n.ticker)
	n.cs = cs
	if w.nodeHook != nil {
		w.nodeHook(n)
	}
	// what OnStart does after WAL catch-up: schedule round 0
	cs.scheduleRound0(cs.GetRoundState())
	return n
}

func dsPeerID(from int) p2p.ID { return p2p.ID(fmt.Sprintf("v%d", from)) }

// guarded runs f the way receiveRoutine runs a handler: a panic halts the node ("CONSENSUS FAILURE").
func (n *dsNode) guarded(f func()) {
	defer func() {
		if r := recover(); r != nil {
			n.halted = fmt.Sprint(r)
			// the production recover leaves cs.mtx locked if the panic came from inside a handler that
			// holds it with defer-unlock — handleMsg/handleTimeout use defer, so it is released.
		}
	}()
	f()
}

// drain moves what the node put on its internal queue to the harness-owned own-FIFO.
func (n *dsNode) drain() {
	var pendingProp *types.Proposal
	var parts []*types.Part
	flush := func() {
		if pendingProp != nil {
			id := n.w.internProposal(n.idx, pendingProp, parts, false)
			n.ownQ = append(n.ownQ, id)
			n.signed = append(n.signed, id)
			pendingProp, parts = nil, nil
		}
	}
	for {
		select {
		case mi := <-n.cs.internalMsgQueue:
			switch m := mi.Msg.(type) {
			case *ProposalMessage:
				flush()
				pendingProp = m.Proposal
			case *BlockPartMessage:
				parts = append(parts, m.Part)
			case *VoteMessage:
				flush()
				id := n.w.internVote(m.Vote, false)
				n.ownQ = append(n.ownQ, id)
				n.signed = append(n.signed, id)
			}
		case <-n.cs.statsMsgQueue:
		default:
			flush()
			return
		}
	}
}

func (n *dsNode) active() bool { return n.halted == "" && n.decided == "" }

func (n *dsNode) afterStep() {
	n.drain()
	// a node has decided height h once the block is in its block store (finalizeCommit saves it, with the
	// seen commit, before executing it)
	if n.decided == "" && n.bstore.Height() >= n.w.Height {
		meta := n.bstore.LoadBlockMeta(n.w.Height)
		if meta == nil {
			n.halted = "block store height advanced without block meta"
			return
		}
		n.decHash = meta.BlockID.Hash
		n.decided = n.w.label(meta.BlockID.Hash)
	}
}

// deliver hands a message (from a peer) to the node.
func (n *dsNode) deliver(m *dsMsg) {
	n.nEvents++
	for _, mi := range m.mis {
		if !n.active() {
			return
		}
		peer := dsPeerID(m.From)
		if mi.PeerID != "" {
			peer = mi.PeerID
		}
		mi := msgInfo{Msg: mi.Msg, PeerID: peer}
		n.guarded(func() { n.cs.handleMsg(mi) })
		n.afterStep()
	}
}

// own processes the head of the node's own FIFO (what receiveRoutine does with internalMsgQueue);
// the message becomes visible to the network afterwards and is returned.
func (n *dsNode) own() (published int) {
	n.nEvents++
	id := n.ownQ[0]
	n.ownQ = n.ownQ[1:]
	m := n.w.msg(id)
	for _, mi := range m.mis {
		if n.halted != "" {
			break
		}
		mi := msgInfo{Msg: mi.Msg, PeerID: ""}
		n.guarded(func() { n.cs.handleMsg(mi) })
		n.afterStep()
	}
	return id
}

func (n *dsNode) fireTimeout() {
	n.nEvents++
	ti := n.ticker.cur
	n.ticker.armed = false
	n.guarded(func() { n.cs.handleTimeout(ti, n.cs.RoundState) })
	n.afterStep()
}

func (n *dsNode) fireStale() {
	n.nEvents++
	ti := n.ticker.stale[0]
	n.ticker.stale = n.ticker.stale[1:]
	n.guarded(func() { n.cs.handleTimeout(ti, n.cs.RoundState) })
	n.afterStep()
}

func (n *dsNode) maj23Claim(from int, round int32, typ tmproto.SignedMsgType, bid types.BlockID) {
	n.nEvents++
	// what the reactor does on VoteSetMaj23Message
	n.guarded(func() {
		n.cs.mtx.Lock()
		defer n.cs.mtx.Unlock()
		if n.cs.Height != n.w.Height {
			return
		}
		_ = n.cs.Votes.SetPeerMaj23(round, typ, dsPeerID(from), bid)
	})
	n.afterStep()
}

// ---------------------------------------------------------------------------------------------
// canonical local state

func dsPeek(v interface{}, field string) reflect.Value {
	rv := reflect.ValueOf(v).Elem().FieldByName(field)
	return reflect.NewAt(rv.Type(), unsafe.Pointer(rv.UnsafeAddr())).Elem()
}

func dsBlockHash(b *types.Block) string {
	if b == nil {
		return "-"
	}
	return hex.EncodeToString(b.Hash()[:6])
}

func dsParts(ps *types.PartSet) string {
	if ps == nil {
		return "-"
	}
	return fmt.Sprintf("%X:%v", ps.Header().Hash[:4], ps.BitArray())
}

// canon serialises everything a handler can read: the whole RoundState projection (votes with
// per-block bit arrays and peer-maj23 claims come from HeightVoteSet's own JSON), the vote-set
// bookkeeping that JSON omits (tracked round, per-peer catch-up rounds), the pending timeout, the
// own FIFO, and the halted/decided flags. Blocks are represented by hash: with the pinned clock all
// bytes are deterministic, so equal hashes are equal objects.
func (n *dsNode) canon() string {
	cs := n.cs
	var b strings.Builder
	rs := &cs.RoundState
	fmt.Fprintf(&b, "v%d|", n.idx)
	fmt.Fprintf(&b, "H%d R%d S%d cr%d ttp%v lr%d lb%s vr%d vb%s pb%s pbp%s lbp%s vbp%s|", rs.Height, rs.Round, rs.Step, rs.CommitRound,
		rs.TriggeredTimeoutPrecommit, rs.LockedRound, dsBlockHash(rs.LockedBlock), rs.ValidRound, dsBlockHash(rs.ValidBlock),
		dsBlockHash(rs.ProposalBlock), dsParts(rs.ProposalBlockParts), dsParts(rs.LockedBlockParts), dsParts(rs.ValidBlockParts))
	if rs.Proposal != nil {
		fmt.Fprintf(&b, "P%d/%d/%X|", rs.Proposal.Round, rs.Proposal.POLRound, rs.Proposal.BlockID.Hash[:6])
	}
	if n.decided == "" && rs.Votes != nil {
		fmt.Fprintf(&b, "hr%d|", rs.Votes.Round())
		pcr := dsPeek(rs.Votes, "peerCatchupRounds")
		keys := pcr.MapKeys()
		sort.Slice(keys, func(i, j int) bool { return keys[i].String() < keys[j].String() })
		for _, k := range keys {
			fmt.Fprintf(&b, "%s:%v,", k.String(), pcr.MapIndex(k).Interface())
		}
		// every tracked round (HeightVoteSet's own JSON stops at hvs.round and omits catch-up rounds)
		rounds := dsPeek(rs.Votes, "roundVoteSets").MapKeys()
		sort.Slice(rounds, func(i, j int) bool { return rounds[i].Int() < rounds[j].Int() })
		blocks := n.w.knownBlockIDs()
		for _, r := range rounds {
			for _, vs := range []*types.VoteSet{rs.Votes.Prevotes(int32(r.Int())), rs.Votes.Precommits(int32(r.Int()))} {
				vj, err := vs.MarshalJSON() // votes, bit array, peer maj23 claims
				if err != nil {
					panic(err)
				}
				fmt.Fprintf(&b, "r%d:", r.Int())
				b.Write(vj)
				// first +2/3 value (order of arrival matters when more than one is possible)
				bid, ok := vs.TwoThirdsMajority()
				fmt.Fprintf(&b, "m%v%X;", ok, bid.Hash)
				// votes kept per block (conflicting votes admitted through a peer's maj23 claim)
				for _, kb := range blocks {
					if ba := vs.BitArrayByBlockID(kb); ba != nil {
						fmt.Fprintf(&b, "%X=%v;", kb.Hash[:4], ba)
					}
				}
			}
		}
	}
	if rs.LastCommit != nil {
		// a decided node gossips its last commit: the round and the very votes are part of what the others may still receive
		// (C03's suffix depends on them), not only who signed
		fmt.Fprintf(&b, "|lc%s r%d", rs.LastCommit.BitArrayString(), rs.LastCommit.GetRound())
		for i := 0; i < rs.LastCommit.Size(); i++ {
			if v := rs.LastCommit.GetByIndex(int32(i)); v != nil {
				fmt.Fprintf(&b, " %d:%X/%X", i, v.BlockID.Hash, v.Signature[:6])
			}
		}
	}
	if n.w.TrackSigned {
		fmt.Fprintf(&b, "|sg%v", n.signed)
	}
	fmt.Fprintf(&b, "|t%v%s st%v|q%v|h%q|d%s", n.ticker.armed, dsTiString(n.ticker.cur), n.ticker.stale, n.ownQ, n.halted, n.decided)
	return b.String()
}

func dsHash(s string) [32]byte { return sha256.Sum256([]byte(s)) }

// ---------------------------------------------------------------------------------------------
// C01 clause 2: what a decided block must satisfy (checked once per deciding local step)

func (n *dsNode) checkDecision() string {
	h := n.w.Height
	block := n.bstore.LoadBlock(h)
	if block == nil {
		return "decided height has no block in the store"
	}
	seen := n.bstore.LoadSeenCommit(h)
	if seen == nil {
		return "decided height has no seen commit"
	}
	if !bytes.Equal(block.Hash(), seen.BlockID.Hash) {
		return "stored block does not hash to the seen commit's block id"
	}
	ps := block.MakePartSet(types.BlockPartSizeBytes)
	if !ps.Header().Equals(seen.BlockID.PartSetHeader) {
		return "stored block parts do not match the seen commit's part-set header"
	}
	// one round, > 2/3 of the power, valid signatures over exactly this block id
	vals := n.w.state0.Validators
	var sum, total int64
	total = vals.TotalVotingPower()
	for i, cs := range seen.Signatures {
		if !cs.ForBlock() {
			continue
		}
		v := seen.GetVote(int32(i))
		sb := types.VoteSignBytes(n.w.ChainID, v.ToProto())
		if v.Round != seen.Round || !vals.Validators[i].PubKey.VerifySignature(sb, cs.Signature) {
			return fmt.Sprintf("seen commit slot %d is not a valid precommit for the block in round %d", i, seen.Round)
		}
		sum += vals.Validators[i].VotingPower
	}
	if 3*sum <= 2*total {
		return fmt.Sprintf("seen commit carries %d of %d power for the block (not > 2/3)", sum, total)
	}
	// full validation against the node's pre-state, recomputed on a fresh executor
	ss := sm.NewStore(dbm.NewMemDB(), sm.StoreOptions{})
	st := n.w.state0.Copy()
	if err := ss.Save(st); err != nil {
		panic(err)
	}
	be := sm.NewBlockExecutor(ss, log.NewNopLogger(), nil, emptyMempool{}, sm.EmptyEvidencePool{})
	if err := be.ValidateBlock(st, block); err != nil {
		return "decided block fails full validation: " + err.Error()
	}
	return ""
}

func dsJSON(v interface{}) string { b, _ := json.Marshal(v); return string(b) }
