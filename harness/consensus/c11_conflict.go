package consensus

// C11, clause "conflicting votes seen by consensus become pending evidence once their height is decided":
// one REAL consensus.State node (dsim kit) wired to a REAL evidence.Pool; the other three validators are played
// by the harness, one of them equivocates. Every placement of the two conflicting votes in the schedule that leads
// the node to decide height 1 is enumerated (vote type x ordered value pair x two positions x re-delivery).
// After the decision the node's pool must hold exactly one DuplicateVoteEvidence for the equivocator, with the
// two votes, the block time and the powers of that height, and a fresh pool of a peer (same stores) must admit it.

import (
	"bytes"
	"fmt"
	"testing"
	"time"

	dbm "github.com/tendermint/tm-db"

	abcicli "github.com/tendermint/tendermint/abci/client"
	"github.com/tendermint/tendermint/evidence"
	"github.com/tendermint/tendermint/internal/verif/vr"
	"github.com/tendermint/tendermint/libs/log"
	tmsync "github.com/tendermint/tendermint/libs/sync"
	tmproto "github.com/tendermint/tendermint/proto/tendermint/types"
	sm "github.com/tendermint/tendermint/state"
	"github.com/tendermint/tendermint/types"
)

type c11cCase struct {
	Type      string `json:"type"`   // prevote | precommit
	First     string `json:"first"`  // value of the equivocator's first vote: A | B | nil
	Second    string `json:"second"` // value of its second vote ("" = no second vote: control)
	PosFirst  int    `json:"pos_first"`
	PosSecond int    `json:"pos_second"` // both are indices into the base schedule: delivered before that event
	Redeliver bool   `json:"redeliver"`  // the second vote is delivered twice
}

type c11cWorld struct {
	w           *dsWorld
	node, byz   int
	others      []int
	bidA, bidB  types.BlockID
	proposal    int
	pools       map[*dsNode]*evidence.Pool
	votes       map[string]int
	baseScedule []int // message ids: proposal, prevote o1, prevote o2, precommit o1, precommit o2
}

func c11cBuild() *c11cWorld {
	w := newDsWorld([]int64{1, 1, 1, 1}, "c11")
	c := &c11cWorld{w: w, pools: map[*dsNode]*evidence.Pool{}, votes: map[string]int{}}
	p := w.proposerOf(0)
	c.node, c.byz = (p+1)%4, (p+2)%4
	c.others = []int{p, (p + 3) % 4}
	c.proposal, c.bidA = w.byzProposal(p, 0, -1, []types.Tx{types.Tx("c11-a")}, false, "A")
	_, c.bidB = w.byzProposal(p, 0, -1, []types.Tx{types.Tx("c11-b")}, false, "B")
	w.nodeHook = func(n *dsNode) {
		pool, err := evidence.NewPool(dbm.NewMemDB(), n.sstore, n.bstore)
		if err != nil {
			panic(err)
		}
		conn := abcicli.NewLocalClient(new(tmsync.Mutex), &dsApp{})
		n.cs.evpool = pool
		n.cs.blockExec = sm.NewBlockExecutor(n.sstore, log.NewNopLogger(), conn, emptyMempool{}, pool)
		c.pools[n] = pool
	}
	c.baseScedule = []int{c.proposal}
	for _, t := range []tmproto.SignedMsgType{tmproto.PrevoteType, tmproto.PrecommitType} {
		for _, o := range c.others {
			c.baseScedule = append(c.baseScedule, w.byzVote(o, t, 0, c.bidA))
		}
	}
	return c
}

func (c *c11cWorld) bid(v string) types.BlockID {
	switch v {
	case "A":
		return c.bidA
	case "B":
		return c.bidB
	}
	return types.BlockID{}
}

func (c *c11cWorld) byzVote(typ, val string) int {
	k := typ + "/" + val
	if id, ok := c.votes[k]; ok {
		return id
	}
	t := tmproto.PrevoteType
	if typ == "precommit" {
		t = tmproto.PrecommitType
	}
	id := c.w.byzVote(c.byz, t, 0, c.bid(val))
	c.votes[k] = id
	return id
}

func c11cVoteOf(m *dsMsg) *types.Vote { return m.mis[0].Msg.(*VoteMessage).Vote }

// run executes one case on a fresh node and judges it. Returns "" or (key, what).
func (c *c11cWorld) run(r *vr.Report, cs c11cCase) (key, what string) {
	n := c.w.newNode(c.node)
	pool := c.pools[n]
	defer delete(c.pools, n)
	settle := func() {
		for len(n.ownQ) > 0 && n.halted == "" {
			n.own()
		}
	}
	if n.ticker.armed {
		n.fireTimeout() // NewHeight -> round 0
	}
	settle()
	first := c.byzVote(cs.Type, cs.First)
	second := -1
	if cs.Second != "" {
		second = c.byzVote(cs.Type, cs.Second)
	}
	late := false
	for i, id := range c.baseScedule {
		if cs.PosFirst == i {
			late = late || n.decided != ""
			n.deliver(c.w.msg(first))
			settle()
		}
		if second >= 0 && cs.PosSecond == i {
			// with the equivocator's own precommit for A the node can decide before the last scheduled precommit
			late = late || n.decided != ""
			n.deliver(c.w.msg(second))
			settle()
			if cs.Redeliver {
				n.deliver(c.w.msg(second))
				settle()
			}
		}
		n.deliver(c.w.msg(id))
		settle()
	}
	if n.halted != "" {
		return "consensus:node-halted", n.halted
	}
	if n.decided == "" {
		// not a verdict about C11: the schedule did not lead to a decision
		r.Outcome("undecided")
		return "", ""
	}
	pend, _ := pool.PendingEvidence(-1)
	conflict := second >= 0 && cs.First != cs.Second
	if conflict && late {
		// the conflict was seen after height 1 had been decided (late precommit for the last commit): consensus reports
		// it, the pool turns it into evidence at the NEXT Update. Only one height is driven here, so this is not judged
		// (the pool-level search covers "reported for height H, flushed by Update(H+1)").
		if len(pend) != 0 {
			return "consensus:evidence-pending-before-any-update-could-flush-it", fmt.Sprintf("%d pending", len(pend))
		}
		r.Outcome("late-conflict:buffered-until-next-height(not judged)")
		return "", ""
	}
	if !conflict {
		if len(pend) != 0 || pool.Size() != 0 {
			return "consensus:evidence-without-conflicting-votes", fmt.Sprintf("%d pending item(s), Size %d, although the validator voted consistently", len(pend), pool.Size())
		}
		r.Outcome("no-conflict:no-evidence")
		return "", ""
	}
	if len(pend) == 0 {
		return "consensus:conflicting-" + cs.Type + "s-not-pending-after-their-height-was-decided",
			fmt.Sprintf("the node saw %s(%s) and %s(%s) of validator %d in round 0, decided height 1, and its pool is empty", cs.Type, cs.First, cs.Type, cs.Second, c.byz)
	}
	if len(pend) != 1 || pool.Size() != 1 {
		return "consensus:one-equivocation-more-than-one-pending-item", fmt.Sprintf("%d pending items, Size %d", len(pend), pool.Size())
	}
	ev, ok := pend[0].(*types.DuplicateVoteEvidence)
	if !ok {
		return "consensus:pending-item-is-not-duplicate-vote-evidence", fmt.Sprintf("%T", pend[0])
	}
	va, vb := c11cVoteOf(c.w.msg(first)), c11cVoteOf(c.w.msg(second))
	has := func(v *types.Vote) bool {
		return bytes.Equal(ev.VoteA.Signature, v.Signature) || bytes.Equal(ev.VoteB.Signature, v.Signature)
	}
	meta := n.bstore.LoadBlockMeta(1)
	vals, err := n.sstore.LoadValidators(1)
	if err != nil {
		panic(err)
	}
	_, bv := vals.GetByAddress(va.ValidatorAddress)
	if !has(va) || !has(vb) || !ev.Timestamp.Equal(meta.Header.Time) || ev.TotalVotingPower != vals.TotalVotingPower() || ev.ValidatorPower != bv.VotingPower {
		return "consensus:evidence-from-conflicting-votes-has-wrong-content",
			fmt.Sprintf("votes present: %v/%v, timestamp %v (block time %v), powers %d/%d", has(va), has(vb), ev.Timestamp, meta.Header.Time, ev.ValidatorPower, ev.TotalVotingPower)
	}
	if err := ev.ValidateBasic(); err != nil {
		return "consensus:evidence-from-conflicting-votes-not-well-formed", err.Error()
	}
	// what a peer (or a validator checking a block that carries it) says
	peer, err := evidence.NewPool(dbm.NewMemDB(), n.sstore, n.bstore)
	if err != nil {
		panic(err)
	}
	if err := peer.CheckEvidence(types.EvidenceList{ev}); err != nil {
		return "consensus:evidence-from-conflicting-votes-refused-by-a-peer", err.Error()
	}
	if pp, _ := peer.PendingEvidence(-1); len(pp) != 1 || peer.Size() != 1 {
		return "consensus:evidence-from-conflicting-votes-refused-by-a-peer", "accepted but not pending at the peer"
	}
	r.Outcome(fmt.Sprintf("%s:%s-then-%s:pending", cs.Type, cs.First, cs.Second))
	return "", ""
}

func TestVerifC11Consensus(t *testing.T) {
	r := vr.Start("C11", "consensus", 60*time.Second, 5*time.Minute)
	defer r.Finish()
	r.Rule = "every (vote type, ordered pair of values from {A, B, nil}, delivery positions i<=j of the equivocator's two votes in the 5-event schedule that makes " +
		"a real consensus node decide height 1, re-delivery of the second vote) plus controls without a conflict; non-trivial = the two votes conflict"
	r.Assume("one height, round 0, four validators of equal power; the three other validators are played by the harness (it holds their keys)")
	c := c11cBuild()
	var rc c11cCase
	if replaying, skip := r.ReplayCase(&rc); skip {
		return
	} else if replaying {
		r.Eval()
		r.States, r.Transitions, r.Traces = 1, 1, 1
		if k, w := c.run(r, rc); k != "" {
			r.Violation(k, w, rc)
		}
		r.Sample(rc)
		return
	}
	k := 0
	try := func(cs c11cCase) {
		k++
		if !r.Mine(k) {
			return
		}
		if r.Deadline("consensus-driven cases") {
			return
		}
		r.Eval()
		r.Traces++
		r.Transitions += int64(len(c.baseScedule) + 2)
		r.States++
		if cs.Second != "" && cs.First != cs.Second {
			r.NTCount(1)
		}
		if key, what := c.run(r, cs); key != "" {
			first := fmt.Errorf("%s", key)
			if !vr.Confirm(3, first, func() error {
				k2, _ := c.run(r, cs)
				if k2 == "" {
					return nil
				}
				return fmt.Errorf("%s", k2)
			}) {
				panic("C11 consensus harness nondeterministic on " + fmt.Sprint(cs))
			}
			r.Violation(key, what, cs)
		}
		if k%97 == 1 {
			r.Sample(cs)
		}
	}
	vals := []string{"A", "B", "nil"}
	n := len(c.baseScedule)
	for _, typ := range []string{"prevote", "precommit"} {
		for _, a := range vals {
			for i := 0; i < n; i++ {
				try(c11cCase{Type: typ, First: a, PosFirst: i, PosSecond: -1}) // control: a single vote
				for _, b := range vals {
					for j := i; j < n; j++ {
						for _, re := range []bool{false, true} {
							try(c11cCase{Type: typ, First: a, Second: b, PosFirst: i, PosSecond: j, Redeliver: re})
						}
					}
				}
			}
		}
	}
	r.MaxDepth = n + 3
	r.Bound = fmt.Sprintf("2 vote types x 9 ordered value pairs x all positions i<=j in a %d-event schedule x re-delivery, plus single-vote controls", n)
}
