package consensus

// C05 (crash-consistency part) — the application sees each block exactly once, in order, across
// crashes at every point of the commit pipeline, including crashes during recovery itself.
// A full single-validator node (real Handshaker, State with WAL and receive routine, BlockExecutor,
// BlockStore, state store, FilePV, CListMempool) runs on journalled storage; every journal entry
// (database write, file operation, ABCI call on the consensus connection) is a crash point.

import (
	"bytes"
	"fmt"
	tmproto "github.com/tendermint/tendermint/proto/tendermint/types"
	"testing"
	"time"

	abci "github.com/tendermint/tendermint/abci/types"
	cryptoenc "github.com/tendermint/tendermint/crypto/encoding"
	"github.com/tendermint/tendermint/internal/verif/vos"
	"github.com/tendermint/tendermint/internal/verif/vr"
	mempl "github.com/tendermint/tendermint/mempool"
	"github.com/tendermint/tendermint/types"
)

type c05Case struct {
	Crashes []int  `json:"crash_before_journal_entry"` // one entry per incarnation that is made to crash (index into that incarnation's own journal)
	Files   string `json:"unsynced_file_tails"`        // "keep" | "drop"
	DB      string `json:"db_mode"`                    // "process" | "machine"
	Target  int64  `json:"target_height"`
}

const c05Target = int64(5)

// hooks for other properties' parts that reuse this pipeline (C18): an additional oracle on the node's stores after every
// start-up and at the end, and a height at which the application returns a retain height above the tip
var (
	c05ExtraCheck     func(n *rtNode) (key, what string)
	c05RetainBeyondAt int64
)

func c05Env() *rtEnv {
	var e *rtEnv
	script := func(h int64) (vu []abci.ValidatorUpdate, params *abci.ConsensusParams, retain int64) {
		if h == 1 {
			p := types.DefaultConsensusParams()
			// ... and the application version moves to 7 through the consensus parameters, while Info keeps reporting 0 (the
			// chain's version is what the state says, not what the application's Info says after genesis)
			params = &abci.ConsensusParams{Block: &abci.BlockParams{MaxBytes: p.Block.MaxBytes, MaxGas: 2}, Version: &tmproto.VersionParams{AppVersion: 7}}
		}
		if h == 2 {
			pk, err := cryptoenc.PubKeyToProto(e.keys[1].PubKey())
			if err != nil {
				panic(err)
			}
			vu = append(vu, abci.ValidatorUpdate{PubKey: pk, Power: 1})
		}
		if h >= 3 {
			retain = h - 1
		}
		if h == c05RetainBeyondAt {
			retain = h + 1 // an application asking for more than there is
		}
		return
	}
	e = newRtEnv(rtConfig{NVals: 2, Powers: []int64{10, 1}, UseMempool: true, AppScript: script})
	// only the node is a genesis validator; key 1 joins at height 2 and never signs
	e.genDoc.Validators = e.genDoc.Validators[:1]
	e.genDoc.ConsensusParams.Block.MaxGas = 2
	return e
}

var c05Txs = []string{"t1=a", "t2=b", "t3=c", "t4=d", "t5=e", "t6=f", "t7=g", "t8=h"}

// feed submits every transaction that no committed block contains yet (what clients would re-submit).
func c05Feed(n *rtNode) {
	if n.mempool == nil {
		return
	}
	done := map[string]bool{}
	app := n.env.app
	app.mtx.Lock()
	var cur []string
	for _, c := range app.Calls {
		switch c.Kind {
		case "BeginBlock":
			cur = nil
		case "DeliverTx":
			cur = append(cur, c.Tx)
		case "Commit":
			for _, t := range cur {
				done[t] = true
			}
		}
	}
	app.mtx.Unlock()
	for _, t := range c05Txs {
		if !done[t] {
			_ = n.mempool.CheckTx(types.Tx(t), nil, mempl.TxInfo{})
		}
	}
}

// c05Journal judges the application's call journal.
func c05Journal(calls []rtCall) (key, what string) {
	committed := int64(0)
	cur := int64(0) // block in progress
	ended := false
	curInc := -1
	for i, c := range calls {
		switch c.Kind {
		case "InitChain":
			if committed != 0 {
				return "app:init-chain-after-a-block-was-committed", fmt.Sprintf("call %d: InitChain with app height %d", i, committed)
			}
		case "BeginBlock":
			if c.Height <= committed {
				return "app:block-executed-again", fmt.Sprintf("call %d: BeginBlock(%d) although the app has committed height %d", i, c.Height, committed)
			}
			if c.Height != committed+1 {
				return "app:height-skipped", fmt.Sprintf("call %d: BeginBlock(%d) with app height %d", i, c.Height, committed)
			}
			if cur != 0 && curInc == c.Inc {
				return "app:block-restarted-without-crash", fmt.Sprintf("call %d: BeginBlock(%d) while block %d is still open in the same incarnation", i, c.Height, cur)
			}
			cur, ended, curInc = c.Height, false, c.Inc
		case "DeliverTx":
			if cur == 0 || ended || c.Inc != curInc {
				return "app:deliver-tx-outside-a-block", fmt.Sprintf("call %d: DeliverTx(%s)", i, c.Tx)
			}
		case "EndBlock":
			if cur == 0 || c.Height != cur || ended || c.Inc != curInc {
				return "app:end-block-out-of-sequence", fmt.Sprintf("call %d: EndBlock(%d) with open block %d", i, c.Height, cur)
			}
			ended = true
		case "Commit":
			if cur == 0 || !ended || c.Inc != curInc {
				return "app:commit-out-of-sequence", fmt.Sprintf("call %d: Commit with open block %d (ended %v)", i, cur, ended)
			}
			committed, cur, ended = cur, 0, false
		}
	}
	return "", ""
}

// c05Agree is checked after every completed start-up.
func c05Agree(n *rtNode) (key, what string) {
	st, err := n.sstore.Load()
	if err != nil {
		return "node:state-unloadable-after-recovery", err.Error()
	}
	app := n.env.app
	app.mtx.Lock()
	ah, ahash := app.committed, append([]byte{}, app.hash...)
	app.mtx.Unlock()
	if st.LastBlockHeight != n.bstore.Height() || st.LastBlockHeight != ah {
		return "node:heights-disagree-after-recovery", fmt.Sprintf("state %d, block store %d, app %d", st.LastBlockHeight, n.bstore.Height(), ah)
	}
	if ah > 0 && !bytes.Equal(st.AppHash, ahash) {
		return "node:app-hash-disagrees-after-recovery", fmt.Sprintf("state %X, app %X", st.AppHash, ahash)
	}
	return "", ""
}

// c05Txorder: the transactions the app was given for each committed height are the block's, in order.
func c05TxOrder(n *rtNode) (key, what string) {
	app := n.env.app
	app.mtx.Lock()
	defer app.mtx.Unlock()
	per := map[int64][]string{}
	var cur []string
	var h int64
	for _, c := range app.Calls {
		switch c.Kind {
		case "BeginBlock":
			cur, h = nil, c.Height
		case "DeliverTx":
			cur = append(cur, c.Tx)
		case "Commit":
			per[h] = cur
		}
	}
	for h := n.bstore.Base(); h <= n.bstore.Height() && h > 0; h++ {
		b := n.bstore.LoadBlock(h)
		got, ok := per[h]
		if b == nil || !ok {
			continue
		}
		if len(got) != len(b.Txs) {
			return "app:transactions-differ-from-block", fmt.Sprintf("height %d: block has %d txs, app executed %d", h, len(b.Txs), len(got))
		}
		for i := range got {
			if got[i] != string(b.Txs[i]) {
				return "app:transactions-differ-from-block", fmt.Sprintf("height %d tx %d: block %q, app %q", h, i, b.Txs[i], got[i])
			}
		}
	}
	return "", ""
}

type c05Result struct {
	key, what string
	prep      int   // journal entries of the one-time initialisation (not crash points)
	journals  []int // journal length of each incarnation that ran to its end or crash
	reached   bool
	inconcl   string
}

// c05Run executes one case: incarnation i crashes before entry Crashes[i] of its own journal; the last
// incarnation runs to the target height.
func c05Run(c c05Case) (res c05Result) {
	env := c05Env()
	w := vos.NewWorld()
	worlds := []*vos.World{w}
	defer func() {
		for _, x := range worlds {
			x.Close()
		}
	}()
	pol := vos.Policy{KeepUnsynced: c.Files != "drop", MachineDB: c.DB == "machine"}
	env.prepare(w)
	res.prep = w.JournalLen()
	for inc := 0; ; inc++ {
		crashAt := -1
		if inc < len(c.Crashes) {
			crashAt = c.Crashes[inc]
			w.CrashBefore(crashAt)
		}
		n, err := env.boot(w, inc)
		why := "boot-failed"
		if err == nil {
			if k, wh := c05Agree(n); k != "" {
				n.kill()
				res.key, res.what = k, fmt.Sprintf("incarnation %d: %s", inc, wh)
				return
			}
			if c05ExtraCheck != nil {
				if k, wh := c05ExtraCheck(n); k != "" {
					n.kill()
					res.key, res.what = k, fmt.Sprintf("incarnation %d, after start-up: %s", inc, wh)
					return
				}
			}
			c05Feed(n)
			why = n.runDefault(func() bool {
				if n.cs.Height >= c.Target && n.cs.Step == 1 /* NewHeight */ {
					return true
				}
				if n.mempool != nil && n.mempool.Size() == 0 {
					c05Feed(n)
				}
				return false
			}, 400)
		}
		fired := w.Crashed() // before kill() freezes the world
		n.kill()
		res.journals = append(res.journals, w.JournalLen())
		if len(n.dead) > 12 && n.dead[:12] == "INCONCLUSIVE" {
			res.inconcl = n.dead
			return
		}
		if fired {
			nw := w.Materialise(crashAt, pol)
			worlds = append(worlds, nw)
			w = nw
			continue
		}
		if crashAt >= 0 {
			res.inconcl = "crash point beyond the incarnation's journal"
		}
		switch {
		case err != nil:
			res.key, res.what = "node:start-up-fails", fmt.Sprintf("incarnation %d: %v", inc, err)
			return
		case why == "done":
			res.reached = true
			if k, wh := c05TxOrder(n); k != "" {
				res.key, res.what = k, wh
				return
			}
			if c05ExtraCheck != nil {
				if k, wh := c05ExtraCheck(n); k != "" {
					res.key, res.what = k, fmt.Sprintf("incarnation %d, at the target height: %s", inc, wh)
					return
				}
			}
		case why == "dead":
			res.key, res.what = "node:halts-without-a-crash", fmt.Sprintf("incarnation %d: %s", inc, n.dead)
			return
		default:
			key := "node:stops-committing-after-recovery"
			if _, found, _ := n.cs.wal.SearchForEndHeight(n.cs.Height-1, &WALSearchOptions{IgnoreDataCorruptionErrors: true}); !found && n.cs.Height > 1 {
				// the previous height was finished by the handshake, which writes no #ENDHEIGHT: the WAL of the
				// current height can never be replayed, so after a further crash the signer refuses the node's own messages
				key = "consensus/replay.go:catchupReplay:no-endheight-marker-after-handshake-finished-the-height:node-cannot-re-sign-and-stops"
			}
			res.key, res.what = key, fmt.Sprintf("incarnation %d ended %q at height %d round %d step %d", inc, why, n.cs.Height, n.cs.Round, n.cs.Step)
			return
		}
		break
	}
	env.app.mtx.Lock()
	calls := append([]rtCall{}, env.app.Calls...)
	env.app.mtx.Unlock()
	if k, wh := c05Journal(calls); k != "" {
		res.key, res.what = k, wh
	}
	return
}

func TestVerifC05(t *testing.T) {
	r := vr.Start("C05", "pipeline", 140*time.Second, 22*time.Minute)
	defer r.Finish()
	r.Rule = "a 4-height run of a real single-validator node (transactions, a parameter change at height 1, a validator addition at height 2, pruning from height 3) is journalled; " +
		"every journal entry (DB write/batch, WAL/sign-state file operation, ABCI consensus call) is a crash point; after each crash the node is restarted on the materialised storage " +
		"(file tails kept or dropped, DB process- or machine-crash model) and, nested, crashed again at every entry of the recovery's own journal; a case = (crash vector, storage policy); " +
		"all cases distinct; non-trivial = at least one crash"
	r.Assume("the application is a separate process: its committed state survives, a call is either not made or completed")
	r.Assume("storage model as in DESIGN §3.3 (ordered metadata, content durable at fsync, MemDB behind a journal)")
	var rc c05Case
	if rep, skip := r.ReplayCase(&rc); skip {
		return
	} else if rep {
		r.Eval()
		if res := c05Run(rc); res.key != "" {
			r.Violation(res.key, res.what, rc)
		}
		return
	}
	ref := c05Run(c05Case{Target: c05Target, Files: "keep", DB: "process"})
	if ref.key != "" || !ref.reached {
		r.Violation(firstNonEmpty(ref.key, "node:crash-free-run-does-not-reach-target"), ref.what, c05Case{Target: c05Target})
		return
	}
	n0 := ref.journals[0]
	r.Set("reference_journal_entries", n0)
	try := func(c c05Case) c05Result {
		r.Eval()
		r.NTCount(1)
		t0 := time.Now()
		res := c05Run(c)
		if dsDebug {
			fmt.Printf("case %+v: %v key=%q reached=%v journals=%v inconcl=%q\n", c, time.Since(t0), res.key, res.reached, res.journals, res.inconcl)
		}
		if res.inconcl != "" && res.key == "" {
			r.Add("inconclusive_or_beyond", 1)
		}
		if res.key != "" {
			again := c05Run(c)
			if again.key != res.key {
				r.Note(fmt.Sprintf("UNSTABLE violation %s vs %s for %+v (not reported)", res.key, again.key, c))
				r.Cap("a violation did not reproduce on re-execution (harness nondeterminism); it was not reported")
				return res
			}
			r.Outcome(res.key)
			r.Violation(res.key, res.what, c)
		} else if res.reached {
			r.Outcome(fmt.Sprintf("recovered-after-%d-crashes", len(c.Crashes)))
		}
		return res
	}
	policies := [][2]string{{"keep", "process"}, {"drop", "machine"}}
	if vr.Thorough() {
		policies = append(policies, [2]string{"drop", "process"}, [2]string{"keep", "machine"})
	}
	k := 0
	nestedWindow := vr.Pick(45, 100000)
	for cp := ref.prep + 1; cp < n0; cp++ {
		for _, pol := range policies {
			k++
			if !r.Mine(k) {
				continue
			}
			if r.Deadline("C05 crash points") {
				goto done
			}
			c1 := c05Case{Crashes: []int{cp}, Files: pol[0], DB: pol[1], Target: c05Target}
			res := try(c1)
			if res.key != "" || len(res.journals) < 2 {
				continue
			}
			// nested: crash again at every entry of the recovery's own journal (quick: the first entries, i.e. handshake + WAL catch-up)
			n1 := res.journals[1]
			lim := n1
			if lim > nestedWindow {
				lim = nestedWindow
			}
			for cp2 := 1; cp2 < lim; cp2++ {
				if cp2%8 == 0 && r.Deadline("C05 nested crash points") {
					goto done
				}
				res2 := try(c05Case{Crashes: []int{cp, cp2}, Files: pol[0], DB: pol[1], Target: c05Target})
				// thorough: a third crash inside the start-up (handshake + WAL catch-up) of the second recovery
				if vr.Thorough() && res2.key == "" && len(res2.journals) >= 3 && cp2 <= 24 {
					lim3 := res2.journals[2]
					if lim3 > 30 {
						lim3 = 30
					}
					for cp3 := 1; cp3 < lim3; cp3++ {
						if cp3%8 == 0 && r.Deadline("C05 third-level crash points") {
							goto done
						}
						try(c05Case{Crashes: []int{cp, cp2, cp3}, Files: pol[0], DB: pol[1], Target: c05Target})
					}
				}
			}
			if k%37 == 0 {
				r.Sample(map[string]interface{}{"case": c1, "journal_of_recovery": n1})
			}
		}
	}
done:
	r.Bound = fmt.Sprintf("reference journal %d entries; k=1 everywhere, k=2 within the first %d entries of each recovery; thorough: k=3 within the first 30 entries of the second recovery for second crashes among its first 24 entries", n0, nestedWindow)
}

func firstNonEmpty(a, b string) string {
	if a != "" {
		return a
	}
	return b
}
