package consensus

// C02 — a correct validator never equivocates and every vote it casts is justified.
// One real node (validator with power 1 of 4); the other three validators are all adversarial
// (their keys are the harness's), as the quantifier demands.

import (
	"fmt"
	"github.com/tendermint/tendermint/crypto"
	"os"
	"runtime"
	"strconv"
	"testing"
	"time"

	"github.com/tendermint/tendermint/internal/verif/vr"
	tmproto "github.com/tendermint/tendermint/proto/tendermint/types"
	"github.com/tendermint/tendermint/types"
)

type c02Config struct {
	NodePos  int    `json:"node_pos"` // the node under test is the proposer of this round
	Strategy string `json:"strategy"` // default adversary: echo | nilprecommit | split (see moves)
	MaxRound int32  `json:"max_round"`
	MaxDev   int    `json:"max_dev"`
	Eager    bool   `json:"eager_own"`
	Stale    bool   `json:"stale_timeouts"`
	// Powers (optional): the node under test is the single validator with the largest power, the adversaries hold equal powers
	// (2,1,1,1: total 5, so that the rounding of the +2/3 threshold matters); NodePos is ignored
	Powers []int64 `json:"powers,omitempty"`
	// Mixed: the adversaries' block "A" is replaced by an inconsistent block id — a hash that is no block's hash together with the
	// part-set header of block B — proposed with B's parts and voted for like any other value
	Mixed bool `json:"mixed_block_id,omitempty"`
}

type c02Case struct {
	Cfg   c02Config `json:"cfg"`
	Trace []dsRepEv `json:"trace"`
	Desc  []string  `json:"desc,omitempty"`
}

// what the default adversary and the deviation menu need to know about the node
type c02Sum struct {
	round       int32
	step        int
	hasProposal bool
	ownPrevote  map[int32]string // round -> block label ("" = none yet)
	ownPrecom   map[int32]string
	voted       map[string][]bool // "r/t" -> adversary slot -> has a vote recorded
	ownBlock    types.BlockID     // block the node itself proposed (if any)
	hasOwnBlock bool
}

type c02Setup struct {
	w    *dsWorld
	node int   // validator index of the node under test
	adv  []int // validator indices of the adversaries
	e    *dsExplorer
	blk  map[string]types.BlockID // "A","B" -> id
	c    c02Config
	// menu lookups
	vote  map[string]int // "adv/r/t/label" -> msg id
	multi map[string]int // "r/t/label" -> bundle msg id (all adversaries)
	prop  map[string]int // "r/label/pol" -> msg id
}

func c02Build(r *vr.Report, c c02Config) *c02Setup {
	powers := c.Powers
	if len(powers) == 0 {
		powers = []int64{1, 1, 1, 1}
	}
	w := newDsWorld(powers, "c02")
	w.EagerOwn = c.Eager
	w.TrackSigned = true
	s := &c02Setup{w: w, c: c, blk: map[string]types.BlockID{}, vote: map[string]int{}, multi: map[string]int{}, prop: map[string]int{}}
	s.node = w.proposerOf(int32(c.NodePos))
	if len(c.Powers) > 0 {
		for i, v := range w.state0.Validators.Validators {
			if v.VotingPower > w.state0.Validators.Validators[s.node].VotingPower {
				s.node = i
			}
		}
	}
	for i := 0; i < w.N; i++ {
		if i != s.node {
			s.adv = append(s.adv, i)
		}
	}
	e := newDsExplorer(w, r, []int{s.node})
	e.maxRound, e.useStale = c.MaxRound, c.Stale
	s.e = e
	// two adversarial blocks (any validator may be named as the block's proposer address)
	for i, name := range []string{"A", "B"} {
		pk, _ := w.pvs[s.adv[0]].GetPubKey()
		block, _ := w.state0.MakeBlock(w.Height, []types.Tx{types.Tx("tx-" + name)}, types.NewCommit(0, 0, types.BlockID{}, nil), nil, pk.Address())
		ps := block.MakePartSet(types.BlockPartSizeBytes)
		s.blk[name] = types.BlockID{Hash: block.Hash(), PartSetHeader: ps.Header()}
		w.nameBlock(block, name)
		for rd := int32(0); rd <= c.MaxRound; rd++ {
			p := w.proposerOf(rd)
			if p == s.node {
				continue
			}
			for pol := int32(-1); pol < rd; pol++ {
				s.prop[fmt.Sprintf("%d/%s/%d", rd, name, pol)] = w.signedProposal(p, rd, pol, s.blk[name], ps)
			}
		}
		_ = i
	}
	if c.Mixed {
		blkB := w.blocks["B"]
		psB := blkB.MakePartSet(types.BlockPartSizeBytes)
		mixed := types.BlockID{Hash: crypto.Sha256([]byte("verif-c02-no-block-hashes-to-this")), PartSetHeader: psB.Header()}
		s.blk["A"] = mixed
		for rd := int32(0); rd <= c.MaxRound; rd++ {
			p := w.proposerOf(rd)
			if p == s.node {
				continue
			}
			for pol := int32(-1); pol < rd; pol++ {
				s.prop[fmt.Sprintf("%d/%s/%d", rd, "A", pol)] = w.signedProposal(p, rd, pol, mixed, psB)
			}
		}
	}
	s.blk["nil"] = types.BlockID{}
	for _, name := range []string{"nil", "A", "B"} {
		s.addVotes(name, s.blk[name])
	}
	e.summarize = func(n *dsNode) interface{} { return s.summarize(n) }
	e.movesFn = s.moves
	e.localCheck = func(n *dsNode, _ string, _ dsEv, _ []int32) (string, string) { return s.monitor(n) }
	return s
}

func (s *c02Setup) addVotes(name string, bid types.BlockID) {
	for rd := int32(0); rd <= s.c.MaxRound; rd++ {
		for _, t := range []tmproto.SignedMsgType{tmproto.PrevoteType, tmproto.PrecommitType} {
			bundle := &dsMsg{Kind: "votes", From: s.adv[0], Round: rd, Type: t, Block: name, Byz: true,
				Key: fmt.Sprintf("VV/%d/%d/%s", rd, t, name)}
			for _, a := range s.adv {
				id := s.w.byzVote(a, t, rd, bid)
				s.vote[fmt.Sprintf("%d/%d/%d/%s", a, rd, t, name)] = id
				bundle.mis = append(bundle.mis, msgInfo{Msg: s.w.msg(id).mis[0].Msg, PeerID: dsPeerID(a)})
			}
			// each vote of the bundle is relayed by its signer
			s.multi[fmt.Sprintf("%d/%d/%s", rd, t, name)] = s.w.intern(bundle)
		}
	}
}

func (s *c02Setup) summarize(n *dsNode) interface{} {
	cs := n.cs
	sum := &c02Sum{round: cs.Round, step: int(cs.Step), ownPrevote: map[int32]string{}, ownPrecom: map[int32]string{}, voted: map[string][]bool{}}
	sum.hasProposal = cs.Proposal != nil && cs.Proposal.Round == cs.Round
	if cs.Height != s.w.Height {
		return sum
	}
	for rd := int32(0); rd <= s.c.MaxRound; rd++ {
		for _, t := range []tmproto.SignedMsgType{tmproto.PrevoteType, tmproto.PrecommitType} {
			vs := cs.Votes.Prevotes(rd)
			if t == tmproto.PrecommitType {
				vs = cs.Votes.Precommits(rd)
			}
			flags := make([]bool, len(s.adv))
			if vs != nil {
				for k, a := range s.adv {
					flags[k] = vs.GetByIndex(int32(a)) != nil
				}
				if v := vs.GetByIndex(int32(s.node)); v != nil {
					if t == tmproto.PrevoteType {
						sum.ownPrevote[rd] = s.w.label(v.BlockID.Hash)
					} else {
						sum.ownPrecom[rd] = s.w.label(v.BlockID.Hash)
					}
				}
			}
			sum.voted[fmt.Sprintf("%d/%d", rd, t)] = flags
		}
	}
	return sum
}

func (s *c02Setup) bidOf(label string) (types.BlockID, bool) {
	if b, ok := s.blk[label]; ok {
		return b, true
	}
	for _, b := range s.w.knownBlockIDs() {
		if s.w.label(b.Hash) == label {
			return b, true
		}
	}
	return types.BlockID{}, false
}

// voteMsg returns the (lazily created) vote of adversary a.
func (s *c02Setup) voteMsg(a int, rd int32, t tmproto.SignedMsgType, label string) (int, bool) {
	if id, ok := s.vote[fmt.Sprintf("%d/%d/%d/%s", a, rd, t, label)]; ok {
		return id, true
	}
	bid, ok := s.bidOf(label)
	if !ok {
		return 0, false
	}
	return s.w.byzVote(a, t, rd, bid), true // votes for the node's own block: interned on demand, content-keyed
}

// moves: the default adversary behaves like three honest validators on a synchronous network that
// agree with whatever the node votes (proposal for the round, then echo prevotes, then echo
// precommits, then the pending timeout); every other message of the menu is a deviation.
func (s *c02Setup) moves(g *dsGlobal) (free *dsEv, devs []dsEv) {
	l := s.e.local(g.L[0])
	if !l.active {
		return nil, nil
	}
	sum := l.sum.(*c02Sum)
	add := func(ev dsEv) {
		if free == nil {
			free = &ev
		}
	}
	if !s.w.EagerOwn && l.ownLen > 0 {
		add(dsEv{K: dsOwn})
	}
	rd := sum.round
	// default 1: the round's (adversarial) proposer proposes
	if rd <= s.c.MaxRound && !sum.hasProposal && sum.step <= 3 /* <= Propose */ {
		name := "A"
		if rd%2 == 1 {
			name = "B"
		}
		if id, ok := s.prop[fmt.Sprintf("%d/%s/-1", rd, name)]; ok {
			add(dsEv{K: dsDeliver, M: int32(id)})
		}
	}
	// default 2/3: the adversaries answer the node's own vote of the current round, one adversary at a time.
	//   echo:         every adversary repeats the node's prevote and precommit (the node commits in round 0)
	//   nilprecommit: prevotes are echoed (the node locks), every adversary precommits nil (the node walks the rounds locked)
	//   oddsilent:    like nilprecommit, but in odd rounds nobody prevotes (their prevotes can arrive later, as a stale polka)
	//   split:        prevotes: first adversary echoes, second votes nil, third stays silent (no polka, prevote-wait timeout);
	//                 precommits: nil from everybody (the node walks the rounds unlocked)
	for _, t := range []tmproto.SignedMsgType{tmproto.PrevoteType, tmproto.PrecommitType} {
		own := sum.ownPrevote[rd]
		if t == tmproto.PrecommitType {
			own = sum.ownPrecom[rd]
			if s.c.Strategy == "oddsilent" && rd%2 == 1 && own == "" && sum.ownPrevote[rd] != "" {
				own = "nil" // adversaries precommit nil without waiting for the node's precommit
			}
		}
		if own == "" || rd > s.c.MaxRound {
			continue
		}
		for k, a := range s.adv {
			if !sum.voted[fmt.Sprintf("%d/%d", rd, t)][k] {
				val := own
				switch {
				case s.c.Strategy == "nilprecommit" && t == tmproto.PrecommitType:
					val = "nil"
				case s.c.Strategy == "split" && t == tmproto.PrecommitType:
					val = "nil"
				case s.c.Strategy == "split" && t == tmproto.PrevoteType && k == 1:
					val = "nil"
				case s.c.Strategy == "split" && t == tmproto.PrevoteType && k == 2:
					val = "" // silent
				case s.c.Strategy == "oddsilent" && t == tmproto.PrecommitType:
					val = "nil"
				case s.c.Strategy == "oddsilent" && t == tmproto.PrevoteType && rd%2 == 1:
					val = "" // nobody prevotes in odd rounds; the nil precommits carry the node to the next round
				}
				if val != "" {
					if id, ok := s.voteMsg(a, rd, t, val); ok {
						add(dsEv{K: dsDeliver, M: int32(id)})
					}
				}
				break
			}
		}
	}
	if l.armed {
		ev := dsEv{K: dsTimeout}
		if free == nil {
			free = &ev
		} else {
			devs = append(devs, ev)
		}
	}
	if s.e.useStale && l.nStale > 0 {
		devs = append(devs, dsEv{K: dsStale})
	}
	// deviations: every menu message
	labels := []string{"nil", "A", "B"}
	if sum2 := sum; sum2 != nil {
		for _, own := range []map[int32]string{sum.ownPrevote, sum.ownPrecom} {
			for _, lb := range own {
				if lb != "nil" && lb != "A" && lb != "B" && lb != "" {
					labels = append(labels, lb)
				}
			}
		}
	}
	seenLb := map[string]bool{}
	for rd := int32(0); rd <= s.c.MaxRound; rd++ {
		for _, t := range []tmproto.SignedMsgType{tmproto.PrevoteType, tmproto.PrecommitType} {
			flags := sum.voted[fmt.Sprintf("%d/%d", rd, t)]
			next := -1
			for k := range s.adv {
				if !flags[k] {
					next = k
					break
				}
			}
			if next < 0 {
				continue
			}
			for _, lb := range labels {
				if seenLb[fmt.Sprintf("%d/%d/%s", rd, t, lb)] {
					continue
				}
				seenLb[fmt.Sprintf("%d/%d/%s", rd, t, lb)] = true
				if id, ok := s.voteMsg(s.adv[next], rd, t, lb); ok {
					ev := dsEv{K: dsDeliver, M: int32(id)}
					if free == nil || *free != ev {
						devs = append(devs, ev)
					}
				}
				if id, ok := s.multi[fmt.Sprintf("%d/%d/%s", rd, t, lb)]; ok && next < len(s.adv)-1 {
					devs = append(devs, dsEv{K: dsDeliver, M: int32(id)})
				}
			}
		}
	}
	for _, id := range s.sortedProps() {
		ev := dsEv{K: dsDeliver, M: int32(id)}
		if free == nil || *free != ev {
			devs = append(devs, ev)
		}
	}
	return free, devs
}

func (s *c02Setup) sortedProps() []int {
	var out []int
	for rd := int32(0); rd <= s.c.MaxRound; rd++ {
		for _, name := range []string{"A", "B"} {
			for pol := int32(-1); pol < rd; pol++ {
				if id, ok := s.prop[fmt.Sprintf("%d/%s/%d", rd, name, pol)]; ok {
					out = append(out, id)
				}
			}
		}
	}
	return out
}

// monitor judges the log of messages the node has signed so far against what it holds.
// (a) at most one proposal / prevote / precommit value per round;
// (b) the latest precommit for a block X in round R: the node holds X and its prevote set for R has > 2/3 for X;
// (c) the latest prevote in round R': if the node's most recent non-nil precommit was X in R < R', the prevote
//
//	is for X unless some round R'' in (R, R'] has a > 2/3 prevote quorum for something other than X.
//
// Rules (b) and (c) are evaluated for the newest signed vote only (older ones were judged when they were new);
// vote sets only grow, and a step adds at most one foreign vote before the node signs, so the sets seen
// after the step are the sets the node had when it signed.
func (s *c02Setup) monitor(n *dsNode) (key, what string) {
	if len(n.signed) == 0 || n.cs.Height != s.w.Height {
		return "", ""
	}
	type slot struct {
		kind  string
		typ   tmproto.SignedMsgType
		round int32
	}
	first := map[slot]*dsMsg{}
	for _, id := range n.signed {
		m := s.w.msg(id)
		sl := slot{m.Kind, m.Type, m.Round}
		if prev, ok := first[sl]; ok && prev.Block != m.Block {
			return "consensus:equivocation", fmt.Sprintf("validator signed two different %ss in round %d: %s and %s", m.Kind, m.Round, prev.String(), m.String())
		} else if !ok {
			first[sl] = m
		}
	}
	total := s.w.state0.Validators.TotalVotingPower()
	quorumFor := func(rd int32, label string, other bool) bool {
		vs := n.cs.Votes.Prevotes(rd)
		if vs == nil {
			return false
		}
		tally := map[string]int64{}
		for i, val := range s.w.state0.Validators.Validators {
			if v := vs.GetByIndex(int32(i)); v != nil {
				tally[s.w.label(v.BlockID.Hash)] += val.VotingPower
			}
		}
		for lb, p := range tally {
			if 3*p > 2*total && ((!other && lb == label) || (other && lb != label)) {
				return true
			}
		}
		return false
	}
	// judge what THIS event made the node sign (the sets and blocks it holds now are the ones it held when it signed)
	for idx := n.sigMark; idx < len(n.signed); idx++ {
		m := s.w.msg(n.signed[idx])
		if m.Kind != "vote" {
			continue
		}
		var lastPrecommit *dsMsg // most recent non-nil precommit before this message
		for _, id := range n.signed[:idx] {
			pm := s.w.msg(id)
			if pm.Kind == "vote" && pm.Type == tmproto.PrecommitType && pm.Block != "nil" && (lastPrecommit == nil || pm.Round >= lastPrecommit.Round) {
				lastPrecommit = pm
			}
		}
		if m.Type == tmproto.PrecommitType && m.Block != "nil" {
			holds := false
			for _, b := range []*types.Block{n.cs.LockedBlock, n.cs.ProposalBlock, n.cs.ValidBlock} {
				if b != nil && s.w.label(b.Hash()) == m.Block {
					holds = true
				}
			}
			if !holds {
				return "consensus:precommit-without-block", fmt.Sprintf("precommitted %s in round %d without holding the block", m.Block, m.Round)
			}
			if !quorumFor(m.Round, m.Block, false) {
				return "consensus:precommit-without-polka", fmt.Sprintf("precommitted %s in round %d without > 2/3 prevotes for it in that round", m.Block, m.Round)
			}
		}
		if m.Type == tmproto.PrevoteType && lastPrecommit != nil && lastPrecommit.Round < m.Round && m.Block != lastPrecommit.Block {
			ok := false
			for rd := lastPrecommit.Round + 1; rd <= m.Round; rd++ {
				if quorumFor(rd, lastPrecommit.Block, true) {
					ok = true
				}
			}
			if !ok {
				return "consensus:prevote-against-lock", fmt.Sprintf("precommitted %s in round %d, then prevoted %s in round %d without a more recent +2/3 prevote quorum for anything else",
					lastPrecommit.Block, lastPrecommit.Round, m.Block, m.Round)
			}
		}
	}
	return "", ""
}

func (s *c02Setup) toCase(tr []dsEv) c02Case {
	out := c02Case{Cfg: s.c, Desc: s.e.describe(tr)}
	for _, ev := range tr {
		out.Trace = append(out.Trace, dsRepOf(s.w, ev))
	}
	return out
}

func c02Replay(r *vr.Report, cs c02Case) (keys, whats []string) {
	s := c02Build(r, cs.Cfg)
	seen := map[string]bool{}
	dsReplayTrace(s.e, cs.Trace, func(n *dsNode, ev dsEv, pub []int32) bool {
		if k, w := s.monitor(n); k != "" && !seen[k] {
			seen[k] = true
			keys, whats = append(keys, k), append(whats, w)
		}
		return true
	})
	return keys, whats
}

func TestVerifC02(t *testing.T) {
	r := vr.Start("C02", "votes", 170*time.Second, 22*time.Minute)
	defer r.Finish()
	r.Rule = "one real consensus.State (power 1 of 4, or 2 of 5) against three adversarial validators; per configuration (which round the node proposes in) every execution with at most k " +
		"deviations from the default adversary (proposal for the round, echo of the node's prevote and precommit, pending timeout) is explored; a deviation is any message of the menu " +
		"(prevote/precommit for nil, A, B or the node's own block from the next adversary or from all remaining adversaries at once, in any round 0..R; proposals of A or B with any POL round; a timeout fired early); " +
		"states are deduplicated by the node's canonical state including its log of signed messages"
	r.Assume("the three adversarial validators are interchangeable for vote counting (equal power), so single votes are delivered in a canonical adversary order; each vote is relayed by its signer")
	r.Assume("tmtime.Now is pinned through an injected clock seam")
	var rc c02Case
	if rep, skip := r.ReplayCase(&rc); skip {
		return
	} else if rep {
		r.Eval()
		if ks, ws := c02Replay(r, rc); len(ks) > 0 {
			r.Violation(ks[0], ws[0], rc)
		}
		return
	}
	dev := vr.Pick(2, 3)
	if v, err := strconv.Atoi(os.Getenv("VERIF_C02_DEV")); err == nil {
		dev = v
	}
	var cfgs []c02Config
	for pos := 0; pos <= 3; pos++ {
		cfgs = append(cfgs, c02Config{NodePos: pos, Strategy: "echo", MaxRound: 2, MaxDev: dev, Eager: true})
		if vr.Thorough() {
			for _, st := range []string{"nilprecommit", "split", "oddsilent"} {
				cfgs = append(cfgs, c02Config{NodePos: pos, Strategy: st, MaxRound: 3, MaxDev: dev, Eager: true})
			}
			continue
		}
		// quick: the round-walking adversaries at a lower deviation bound (they already are several deviations away from "echo")
		cfgs = append(cfgs, c02Config{NodePos: pos, Strategy: "oddsilent", MaxRound: 3, MaxDev: dev - 1, Eager: true})
		if pos == 0 {
			cfgs = append(cfgs, c02Config{NodePos: pos, Strategy: "split", MaxRound: 3, MaxDev: dev, Eager: true})
		}
		if pos <= 1 {
			cfgs = append(cfgs, c02Config{NodePos: pos, Strategy: "nilprecommit", MaxRound: 3, MaxDev: dev - 1, Eager: true})
		}
	}
	// an inconsistent block id (foreign hash + the part-set header of a real block) proposed and voted for
	cfgs = append(cfgs, c02Config{NodePos: 1, Strategy: "echo", MaxRound: 1, MaxDev: dev, Eager: true, Mixed: true})
	// the node holds 2 of 5 (the adversaries 1 each): the +2/3 threshold is 4, one adversary's vote on top of the node's own must not be a quorum
	cfgs = append(cfgs, c02Config{Strategy: "echo", MaxRound: 2, MaxDev: dev - 1, Eager: true, Powers: []int64{2, 1, 1, 1}})
	if vr.Thorough() {
		cfgs = append(cfgs, c02Config{Strategy: "split", MaxRound: 3, MaxDev: dev - 1, Eager: true, Powers: []int64{2, 1, 1, 1}})
		for pos := 0; pos <= 3; pos++ {
			cfgs = append(cfgs, c02Config{NodePos: pos, Strategy: "echo", MaxRound: 2, MaxDev: dev - 1, Eager: false, Stale: true})
		}
	}
	workers := runtime.GOMAXPROCS(0)
	minCompleted := 99
	for ci, c := range cfgs {
		if !r.Mine(ci) {
			continue
		}
		if r.Deadline("C02 configurations") {
			break
		}
		s := c02Build(r, c)
		g0 := s.e.initial(nil)
		viols, completed := s.e.search(g0, c.MaxDev, workers, func(id int32, g *dsGlobal, ls []*dsLocal, terminal bool) {
			if terminal {
				l := ls[0]
				switch {
				case l.decided != "":
					r.Outcome("end:decided-" + l.decided[:1])
				case l.halted != "":
					r.Outcome("end:halted")
				default:
					r.Outcome(fmt.Sprintf("end:round%d", l.round))
				}
			}
		})
		if completed < minCompleted {
			minCompleted = completed
		}
		n := int64(s.e.nStates())
		r.NTCount(n)
		r.EvalN(n)
		r.Add("configurations", 1)
		signedKinds := map[string]bool{}
		for _, l := range s.e.locals {
			if l.halted != "" {
				r.Note(fmt.Sprintf("node halted (CONSENSUS FAILURE) in config %+v: %s", c, l.halted))
				r.Add("halted_local_states", 1)
			}
		}
		_ = signedKinds
		if n > 5 {
			r.Sample(map[string]interface{}{"config": c, "states": n, "trace_to_last_state": s.e.describe(s.e.trace(int32(n - 1)))})
		}
		for _, v := range viols {
			cs := s.toCase(s.e.trace(v.State))
			for i := 0; i < 3; i++ {
				ks, _ := c02Replay(r, cs)
				found := false
				for _, k := range ks {
					found = found || k == v.Key
				}
				if !found {
					panic(fmt.Sprintf("C02: violation %s does not reproduce from its replay trace (got %v): harness fault", v.Key, ks))
				}
			}
			r.Violation(v.Key, v.What, cs)
		}
	}
	if minCompleted != 99 {
		r.Bound = fmt.Sprintf("all executions with <= %d deviations in every configuration of this shard", minCompleted)
	}
}
