package consensus

// C18, part "pipeline": the call site of pruning. The store-level parts drive BlockStore.PruneBlocks and Store.PruneStates
// themselves; here the real node does it (State.pruneBlocks in finalizeCommit, with the retain height its application returns):
// the C05 pipeline — a single-validator node on the journalled file system with a parameter change, a validator addition and
// pruning from height 3 — is crashed before every journal entry and restarted; after every start-up and at the target height
// every height between the block store's base and height must be loadable and consistent, and the state store must produce its
// validator set and parameters. A second schedule has the application return a retain height above the tip once.

import (
	"bytes"
	"fmt"
	"testing"
	"time"

	"github.com/tendermint/tendermint/internal/verif/vr"
	"github.com/tendermint/tendermint/types"
)

func c18pCheck(n *rtNode) (key, what string) {
	bs, ss := n.bstore, n.sstore
	base, top := bs.Base(), bs.Height()
	if top == 0 {
		return "", ""
	}
	for h := base; h <= top; h++ {
		blk, meta := bs.LoadBlock(h), bs.LoadBlockMeta(h)
		if blk == nil || meta == nil {
			return "store:height-in-range-cannot-be-loaded", fmt.Sprintf("[base %d, height %d] height %d: block %v meta %v", base, top, h, blk != nil, meta != nil)
		}
		if !bytes.Equal(blk.Hash(), meta.BlockID.Hash) {
			return "store:block-does-not-hash-to-its-id", fmt.Sprintf("height %d", h)
		}
		if b2 := bs.LoadBlockByHash(blk.Hash()); b2 == nil || b2.Height != h {
			return "store:hash-index-entry-missing", fmt.Sprintf("height %d", h)
		}
		var commit *types.Commit
		if h < top {
			commit = bs.LoadBlockCommit(h)
		} else {
			commit = bs.LoadSeenCommit(h)
		}
		if commit == nil {
			return "store:commit-missing", fmt.Sprintf("[base %d, height %d] height %d", base, top, h)
		}
		vals, err := ss.LoadValidators(h)
		if err != nil {
			return "state/store.go:validator-set-of-a-stored-height-cannot-be-produced", fmt.Sprintf("[base %d, height %d] height %d: %v", base, top, h, err)
		}
		if !bytes.Equal(vals.Hash(), blk.ValidatorsHash) {
			return "state/store.go:validator-set-differs-from-header", fmt.Sprintf("height %d", h)
		}
		if err := vals.VerifyCommitLight(n.env.chainID, meta.BlockID, h, commit); err != nil {
			return "store:commit-does-not-verify-for-its-block", fmt.Sprintf("height %d: %v", h, err)
		}
		params, err := ss.LoadConsensusParams(h)
		if err != nil {
			return "state/store.go:consensus-params-of-a-stored-height-cannot-be-produced", fmt.Sprintf("[base %d, height %d] height %d: %v", base, top, h, err)
		}
		if !bytes.Equal(types.HashConsensusParams(params), blk.ConsensusHash) {
			return "state/store.go:consensus-params-differ-from-header", fmt.Sprintf("height %d", h)
		}
	}
	return "", ""
}

func TestVerifC18Pipeline(t *testing.T) {
	r := vr.Start("C18", "pipeline", 120*time.Second, 20*time.Minute)
	defer r.Finish()
	r.Rule = "the C05 pipeline run (single validator, parameter change at 1, validator addition at 2, application-requested pruning from height 3; second schedule: retain height above the tip at height 3) with every journal entry as a crash point " +
		"x storage policies; after every start-up and at the target height every height in [base, height] is loaded from both stores and cross-checked (block, meta, hash index, commit verifies, validator set and parameters match the header); " +
		"a case = (schedule, crash point, policy); all distinct; non-trivial = a crash"
	r.Assume("storage model as in DESIGN §3.3; the application survives crashes")
	c05ExtraCheck = c18pCheck
	type c18pCase struct {
		Beyond int64   `json:"retain_above_tip_at_height"`
		C      c05Case `json:"run"`
	}
	var rc c18pCase
	run := func(c c18pCase) c05Result {
		c05RetainBeyondAt = c.Beyond
		return c05Run(c.C)
	}
	if rep, skip := r.ReplayCase(&rc); skip {
		return
	} else if rep {
		r.Eval()
		if res := run(rc); res.key != "" {
			r.Violation(res.key, res.what, rc)
		}
		return
	}
	n := 0
	for _, beyond := range []int64{0, 3} {
		ref := run(c18pCase{Beyond: beyond, C: c05Case{Target: c05Target, Files: "keep", DB: "process"}})
		if r.Mine(0) {
			r.Eval()
			if ref.key != "" {
				r.Violation(ref.key, ref.what, c18pCase{Beyond: beyond, C: c05Case{Target: c05Target, Files: "keep", DB: "process"}})
			}
		}
		if ref.key != "" || len(ref.journals) == 0 {
			continue
		}
		for cp := ref.prep + 1; cp < ref.journals[0]; cp++ {
			pols := [][2]string{{"keep", "process"}, {"drop", "machine"}}
			if vr.Thorough() {
				pols = append(pols, [2]string{"keep", "machine"}, [2]string{"drop", "process"})
			}
			for _, pol := range pols {
				n++
				if !r.Mine(n) {
					continue
				}
				if r.Deadline("C18 pipeline crash points") {
					return
				}
				c := c18pCase{Beyond: beyond, C: c05Case{Crashes: []int{cp}, Files: pol[0], DB: pol[1], Target: c05Target}}
				r.Eval()
				r.NTCount(1)
				res := run(c)
				if res.inconcl != "" && res.key == "" {
					r.Add("inconclusive_or_beyond", 1)
					continue
				}
				if res.key != "" {
					if again := run(c); again.key != res.key {
						r.Cap("a violation did not reproduce on re-execution; it was not reported")
						continue
					}
					r.Outcome(res.key)
					r.Violation(res.key, res.what, c)
				} else {
					r.Outcome(fmt.Sprintf("stores-consistent(reached=%v)", res.reached))
				}
				if n%53 == 0 {
					r.Sample(c)
				}
			}
		}
	}
	r.Bound = "k=1 crash at every journal entry of both schedules x 2 (thorough: 4) storage policies"
}
