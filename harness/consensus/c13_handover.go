package consensus

// C13 / part handover — the seam between block sync and consensus, enumerated at the level of the commit.
// All three blockchain reactors decide "block h is committed" with
//     state.Validators.VerifyCommitLight(chainID, firstID, first.Height, second.LastCommit)
// and then persist second.LastCommit as the seen commit of h (store.SaveBlock(first, firstParts, second.LastCommit)).
// When they are caught up, SwitchToConsensus -> reconstructLastCommit -> types.CommitToVoteSet reads that seen
// commit back; so does consensus.NewState at every later start.
//
// For the tip height (5 validators) and a height of the 4-validator set, every commit whose slots are drawn
// from a 7-kind menu is (1) offered to the real VerifyCommitLight, (2) if accepted, stored exactly the way the
// reactors store it (SaveBlock for heights 1..h, the enumerated commit as seen commit of h), and (3) handed to
// the real reconstructLastCommit (on a consensus state born at genesis = SwitchToConsensus) and to
// consensus.NewState on the synced state (= restart).

import (
	"fmt"
	"os"
	"strings"
	"testing"
	"time"

	dbm "github.com/tendermint/tm-db"

	cfg "github.com/tendermint/tendermint/config"
	"github.com/tendermint/tendermint/internal/verif/c13kit"
	"github.com/tendermint/tendermint/internal/verif/vr"
	mpmock "github.com/tendermint/tendermint/mempool/mock"
	sm "github.com/tendermint/tendermint/state"
	"github.com/tendermint/tendermint/store"
	"github.com/tendermint/tendermint/types"
)

type c13HCase struct {
	Height int64 `json:"height"`
	Kinds  []int `json:"kinds"`
}

type c13HEnv struct {
	chain *c13kit.Chain
	node  *c13kit.Node
	conf  *cfg.ConsensusConfig
	premise string // "" when all three reactors were found to decide with VerifyCommitLight
}

func c13Safely(f func()) (p string) {
	defer func() {
		if x := recover(); x != nil {
			p = fmt.Sprint(x)
		}
	}()
	f()
	return ""
}

// run returns "" or a violation, plus the outcome class.
func (e *c13HEnv) run(c c13HCase) (key, what, outcome string) {
	h := c.Height
	vals := e.chain.ValsAt(h)
	commit := e.chain.SlotCommit(h, c.Kinds)
	if err := commit.ValidateBasic(); err != nil {
		return "", "", "not-wire-expressible"
	}
	truth := c13kit.RefCommit(vals, h, e.chain.IDs[h], commit)
	// what every blockchain reactor asks before it stores block h with this commit
	errLight := vals.VerifyCommitLight(c13kit.ChainID, e.chain.IDs[h], h, commit)
	if errLight != nil {
		if truth.Quorum() && len(truth.BadSlots) == 0 {
			return "types/validator_set.go:VerifyCommitLight:rejects-valid-two-thirds-commit",
				fmt.Sprintf("every present slot is a valid vote, %d of %d for the block, yet: %v", truth.ForBlock, truth.Total, errLight), "violation"
		}
		return "", "", "rejected-by-sync"
	}
	if !truth.Quorum() {
		return "types/validator_set.go:VerifyCommitLight:accepts-without-two-thirds",
			fmt.Sprintf("accepted with %d of %d valid for-block power", truth.ForBlock, truth.Total), "violation"
	}
	// the stores as block sync leaves them
	bs := store.NewBlockStore(dbm.NewMemDB())
	for g := int64(1); g <= h; g++ {
		seen := e.chain.Blocks[g+1].LastCommit // second.LastCommit of an honest peer
		if g == h {
			seen = commit
		}
		first := e.chain.Blocks[g]
		bs.SaveBlock(first, first.MakePartSet(types.BlockPartSizeBytes), seen)
	}
	state := e.chain.States[h].Copy()

	firstBad := -1
	if len(truth.BadSlots) > 0 {
		firstBad = c.Kinds[truth.BadSlots[0]]
	}
	// SwitchToConsensus: the consensus state exists since boot (genesis state), then reconstructLastCommit(state)
	var cs *State
	if p := c13Safely(func() {
		cs = NewState(e.conf, e.node.Genesis.Copy(), e.node.BlockExec, bs, mpmock.Mempool{}, sm.EmptyEvidencePool{})
	}); p != "" {
		return "consensus/state.go:NewState:panics-at-genesis", p, "violation"
	}
	pSwitch := c13Safely(func() { cs.reconstructLastCommit(state); cs.updateToState(state) })
	// restart on the synced stores
	var cs2 *State
	pRestart := c13Safely(func() {
		cs2 = NewState(e.conf, state, e.node.BlockExec, bs, mpmock.Mempool{}, sm.EmptyEvidencePool{})
	})
	if pSwitch != "" || pRestart != "" {
		if firstBad < 0 {
			return "consensus/state.go:reconstructLastCommit:panics-on-fully-valid-seen-commit", pSwitch + " / " + pRestart, "violation"
		}
		where := "switch and restart"
		if pSwitch == "" {
			where = "restart only"
		} else if pRestart == "" {
			where = "switch only"
		}
		return "consensus/state.go:reconstructLastCommit:panics-on-seen-commit-accepted-by-block-sync:" + e.chain.BadSlotCause(h, commit),
			fmt.Sprintf("height %d, slots %v: VerifyCommitLight accepts (valid for-block power %d of %d), the commit is stored as seen commit, and %s panics: %.240s",
				h, c13kit.SlotNames(c.Kinds), truth.ForBlock, truth.Total, where, pSwitch+pRestart), "violation"
	}
	for _, x := range []*State{cs, cs2} {
		lc := x.LastCommit
		if lc == nil || !lc.HasTwoThirdsMajority() {
			return "consensus/state.go:reconstructLastCommit:last-commit-without-two-thirds", fmt.Sprint(c13kit.SlotNames(c.Kinds)), "violation"
		}
		for i := 0; i < vals.Size(); i++ {
			if v := lc.GetByIndex(int32(i)); v != nil {
				if err := v.Verify(c13kit.ChainID, vals.Validators[i].PubKey); err != nil {
					return "consensus/state.go:reconstructLastCommit:last-commit-holds-invalid-signature",
						fmt.Sprintf("slots %v: vote %d of the rebuilt LastCommit: %v", c13kit.SlotNames(c.Kinds), i, err), "violation"
				}
			}
		}
	}
	if firstBad >= 0 {
		// cannot happen while CommitToVoteSet verifies every vote; kept as a guard on the reference itself
		return "consensus/state.go:reconstructLastCommit:invalid-slot-survives", fmt.Sprint(c13kit.SlotNames(c.Kinds)), "violation"
	}
	return "", "", "accepted/handover-ok"
}

// c13Premise checks, in the source tree this binary was built from, that the three block-sync reactors decide
// with Validators.VerifyCommitLight and nothing else. This part offers commits to that function directly; if a
// reactor has been changed to ask more, "accepted by block sync" is no longer what this part computes and its
// alarms are reported as diagnostics only (parts commits/v0/v1/v2 run the reactors themselves and stay exact).
func c13Premise() string {
	for _, f := range [][2]string{
		{"../blockchain/v0/reactor.go", "err := state.Validators.VerifyCommitLight("},
		{"../blockchain/v1/reactor.go", "err = bcR.state.Validators.VerifyCommitLight("},
		{"../blockchain/v2/processor_context.go", "return pc.state.Validators.VerifyCommitLight("},
	} {
		bz, err := os.ReadFile(f[0])
		if err != nil {
			return "cannot read " + f[0]
		}
		if !strings.Contains(string(bz), f[1]) {
			return f[0] + " no longer contains `" + f[1] + "`"
		}
	}
	return ""
}

func TestVerifC13Handover(t *testing.T) {
	r := vr.Start("C13", "handover", 60*time.Second, 5*time.Minute)
	defer r.Finish()
	r.Rule = "odometer over the slot kinds (7 per slot) of the commit that accompanies the tip block, for a 4-validator and a 5-validator height; " +
		"commits are distinct by construction; non-trivial = not all slots plain for-block"
	r.Assume("ed25519 is a black box; the harness signed (or deliberately mis-signed) every slot")
	r.Assume("block sync's acceptance test is exactly ValidatorSet.VerifyCommitLight + wire well-formedness (true for blockchain/v0, v1, v2; the v0/v1/v2 parts run the reactors themselves)")
	chain := c13kit.NewChain()
	node := chain.NewNode()
	defer node.Close()
	e := &c13HEnv{chain: chain, node: node, conf: cfg.TestConsensusConfig(), premise: c13Premise()}
	if e.premise != "" {
		// not a limit of what was enumerated: since the repair (block sync verifies every slot) the reactors no longer accept with
		// VerifyCommitLight, so "accepted by block sync" cannot be inferred here; the part's alarms are diagnostics, the enumeration is complete
		r.Note("handover: premise not established (" + e.premise + "): alarms about commits 'accepted by block sync' are diagnostics in this part")
	}
	var rc c13HCase
	if rep, skip := r.ReplayCase(&rc); skip {
		return
	} else if rep {
		r.Eval()
		key, what, out := e.run(rc)
		if key != "" {
			r.Violation(key, what, rc)
		}
		r.Outcome(out)
		return
	}
	k := 0
	confirmed := map[string]bool{}
	for _, h := range []int64{c13kit.Tip, 2} {
		n := chain.ValsAt(h).Size()
		idx := make([]int, n)
		for {
			c := c13HCase{Height: h, Kinds: append([]int{}, idx...)}
			k++
			if r.Mine(k) {
				if k%512 == 0 && r.Deadline("handover enumeration") {
					return
				}
				r.Eval()
				triv := true
				for _, x := range idx {
					if x != c13kit.SlotValid {
						triv = false
					}
				}
				if !triv {
					r.NTCount(1)
				}
				key, what, out := e.run(c)
				if key != "" && e.premise != "" && strings.Contains(key, "accepted-by-block-sync") {
					r.Add("diag_sink_would_panic_but_premise_not_established", 1)
					key, out = "", "sink-panics/premise-not-established"
				}
				if key != "" {
					if !confirmed[key] {
						if !vr.Confirm(3, fmt.Errorf("%s", key), func() error {
							k2, _, _ := e.run(c)
							if k2 == "" {
								return nil
							}
							return fmt.Errorf("%s", k2)
						}) {
							panic("C13 handover harness nondeterministic on " + fmt.Sprint(c))
						}
						confirmed[key] = true
					}
					r.Violation(key, what, c)
					out += ":" + key[strings.LastIndex(key, ":")+1:]
				}
				r.Outcome(out)
				if k%3001 == 7 {
					r.Sample(map[string]interface{}{"height": h, "slots": c13kit.SlotNames(c.Kinds), "outcome": out})
				}
			}
			i := 0
			for ; i < n; i++ {
				idx[i]++
				if idx[i] < c13kit.NSlotKinds {
					break
				}
				idx[i] = 0
			}
			if i == n {
				break
			}
		}
	}
	r.Bound = "all 7^5 commits for the tip height (5 validators) and all 7^4 for height 2 (4 validators)"
}
