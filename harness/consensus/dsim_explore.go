package consensus

// Explicit-state exploration over real consensus.State nodes (DESIGN §3.1/§3.2).
//
// A global state is (local state of every correct node, set of pending deliveries, number of
// Byzantine deliveries used). Nodes are independent objects and every event touches exactly one
// node, so the transition relation factors through a memoised *local* step function
//     step(local state, event) -> (local state', messages published)
// whose every entry is computed by executing the real handlers on a real node that was brought to
// `local state` by replaying a representative local history on a fresh instance (objects cannot be
// cloned). Replays are checked: the canonical state reached must equal the recorded one, any
// divergence is a hard harness error.

import (
	"encoding/binary"
	"os"
	"fmt"
	"sort"
	"sync"
	"sync/atomic"

	"github.com/tendermint/tendermint/internal/verif/vr"
)

const (
	dsDeliver = iota
	dsOwn
	dsTimeout
	dsStale
	dsDelay   // network holds back a pending delivery (deviation)
	dsRelease // network releases a held-back delivery (deviation)
)

const dsHeld = uint32(1) << 31 // flag on a pending entry: held back by the network

var dsDebug = os.Getenv("VERIF_DS_DEBUG") != ""

type dsEv struct {
	K uint8 `json:"k"`
	N uint8 `json:"n"`
	M int32 `json:"m"`
}

type dsLocal struct {
	id      int32
	node    int
	canon   [32]byte
	hist    []dsEv
	active  bool
	decided string
	halted  string
	ownLen  int
	armed   bool
	nStale  int
	round   int32
	cstr    string
	sum     interface{}
	viol    string // local oracle failure (decision check / C02 monitor)
	violKey string
}

type dsMemoKey struct {
	l  int32
	ev dsEv
}

type dsStepRes struct {
	next int32
	pub  []int32
}

type dsExplorer struct {
	w        *dsWorld
	r        *vr.Report
	correct  []int // validator index of each simulated node
	maxRound int32
	maxByz   int
	maxDepth int
	useStale bool
	// onPublish returns extra pending deliveries (encoded) unlocked by the publication of m
	onPublish func(m *dsMsg, byNode int) []uint32
	// movesFn overrides the canonical scheduler (free move + deviations) when set
	movesFn func(g *dsGlobal) (free *dsEv, devs []dsEv)
	// summarize attaches harness-specific, behaviour-derived data to every new local state
	summarize func(n *dsNode) interface{}
	// menu: Byzantine deliveries available at any time as deviations (cost 1 each)
	menu []uint32
	// freeMenu: deliveries that must be refused by correct code (forged signatures); always available as deviations,
	// not tracked in the global state (a refused delivery leads back to the same state)
	freeMenu []uint32
	fmMtx    sync.Mutex
	// localCheck is run on the live node after every local step (C01: decision check; C02: monitor)
	localCheck func(n *dsNode, before string, ev dsEv, emitted []int32) (key, what string)
	// globalCheck is run on every new global state
	globalCheck func(ls []*dsLocal) (key, what string)

	mtx      sync.RWMutex
	locals   []*dsLocal
	byCanon  map[[32]byte]int32
	memo     map[dsMemoKey]dsStepRes
	liveMtx  sync.Mutex
	live     map[int32]*dsNode
	nReplays int64
	nSteps   int64

	vmtx    [64]sync.Mutex
	visited [64]map[string]int32
	smtx    sync.Mutex
	states  []dsGState
}

type dsGState struct {
	key    string
	parent int32
	ev     dsEv
	depth  int32
}

func dsPend(m int32, dest int) uint32 { return uint32(m)<<3 | uint32(dest) }
func dsPendMsg(p uint32) int32        { return int32((p &^ dsHeld) >> 3) }
func dsPendDest(p uint32) int         { return int(p & 7) }

type dsGlobal struct {
	L    []int32
	Pend []uint32
	Byz  int
}

func (g *dsGlobal) key() string {
	b := make([]byte, 0, 4*len(g.L)+4*len(g.Pend)+1)
	var tmp [4]byte
	for _, l := range g.L {
		binary.LittleEndian.PutUint32(tmp[:], uint32(l))
		b = append(b, tmp[:]...)
	}
	b = append(b, byte(g.Byz))
	for _, p := range g.Pend {
		binary.LittleEndian.PutUint32(tmp[:], p)
		b = append(b, tmp[:]...)
	}
	return string(b)
}

func dsDecodeGlobal(key string, n int) *dsGlobal {
	b := []byte(key)
	g := &dsGlobal{L: make([]int32, n)}
	for i := 0; i < n; i++ {
		g.L[i] = int32(binary.LittleEndian.Uint32(b[4*i:]))
	}
	g.Byz = int(b[4*n])
	rest := b[4*n+1:]
	g.Pend = make([]uint32, len(rest)/4)
	for i := range g.Pend {
		g.Pend[i] = binary.LittleEndian.Uint32(rest[4*i:])
	}
	return g
}

func newDsExplorer(w *dsWorld, r *vr.Report, correct []int) *dsExplorer {
	e := &dsExplorer{w: w, r: r, correct: correct, byCanon: map[[32]byte]int32{}, memo: map[dsMemoKey]dsStepRes{}, live: map[int32]*dsNode{}}
	for i := range e.visited {
		e.visited[i] = map[string]int32{}
	}
	return e
}

func (e *dsExplorer) internLocal(n *dsNode, node int, hist []dsEv) *dsLocal {
	cstr := n.canon()
	c := dsHash(cstr)
	e.mtx.Lock()
	defer e.mtx.Unlock()
	if id, ok := e.byCanon[c]; ok {
		return e.locals[id]
	}
	l := &dsLocal{id: int32(len(e.locals)), node: node, canon: c, hist: append([]dsEv{}, hist...),
		decided: n.decided, halted: n.halted, ownLen: len(n.ownQ), armed: n.ticker.armed, nStale: len(n.ticker.stale), round: n.cs.Round}
	l.active = n.active() && n.cs.Round <= e.maxRound
	if dsDebug {
		l.cstr = cstr
	}
	if e.summarize != nil {
		l.sum = e.summarize(n)
	}
	e.locals = append(e.locals, l)
	e.byCanon[c] = l.id
	return l
}

func (e *dsExplorer) local(id int32) *dsLocal { e.mtx.RLock(); defer e.mtx.RUnlock(); return e.locals[id] }

func (e *dsExplorer) apply(n *dsNode, ev dsEv) (pub []int32) {
	n.sigMark = len(n.signed)
	switch ev.K {
	case dsDeliver:
		n.deliver(e.w.msg(int(ev.M)))
	case dsOwn:
		pub = append(pub, int32(n.own()))
	case dsTimeout:
		n.fireTimeout()
	case dsStale:
		n.fireStale()
	}
	if e.w.EagerOwn {
		for len(n.ownQ) > 0 && n.halted == "" {
			pub = append(pub, int32(n.own()))
		}
	}
	return pub
}

// liveAt returns a real node in local state l: from the linear cache, or by replaying l.hist.
func (e *dsExplorer) liveAt(l *dsLocal) *dsNode {
	e.liveMtx.Lock()
	if n, ok := e.live[l.id]; ok {
		delete(e.live, l.id)
		e.liveMtx.Unlock()
		return n
	}
	e.liveMtx.Unlock()
	n := e.w.newNode(e.correct[l.node])
	for _, ev := range l.hist {
		e.apply(n, ev)
	}
	atomic.AddInt64(&e.nReplays, 1)
	if dsHash(n.canon()) != l.canon {
		panic(fmt.Sprintf("dsim: replay divergence for local state %d of node %d (history %v = %v)\nrecorded: %s\nreplayed: %s", l.id, l.node, l.hist, e.describe(l.hist), l.cstr, n.canon()))
	}
	return n
}

func (e *dsExplorer) step(l *dsLocal, ev dsEv) dsStepRes {
	k := dsMemoKey{l.id, ev}
	e.mtx.RLock()
	res, ok := e.memo[k]
	e.mtx.RUnlock()
	if ok {
		return res
	}
	n := e.liveAt(l)
	var before string
	if e.localCheck != nil {
		before = "x"
	}
	pub := e.apply(n, ev)
	atomic.AddInt64(&e.nSteps, 1)
	hist := append(append([]dsEv{}, l.hist...), ev)
	nl := e.internLocal(n, l.node, hist)
	if e.localCheck != nil && nl.violKey == "" {
		if key, what := e.localCheck(n, before, ev, pub); key != "" {
			nl.violKey, nl.viol = key, what
		}
	}
	res = dsStepRes{next: nl.id, pub: pub}
	e.mtx.Lock()
	e.memo[k] = res
	e.mtx.Unlock()
	e.liveMtx.Lock()
	if _, ok := e.live[nl.id]; !ok && len(e.live) < 4000 {
		e.live[nl.id] = n
	}
	e.liveMtx.Unlock()
	return res
}

// enabled lists the events of global state g in canonical order.
func (e *dsExplorer) enabled(g *dsGlobal) []dsEv {
	var evs []dsEv
	for i, lid := range g.L {
		l := e.local(lid)
		if !l.active {
			continue
		}
		if !e.w.EagerOwn && l.ownLen > 0 {
			evs = append(evs, dsEv{K: dsOwn, N: uint8(i)})
		}
		if l.armed {
			evs = append(evs, dsEv{K: dsTimeout, N: uint8(i)})
		}
		if e.useStale && l.nStale > 0 {
			evs = append(evs, dsEv{K: dsStale, N: uint8(i)})
		}
	}
	for _, p := range g.Pend {
		if p&dsHeld != 0 {
			continue
		}
		dest := dsPendDest(p)
		m := dsPendMsg(p)
		if !e.local(g.L[dest]).active {
			continue
		}
		if mm := e.w.msg(int(m)); mm.Byz && !mm.Forged && g.Byz >= e.maxByz {
			continue
		}
		evs = append(evs, dsEv{K: dsDeliver, N: uint8(dest), M: m})
	}
	return evs
}

func (e *dsExplorer) succ(g *dsGlobal, ev dsEv) *dsGlobal {
	i := int(ev.N)
	if ev.K == dsDelay || ev.K == dsRelease {
		ng := &dsGlobal{L: append([]int32{}, g.L...), Byz: g.Byz, Pend: append([]uint32{}, g.Pend...)}
		for k, p := range ng.Pend {
			if ev.K == dsDelay && p == dsPend(ev.M, i) {
				ng.Pend[k] = p | dsHeld
			} else if ev.K == dsRelease && p == dsPend(ev.M, i)|dsHeld {
				ng.Pend[k] = p &^ dsHeld
			}
		}
		sort.Slice(ng.Pend, func(a, b int) bool { return ng.Pend[a] < ng.Pend[b] })
		return ng
	}
	res := e.step(e.local(g.L[i]), ev)
	ng := &dsGlobal{L: append([]int32{}, g.L...), Byz: g.Byz}
	ng.L[i] = res.next
	nl := e.local(res.next)
	ng.Pend = make([]uint32, 0, len(g.Pend)+4)
	for _, p := range g.Pend {
		if ev.K == dsDeliver && p == dsPend(ev.M, i) {
			continue
		}
		if !nl.active && dsPendDest(p) == i {
			continue // nothing is delivered to a node that decided, halted or left the round bound
		}
		ng.Pend = append(ng.Pend, p)
	}
	if ev.K == dsDeliver && e.w.msg(int(ev.M)).Byz && !e.w.msg(int(ev.M)).Forged {
		ng.Byz++
	}
	for _, m := range res.pub {
		for j := range g.L {
			if j != i && e.local(ng.L[j]).active {
				ng.Pend = append(ng.Pend, dsPend(m, j))
			}
		}
		if e.onPublish != nil {
			for _, p := range e.onPublish(e.w.msg(int(m)), i) {
				if e.local(ng.L[dsPendDest(p)]).active {
					ng.Pend = append(ng.Pend, p)
				}
			}
		}
	}
	sort.Slice(ng.Pend, func(a, b int) bool { return ng.Pend[a] < ng.Pend[b] })
	// set semantics
	out := ng.Pend[:0]
	for k, p := range ng.Pend {
		if k == 0 || p != ng.Pend[k-1] {
			out = append(out, p)
		}
	}
	ng.Pend = out
	return ng
}

func (e *dsExplorer) visit(key string, parent int32, ev dsEv, depth int32) (int32, bool) {
	h := 0
	for i := 0; i < len(key); i++ {
		h = h*31 + int(key[i])
	}
	sh := uint(h) % 64
	e.vmtx[sh].Lock()
	defer e.vmtx[sh].Unlock()
	if id, ok := e.visited[sh][key]; ok {
		return id, false
	}
	e.smtx.Lock()
	id := int32(len(e.states))
	e.states = append(e.states, dsGState{key: key, parent: parent, ev: ev, depth: depth})
	e.smtx.Unlock()
	e.visited[sh][key] = id
	return id, true
}

func (e *dsExplorer) nStates() int { e.smtx.Lock(); defer e.smtx.Unlock(); return len(e.states) }

func (e *dsExplorer) state(id int32) dsGState { e.smtx.Lock(); defer e.smtx.Unlock(); return e.states[id] }

// trace returns the event path from the initial state to state id.
func (e *dsExplorer) trace(id int32) []dsEv {
	var rev []dsEv
	for id > 0 {
		s := e.state(id)
		rev = append(rev, s.ev)
		id = s.parent
	}
	out := make([]dsEv, len(rev))
	for i := range rev {
		out[i] = rev[len(rev)-1-i]
	}
	return out
}

func (e *dsExplorer) describe(tr []dsEv) []string {
	var out []string
	for _, ev := range tr {
		switch ev.K {
		case dsDeliver:
			out = append(out, fmt.Sprintf("deliver %s -> n%d(v%d)", e.w.msg(int(ev.M)).String(), ev.N, e.correct[ev.N]))
		case dsOwn:
			out = append(out, fmt.Sprintf("n%d(v%d) processes its own next message", ev.N, e.correct[ev.N]))
		case dsTimeout:
			out = append(out, fmt.Sprintf("timeout at n%d(v%d)", ev.N, e.correct[ev.N]))
		case dsStale:
			out = append(out, fmt.Sprintf("stale timeout at n%d(v%d)", ev.N, e.correct[ev.N]))
		case dsDelay:
			out = append(out, fmt.Sprintf("network holds back %s -> n%d(v%d)", e.w.msg(int(ev.M)).String(), ev.N, e.correct[ev.N]))
		case dsRelease:
			out = append(out, fmt.Sprintf("network releases %s -> n%d(v%d)", e.w.msg(int(ev.M)).String(), ev.N, e.correct[ev.N]))
		}
	}
	return out
}

type dsViolation struct {
	Key   string
	What  string
	State int32
}

// initial builds the initial global state: fresh nodes and the given pending deliveries.
func (e *dsExplorer) initial(pend []uint32) *dsGlobal {
	g := &dsGlobal{L: make([]int32, len(e.correct))}
	for i, vi := range e.correct {
		n := e.w.newNode(vi)
		l := e.internLocal(n, i, nil)
		g.L[i] = l.id
	}
	g.Pend = append([]uint32{}, pend...)
	sort.Slice(g.Pend, func(a, b int) bool { return g.Pend[a] < g.Pend[b] })
	return g
}

// bfs explores level by level with `workers` goroutines. onState is called for every new state.
func (e *dsExplorer) bfs(g0 *dsGlobal, workers int, maxStates int, onState func(id int32, g *dsGlobal, ls []*dsLocal)) (viols []dsViolation) {
	id0, _ := e.visit(g0.key(), 0, dsEv{}, 0)
	frontier := []int32{id0}
	var vmtx sync.Mutex
	seenViol := map[string]bool{}
	addViol := func(key, what string, id int32) {
		vmtx.Lock()
		if !seenViol[key] {
			seenViol[key] = true
			viols = append(viols, dsViolation{key, what, id})
		}
		vmtx.Unlock()
	}
	var transitions int64
	depth := int32(0)
	var stopF int32
	stopped := func() bool { return atomic.LoadInt32(&stopF) != 0 }
	for len(frontier) > 0 && !stopped() {
		if e.maxDepth > 0 && int(depth) >= e.maxDepth {
			e.r.Cap(fmt.Sprintf("depth bound %d reached with %d frontier states", e.maxDepth, len(frontier)))
			break
		}
		var next []int32
		var nmtx sync.Mutex
		var wg sync.WaitGroup
		var cursor int64
		for wkr := 0; wkr < workers; wkr++ {
			wg.Add(1)
			go func() {
				defer wg.Done()
				var mine []int32
				for {
					k := int(atomic.AddInt64(&cursor, 1)) - 1
					if k >= len(frontier) || stopped() {
						break
					}
					if k%256 == 0 && (e.r.Deadline("dsim bfs") || (maxStates > 0 && e.nStates() >= maxStates)) {
						atomic.StoreInt32(&stopF, 1)
						break
					}
					sid := frontier[k]
					g := dsDecodeGlobal(e.state(sid).key, len(e.correct))
					for _, ev := range e.enabled(g) {
						ng := e.succ(g, ev)
						atomic.AddInt64(&transitions, 1)
						nid, fresh := e.visit(ng.key(), sid, ev, depth+1)
						if !fresh {
							continue
						}
						mine = append(mine, nid)
						ls := make([]*dsLocal, len(ng.L))
						for i, lid := range ng.L {
							ls[i] = e.local(lid)
							if ls[i].violKey != "" {
								addViol(ls[i].violKey, ls[i].viol, nid)
							}
						}
						if e.globalCheck != nil {
							if key, what := e.globalCheck(ls); key != "" {
								addViol(key, what, nid)
							}
						}
						if onState != nil {
							onState(nid, ng, ls)
						}
					}
				}
				nmtx.Lock()
				next = append(next, mine...)
				nmtx.Unlock()
			}()
		}
		wg.Wait()
		if stopped() {
			e.r.Cap(fmt.Sprintf("stopped inside BFS level %d (levels < %d are complete)", depth+1, depth+1))
			break
		}
		sort.Slice(next, func(a, b int) bool { return next[a] < next[b] })
		frontier = next
		depth++
	}
	e.r.States += int64(len(e.states))
	e.r.Transitions += transitions
	e.r.Traces += atomic.LoadInt64(&e.nSteps) + atomic.LoadInt64(&e.nReplays)
	if int(depth) > e.r.MaxDepth {
		e.r.MaxDepth = int(depth)
	}
	e.r.Add("local_states", int64(len(e.locals)))
	e.r.Add("local_steps_executed", atomic.LoadInt64(&e.nSteps))
	e.r.Add("local_replays", atomic.LoadInt64(&e.nReplays))
	return viols
}

// replayGlobal re-executes an event path on fresh real nodes without the explorer's memo (used for
// replay files and for confirming violations). It returns the final nodes.
func (e *dsExplorer) replayGlobal(tr []dsEv) []*dsNode {
	nodes := make([]*dsNode, len(e.correct))
	for i, vi := range e.correct {
		nodes[i] = e.w.newNode(vi)
	}
	for _, ev := range tr {
		e.apply(nodes[ev.N], ev)
	}
	return nodes
}

// ---------------------------------------------------------------------------------------------
// deviation-bounded search (iterative: everything with 0 deviations, then 1, 2, ...)
//
// The default (free) move of a state is the canonical one: deliver the pending, not held-back message
// that is smallest in (round, proposal<prevote<precommit, sender, block, destination) order; when
// nothing is deliverable, fire the armed timeout of the lowest-numbered node. Every other enabled
// event costs one deviation: delivering another pending message first, firing a timeout although
// messages are deliverable (or a higher node's timeout), holding back / releasing a delivery, a
// stale timeout, or a delivery from the Byzantine menu. States are explored in order of the minimal
// number of deviations needed to reach them, up to the bound.

// moves returns the free move (if any) and the deviations of g.
func (e *dsExplorer) moves(g *dsGlobal) (free *dsEv, devs []dsEv) {
	best, bestFuture := "", ""
	var future *dsEv
	var deliver []dsEv
	for _, p := range g.Pend {
		dest := dsPendDest(p)
		m := dsPendMsg(p)
		if !e.local(g.L[dest]).active {
			continue
		}
		if p&dsHeld != 0 {
			devs = append(devs, dsEv{K: dsRelease, N: uint8(dest), M: m})
			continue
		}
		ev := dsEv{K: dsDeliver, N: uint8(dest), M: m}
		rk := e.w.msg(int(m)).rank + string(rune('0'+dest))
		if e.w.msg(int(m)).Round > e.local(g.L[dest]).round {
			// gossip does not hand a node messages of a round it has not reached (it would drop a proposal and its parts);
			// by default such a delivery waits: it is the free move only when nothing else, not even a timeout, is enabled
			if future == nil || rk < bestFuture {
				future, bestFuture = &dsEv{K: dsDeliver, N: uint8(dest), M: m}, rk
			}
		} else if free == nil || rk < best {
			free, best = &dsEv{K: dsDeliver, N: uint8(dest), M: m}, rk
		}
		deliver = append(deliver, ev)
	}
	if free == nil && future != nil {
		anyTimeout := false
		for _, lid := range g.L {
			if l := e.local(lid); l.active && (l.armed || (!e.w.EagerOwn && l.ownLen > 0)) {
				anyTimeout = true
			}
		}
		if !anyTimeout {
			free = future
		}
	}
	for _, ev := range deliver {
		if free == nil || ev != *free {
			devs = append(devs, ev)
		}
		devs = append(devs, dsEv{K: dsDelay, N: ev.N, M: ev.M})
	}
	for i, lid := range g.L {
		l := e.local(lid)
		if !l.active {
			continue
		}
		if !e.w.EagerOwn && l.ownLen > 0 {
			ev := dsEv{K: dsOwn, N: uint8(i)}
			if free == nil || free.K != dsOwn { // own messages first
				if free != nil {
					devs = append(devs, *free)
				}
				free = &ev
			} else {
				devs = append(devs, ev)
			}
		}
	}
	for i, lid := range g.L {
		l := e.local(lid)
		if !l.active {
			continue
		}
		if l.armed {
			ev := dsEv{K: dsTimeout, N: uint8(i)}
			if free == nil {
				free = &ev
			} else {
				devs = append(devs, ev)
			}
		}
		if e.useStale && l.nStale > 0 {
			devs = append(devs, dsEv{K: dsStale, N: uint8(i)})
		}
	}
	e.fmMtx.Lock()
	fm := e.freeMenu
	e.fmMtx.Unlock()
	for _, p := range fm {
		if e.local(g.L[dsPendDest(p)]).active {
			devs = append(devs, dsEv{K: dsDeliver, N: uint8(dsPendDest(p)), M: dsPendMsg(p)})
		}
	}
	if g.Byz < e.maxByz {
		for _, p := range e.menu {
			if e.local(g.L[dsPendDest(p)]).active {
				devs = append(devs, dsEv{K: dsDeliver, N: uint8(dsPendDest(p)), M: dsPendMsg(p)})
			}
		}
	}
	return free, devs
}

// search explores every state reachable with at most maxDev deviations.
func (e *dsExplorer) search(g0 *dsGlobal, maxDev int, workers int, onState func(id int32, g *dsGlobal, ls []*dsLocal, terminal bool)) (viols []dsViolation, completed int) {
	id0, _ := e.visit(g0.key(), 0, dsEv{}, 0)
	frontier := []int32{id0}
	var vmtx sync.Mutex
	seenViol := map[string]bool{}
	addViol := func(key, what string, id int32) {
		vmtx.Lock()
		if !seenViol[key] {
			seenViol[key] = true
			viols = append(viols, dsViolation{key, what, id})
		}
		vmtx.Unlock()
	}
	var transitions int64
	var stopF int32
	stopped := func() bool { return atomic.LoadInt32(&stopF) != 0 }
	check := func(nid int32, ng *dsGlobal) []*dsLocal {
		ls := make([]*dsLocal, len(ng.L))
		for i, lid := range ng.L {
			ls[i] = e.local(lid)
			if ls[i].violKey != "" {
				addViol(ls[i].violKey, ls[i].viol, nid)
			}
		}
		if e.globalCheck != nil {
			if key, what := e.globalCheck(ls); key != "" {
				addViol(key, what, nid)
			}
		}
		return ls
	}
	completed = -1
	maxLen := int32(0)
	getMoves := func(g *dsGlobal) (*dsEv, []dsEv) {
		if e.movesFn != nil {
			return e.movesFn(g)
		}
		return e.moves(g)
	}
	parallel := func(n int, f func(k int, out *[]int32)) []int32 {
		var all []int32
		var amtx sync.Mutex
		var wg sync.WaitGroup
		var cursor int64
		for wkr := 0; wkr < workers; wkr++ {
			wg.Add(1)
			go func() {
				defer wg.Done()
				var mine []int32
				steps := 0
				for {
					k := int(atomic.AddInt64(&cursor, 1)) - 1
					if k >= n || stopped() {
						break
					}
					steps++
					if steps%32 == 0 && e.r.Deadline("dsim deviation-bounded search") {
						atomic.StoreInt32(&stopF, 1)
						break
					}
					f(k, &mine)
				}
				amtx.Lock()
				all = append(all, mine...)
				amtx.Unlock()
			}()
		}
		wg.Wait()
		sort.Slice(all, func(a, b int) bool { return all[a] < all[b] })
		return all
	}
	for cost := 0; cost <= maxDev && len(frontier) > 0 && !stopped(); cost++ {
		// phase 1: close the level under free moves (a state found here needs exactly `cost` deviations)
		chain := parallel(len(frontier), func(k int, mine *[]int32) {
			sid := frontier[k]
			for !stopped() {
				st := e.state(sid)
				g := dsDecodeGlobal(st.key, len(e.correct))
				free, _ := getMoves(g)
				if free == nil {
					if onState != nil {
						ls := make([]*dsLocal, len(g.L))
						for i, lid := range g.L {
							ls[i] = e.local(lid)
						}
						onState(sid, g, ls, true)
					}
					return
				}
				ng := e.succ(g, *free)
				atomic.AddInt64(&transitions, 1)
				nid, fresh := e.visit(ng.key(), sid, *free, st.depth+1)
				if !fresh {
					return
				}
				if st.depth+1 > atomic.LoadInt32(&maxLen) {
					atomic.StoreInt32(&maxLen, st.depth+1)
				}
				ls := check(nid, ng)
				if onState != nil {
					onState(nid, ng, ls, false)
				}
				*mine = append(*mine, nid)
				sid = nid
			}
		})
		if stopped() {
			e.r.Cap(fmt.Sprintf("stopped while exploring executions with %d deviations (all executions with < %d deviations are complete)", cost, cost))
			break
		}
		completed = cost
		if cost == maxDev {
			break
		}
		// phase 2: one deviation from every state of this level
		level := append(append([]int32{}, frontier...), chain...)
		next := parallel(len(level), func(k int, mine *[]int32) {
			sid := level[k]
			st := e.state(sid)
			g := dsDecodeGlobal(st.key, len(e.correct))
			_, devs := getMoves(g)
			for _, ev := range devs {
				ng := e.succ(g, ev)
				atomic.AddInt64(&transitions, 1)
				nid, fresh := e.visit(ng.key(), sid, ev, st.depth+1)
				if fresh {
					*mine = append(*mine, nid)
					ls := check(nid, ng)
					if onState != nil {
						onState(nid, ng, ls, false)
					}
				}
			}
		})
		if stopped() {
			e.r.Cap(fmt.Sprintf("stopped while generating executions with %d deviations (all executions with <= %d deviations are complete)", cost+1, cost))
			break
		}
		frontier = next
	}
	e.r.States += int64(e.nStates())
	e.r.Transitions += transitions
	e.r.Traces += atomic.LoadInt64(&e.nSteps) + atomic.LoadInt64(&e.nReplays)
	if int(maxLen) > e.r.MaxDepth {
		e.r.MaxDepth = int(maxLen)
	}
	e.r.Add("local_states", int64(len(e.locals)))
	e.r.Add("local_steps_executed", atomic.LoadInt64(&e.nSteps))
	e.r.Add("local_replays", atomic.LoadInt64(&e.nReplays))
	return viols, completed
}
