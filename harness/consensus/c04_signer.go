package consensus

// C04 — no crash or restart can make a validator release conflicting signatures.
// One real node (real State + receive routine, real BaseWAL/autofile, real privval.FilePV with
// tempfile.WriteFileAtomic, all on the journalled file system) among three stub validators whose keys
// the harness holds. A scripted delivery schedule is run; every journal entry of it is a crash point
// (with the unsynced WAL tail kept, dropped, or cut at every byte for the entries that leave one);
// after the restart the adversary continues with one of several strategies. A wrapper around the
// signer records every (height, round, step, block, signature) it returned without error.

import (
	"fmt"
	"os"
	"sort"
	"testing"
	"time"

	"github.com/tendermint/tendermint/internal/verif/vos"
	"github.com/tendermint/tendermint/internal/verif/vr"
	"github.com/tendermint/tendermint/p2p"
	tmproto "github.com/tendermint/tendermint/proto/tendermint/types"
	"github.com/tendermint/tendermint/types"
)

type c04Case struct {
	Scenario string `json:"scenario"`                   // "lock" (node is not the proposer of rounds 0,1) | "proposer" (node proposes round 0)
	Crashes  []int  `json:"crash_before_journal_entry"` // per incarnation
	Tail     int    `json:"wal_tail_bytes"`             // -1 keep all unsynced bytes, 0 drop, n>0 keep n
	After    string `json:"after_restart"`              // "same" | "other" | "timeouts"
}

type c04Driver struct {
	env    *rtEnv
	n      *rtNode
	state0 *dsState0
	budget int // > 0: stop after this many delivered events (0 = unlimited)
	events int
}

type dsState0 struct {
	blocks map[string]*types.Block
	parts  map[string]*types.PartSet
	ids    map[string]types.BlockID
}

func c04Env(scenario string) *rtEnv {
	// find keys such that the node (key 0) is / is not the proposer of rounds 0 and 1
	for seed := 0; seed < 200; seed++ {
		e := newRtEnv(rtConfig{NVals: 4, Powers: []int64{1, 1, 1, 1}, KeySeed: fmt.Sprint(seed)})
		node := e.keys[0].PubKey().Address()
		vs := types.NewValidatorSet(c04Vals(e))
		p0 := vs.GetProposer().Address
		vs1 := vs.Copy()
		vs1.IncrementProposerPriority(1)
		p1 := vs1.GetProposer().Address
		isP0, isP1 := string(p0) == string(node), string(p1) == string(node)
		if scenario == "proposer" && isP0 {
			return e
		}
		if scenario == "lock" && !isP0 && !isP1 {
			return e
		}
		if scenario == "nilfirst" && !isP0 && !isP1 {
			return e
		}
		if (scenario == "lock2" || scenario == "lock3") && !isP0 && !isP1 {
			vs2 := vs.Copy()
			vs2.IncrementProposerPriority(2)
			if string(vs2.GetProposer().Address) != string(node) {
				return e
			}
		}
	}
	panic("c04: no suitable key seed")
}

func c04Vals(e *rtEnv) []*types.Validator {
	var vals []*types.Validator
	for _, gv := range e.genDoc.Validators {
		vals = append(vals, types.NewValidator(gv.PubKey, gv.Power))
	}
	return vals
}

// keyIndexOf returns the env key index of the validator with the given address.
func (d *c04Driver) keyOf(addr []byte) int {
	for i, k := range d.env.keys {
		if string(k.PubKey().Address()) == string(addr) {
			return i
		}
	}
	panic("unknown validator")
}

func (d *c04Driver) vals() *types.ValidatorSet { return types.NewValidatorSet(c04Vals(d.env)) }

func (d *c04Driver) proposerKey(round int32) int {
	vs := d.vals()
	if round > 0 {
		vs.IncrementProposerPriority(round)
	}
	return d.keyOf(vs.GetProposer().Address)
}

func (d *c04Driver) block(name string) types.BlockID {
	if d.state0 == nil {
		d.state0 = &dsState0{blocks: map[string]*types.Block{}, parts: map[string]*types.PartSet{}, ids: map[string]types.BlockID{}}
	}
	if id, ok := d.state0.ids[name]; ok {
		return id
	}
	st, err := d.n.sstore.Load()
	if err != nil {
		panic(err)
	}
	if st.LastBlockHeight != 0 {
		panic("c04: blocks are built for height 1 only")
	}
	b, ps := st.MakeBlock(1, []types.Tx{types.Tx("tx-" + name)}, types.NewCommit(0, 0, types.BlockID{}, nil), nil, d.env.keys[1].PubKey().Address())
	d.state0.blocks[name], d.state0.parts[name] = b, ps
	d.state0.ids[name] = types.BlockID{Hash: b.Hash(), PartSetHeader: ps.Header()}
	return d.state0.ids[name]
}

func (d *c04Driver) peer(k int) p2p.ID { return p2p.ID(fmt.Sprintf("peer%d", k)) }

func (d *c04Driver) own() bool {
	for len(d.n.ownQ) > 0 {
		if !d.n.step("own", nil) {
			return false
		}
	}
	return d.n.dead == ""
}

func (d *c04Driver) spent() bool {
	if d.budget > 0 && d.events >= d.budget {
		return true
	}
	d.events++
	return false
}

func (d *c04Driver) timeout() bool {
	if !d.n.ticker.armed {
		return d.n.dead == ""
	}
	if d.spent() {
		return false
	}
	if !d.n.step("timeout", nil) {
		return false
	}
	return d.own()
}

func (d *c04Driver) deliver(m Message, from int) bool {
	if d.spent() {
		return false
	}
	if vm, ok := m.(*VoteMessage); ok && vm.Vote.Type == tmproto.PrevoteType {
		// the timeline of C02's restart part: what the node was handed, in order with what it signed
		d.env.smtx.Lock()
		d.env.Signed = append(d.env.Signed, rtSigned{Inc: d.n.inc, Kind: "recv", H: vm.Vote.Height, R: vm.Vote.Round, Step: 2,
			Block: fmt.Sprintf("%X", vm.Vote.BlockID.Hash), Sig: fmt.Sprint(from)})
		d.env.smtx.Unlock()
	}
	mi := msgInfo{Msg: m, PeerID: d.peer(from)}
	if !d.n.step("peer", &mi) {
		return false
	}
	return d.own()
}

func (d *c04Driver) proposal(round int32, name string, pol int32) bool {
	pk := d.proposerKey(round)
	if pk == 0 {
		return true // the node itself proposes in this round
	}
	bid := d.block(name)
	p := types.NewProposal(1, round, pol, bid)
	pp := p.ToProto()
	sig, err := d.env.keys[pk].Sign(types.ProposalSignBytes(d.env.chainID, pp))
	if err != nil {
		panic(err)
	}
	p.Signature = sig
	if !d.deliver(&ProposalMessage{Proposal: p}, pk) {
		return false
	}
	ps := d.state0.parts[name]
	for i := 0; i < int(ps.Total()); i++ {
		if !d.deliver(&BlockPartMessage{Height: 1, Round: round, Part: ps.GetPart(i)}, pk) {
			return false
		}
	}
	return true
}

// votes delivers votes of the first n stub validators (keys 1..n) for the named block ("" = nil).
func (d *c04Driver) votes(typ tmproto.SignedMsgType, round int32, name string, n int) bool {
	return d.votesFrom(typ, round, name, 1, n)
}

// votesFrom: the same for the stub validators with keys from..from+n-1.
func (d *c04Driver) votesFrom(typ tmproto.SignedMsgType, round int32, name string, from, n int) bool {
	var bid types.BlockID
	if name == "own" {
		// whatever the node itself proposed in this round
		if d.n.cs.ProposalBlock == nil || d.n.cs.ProposalBlockParts == nil {
			return true
		}
		bid = types.BlockID{Hash: d.n.cs.ProposalBlock.Hash(), PartSetHeader: d.n.cs.ProposalBlockParts.Header()}
	} else if name != "" {
		bid = d.block(name)
	}
	vs := d.vals()
	for k := from; k < from+n; k++ {
		addr := d.env.keys[k].PubKey().Address()
		idx, _ := vs.GetByAddress(addr)
		v := &types.Vote{Type: typ, Height: 1, Round: round, BlockID: bid, Timestamp: dsGenesisTime.Add(time.Hour), ValidatorAddress: addr, ValidatorIndex: idx}
		sig, err := d.env.keys[k].Sign(types.VoteSignBytes(d.env.chainID, v.ToProto()))
		if err != nil {
			panic(err)
		}
		v.Signature = sig
		if !d.deliver(&VoteMessage{Vote: v}, k) {
			return false
		}
	}
	return true
}

// the delivery schedules ------------------------------------------------------------------------------

// c04Script runs the named schedule; it stops as soon as the node is dead.
func (d *c04Driver) script(name string) {
	pre, com := tmproto.PrevoteType, tmproto.PrecommitType
	steps := map[string][]func() bool{
		// lock A in round 0 (no commit), move to round 1, see B proposed, polka for B, commit B
		"lock": {
			d.timeout,
			func() bool { return d.proposal(0, "A", -1) },
			func() bool { return d.votes(pre, 0, "A", 2) },
			func() bool { return d.votes(com, 0, "", 2) },
			d.timeout, // precommit-wait -> round 1
			func() bool { return d.proposal(1, "B", -1) },
			func() bool { return d.votes(pre, 1, "B", 3) },
			func() bool { return d.votes(com, 1, "B", 3) },
			d.timeout,
		},
		// the node proposes in round 0, gets its polka and its commit
		"proposer": {
			d.timeout,
			func() bool { return d.votes(pre, 0, "own", 2) },
			func() bool { return d.votes(com, 0, "own", 2) },
			d.timeout,
		},
		// lock A in round 0, no quorum for anything in round 1, a fresh proposal C in round 2 (the node must still prevote A),
		// then a polka and a commit for C
		"lock2": {
			d.timeout,
			func() bool { return d.proposal(0, "A", -1) },
			func() bool { return d.votes(pre, 0, "A", 2) },
			func() bool { return d.votes(com, 0, "", 2) },
			d.timeout, // precommit-wait -> round 1
			func() bool { return d.proposal(1, "B", -1) },
			func() bool { return d.votes(pre, 1, "", 2) },
			d.timeout, // prevote-wait -> precommit nil
			func() bool { return d.votes(com, 1, "", 2) },
			d.timeout, // precommit-wait -> round 2
			func() bool { return d.proposal(2, "C", -1) },
			func() bool { return d.votes(pre, 2, "C", 3) },
			func() bool { return d.votes(com, 2, "C", 3) },
			d.timeout,
		},
		// nothing in round 0 (left through the precommit-wait timeout), lock B in round 1, a fresh proposal C in round 2: the node must prevote B
		"lock3": {
			d.timeout,
			d.timeout, // propose timeout -> prevote nil
			func() bool { return d.votesFrom(pre, 0, "", 1, 2) },
			func() bool { return d.votesFrom(com, 0, "", 1, 1) },
			func() bool { return d.votesFrom(com, 0, "A", 2, 1) },
			d.timeout, // precommit-wait -> round 1
			func() bool { return d.proposal(1, "B", -1) },
			func() bool { return d.votes(pre, 1, "B", 2) },
			func() bool { return d.votesFrom(com, 1, "", 1, 2) },
			d.timeout, // precommit-wait -> round 2
			func() bool { return d.proposal(2, "C", -1) },
			func() bool { return d.votes(pre, 2, "", 2) },
			d.timeout, // prevote-wait -> precommit nil
		},
		// nothing arrives in time: the node prevotes and precommits nil in round 0 (two adversarial nil votes complete the quorums)
		"nilfirst": {
			d.timeout,
			d.timeout, // propose timeout -> prevote nil
			func() bool { return d.votes(pre, 0, "", 2) },
			func() bool { return d.votes(com, 0, "", 2) },
			d.timeout,
		},
		// after a restart: the proposer equivocates — the other block, with a polka and precommits for it
		"other": {
			d.timeout,
			func() bool { return d.proposal(0, "B", -1) },
			func() bool { return d.votes(pre, 0, "B", 3) },
			func() bool { return d.votes(com, 0, "B", 3) },
			d.timeout,
			func() bool { return d.proposal(1, "A", -1) },
			func() bool { return d.votes(pre, 1, "A", 3) },
			func() bool { return d.votes(com, 1, "A", 3) },
			d.timeout,
		},
		// after a restart: nothing arrives, timeouts fire, then the original schedule
		"timeouts": {
			d.timeout, d.timeout, d.timeout,
			func() bool { return d.votes(pre, 0, "", 3) },
			d.timeout,
			func() bool { return d.votes(com, 0, "", 3) },
			d.timeout,
		},
	}
	for _, f := range steps[name] {
		if d.n.dead != "" || d.n.cs.Height > 1 {
			return
		}
		if !f() {
			return
		}
	}
}

// c04Judge: for every (height, round, step) all released signatures are over the same block; releases that
// differ in anything (that is: in timestamp) must carry the same signature (the earlier one is reused).
func c04Judge(signed []rtSigned) (key, what string) {
	type slot struct {
		h    int64
		r    int32
		step int8
	}
	first := map[slot]rtSigned{}
	for _, s := range signed {
		if s.Kind == "recv" {
			continue
		}
		sl := slot{s.H, s.R, s.Step}
		f, ok := first[sl]
		if !ok {
			first[sl] = s
			continue
		}
		if f.Block != s.Block {
			return "privval:conflicting-signatures-released", fmt.Sprintf("height %d round %d step %d: incarnation %d signed %s, incarnation %d signed %s", s.H, s.R, s.Step, f.Inc, f.Block, s.Inc, s.Block)
		}
		if f.Sig != s.Sig || f.TS != s.TS {
			return "privval:same-vote-re-signed-instead-of-reused", fmt.Sprintf("height %d round %d step %d: incarnations %d and %d released different signatures/timestamps for the same block", s.H, s.R, s.Step, f.Inc, s.Inc)
		}
	}
	return "", ""
}

type c04Result struct {
	key, what string
	journals  []int
	prep      int
	refused   bool // a start-up refused to run (safe)
	signedN   int
	inconcl   string
	tails     map[string][2]int
	timeline  []rtSigned // signatures released and prevotes handed to the node, in order, across incarnations
}

func c04Run(c c04Case) (res c04Result) {
	env := c04Env(c.Scenario)
	w := vos.NewWorld()
	worlds := []*vos.World{w}
	defer func() {
		for _, x := range worlds {
			x.Close()
		}
	}()
	env.prepare(w)
	res.prep = w.JournalLen()
	d := &c04Driver{env: env}
	for inc := 0; ; inc++ {
		crashAt := -1
		if inc < len(c.Crashes) {
			crashAt = c.Crashes[inc]
			w.CrashBefore(crashAt)
		}
		n, err := env.boot(w, inc)
		d.n = n
		if err == nil {
			if inc == 0 {
				d.script(c.Scenario)
			} else {
				if c.After != "same" {
					d.script(c.After)
				}
				d.script(c.Scenario)
			}
		}
		fired := w.Crashed()
		n.kill()
		res.journals = append(res.journals, w.JournalLen())
		if len(n.dead) > 12 && n.dead[:12] == "INCONCLUSIVE" {
			res.inconcl = n.dead
			return
		}
		if fired {
			pol := vos.Policy{KeepUnsynced: c.Tail < 0, Tail: map[string]int{}}
			res.tails = w.Unsynced(crashAt)
			if c.Tail > 0 {
				for p := range res.tails {
					pol.Tail[p] = c.Tail
				}
			}
			nw := w.Materialise(crashAt, pol)
			worlds = append(worlds, nw)
			w = nw
			continue
		}
		if err != nil {
			// a start-up that refuses to run releases nothing: safe
			res.refused = true
		}
		break
	}
	env.smtx.Lock()
	signed := append([]rtSigned{}, env.Signed...)
	env.smtx.Unlock()
	res.timeline = signed
	for _, x := range signed {
		if x.Kind != "recv" {
			res.signedN++
		}
	}
	if os.Getenv("C04_DEBUG") != "" {
		for _, x := range signed {
			fmt.Printf("DEBUG inc%d %s h%d r%d s%d block=%.12s\n", x.Inc, x.Kind, x.H, x.R, x.Step, x.Block)
		}
		fmt.Printf("DEBUG journals=%v refused=%v\n", res.journals, res.refused)
	}
	res.key, res.what = c04Judge(signed)
	return
}

func TestVerifC04(t *testing.T) {
	r := vr.Start("C04", "signer", 140*time.Second, 22*time.Minute)
	defer r.Finish()
	r.Rule = "three delivery schedules of one height (lock in round 0 then a different commit in round 1; node as proposer; nothing arrives and the node votes nil) are journalled; every journal entry (WAL append/fsync/rotation-free, " +
		"sign-state temp-file create/write/rename, DB write) is a crash point; the unsynced WAL tail is kept, dropped or cut at every byte; after the restart the adversary continues with " +
		"{the same messages, the other proposal with a polka and precommits for it, timeouts first; for the nil schedule: a proposal with its quorums}; thorough nests a second crash in the recovery; a case = (schedule, crash vector, tail, continuation); " +
		"all cases distinct; non-trivial = at least one crash"
	r.Assume("stub validators' keys are the harness's; the wall clock advances by one second per incarnation so that a re-signed vote would differ in timestamp")
	r.Assume("storage model as in DESIGN §3.3")
	var rc c04Case
	if rep, skip := r.ReplayCase(&rc); skip {
		return
	} else if rep {
		r.Eval()
		if res := c04Run(rc); res.key != "" {
			r.Violation(res.key, res.what, rc)
		}
		return
	}
	try := func(c c04Case) c04Result {
		r.Eval()
		r.NTCount(1)
		res := c04Run(c)
		if res.inconcl != "" {
			r.Add("inconclusive", 1)
			return res
		}
		if res.refused {
			r.Add("start_up_refused_safe", 1)
		}
		if res.key != "" {
			if again := c04Run(c); again.key != res.key {
				r.Note(fmt.Sprintf("UNSTABLE violation %s vs %s for %+v (not reported)", res.key, again.key, c))
				r.Cap("a violation did not reproduce on re-execution; it was not reported")
				return res
			}
			r.Outcome(res.key)
			r.Violation(res.key, res.what, c)
		} else {
			r.Outcome(fmt.Sprintf("ok-%d-signatures", res.signedN))
		}
		return res
	}
	k := 0
	for _, sc := range []string{"lock", "proposer", "nilfirst"} {
		ref := c04Run(c04Case{Scenario: sc, Tail: -1, After: "same"})
		if ref.key != "" {
			r.Violation(ref.key, ref.what, c04Case{Scenario: sc, Tail: -1, After: "same"})
			continue
		}
		n0 := ref.journals[0]
		r.Set("journal_"+sc, n0)
		for cp := ref.prep + 1; cp < n0; cp++ {
			afters := []string{"same", "other", "timeouts"}
			if sc == "nilfirst" {
				// the node signed nil votes before the crash; afterwards the proposal and its quorums do arrive in time
				afters = []string{"same", "lock", "other"}
			}
			for _, after := range afters {
				k++
				if !r.Mine(k) {
					continue
				}
				if r.Deadline("C04 crash points") {
					goto done
				}
				res := try(c04Case{Scenario: sc, Crashes: []int{cp}, Tail: -1, After: after})
				tails := []int{0}
				var paths []string
				for p := range res.tails {
					paths = append(paths, p)
				}
				sort.Strings(paths)
				for _, p := range paths {
					rng := res.tails[p]
					for tl := 1; tl < rng[1]-rng[0]; tl++ {
						tails = append(tails, tl)
					}
				}
				if len(res.tails) == 0 {
					tails = nil
				}
				for _, tl := range tails {
					try(c04Case{Scenario: sc, Crashes: []int{cp}, Tail: tl, After: after})
				}
				if vr.Thorough() && len(res.journals) >= 2 {
					for cp2 := 1; cp2 < res.journals[1]; cp2++ {
						if cp2%8 == 0 && r.Deadline("C04 nested crash points") {
							goto done
						}
						try(c04Case{Scenario: sc, Crashes: []int{cp, cp2}, Tail: -1, After: after})
						try(c04Case{Scenario: sc, Crashes: []int{cp, cp2}, Tail: 0, After: after})
					}
				}
				if k%41 == 0 {
					r.Sample(map[string]interface{}{"case": c04Case{Scenario: sc, Crashes: []int{cp}, Tail: -1, After: after}, "unsynced_tails_at_crash": res.tails, "signatures_released": res.signedN})
				}
			}
		}
	}
done:
	r.Bound = "k=1 crash everywhere x every WAL tail length x 3 continuations; thorough: k=2 nested"
}
