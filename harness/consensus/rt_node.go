package consensus

// rt — "routine mode" of the simulation kit (DESIGN §3.2): the real receiveRoutine goroutine of a
// real consensus.State runs, with its WAL, signer and stores on the journalled storage (vos), and is
// driven in lock-step. The routine's select evaluates cs.txNotifier.TxsAvailable() first on every
// iteration; that notifier is a harness mock whose call IS the "routine is idle" signal. While the
// routine is parked there the harness drains the node's internal queue into its own FIFO, chooses
// the next event, makes exactly one channel ready and releases the routine. The production loop then
// does its own wal.Write / wal.WriteSync / handleMsg / handleTimeout.

import (
	"fmt"
	"sync"
	"time"

	abci "github.com/tendermint/tendermint/abci/types"
	cfg "github.com/tendermint/tendermint/config"
	"github.com/tendermint/tendermint/crypto"
	"github.com/tendermint/tendermint/crypto/ed25519"
	"github.com/tendermint/tendermint/internal/verif/vos"
	"github.com/tendermint/tendermint/libs/log"
	mempl "github.com/tendermint/tendermint/mempool"
	mempoolv0 "github.com/tendermint/tendermint/mempool/v0"
	"github.com/tendermint/tendermint/privval"
	tmproto "github.com/tendermint/tendermint/proto/tendermint/types"
	"github.com/tendermint/tendermint/proxy"
	sm "github.com/tendermint/tendermint/state"
	"github.com/tendermint/tendermint/store"
	"github.com/tendermint/tendermint/types"
)

// ---- the hook: txNotifier + ticker -----------------------------------------------------------------

type rtHook struct {
	idle    chan struct{} // routine -> harness: parked at the top of the select
	resume  chan bool     // harness -> routine: go on (true: report "txs available")
	txReady chan struct{}
	off     bool
	mtx     sync.Mutex
}

func newRtHook() *rtHook {
	h := &rtHook{idle: make(chan struct{}), resume: make(chan bool), txReady: make(chan struct{}, 1)}
	return h
}

func (h *rtHook) TxsAvailable() <-chan struct{} {
	h.mtx.Lock()
	off := h.off
	h.mtx.Unlock()
	if off {
		return nil
	}
	h.idle <- struct{}{}
	if <-h.resume {
		select {
		case h.txReady <- struct{}{}:
		default:
		}
		return h.txReady
	}
	return nil
}

// release lets a parked routine run free (used when the node is being stopped).
func (h *rtHook) release() {
	h.mtx.Lock()
	h.off = true
	h.mtx.Unlock()
}

type rtTicker struct {
	dsTicker
	tock chan timeoutInfo
}

func newRtTicker() *rtTicker {
	t := &rtTicker{tock: make(chan timeoutInfo, 1)}
	t.c = make(chan timeoutInfo)
	return t
}

func (t *rtTicker) Chan() <-chan timeoutInfo { return t.tock }

// ---- the application: survives crashes, records every call ----------------------------------------

type rtCall struct {
	Kind   string `json:"k"` // Info InitChain BeginBlock DeliverTx EndBlock Commit
	Height int64  `json:"h,omitempty"`
	Tx     string `json:"tx,omitempty"`
	Inc    int    `json:"inc"` // incarnation of the node that made the call
}

type rtApp struct {
	abci.BaseApplication
	mtx       sync.Mutex
	world     *vos.World // current incarnation's world: every consensus-connection call is a journal entry (crash point)
	inc       int
	Calls     []rtCall
	committed int64 // height of the last Commit
	hash      []byte
	cur       int64 // height of the block in progress
	curTxs    []string
	txCount   int64
	script    func(h int64) (valUpdates []abci.ValidatorUpdate, params *abci.ConsensusParams, retain int64)
	initChain int
}

func (a *rtApp) note(c rtCall) {
	c.Inc = a.inc
	a.world.Note(fmt.Sprintf("abci:%s:%d", c.Kind, c.Height)) // may panic with CrashPanic: the call never reaches the app
	a.mtx.Lock()
	a.Calls = append(a.Calls, c)
	a.mtx.Unlock()
}

func (a *rtApp) Info(abci.RequestInfo) abci.ResponseInfo {
	a.mtx.Lock()
	defer a.mtx.Unlock()
	return abci.ResponseInfo{LastBlockHeight: a.committed, LastBlockAppHash: a.hash}
}

func (a *rtApp) InitChain(req abci.RequestInitChain) abci.ResponseInitChain {
	a.note(rtCall{Kind: "InitChain"})
	a.mtx.Lock()
	a.initChain++
	a.mtx.Unlock()
	return abci.ResponseInitChain{}
}

func (a *rtApp) BeginBlock(req abci.RequestBeginBlock) abci.ResponseBeginBlock {
	a.note(rtCall{Kind: "BeginBlock", Height: req.Header.Height})
	a.mtx.Lock()
	a.cur, a.curTxs = req.Header.Height, nil
	a.mtx.Unlock()
	return abci.ResponseBeginBlock{}
}

func (a *rtApp) DeliverTx(req abci.RequestDeliverTx) abci.ResponseDeliverTx {
	a.note(rtCall{Kind: "DeliverTx", Height: a.cur, Tx: string(req.Tx)})
	a.mtx.Lock()
	a.curTxs = append(a.curTxs, string(req.Tx))
	a.mtx.Unlock()
	return abci.ResponseDeliverTx{Code: 0}
}

func (a *rtApp) EndBlock(req abci.RequestEndBlock) abci.ResponseEndBlock {
	a.note(rtCall{Kind: "EndBlock", Height: req.Height})
	var r abci.ResponseEndBlock
	if a.script != nil {
		r.ValidatorUpdates, r.ConsensusParamUpdates, _ = a.script(req.Height)
	}
	return r
}

func (a *rtApp) Commit() abci.ResponseCommit {
	a.note(rtCall{Kind: "Commit", Height: a.cur})
	a.mtx.Lock()
	defer a.mtx.Unlock()
	a.committed = a.cur
	a.txCount += int64(len(a.curTxs))
	a.hash = []byte(fmt.Sprintf("app-%04d-%04d", a.committed, a.txCount))
	var retain int64
	if a.script != nil {
		_, _, retain = a.script(a.committed)
	}
	return abci.ResponseCommit{Data: a.hash, RetainHeight: retain}
}

func (a *rtApp) CheckTx(req abci.RequestCheckTx) abci.ResponseCheckTx {
	return abci.ResponseCheckTx{Code: 0, GasWanted: 1}
}

// ---- signer wrapper: records every signature released ---------------------------------------------

type rtSigned struct {
	Inc   int    `json:"inc"`
	Kind  string `json:"kind"` // vote / proposal
	H     int64  `json:"h"`
	R     int32  `json:"r"`
	Step  int8   `json:"step"`
	Block string `json:"block"` // hex of the block hash signed ("" = nil)
	Sig   string `json:"sig"`
	TS    int64  `json:"ts"`
}

type rtPV struct {
	inner *privval.FilePV
	env   *rtEnv
	inc   int
}

func (p *rtPV) GetPubKey() (crypto.PubKey, error) { return p.inner.GetPubKey() }

func (p *rtPV) SignVote(chainID string, v *tmproto.Vote) error {
	if err := p.inner.SignVote(chainID, v); err != nil {
		return err
	}
	step := int8(2)
	if v.Type == tmproto.PrecommitType {
		step = 3
	}
	p.env.smtx.Lock()
	p.env.Signed = append(p.env.Signed, rtSigned{Inc: p.inc, Kind: "vote", H: v.Height, R: v.Round, Step: step,
		Block: fmt.Sprintf("%X", v.BlockID.Hash), Sig: fmt.Sprintf("%X", v.Signature), TS: v.Timestamp.UnixNano()})
	p.env.smtx.Unlock()
	return nil
}

func (p *rtPV) SignProposal(chainID string, pr *tmproto.Proposal) error {
	if err := p.inner.SignProposal(chainID, pr); err != nil {
		return err
	}
	p.env.smtx.Lock()
	p.env.Signed = append(p.env.Signed, rtSigned{Inc: p.inc, Kind: "proposal", H: pr.Height, R: pr.Round, Step: 1,
		Block: fmt.Sprintf("%X/pol%d", pr.BlockID.Hash, pr.PolRound), Sig: fmt.Sprintf("%X", pr.Signature), TS: pr.Timestamp.UnixNano()})
	p.env.smtx.Unlock()
	return nil
}

// ---- the node ---------------------------------------------------------------------------------------

type rtConfig struct {
	NVals      int     // validators in genesis; the node is index 0 by construction of the genesis doc
	Powers     []int64 // genesis powers (node first)
	UseMempool bool
	AppScript  func(h int64) ([]abci.ValidatorUpdate, *abci.ConsensusParams, int64)
	KeySeed    string // varies the validator keys (and with them the proposer order)
}

type rtEnv struct {
	smtx    sync.Mutex
	Signed  []rtSigned // every signature the node's key released, across incarnations
	conf    rtConfig
	genDoc  *types.GenesisDoc
	keys    []ed25519.PrivKey // key 0 is the node's
	app     *rtApp
	chainID string
}

func newRtEnv(c rtConfig) *rtEnv {
	dsPinClock()
	e := &rtEnv{conf: c, chainID: "rt-chain"}
	for i := 0; i < c.NVals; i++ {
		e.keys = append(e.keys, ed25519.GenPrivKeyFromSecret([]byte(fmt.Sprintf("rt-val-%s-%d", c.KeySeed, i))))
	}
	var gv []types.GenesisValidator
	for i, k := range e.keys {
		gv = append(gv, types.GenesisValidator{Address: k.PubKey().Address(), PubKey: k.PubKey(), Power: c.Powers[i], Name: fmt.Sprintf("v%d", i)})
	}
	e.genDoc = &types.GenesisDoc{GenesisTime: dsGenesisTime, ChainID: e.chainID, InitialHeight: 1, ConsensusParams: types.DefaultConsensusParams(), Validators: gv}
	e.app = &rtApp{script: c.AppScript}
	return e
}

type rtNode struct {
	env     *rtEnv
	w       *vos.World
	inc     int
	cs      *State
	hook    *rtHook
	ticker  *rtTicker
	pv      *privval.FilePV
	bstore  *store.BlockStore
	sstore  sm.Store
	mempool mempl.Mempool
	conns   proxy.AppConns
	ownQ    []msgInfo
	dead    string // why the routine is gone ("" = alive)
	started bool
}

func (e *rtEnv) config(w *vos.World) *cfg.Config {
	c := cfg.TestConfig()
	c.SetRoot(w.Root)
	c.Consensus.SkipTimeoutCommit = false
	c.Consensus.CreateEmptyBlocks = true
	c.Consensus.CreateEmptyBlocksInterval = 0
	c.Consensus.DoubleSignCheckHeight = 0
	c.Mempool.Size = 100
	c.Mempool.CacheSize = 100
	return c
}

// rtCrashed is returned by operations that ended because the armed crash point was reached.
type rtCrashed struct{ at int }

func (c rtCrashed) Error() string { return fmt.Sprintf("crashed before journal entry %d", c.at) }

func rtGuard(f func() error) (err error) {
	defer func() {
		if x := recover(); x != nil {
			switch v := x.(type) {
			case vos.CrashPanic:
				err = rtCrashed{v.At}
			case vos.ExitPanic:
				err = fmt.Errorf("process exit(%d)", v.Code)
			default:
				err = fmt.Errorf("panic: %v", x)
			}
		}
	}()
	return f()
}

// prepare does what `tendermint init` does, once, before any crash point is armed: directories and the
// validator's key and sign-state files.
func (e *rtEnv) prepare(w *vos.World) {
	config := e.config(w)
	for _, d := range []string{"/config", "/data"} {
		if err := vos.MkdirAll(w.Root+d, 0o700); err != nil {
			panic(err)
		}
	}
	pv := privval.NewFilePV(e.keys[0], config.PrivValidatorKeyFile(), config.PrivValidatorStateFile())
	pv.Save()
	w.SyncAll() // initialisation happened long ago: it is durable
}

// boot performs the node's start-up on whatever the world contains: stores, handshake with the app,
// signer, consensus state with WAL catch-up, and leaves the receive routine parked at its select.
func (e *rtEnv) boot(w *vos.World, inc int) (*rtNode, error) {
	n := &rtNode{env: e, w: w, inc: inc, hook: newRtHook(), ticker: newRtTicker()}
	e.app.mtx.Lock()
	e.app.world, e.app.inc = w, inc
	e.app.mtx.Unlock()
	dsSetClock(dsGenesisTime.Add(time.Hour + time.Duration(inc)*time.Second)) // every incarnation sees a later wall clock
	err := rtGuard(func() error {
		config := e.config(w)
		n.bstore = store.NewBlockStore(w.DB("blockstore"))
		n.sstore = sm.NewStore(w.DB("state"), sm.StoreOptions{DiscardABCIResponses: false})
		state, err := n.sstore.LoadFromDBOrGenesisDoc(e.genDoc)
		if err != nil {
			return err
		}
		n.conns = proxy.NewAppConns(proxy.NewLocalClientCreator(e.app))
		n.conns.SetLogger(log.NewNopLogger())
		if err := n.conns.Start(); err != nil {
			return err
		}
		hs := NewHandshaker(n.sstore, state, n.bstore, e.genDoc)
		if err := hs.Handshake(n.conns); err != nil {
			return fmt.Errorf("handshake: %w", err)
		}
		state, err = n.sstore.Load()
		if err != nil {
			return err
		}
		// signer: key file + sign-state file (created by prepare(), outside the crash enumeration)
		keyFile, stateFile := config.PrivValidatorKeyFile(), config.PrivValidatorStateFile()
		n.pv = privval.LoadFilePV(keyFile, stateFile)
		if e.conf.UseMempool {
			n.mempool = mempoolv0.NewCListMempool(config.Mempool, n.conns.Mempool(), state.LastBlockHeight,
				mempoolv0.WithPreCheck(sm.TxPreCheck(state)), mempoolv0.WithPostCheck(sm.TxPostCheck(state)))
		} else {
			n.mempool = emptyMempool{}
		}
		exec := sm.NewBlockExecutor(n.sstore, log.NewNopLogger(), n.conns.Consensus(), n.mempool, sm.EmptyEvidencePool{})
		cs := NewState(config.Consensus, state, exec, n.bstore, n.hook, sm.EmptyEvidencePool{})
		cs.SetLogger(log.NewNopLogger())
		if dsDebug {
			cs.SetLogger(log.TestingLogger().With("inc", inc))
		}
		cs.SetPrivValidator(&rtPV{inner: n.pv, env: e, inc: inc})
		cs.SetEventBus(dsStoppedBus)
		cs.SetTimeoutTicker(n.ticker)
		n.cs = cs
		// OnStart opens the WAL (cs.wal is still the nilWAL), replays it, starts the routine, schedules round 0
		if err := cs.Start(); err != nil {
			return fmt.Errorf("consensus start: %w", err)
		}
		n.started = true
		return nil
	})
	if err != nil {
		return n, err // the caller kills the incarnation (after looking at whether the crash point fired)
	}
	if !n.waitIdle() {
		return n, fmt.Errorf("routine died during start: %s", n.dead)
	}
	return n, nil
}

// waitIdle blocks until the routine is parked at its select (true) or has exited (false).
func (n *rtNode) waitIdle() bool {
	select {
	case <-n.hook.idle:
		n.drain()
		return true
	case <-n.cs.done:
		if n.dead == "" {
			n.dead = "receive routine exited (CONSENSUS FAILURE or crash)"
		}
		return false
	case <-time.After(120 * time.Second):
		n.dead = "INCONCLUSIVE: routine neither idle nor finished after 120s"
		return false
	}
}

func (n *rtNode) drain() {
	for {
		select {
		case mi := <-n.cs.internalMsgQueue:
			n.ownQ = append(n.ownQ, mi)
		case <-n.cs.statsMsgQueue:
		default:
			return
		}
	}
}

// step feeds exactly one event to the parked routine and waits until it is parked again.
// kind: "own" | "peer" | "timeout" | "txs"
func (n *rtNode) step(kind string, mi *msgInfo) bool {
	if n.dead != "" {
		return false
	}
	txs := false
	switch kind {
	case "own":
		m := n.ownQ[0]
		n.ownQ = n.ownQ[1:]
		n.cs.internalMsgQueue <- m
	case "peer":
		n.cs.peerMsgQueue <- *mi
	case "timeout":
		n.ticker.armed = false
		n.ticker.tock <- n.ticker.cur
	case "txs":
		txs = true
	}
	n.hook.resume <- txs
	return n.waitIdle()
}

// kill tears the incarnation down without letting it persist anything more.
func (n *rtNode) kill() {
	n.w.Freeze()
	n.hook.release()
	if n.cs != nil && n.started {
		stopped := make(chan struct{})
		go func() {
			defer close(stopped)
			defer func() { _ = recover() }()
			if n.cs.IsRunning() {
				_ = n.cs.Stop()
			}
		}()
		deadline := time.After(20 * time.Second)
	loop:
		for {
			select {
			case <-n.hook.idle: // the routine reached the hook before it saw the release
			case n.hook.resume <- false: // the routine was parked waiting for the next event
			case <-n.cs.done:
				break loop
			case <-deadline:
				break loop
			}
		}
		select {
		case <-stopped:
		case <-time.After(5 * time.Second):
		}
	}
	if n.conns != nil {
		func() { defer func() { _ = recover() }(); _ = n.conns.Stop() }()
	}
}

// runDefault drives the node with the default schedule (own messages first, then the pending timeout)
// until pred says stop, the node dies, or nothing is enabled. Returns why it stopped.
func (n *rtNode) runDefault(pred func() bool, maxSteps int) string {
	for i := 0; i < maxSteps; i++ {
		if n.dead != "" {
			return "dead"
		}
		if pred() {
			return "done"
		}
		switch {
		case len(n.ownQ) > 0:
			n.step("own", nil)
		case n.ticker.armed:
			n.step("timeout", nil)
		default:
			return "quiescent"
		}
	}
	return "step-limit"
}
