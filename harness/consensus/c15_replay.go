package consensus

// C15 part 2 — replaying the WAL records of the unfinished height brings the node back to the height,
// round, step, lock and vote sets it had reached. The node of the C04 schedules is stopped after every
// number of delivered events, its WAL is flushed (what the periodic flush does), the machine dies, the
// node is restarted on what is on disk, and its round state right after catchupReplay is compared with
// the one before the crash.

import (
	"fmt"
	"sort"
	"strings"
	"testing"
	"time"

	"github.com/tendermint/tendermint/internal/verif/vos"
	"github.com/tendermint/tendermint/internal/verif/vr"
	"github.com/tendermint/tendermint/types"
)

type c15rCase struct {
	Scenario string `json:"scenario"`
	Events   int    `json:"events_before_crash"`
}

func c15Proj(cs *State) string {
	var b strings.Builder
	rs := cs.GetRoundState()
	fmt.Fprintf(&b, "H%d R%d S%d lr%d lb%s vr%d vb%s pb%s cr%d ttp%v", rs.Height, rs.Round, rs.Step, rs.LockedRound, dsBlockHash(rs.LockedBlock),
		rs.ValidRound, dsBlockHash(rs.ValidBlock), dsBlockHash(rs.ProposalBlock), rs.CommitRound, rs.TriggeredTimeoutPrecommit)
	if rs.Proposal != nil {
		fmt.Fprintf(&b, " P%d/%d/%X", rs.Proposal.Round, rs.Proposal.POLRound, rs.Proposal.BlockID.Hash[:6])
	}
	if rs.ProposalBlockParts != nil {
		fmt.Fprintf(&b, " pbp%v", rs.ProposalBlockParts.BitArray())
	}
	if rs.Votes != nil {
		rounds := dsPeek(rs.Votes, "roundVoteSets").MapKeys()
		sort.Slice(rounds, func(i, j int) bool { return rounds[i].Int() < rounds[j].Int() })
		for _, r := range rounds {
			for _, vs := range []*types.VoteSet{rs.Votes.Prevotes(int32(r.Int())), rs.Votes.Precommits(int32(r.Int()))} {
				// an empty catch-up/lookahead round is not state the node "reached"
				if vs.BitArray().IsEmpty() {
					continue
				}
				fmt.Fprintf(&b, " r%d/%d:", r.Int(), vs.Type())
				for i := 0; i < vs.Size(); i++ {
					if v := vs.GetByIndex(int32(i)); v != nil {
						fmt.Fprintf(&b, "%d=%X,", i, v.BlockID.Hash)
					}
				}
				bid, ok := vs.TwoThirdsMajority()
				fmt.Fprintf(&b, "maj%v%X", ok, bid.Hash)
			}
		}
	}
	return b.String()
}

// c15rRun returns (violation key, what, whether the script had already finished before the budget).
func c15rRun(c c15rCase) (key, what string, finished bool, inconcl string) {
	env := c04Env(c.Scenario)
	w := vos.NewWorld()
	defer w.Close()
	env.prepare(w)
	n, err := env.boot(w, 0)
	if err != nil {
		n.kill()
		return "node:start-up-fails", err.Error(), false, ""
	}
	d := &c04Driver{env: env, n: n, budget: c.Events}
	d.script(c.Scenario)
	finished = d.events < c.Events
	if n.dead != "" {
		n.kill()
		if strings.HasPrefix(n.dead, "INCONCLUSIVE") {
			return "", "", finished, n.dead
		}
		return "node:halts-without-a-crash", n.dead, finished, ""
	}
	if n.cs.Height > 1 {
		n.kill()
		return "", "", true, "" // the height is finished: nothing unfinished to replay
	}
	// the periodic flush: everything the routine logged is durable
	if err := n.cs.wal.FlushAndSync(); err != nil {
		n.kill()
		return "consensus/wal:flush-fails", err.Error(), finished, ""
	}
	before := c15Proj(n.cs)
	k := w.JournalLen()
	n.kill()
	nw := w.Materialise(k, vos.Policy{KeepUnsynced: true})
	defer nw.Close()
	n2, err := env.boot(nw, 1)
	if err != nil {
		n2.kill()
		return "node:start-up-fails-after-crash", err.Error(), finished, ""
	}
	after := c15Proj(n2.cs)
	n2.kill()
	if before != after {
		return "consensus/replay.go:catchupReplay:round-state-differs-after-replay", fmt.Sprintf("after %d events of %q:\nbefore crash: %s\nafter replay: %s", c.Events, c.Scenario, before, after), finished, ""
	}
	return "", "", finished, ""
}

func TestVerifC15Replay(t *testing.T) {
	r := vr.Start("C15", "replay", 120*time.Second, 15*time.Minute)
	defer r.Finish()
	r.Rule = "for each schedule of C04 (lock-then-other-commit; node as proposer) and each number k of delivered events: run k events, flush the WAL, crash, restart, compare the round state after catchupReplay " +
		"with the one before the crash; a case = (schedule, k); all distinct; non-trivial = k >= 1"
	r.Assume("the comparison covers height, round, step, locked/valid/proposal block and round, commit round, and every non-empty vote set with its +2/3 value")
	var rc c15rCase
	if rep, skip := r.ReplayCase(&rc); skip {
		return
	} else if rep {
		r.Eval()
		if k, w, _, _ := c15rRun(rc); k != "" {
			r.Violation(k, w, rc)
		}
		return
	}
	n := 0
	for _, sc := range []string{"lock", "proposer"} {
		for ev := 1; ev < 200; ev++ {
			n++
			if !r.Mine(n) {
				// still need to know when the script ends: cheap upper bound instead
				if ev > 60 {
					break
				}
				continue
			}
			if r.Deadline("C15 replay points") {
				return
			}
			c := c15rCase{Scenario: sc, Events: ev}
			r.Eval()
			r.NTCount(1)
			key, what, finished, inconcl := c15rRun(c)
			if inconcl != "" {
				r.Add("inconclusive", 1)
				continue
			}
			if key != "" {
				if k2, _, _, _ := c15rRun(c); k2 != key {
					r.Cap("a violation did not reproduce on re-execution; it was not reported")
					continue
				}
				r.Outcome(key)
				r.Violation(key, what, c)
			} else {
				r.Outcome("same-state-after-replay")
			}
			if ev%7 == 0 {
				r.Sample(c)
			}
			if finished {
				break
			}
		}
	}
	r.Bound = "every event count of both schedules"
}
