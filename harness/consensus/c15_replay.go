package consensus

// C15 part 2 — replaying the WAL records of the unfinished height brings the node back to the height,
// round, step, lock and vote sets it had reached. The node of the C04 schedules is stopped after every
// number of delivered events, its WAL is flushed (what the periodic flush does), the machine dies, the
// node is restarted on what is on disk, and its round state right after catchupReplay is compared with
// the one before the crash.

import (
	"fmt"
	"io"
	"sort"
	"strings"
	"testing"
	"time"

	"github.com/tendermint/tendermint/internal/verif/vos"
	"github.com/tendermint/tendermint/internal/verif/vr"
	"github.com/tendermint/tendermint/types"
)

type c15rCase struct {
	Scenario string `json:"scenario"`
	Events   int    `json:"events_before_crash"`
}

func c15Proj(cs *State) string {
	var b strings.Builder
	rs := cs.GetRoundState()
	fmt.Fprintf(&b, "H%d R%d S%d lr%d lb%s vr%d vb%s pb%s cr%d ttp%v", rs.Height, rs.Round, rs.Step, rs.LockedRound, dsBlockHash(rs.LockedBlock),
		rs.ValidRound, dsBlockHash(rs.ValidBlock), dsBlockHash(rs.ProposalBlock), rs.CommitRound, rs.TriggeredTimeoutPrecommit)
	if rs.Proposal != nil {
		fmt.Fprintf(&b, " P%d/%d/%X", rs.Proposal.Round, rs.Proposal.POLRound, rs.Proposal.BlockID.Hash[:6])
	}
	if rs.ProposalBlockParts != nil {
		fmt.Fprintf(&b, " pbp%v", rs.ProposalBlockParts.BitArray())
	}
	if rs.Votes != nil {
		rounds := dsPeek(rs.Votes, "roundVoteSets").MapKeys()
		sort.Slice(rounds, func(i, j int) bool { return rounds[i].Int() < rounds[j].Int() })
		for _, r := range rounds {
			for _, vs := range []*types.VoteSet{rs.Votes.Prevotes(int32(r.Int())), rs.Votes.Precommits(int32(r.Int()))} {
				// an empty catch-up/lookahead round is not state the node "reached"
				if vs.BitArray().IsEmpty() {
					continue
				}
				fmt.Fprintf(&b, " r%d/%d:", r.Int(), vs.Type())
				for i := 0; i < vs.Size(); i++ {
					if v := vs.GetByIndex(int32(i)); v != nil {
						fmt.Fprintf(&b, "%d=%X,", i, v.BlockID.Hash)
					}
				}
				bid, ok := vs.TwoThirdsMajority()
				fmt.Fprintf(&b, "maj%v%X", ok, bid.Hash)
			}
		}
	}
	return b.String()
}

// c15rRun returns (violation key, what, whether the script had already finished before the budget).
func c15rRun(c c15rCase) (key, what string, finished bool, inconcl string) {
	env := c04Env(c.Scenario)
	w := vos.NewWorld()
	defer w.Close()
	env.prepare(w)
	n, err := env.boot(w, 0)
	if err != nil {
		n.kill()
		return "node:start-up-fails", err.Error(), false, ""
	}
	d := &c04Driver{env: env, n: n, budget: c.Events}
	d.script(c.Scenario)
	finished = d.events < c.Events
	if n.dead != "" {
		n.kill()
		if strings.HasPrefix(n.dead, "INCONCLUSIVE") {
			return "", "", finished, n.dead
		}
		return "node:halts-without-a-crash", n.dead, finished, ""
	}
	if n.cs.Height > 1 {
		n.kill()
		return "", "", true, "" // the height is finished: nothing unfinished to replay
	}
	// the periodic flush: everything the routine logged is durable
	if err := n.cs.wal.FlushAndSync(); err != nil {
		n.kill()
		return "consensus/wal:flush-fails", err.Error(), finished, ""
	}
	before := c15Proj(n.cs)
	k := w.JournalLen()
	n.kill()
	nw := w.Materialise(k, vos.Policy{KeepUnsynced: true})
	defer nw.Close()
	n2, err := env.boot(nw, 1)
	if err != nil {
		n2.kill()
		return "node:start-up-fails-after-crash", err.Error(), finished, ""
	}
	after := c15Proj(n2.cs)
	n2.kill()
	if before != after {
		return "consensus/replay.go:catchupReplay:round-state-differs-after-replay", fmt.Sprintf("after %d events of %q:\nbefore crash: %s\nafter replay: %s", c.Events, c.Scenario, before, after), finished, ""
	}
	return "", "", finished, ""
}

func TestVerifC15Replay(t *testing.T) {
	r := vr.Start("C15", "replay", 120*time.Second, 15*time.Minute)
	defer r.Finish()
	r.Rule = "for each schedule of C04 (lock-then-other-commit; node as proposer) and each number k of delivered events: run k events, flush the WAL, crash, restart, compare the round state after catchupReplay " +
		"with the one before the crash; a case = (schedule, k); all distinct; non-trivial = k >= 1"
	r.Assume("the comparison covers height, round, step, locked/valid/proposal block and round, commit round, and every non-empty vote set with its +2/3 value")
	var rc c15rCase
	if rep, skip := r.ReplayCase(&rc); skip {
		return
	} else if rep {
		r.Eval()
		if k, w, _, _ := c15rRun(rc); k != "" {
			r.Violation(k, w, rc)
		}
		return
	}
	n := 0
	for _, sc := range []string{"lock", "proposer"} {
		for ev := 1; ev < 200; ev++ {
			n++
			if !r.Mine(n) {
				// still need to know when the script ends: cheap upper bound instead
				if ev > 60 {
					break
				}
				continue
			}
			if r.Deadline("C15 replay points") {
				return
			}
			c := c15rCase{Scenario: sc, Events: ev}
			r.Eval()
			r.NTCount(1)
			key, what, finished, inconcl := c15rRun(c)
			if inconcl != "" {
				r.Add("inconclusive", 1)
				continue
			}
			if key != "" {
				if k2, _, _, _ := c15rRun(c); k2 != key {
					r.Cap("a violation did not reproduce on re-execution; it was not reported")
					continue
				}
				r.Outcome(key)
				r.Violation(key, what, c)
			} else {
				r.Outcome("same-state-after-replay")
			}
			if ev%7 == 0 {
				r.Sample(c)
			}
			if finished {
				break
			}
		}
	}
	r.Bound = "every event count of both schedules"
}

// ---- part 3: a record torn at the end of the log, restart, more records, restart ----
//
// The node of the C04 schedules is stopped after k delivered events with its WAL synced; one more record is
// written and the machine dies while it is only partly on disk (every enumerated byte length). The node is
// restarted through the real State.OnStart (catchupReplay, and the repair it decides on), continues the
// schedule (its own votes and the end-of-height marker are synced writes), and then
//   A. the whole log is read from its first byte: every record must decode (what was written behind the torn
//      record was acknowledged as synced, so a later reader must return it), and the end-of-height marker of a
//      finished height must be found;
//   B. the machine dies again and a third incarnation must come back to the round state of the second.

type c15tCase struct {
	Scenario string `json:"scenario"`
	Events   int    `json:"events_before_crash"`
	Tail     int    `json:"bytes_of_the_torn_record_on_disk"`
	// Pad: records (timeouts of height 0, ignored by the replay) written and synced right after the first start-up, so that the
	// head is longer than the buffers of any reader in front of the damage
	Pad  int    `json:"padding_records,omitempty"`
	Then string `json:"second_incarnation"` // "more" (three events further) | "finish" (the whole schedule) | "other"/"timeouts" (that C04 continuation, then the whole schedule)
}

// c15tReadLog decodes the node's whole WAL; it returns the number of records, the end-height markers seen and the first error.
func c15tReadLog(wal WAL) (n int, ends []int64, err error) {
	bw, ok := wal.(*BaseWAL)
	if !ok {
		return 0, nil, fmt.Errorf("not a BaseWAL: %T", wal)
	}
	gr, err := bw.group.NewReader(bw.group.MinIndex())
	if err != nil {
		return 0, nil, err
	}
	defer gr.Close()
	dec := NewWALDecoder(gr)
	for {
		tm, err := dec.Decode()
		if err == io.EOF {
			return n, ends, nil
		}
		if err != nil {
			return n, ends, err
		}
		n++
		if eh, ok := tm.Msg.(EndHeightMessage); ok {
			ends = append(ends, eh.Height)
		}
	}
}

// c15tRun returns (violation key, what, record length (0 = unknown), whether the first script had finished, inconclusive).
// c15tGroupRange: every index the reopened group counts as a rolled file must be a file that exists under the rolled-file name
// (the end-height search walks that range; anything else in the directory — a backup of a repaired head, say — is not a WAL file).
func c15tGroupRange(w *vos.World, wal WAL) string {
	bw, ok := wal.(*BaseWAL)
	if !ok {
		return ""
	}
	g := bw.group
	// this part never rotates the head (no size limit is reached, the group's ticker is off): whatever the reopened group counts as
	// a rolled file is something else in the directory, and the end-height search will walk the index range up to it
	if g.MinIndex() != 0 || g.MaxIndex() != 0 {
		return fmt.Sprintf("the group spans indexes %d..%d although the head was never rotated; directory: %v", g.MinIndex(), g.MaxIndex(), w.Files())
	}
	return ""
}

var c15tLastHeight int64

func c15tRun(c c15tCase) (key, what string, recLen int, finished bool, inconcl string) {
	env := c04Env(c.Scenario)
	w := vos.NewWorld()
	defer w.Close()
	env.prepare(w)
	n, err := env.boot(w, 0)
	if err != nil {
		n.kill()
		return "node:start-up-fails", err.Error(), 0, false, ""
	}
	for i := 0; i < c.Pad; i++ {
		if err := n.cs.wal.Write(timeoutInfo{Duration: time.Duration(1000 + i), Height: 0, Round: 0, Step: 1}); err != nil {
			n.kill()
			return "consensus/wal:write-fails", err.Error(), 0, false, ""
		}
	}
	d := &c04Driver{env: env, n: n, budget: c.Events}
	d.script(c.Scenario)
	finished = d.events < c.Events
	if n.dead != "" {
		n.kill()
		if strings.HasPrefix(n.dead, "INCONCLUSIVE") {
			return "", "", 0, finished, n.dead
		}
		return "node:halts-without-a-crash", n.dead, 0, finished, ""
	}
	if n.cs.Height > 1 {
		n.kill()
		return "", "", 0, true, ""
	}
	if err := n.cs.wal.FlushAndSync(); err != nil {
		n.kill()
		return "consensus/wal:flush-fails", err.Error(), 0, finished, ""
	}
	before := c15Proj(n.cs)
	k0 := w.JournalLen()
	// the record the crash tears
	if err := n.cs.wal.Write(timeoutInfo{Duration: 7, Height: 1, Round: 0, Step: 1}); err != nil {
		n.kill()
		return "consensus/wal:write-fails", err.Error(), 0, finished, ""
	}
	_ = n.cs.wal.FlushAndSync()
	k1 := w.JournalLen()
	n.kill()
	crashAt, walFile := -1, ""
	for kk := k0 + 1; kk <= k1 && crashAt < 0; kk++ {
		for p, rng := range w.Unsynced(kk) {
			if rng[1] > rng[0] {
				crashAt, walFile, recLen = kk, p, rng[1]-rng[0]
			}
		}
	}
	if crashAt < 0 {
		return "", "", 0, finished, "INCONCLUSIVE: the extra record never was written-but-unsynced"
	}
	if c.Tail >= recLen {
		return "", "", recLen, finished, ""
	}
	nw := w.Materialise(crashAt, vos.Policy{Tail: map[string]int{walFile: c.Tail}})
	defer nw.Close()
	n2, err := env.boot(nw, 1)
	if err != nil {
		n2.kill()
		return "node:start-up-fails-after-torn-record", err.Error(), recLen, finished, ""
	}
	if msg := c15tGroupRange(nw, n2.cs.wal); msg != "" {
		n2.kill()
		return "libs/autofile/group.go:readGroupInfo:reopened-group-counts-rolled-files-that-were-never-produced", fmt.Sprintf("after %d events of %q, %d of %d bytes of a further record and the restart (repair included): %s",
			c.Events, c.Scenario, c.Tail, recLen, msg), recLen, finished, ""
	}
	if after := c15Proj(n2.cs); after != before {
		n2.kill()
		return "consensus/replay.go:catchupReplay:round-state-differs-after-replay", fmt.Sprintf("after %d events of %q and %d of %d bytes of a further record:\nbefore crash: %s\nafter replay: %s",
			c.Events, c.Scenario, c.Tail, recLen, before, after), recLen, finished, ""
	}
	d2 := &c04Driver{env: env, n: n2}
	if c.Then == "more" {
		d2.budget = c.Events + 3
	}
	if c.Then == "other" || c.Then == "timeouts" {
		d2.script(c.Then)
	}
	d2.script(c.Scenario)
	if n2.dead != "" {
		n2.kill()
		if strings.HasPrefix(n2.dead, "INCONCLUSIVE") {
			return "", "", recLen, finished, n2.dead
		}
		return "node:halts-without-a-crash:second-incarnation", n2.dead, recLen, finished, ""
	}
	if err := n2.cs.wal.FlushAndSync(); err != nil {
		n2.kill()
		return "consensus/wal:flush-fails", err.Error(), recLen, finished, ""
	}
	nrec, ends, rerr := c15tReadLog(n2.cs.wal)
	if rerr != nil {
		n2.kill()
		return "consensus/state.go:OnStart:records-synced-behind-a-torn-record-are-not-readable", fmt.Sprintf("after %d events of %q, %d of %d bytes of a further record, restart and %q: reading the log from its start fails after %d records (end-height markers %v, node at height %d): %v",
			c.Events, c.Scenario, c.Tail, recLen, c.Then, nrec, ends, n2.cs.Height, rerr), recLen, finished, ""
	}
	for h := int64(1); h < n2.cs.Height; h++ {
		seen := false
		for _, e := range ends {
			seen = seen || e == h
		}
		gr, found, serr := n2.cs.wal.SearchForEndHeight(h, &WALSearchOptions{})
		if gr != nil {
			gr.Close()
		}
		if !seen || !found || serr != nil {
			n2.kill()
			return "consensus/wal.go:SearchForEndHeight:marker-of-a-finished-height-not-found", fmt.Sprintf("height %d finished by the second incarnation: marker read back %v, search found=%v err=%v", h, seen, found, serr), recLen, finished, ""
		}
	}
	before2 := c15Proj(n2.cs)
	h2 := n2.cs.Height
	c15tLastHeight = h2
	k2 := nw.JournalLen()
	n2.kill()
	nw2 := nw.Materialise(k2, vos.Policy{KeepUnsynced: true})
	defer nw2.Close()
	n3, err := env.boot(nw2, 2)
	if err != nil {
		n3.kill()
		return "node:start-up-fails-after-second-crash", err.Error(), recLen, finished, ""
	}
	after2, h3 := c15Proj(n3.cs), n3.cs.Height
	n3.kill()
	if h3 != h2 || (h2 == 1 && after2 != before2) {
		return "consensus/replay.go:catchupReplay:round-state-differs-after-second-restart", fmt.Sprintf("after %d events of %q, %d of %d bytes of a further record, restart, %q, restart:\nbefore second crash: %s\nafter replay:        %s",
			c.Events, c.Scenario, c.Tail, recLen, c.Then, before2, after2), recLen, finished, ""
	}
	return "", "", recLen, finished, ""
}

func TestVerifC15Torn(t *testing.T) {
	r := vr.Start("C15", "torn", 150*time.Second, 20*time.Minute)
	defer r.Finish()
	r.Rule = "for each schedule of C04, each number k of delivered events, each byte length t of a further record left on disk by the crash, and each continuation (three more events | the whole schedule): " +
		"run k events, sync, write one record, crash with t bytes of it, restart through State.OnStart, continue, sync, read the whole log (every record decodes; the marker of every finished height is found), crash, restart, compare round states; " +
		"a case = (schedule, k, t, continuation); all distinct; non-trivial = all"
	r.Assume("the torn record is a timeout record; since fewer bytes than its length survive, its content is never decoded")
	var rc c15tCase
	if rep, skip := r.ReplayCase(&rc); skip {
		return
	} else if rep {
		r.Eval()
		if k, w, _, _, _ := c15tRun(rc); k != "" {
			r.Violation(k, w, rc)
		}
		return
	}
	thorough := r.Tier == "thorough"
	_, _, recLen, _, _ := c15tRun(c15tCase{Scenario: "lock", Events: 1, Tail: 1 << 20, Then: "more"})
	if recLen < 12 {
		r.Cap("the probe run did not produce a written-but-unsynced record")
		return
	}
	tails := []int{}
	for t := 1; t < recLen; t++ {
		tails = append(tails, t)
	}
	pads := []int{0, 320} // 320 records of 28 bytes: the head is longer than 8 KiB before the scenario's own records
	thens := []string{"more", "finish"}
	if thorough {
		thens = append(thens, "other", "timeouts")
	}
	n := 0
	for _, sc := range []string{"lock", "proposer"} {
		done := false
		for ev := 1; ev < 80 && !done; ev++ {
			for _, tl := range tails {
				for _, then := range thens {
					for _, pad := range pads {
						n++
						if done || !r.Mine(n) {
							continue
						}
						if pad > 0 && !thorough && tl != 1 && tl != 5 && tl != recLen-1 {
							continue // the long head with three tear positions in the quick tier, with all of them in thorough
						}
						if r.Deadline("C15 torn-record points") {
							return
						}
						c := c15tCase{Scenario: sc, Events: ev, Tail: tl, Then: then, Pad: pad}
						key, what, rl, finished, inconcl := c15tRun(c)
						if finished {
							done = true // the schedule ended before the budget: same as the previous event count
							continue
						}
						if inconcl != "" {
							r.Add("inconclusive", 1)
							continue
						}
						if rl != recLen {
							r.Cap(fmt.Sprintf("record length %d differs from the probed %d", rl, recLen))
							continue
						}
						r.Eval()
						r.NTCount(1)
						if key != "" {
							if k2, _, _, _, _ := c15tRun(c); k2 != key {
								r.Cap("a violation did not reproduce on re-execution; it was not reported")
								continue
							}
							r.Outcome(key)
							r.Violation(key, what, c)
						} else {
							r.Outcome(fmt.Sprintf("log-readable-and-same-state-after-second-restart/%s/second-incarnation-reached-height-%d", then, c15tLastHeight))
						}
						if n%37 == 0 {
							r.Sample(c)
						}
					}
				}
			}
		}
	}
	r.Bound = "every event count of both schedules; " + "every byte length of the torn record; continuations " + strings.Join(thens, ",") + "; head without and with 320 leading records"
}
