package consensus

// C04, part "filepv": the signer alone. Every sequence up to a length bound of sign requests to one real FilePV (key and sign-state
// files on the journalled file system) — prevote / precommit for nil, A or B and proposals for A or B, in rounds 0 and 1 of one
// height, each with a fresh timestamp — interleaved with restarts (the signer is dropped and reloaded from its files). Judged on
// everything the key released: per (height, round, step) one value only, and a repeated request for the same value gets the very
// same signature and timestamp back.

import (
	"fmt"
	"testing"
	"time"

	"github.com/tendermint/tendermint/crypto"
	"github.com/tendermint/tendermint/crypto/ed25519"
	"github.com/tendermint/tendermint/internal/verif/vos"
	"github.com/tendermint/tendermint/internal/verif/vr"
	"github.com/tendermint/tendermint/privval"
	tmproto "github.com/tendermint/tendermint/proto/tendermint/types"
	"github.com/tendermint/tendermint/types"
)

type c04fOp struct {
	K string `json:"op"` // prevote | precommit | proposal | restart
	R int32  `json:"round,omitempty"`
	B int    `json:"block,omitempty"` // 0 nil, 1 A, 2 B
}

func (o c04fOp) String() string {
	if o.K == "restart" {
		return "restart"
	}
	return fmt.Sprintf("%s(r%d,%s)", o.K, o.R, []string{"nil", "A", "B"}[o.B])
}

type c04fCase struct {
	Ops []c04fOp `json:"ops"`
}

func c04fRun(c c04fCase) (key, what string) {
	w := vos.NewWorld()
	defer w.Close()
	dir := w.Root + "/config"
	if err := vos.MkdirAll(dir, 0o700); err != nil {
		panic(err)
	}
	keyFile, stateFile := dir+"/priv_validator_key.json", dir+"/priv_validator_state.json"
	pv := privval.NewFilePV(ed25519.GenPrivKeyFromSecret([]byte("verif-c04-filepv")), keyFile, stateFile)
	pv.Save()
	pub, _ := pv.GetPubKey()
	blocks := []types.BlockID{{}, {Hash: crypto.Sha256([]byte("A")), PartSetHeader: types.PartSetHeader{Total: 1, Hash: crypto.Sha256([]byte("a"))}},
		{Hash: crypto.Sha256([]byte("B")), PartSetHeader: types.PartSetHeader{Total: 1, Hash: crypto.Sha256([]byte("b"))}}}
	type slot struct {
		r    int32
		step int
	}
	type rel struct {
		b   int
		sig string
		ts  time.Time
	}
	first := map[slot]rel{}
	chain := "verif-c04"
	for n, o := range c.Ops {
		ts := time.Date(2022, 3, 1, 0, 0, n+1, 0, time.UTC) // every request carries a later timestamp
		switch o.K {
		case "restart":
			pv = privval.LoadFilePV(keyFile, stateFile)
			continue
		case "proposal":
			p := types.NewProposal(1, o.R, -1, blocks[o.B])
			p.Timestamp = ts
			pp := p.ToProto()
			if err := pv.SignProposal(chain, pp); err != nil {
				continue // a refusal releases nothing
			}
			if !pub.VerifySignature(types.ProposalSignBytes(chain, pp), pp.Signature) {
				return "privval/file.go:signProposal:returns-a-signature-that-does-not-verify", fmt.Sprintf("after %v", c.Ops[:n+1])
			}
			sl := slot{o.R, 1}
			got := rel{o.B, fmt.Sprintf("%X", pp.Signature), pp.Timestamp}
			if f, ok := first[sl]; ok {
				if f.b != got.b {
					return "privval:conflicting-signatures-released", fmt.Sprintf("ops %v: proposals for two different blocks signed at round %d", c.Ops[:n+1], o.R)
				}
				if f.sig != got.sig || !f.ts.Equal(got.ts) {
					return "privval:same-vote-re-signed-instead-of-reused", fmt.Sprintf("ops %v: the same proposal was signed again with another timestamp/signature", c.Ops[:n+1])
				}
			} else {
				first[sl] = got
			}
		default:
			typ, step := tmproto.PrevoteType, 2
			if o.K == "precommit" {
				typ, step = tmproto.PrecommitType, 3
			}
			v := &types.Vote{Type: typ, Height: 1, Round: o.R, BlockID: blocks[o.B], Timestamp: ts, ValidatorAddress: pub.Address(), ValidatorIndex: 0}
			vp := v.ToProto()
			if err := pv.SignVote(chain, vp); err != nil {
				continue
			}
			if !pub.VerifySignature(types.VoteSignBytes(chain, vp), vp.Signature) {
				return "privval/file.go:signVote:returns-a-signature-that-does-not-verify", fmt.Sprintf("after %v", c.Ops[:n+1])
			}
			sl := slot{o.R, step}
			got := rel{o.B, fmt.Sprintf("%X", vp.Signature), vp.Timestamp}
			if f, ok := first[sl]; ok {
				if f.b != got.b {
					return "privval:conflicting-signatures-released", fmt.Sprintf("ops %v: round %d step %d signed for two different values", c.Ops[:n+1], o.R, step)
				}
				if f.sig != got.sig || !f.ts.Equal(got.ts) {
					return "privval:same-vote-re-signed-instead-of-reused", fmt.Sprintf("ops %v: the same vote was signed again with another timestamp/signature", c.Ops[:n+1])
				}
			} else {
				first[sl] = got
			}
		}
	}
	return "", ""
}

func TestVerifC04FilePV(t *testing.T) {
	r := vr.Start("C04", "filepv", 100*time.Second, 15*time.Minute)
	defer r.Finish()
	r.Rule = "every sequence of length <= L of {prevote, precommit} x rounds {0,1} x {nil, A, B}, proposal x rounds {0,1} x {A, B}, and restart (reload from the files) given to one real FilePV; " +
		"every released signature verifies; per (round, step) one value only; a repeated request returns the earlier signature and timestamp; a case = a sequence, all distinct; non-trivial = contains a restart or a repeated (round, step)"
	r.Assume("one height; requests arrive in any order (the signer must refuse regressions itself); restarts are clean reloads (crash points inside a signing are the signer part's subject)")
	var rc c04fCase
	if rep, skip := r.ReplayCase(&rc); skip {
		return
	} else if rep {
		r.Eval()
		if k, w := c04fRun(rc); k != "" {
			r.Violation(k, w, rc)
		}
		return
	}
	var alpha []c04fOp
	for _, rd := range []int32{0, 1} {
		for _, k := range []string{"prevote", "precommit"} {
			for b := 0; b < 3; b++ {
				alpha = append(alpha, c04fOp{K: k, R: rd, B: b})
			}
		}
		for b := 1; b < 3; b++ {
			alpha = append(alpha, c04fOp{K: "proposal", R: rd, B: b})
		}
	}
	alpha = append(alpha, c04fOp{K: "restart"})
	maxLen := vr.Pick(4, 5)
	n, mine := 0, 0
	stop := false
	reported := map[string]bool{}
	seq := make([]c04fOp, 0, maxLen)
	var rec func()
	rec = func() {
		if stop {
			return
		}
		if len(seq) > 0 {
			n++
			if r.Mine(n) {
				mine++
				if mine%512 == 0 && r.Deadline("C04 signer sequences") {
					stop = true
					return
				}
				c := c04fCase{Ops: append([]c04fOp{}, seq...)}
				r.Eval()
				nt := false
				seen := map[string]bool{}
				for _, o := range seq {
					k := fmt.Sprintf("%s/%d", o.K, o.R)
					if o.K == "restart" || seen[k] {
						nt = true
					}
					seen[k] = true
				}
				if nt {
					r.NTCount(1)
				}
				if k, w := c04fRun(c); k != "" {
					r.Outcome(k)
					if !reported[k] {
						reported[k] = true
						r.Violation(k, w, c)
					}
				}
			}
		}
		if len(seq) == maxLen {
			return
		}
		for _, o := range alpha {
			seq = append(seq, o)
			rec()
			seq = seq[:len(seq)-1]
		}
	}
	rec()
	r.Outcome("sequences-safe")
	r.Bound = fmt.Sprintf("all sequences of length <= %d over %d operations", maxLen, len(alpha))
}
