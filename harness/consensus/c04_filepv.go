package consensus

// C04, part "filepv": the signer alone. Every sequence up to a length bound of sign requests to one real FilePV (key and sign-state
// files on the journalled file system) — prevote / precommit for nil, A or B and proposals for A or B, in rounds 0 and 1 of one
// height, each with a fresh timestamp — interleaved with restarts (the signer is dropped and reloaded from its files). Judged on
// everything the key released: per (height, round, step) one value only, and a repeated request for the same value gets the very
// same signature and timestamp back. Sequences are also run with one injected storage failure (an input/output error at one
// operation of one request's sign-state save): the signer dies (restart from the files) or reports an error, and the same rule holds.

import (
	"fmt"
	"testing"
	"time"

	"github.com/tendermint/tendermint/crypto"
	"github.com/tendermint/tendermint/crypto/ed25519"
	"github.com/tendermint/tendermint/internal/verif/vos"
	"github.com/tendermint/tendermint/internal/verif/vr"
	"github.com/tendermint/tendermint/privval"
	tmproto "github.com/tendermint/tendermint/proto/tendermint/types"
	"github.com/tendermint/tendermint/types"
)

type c04fOp struct {
	K string `json:"op"` // prevote | precommit | proposal | restart
	R int32  `json:"round,omitempty"`
	B int    `json:"block,omitempty"` // 0 nil, 1 A, 2 B
	F int    `json:"fault,omitempty"` // f > 0: the f-th storage operation of this request fails (input/output error)
}

func (o c04fOp) String() string {
	if o.K == "restart" {
		return "restart"
	}
	if o.F > 0 {
		return fmt.Sprintf("%s(r%d,%s)!io%d", o.K, o.R, []string{"nil", "A", "B"}[o.B], o.F)
	}
	return fmt.Sprintf("%s(r%d,%s)", o.K, o.R, []string{"nil", "A", "B"}[o.B])
}

type c04fCase struct {
	Ops []c04fOp `json:"ops"`
}

// c04fSaveOps: storage operations of one sign-state save (the fault positions of a request), measured on the real code.
func c04fSaveOps() int {
	w := vos.NewWorld()
	defer w.Close()
	dir := w.Root + "/config"
	if err := vos.MkdirAll(dir, 0o700); err != nil {
		panic(err)
	}
	pv := privval.NewFilePV(ed25519.GenPrivKeyFromSecret([]byte("verif-c04-filepv")), dir+"/priv_validator_key.json", dir+"/priv_validator_state.json")
	pv.Save()
	before := w.JournalLen()
	v := &types.Vote{Type: tmproto.PrevoteType, Height: 1, Round: 0, Timestamp: time.Date(2022, 3, 1, 0, 0, 1, 0, time.UTC), ValidatorAddress: pv.GetAddress(), ValidatorIndex: 0}
	vp := v.ToProto()
	if err := pv.SignVote("verif-c04", vp); err != nil {
		panic(err)
	}
	return w.JournalLen() - before
}

func c04fRun(c c04fCase) (key, what string) {
	k, wh, _ := c04fRunF(c)
	return k, wh
}

// c04fRunF also reports whether every injected fault of the case fired.
func c04fRunF(c c04fCase) (key, what string, fired bool) {
	fired = true
	w := vos.NewWorld()
	defer w.Close()
	dir := w.Root + "/config"
	if err := vos.MkdirAll(dir, 0o700); err != nil {
		panic(err)
	}
	keyFile, stateFile := dir+"/priv_validator_key.json", dir+"/priv_validator_state.json"
	pv := privval.NewFilePV(ed25519.GenPrivKeyFromSecret([]byte("verif-c04-filepv")), keyFile, stateFile)
	pv.Save()
	pub, _ := pv.GetPubKey()
	blocks := []types.BlockID{{}, {Hash: crypto.Sha256([]byte("A")), PartSetHeader: types.PartSetHeader{Total: 1, Hash: crypto.Sha256([]byte("a"))}},
		{Hash: crypto.Sha256([]byte("B")), PartSetHeader: types.PartSetHeader{Total: 1, Hash: crypto.Sha256([]byte("b"))}}}
	type slot struct {
		r    int32
		step int
	}
	type rel struct {
		b   int
		sig string
		ts  time.Time
	}
	first := map[slot]rel{}
	chain := "verif-c04"
	// a request whose storage operation fails: the signer either reports an error or dies (a panic = the process is gone,
	// the operator starts it again from its files)
	call := func(f int, fn func() error) (err error, died bool) {
		if f > 0 {
			w.FailNext(f - 1)
		}
		defer func() {
			if f > 0 && w.FailArmed() {
				fired = false
			}
			w.FailNext(-1)
			if x := recover(); x != nil {
				died = true
			}
		}()
		return fn(), false
	}
	for n, o := range c.Ops {
		ts := time.Date(2022, 3, 1, 0, 0, n+1, 0, time.UTC) // every request carries a later timestamp
		switch o.K {
		case "restart":
			pv = privval.LoadFilePV(keyFile, stateFile)
			continue
		case "proposal":
			p := types.NewProposal(1, o.R, -1, blocks[o.B])
			p.Timestamp = ts
			pp := p.ToProto()
			if err, died := call(o.F, func() error { return pv.SignProposal(chain, pp) }); died {
				pv = privval.LoadFilePV(keyFile, stateFile)
				continue
			} else if err != nil {
				continue // a refusal releases nothing
			}
			if !pub.VerifySignature(types.ProposalSignBytes(chain, pp), pp.Signature) {
				return "privval/file.go:signProposal:returns-a-signature-that-does-not-verify", fmt.Sprintf("after %v", c.Ops[:n+1]), fired
			}
			sl := slot{o.R, 1}
			got := rel{o.B, fmt.Sprintf("%X", pp.Signature), pp.Timestamp}
			if f, ok := first[sl]; ok {
				if f.b != got.b {
					return "privval:conflicting-signatures-released", fmt.Sprintf("ops %v: proposals for two different blocks signed at round %d", c.Ops[:n+1], o.R), fired
				}
				if f.sig != got.sig || !f.ts.Equal(got.ts) {
					return "privval:same-vote-re-signed-instead-of-reused", fmt.Sprintf("ops %v: the same proposal was signed again with another timestamp/signature", c.Ops[:n+1]), fired
				}
			} else {
				first[sl] = got
			}
		default:
			typ, step := tmproto.PrevoteType, 2
			if o.K == "precommit" {
				typ, step = tmproto.PrecommitType, 3
			}
			v := &types.Vote{Type: typ, Height: 1, Round: o.R, BlockID: blocks[o.B], Timestamp: ts, ValidatorAddress: pub.Address(), ValidatorIndex: 0}
			vp := v.ToProto()
			if err, died := call(o.F, func() error { return pv.SignVote(chain, vp) }); died {
				pv = privval.LoadFilePV(keyFile, stateFile)
				continue
			} else if err != nil {
				continue
			}
			if !pub.VerifySignature(types.VoteSignBytes(chain, vp), vp.Signature) {
				return "privval/file.go:signVote:returns-a-signature-that-does-not-verify", fmt.Sprintf("after %v", c.Ops[:n+1]), fired
			}
			sl := slot{o.R, step}
			got := rel{o.B, fmt.Sprintf("%X", vp.Signature), vp.Timestamp}
			if f, ok := first[sl]; ok {
				if f.b != got.b {
					return "privval:conflicting-signatures-released", fmt.Sprintf("ops %v: round %d step %d signed for two different values", c.Ops[:n+1], o.R, step), fired
				}
				if f.sig != got.sig || !f.ts.Equal(got.ts) {
					return "privval:same-vote-re-signed-instead-of-reused", fmt.Sprintf("ops %v: the same vote was signed again with another timestamp/signature", c.Ops[:n+1]), fired
				}
			} else {
				first[sl] = got
			}
		}
	}
	return "", "", fired
}

func TestVerifC04FilePV(t *testing.T) {
	r := vr.Start("C04", "filepv", 100*time.Second, 15*time.Minute)
	defer r.Finish()
	r.Rule = "every sequence of length <= L of {prevote, precommit} x rounds {0,1} x {nil, A, B}, proposal x rounds {0,1} x {A, B}, and restart (reload from the files) given to one real FilePV; " +
		"every released signature verifies; per (round, step) one value only; a repeated request returns the earlier signature and timestamp; a case = a sequence, all distinct; non-trivial = contains a restart or a repeated (round, step)"
	r.Assume("one height; requests arrive in any order (the signer must refuse regressions itself); restarts are clean reloads (crash points inside a signing are the signer part's subject)")
	var rc c04fCase
	if rep, skip := r.ReplayCase(&rc); skip {
		return
	} else if rep {
		r.Eval()
		if k, w := c04fRun(rc); k != "" {
			r.Violation(k, w, rc)
		}
		return
	}
	var alpha []c04fOp
	for _, rd := range []int32{0, 1} {
		for _, k := range []string{"prevote", "precommit"} {
			for b := 0; b < 3; b++ {
				alpha = append(alpha, c04fOp{K: k, R: rd, B: b})
			}
		}
		for b := 1; b < 3; b++ {
			alpha = append(alpha, c04fOp{K: "proposal", R: rd, B: b})
		}
	}
	alpha = append(alpha, c04fOp{K: "restart"})
	maxLen := vr.Pick(4, 5)
	faultLen := 4 // sequences up to this length are also run with one injected storage failure
	saveOps := c04fSaveOps()
	var faulted int64
	n, mine := 0, 0
	stop := false
	reported := map[string]bool{}
	seq := make([]c04fOp, 0, maxLen)
	var rec func()
	rec = func() {
		if stop {
			return
		}
		if len(seq) > 0 {
			n++
			if r.Mine(n) {
				mine++
				if mine%512 == 0 && r.Deadline("C04 signer sequences") {
					stop = true
					return
				}
				c := c04fCase{Ops: append([]c04fOp{}, seq...)}
				r.Eval()
				nt := false
				seen := map[string]bool{}
				for _, o := range seq {
					k := fmt.Sprintf("%s/%d", o.K, o.R)
					if o.K == "restart" || seen[k] {
						nt = true
					}
					seen[k] = true
				}
				if nt {
					r.NTCount(1)
				}
				if k, w := c04fRun(c); k != "" {
					r.Outcome(k)
					if !reported[k] {
						reported[k] = true
						r.Violation(k, w, c)
					}
				}
				// one injected storage failure: every request of the sequence x every storage operation of a save
				for i, o := range seq {
					if o.K == "restart" || len(seq) > faultLen {
						continue
					}
					for f := 1; f <= saveOps; f++ {
						fc := c04fCase{Ops: append([]c04fOp{}, seq...)}
						fc.Ops[i].F = f
						k, w, fired := c04fRunF(fc)
						if !fired {
							break // the request wrote nothing (refused before the save): no later position either
						}
						r.Eval()
						r.NTCount(1)
						faulted++
						if k != "" {
							r.Outcome(k)
							if !reported[k] {
								reported[k] = true
								r.Violation(k, w, fc)
							}
						}
					}
				}
			}
		}
		if len(seq) == maxLen {
			return
		}
		for _, o := range alpha {
			seq = append(seq, o)
			rec()
			seq = seq[:len(seq)-1]
		}
	}
	rec()
	r.Outcome("sequences-safe")
	r.Set("storage_operations_per_save", saveOps)
	r.Add("sequences_with_one_injected_storage_failure", faulted)
	r.Bound = fmt.Sprintf("all sequences of length <= %d over %d operations; those of length <= %d also with one failing storage operation (each request x each of the %d operations of a save)", maxLen, len(alpha), faultLen, saveOps)
}
