package consensus

// C01 — agreement, validity of decided blocks, one-round +2/3 commit.
// 3 correct real nodes + 1 Byzantine key (4 validators of power 1), one height, rounds 0..R.

import (
	"fmt"
	"os"
	"runtime"
	"sort"
	"strconv"
	"strings"
	"sync"
	"testing"
	"time"

	"github.com/tendermint/tendermint/internal/verif/vr"
	tmcons "github.com/tendermint/tendermint/proto/tendermint/consensus"
	tmproto "github.com/tendermint/tendermint/proto/tendermint/types"
	"github.com/tendermint/tendermint/types"
)

type c01Config struct {
	ByzPos   int     `json:"byz_pos"`   // the Byzantine validator is the proposer of this round (2 or 3: of neither round 0 nor 1)
	Strategy string  `json:"strategy"`  // voting behaviour of the Byzantine validator: silent | echo | isolate
	Prop     string  `json:"prop"`      // its behaviour as a proposer: none | one | split | invalid | pol
	MaxRound int32   `json:"max_round"` // nodes are frozen when they leave rounds 0..MaxRound
	MaxDev   int     `json:"max_dev"`   // deviations from the canonical schedule per execution
	MaxByz   int     `json:"max_byz"`   // menu (free-form Byzantine) deliveries per execution; 0 = menu off
	Eager    bool    `json:"eager_own"` // own messages are processed immediately (false: interleaved with peer input)
	Stale    bool    `json:"stale_timeouts"`
	Mode     string  `json:"mode"` // "dev" deviation-bounded search | "bfs" breadth-first to MaxDepth
	MaxDepth int     `json:"max_depth,omitempty"`
	Powers   []int64 `json:"powers,omitempty"` // voting powers by key (default 1,1,1,1); the Byzantine validator must hold < 1/3
}

type dsRepEv struct {
	K   uint8    `json:"k"`
	N   uint8    `json:"n"`
	Key string   `json:"msg,omitempty"`
	Raw []string `json:"raw,omitempty"` // the message itself (hex of the wire encoding of each part): a replay can re-create it even when the
	// representative history it belongs to was recorded in another branch of the exploration
	From int `json:"from,omitempty"`
}

// dsRepOf builds the replay form of an event.
func dsRepOf(w *dsWorld, ev dsEv) dsRepEv {
	re := dsRepEv{K: ev.K, N: ev.N}
	if ev.K == dsDeliver || ev.K == dsDelay || ev.K == dsRelease {
		m := w.msg(int(ev.M))
		re.Key, re.From = m.Key, m.From
		if ev.K == dsDeliver && m.Kind != "votes" {
			for _, mi := range m.mis {
				pm, err := MsgToProto(mi.Msg)
				if err != nil {
					continue
				}
				if bz, err := pm.Marshal(); err == nil {
					re.Raw = append(re.Raw, fmt.Sprintf("%x", bz))
				}
			}
		}
	}
	return re
}

// dsResolve finds (or re-creates) the message a replay event names.
func dsResolve(w *dsWorld, re dsRepEv) (int, bool) {
	w.mtx.Lock()
	id, ok := w.msgByKey[re.Key]
	w.mtx.Unlock()
	if ok {
		return id, true
	}
	if len(re.Raw) > 0 {
		var prop *types.Proposal
		var parts []*types.Part
		var vote *types.Vote
		for _, hx := range re.Raw {
			var bz []byte
			if _, err := fmt.Sscanf(hx, "%x", &bz); err != nil {
				return 0, false
			}
			pm := new(tmcons.Message)
			if err := pm.Unmarshal(bz); err != nil {
				return 0, false
			}
			msg, err := MsgFromProto(pm)
			if err != nil {
				return 0, false
			}
			switch x := msg.(type) {
			case *VoteMessage:
				vote = x.Vote
			case *ProposalMessage:
				prop = x.Proposal
			case *BlockPartMessage:
				parts = append(parts, x.Part)
			}
		}
		if vote != nil {
			return w.internVote(vote, true), true
		}
		if prop != nil {
			return w.internProposal(re.From, prop, parts, true), true
		}
	}
	if w.ensureVoteByKey(re.Key) {
		w.mtx.Lock()
		id, ok = w.msgByKey[re.Key]
		w.mtx.Unlock()
	}
	return id, ok
}

type c01Case struct {
	Cfg   c01Config `json:"cfg"`
	Trace []dsRepEv `json:"trace"`
	Desc  []string  `json:"desc,omitempty"`
}

type c01Setup struct {
	w       *dsWorld
	byz     int
	correct []int
	pend0   []uint32
	e       *dsExplorer
}

func c01Build(r *vr.Report, c c01Config) *c01Setup {
	powers := c.Powers
	if len(powers) == 0 {
		powers = []int64{1, 1, 1, 1}
	}
	w := newDsWorld(powers, "c01")
	w.EagerOwn = c.Eager
	s := &c01Setup{w: w}
	s.byz = w.proposerOf(int32(c.ByzPos))
	if v := w.state0.Validators; 3*v.Validators[s.byz].VotingPower >= v.TotalVotingPower() {
		panic(fmt.Sprintf("c01: configuration %+v gives the faulty validator %d of %d power (not < 1/3)", c, v.Validators[s.byz].VotingPower, v.TotalVotingPower()))
	}
	for i := 0; i < w.N; i++ {
		if i != s.byz {
			s.correct = append(s.correct, i)
		}
	}
	e := newDsExplorer(w, r, s.correct)
	e.maxRound, e.maxByz, e.maxDepth, e.useStale = c.MaxRound, c.MaxByz, c.MaxDepth, c.Stale
	s.e = e
	nodeOf := map[int]int{}
	for i, v := range s.correct {
		nodeOf[v] = i
	}
	var mmtx sync.Mutex
	menuAll := func(m int) {
		mmtx.Lock()
		for j := range s.correct {
			e.menu = append(e.menu, dsPend(int32(m), j))
		}
		mmtx.Unlock()
	}
	pendAll := func(m int) {
		for j := range s.correct {
			s.pend0 = append(s.pend0, dsPend(int32(m), j))
		}
	}
	votesFor := func(bid types.BlockID, from int32) []int {
		var ms []int
		for r := from; r <= c.MaxRound; r++ {
			ms = append(ms, w.byzVote(s.byz, tmproto.PrevoteType, r, bid))
			ms = append(ms, w.byzVote(s.byz, tmproto.PrecommitType, r, bid))
		}
		return ms
	}
	if c.MaxByz > 0 {
		for _, m := range votesFor(types.BlockID{}, 0) {
			menuAll(m)
		}
	}
	// forged votes: the faulty validator signs votes that name the correct validators. They are deliverable to everybody
	// from the start (for nil) or from the moment the block exists; they must be refused, so they cost nothing.
	forgedFor := func(bid types.BlockID, from int32) (out []uint32) {
		for r := from; r <= c.MaxRound; r++ {
			for _, victim := range s.correct {
				for _, t := range []tmproto.SignedMsgType{tmproto.PrevoteType, tmproto.PrecommitType} {
					m := w.forgedVote(s.byz, victim, t, r, bid)
					for j, cv := range s.correct {
						if cv != victim {
							out = append(out, dsPend(int32(m), j))
						}
					}
				}
			}
		}
		return out
	}
	e.freeMenu = append(e.freeMenu, forgedFor(types.BlockID{}, 0)...)
	for r := int32(0); r <= c.MaxRound; r++ {
		if w.proposerOf(r) == s.byz {
			m1, b1 := w.byzProposal(s.byz, r, -1, []types.Tx{types.Tx("x1")}, false, fmt.Sprintf("X1r%d", r))
			m2, b2 := w.byzProposal(s.byz, r, -1, []types.Tx{types.Tx("x2")}, false, fmt.Sprintf("X2r%d", r))
			m3, b3 := w.byzProposal(s.byz, r, -1, []types.Tx{types.Tx("bad")}, true, "Xbad")
			switch c.Prop {
			case "one":
				pendAll(m1)
			case "split":
				s.pend0 = append(s.pend0, dsPend(int32(m1), 0), dsPend(int32(m2), 1), dsPend(int32(m2), 2))
			case "invalid":
				pendAll(m3)
				pendAll(w.byzVote(s.byz, tmproto.PrevoteType, r, b3))
				pendAll(w.byzVote(s.byz, tmproto.PrecommitType, r, b3))
			case "pol":
				if r > 0 {
					// a proposal claiming a proof-of-lock round that never had a polka
					blk := w.blocks[fmt.Sprintf("X1r%d", r)]
					pendAll(w.signedProposal(s.byz, r, r-1, b1, blk.MakePartSet(types.BlockPartSizeBytes)))
				} else {
					pendAll(m1)
				}
			}
			if c.MaxByz > 0 {
				menuAll(m1)
				menuAll(m2)
				menuAll(m3)
				for _, b := range []types.BlockID{b1, b2, b3} {
					for _, m := range votesFor(b, r) {
						menuAll(m)
					}
				}
			}
		} else if c.MaxByz > 0 && r == 0 {
			// a proposal signed by the Byzantine key for a round it does not own: must change nothing
			m, _ := w.byzProposal(s.byz, r, -1, []types.Tx{types.Tx("forged")}, false, fmt.Sprintf("Xforged%d", r))
			menuAll(m)
		}
	}
	// strategy isolate: the node that is allowed to decide early — the first correct node, or (when the faulty validator proposes in
	// round 2) the correct proposer of round 1, so that round 1 has no proposal once that node has decided and left
	isolated := 0
	if c.Strategy == "isolate" && c.ByzPos == 2 {
		if j, ok := nodeOf[w.proposerOf(1)]; ok {
			isolated = j
		}
	}
	e.onPublish = func(m *dsMsg, byNode int) []uint32 {
		var out []uint32
		switch m.Kind {
		case "proposal":
			if !m.Byz && m.POL == -1 {
				ff := forgedFor(m.mis[0].Msg.(*ProposalMessage).Proposal.BlockID, m.Round)
				e.fmMtx.Lock()
				have := map[uint32]bool{}
				for _, p := range e.freeMenu {
					have[p] = true
				}
				for _, p := range ff {
					if !have[p] {
						e.freeMenu = append(e.freeMenu, p)
					}
				}
				e.fmMtx.Unlock()
			}
			if !m.Byz && m.POL == -1 && c.MaxByz > 0 {
				// votes of the faulty validator for a block become possible once the block exists
				p := m.mis[0].Msg.(*ProposalMessage).Proposal
				for _, vm := range votesFor(p.BlockID, m.Round) {
					menuAll(vm)
				}
			}
		case "vote":
			if (c.Strategy == "echo" || c.Strategy == "isolate") && !m.Byz && m.Round <= c.MaxRound {
				// the two-faced validator tells every node what that node wants to hear
				v := m.mis[0].Msg.(*VoteMessage).Vote
				bid := v.BlockID
				if c.Strategy == "isolate" && v.Type == tmproto.PrecommitType && byNode != isolated && !bid.IsZero() && !strings.HasPrefix(m.Block, "X") {
					// ... except that its precommit for a block it did not propose itself goes to the first node only; the others get
					// a precommit for nil (they reach the precommit timeout without deciding while the first node can decide)
					bid = types.BlockID{}
				}
				out = append(out, dsPend(int32(w.byzVote(s.byz, v.Type, v.Round, bid)), byNode))
			}
		}
		return out
	}
	e.localCheck = func(n *dsNode, _ string, _ dsEv, _ []int32) (string, string) {
		if n.decided == "" {
			return "", ""
		}
		if n.decided == "Xbad" {
			return "consensus:decided-invalid-block", fmt.Sprintf("node v%d decided the block with a wrong app hash", n.idx)
		}
		if msg := n.checkDecision(); msg != "" {
			return "consensus:decided-block-not-justified", fmt.Sprintf("node v%d decided %s: %s", n.idx, n.decided, msg)
		}
		return "", ""
	}
	e.globalCheck = func(ls []*dsLocal) (string, string) {
		d := ""
		for _, l := range ls {
			if l.decided == "" {
				continue
			}
			if d != "" && l.decided != d {
				return "consensus:disagreement", fmt.Sprintf("two correct nodes decided different blocks at height 1: %s vs %s", d, l.decided)
			}
			d = l.decided
		}
		return "", ""
	}
	return s
}

func (s *c01Setup) toCase(c c01Config, tr []dsEv) c01Case {
	out := c01Case{Cfg: c, Desc: s.e.describe(tr)}
	for _, ev := range tr {
		out.Trace = append(out.Trace, dsRepOf(s.w, ev))
	}
	return out
}

// dsReplayTrace executes a recorded trace on fresh real nodes (no explorer, no memo).
func dsReplayTrace(e *dsExplorer, trace []dsRepEv, each func(n *dsNode, ev dsEv, pub []int32) bool) []*dsNode {
	nodes := make([]*dsNode, len(e.correct))
	for i, vi := range e.correct {
		nodes[i] = e.w.newNode(vi)
	}
	for _, re := range trace {
		if re.K == dsDelay || re.K == dsRelease {
			continue // network-only events
		}
		ev := dsEv{K: re.K, N: re.N}
		if re.K == dsDeliver {
			id, ok := dsResolve(e.w, re)
			if !ok {
				panic("dsim replay: message not yet created at this point of the trace: " + re.Key)
			}
			ev.M = int32(id)
		}
		pub := e.apply(nodes[ev.N], ev)
		for _, m := range pub {
			if e.onPublish != nil {
				e.onPublish(e.w.msg(int(m)), int(ev.N))
			}
		}
		if each != nil && !each(nodes[ev.N], ev, pub) {
			break
		}
	}
	return nodes
}

// c01Replay re-executes a trace on fresh nodes and returns every violation along it (first one first).
func c01Replay(r *vr.Report, cs c01Case) (keys []string, whats []string) {
	s := c01Build(r, cs.Cfg)
	seen := map[string]bool{}
	nodes := dsReplayTrace(s.e, cs.Trace, func(n *dsNode, ev dsEv, pub []int32) bool {
		if k, w := s.e.localCheck(n, "", ev, pub); k != "" && !seen[k] {
			seen[k] = true
			keys, whats = append(keys, k), append(whats, w)
		}
		return true
	})
	d := ""
	for _, n := range nodes {
		if n.decided == "" {
			continue
		}
		if d != "" && n.decided != d {
			keys = append(keys, "consensus:disagreement")
			whats = append(whats, fmt.Sprintf("two correct nodes decided different blocks at height 1: %s vs %s", d, n.decided))
			break
		}
		d = n.decided
	}
	return keys, whats
}

func c01Configs() []c01Config {
	var cfgs []c01Config
	dev := vr.Pick(3, 4)
	if v, err := strconv.Atoi(os.Getenv("VERIF_C01_DEV")); err == nil {
		dev = v
	}
	for _, pos := range []int{0, 1, 2} {
		props := []string{"-"}
		if pos <= 1 {
			props = []string{"none", "one", "split", "invalid", "pol"}
		}
		for _, st := range []string{"echo", "silent"} {
			for _, pr := range props {
				cfgs = append(cfgs, c01Config{ByzPos: pos, Strategy: st, Prop: pr, MaxRound: 1, MaxDev: dev, Eager: true, Mode: "dev"})
			}
		}
	}
	// the classic split attempt: the faulty validator lets one node decide in round 0 (precommits for the block only to it, nil to the others)
	// and proposes something else in round 1, with and without a claimed proof-of-lock round
	for _, pr := range []string{"pol", "one"} {
		cfgs = append(cfgs, c01Config{ByzPos: 1, Strategy: "isolate", Prop: pr, MaxRound: 1, MaxDev: dev, Eager: true, Mode: "dev"})
	}
	cfgs = append(cfgs, c01Config{ByzPos: 2, Strategy: "isolate", Prop: "one", MaxRound: 2, MaxDev: dev - 1, Eager: true, Mode: "dev"})
	// unequal powers with a total that is 2 modulo 3 (the quorum arithmetic's rounding matters): 2,1,1,1; the faulty validator holds 1 of 5
	skew := []int64{2, 1, 1, 1}
	sw := newDsWorld(skew, "c01")
	for _, pos := range []int{0, 1, 2, 3} {
		v := sw.state0.Validators
		if 3*v.Validators[sw.proposerOf(int32(pos))].VotingPower >= v.TotalVotingPower() {
			continue
		}
		for _, sp := range [][2]string{{"echo", "split"}, {"silent", "none"}} {
			if pos > 1 && sp[1] != "none" {
				sp[1] = "-"
			}
			cfgs = append(cfgs, c01Config{ByzPos: pos, Strategy: sp[0], Prop: sp[1], MaxRound: 1, MaxDev: dev - 1, Eager: true, Mode: "dev", Powers: skew})
		}
	}
	if vr.Thorough() {
		for _, pos := range []int{0, 1, 2} {
			// free-form Byzantine menu, own messages interleaved, stale timeouts, a third round
			cfgs = append(cfgs, c01Config{ByzPos: pos, Strategy: "echo", Prop: "split", MaxRound: 1, MaxDev: 2, MaxByz: 2, Eager: true, Mode: "dev"})
			cfgs = append(cfgs, c01Config{ByzPos: pos, Strategy: "echo", Prop: "one", MaxRound: 1, MaxDev: 2, Eager: false, Stale: true, Mode: "dev"})
			cfgs = append(cfgs, c01Config{ByzPos: pos, Strategy: "echo", Prop: "split", MaxRound: 2, MaxDev: 2, Eager: true, Mode: "dev"})
			cfgs = append(cfgs, c01Config{ByzPos: pos, Strategy: "silent", Prop: "one", MaxRound: 1, MaxByz: 3, Eager: true, Mode: "bfs", MaxDepth: 8})
		}
	}
	return cfgs
}

func TestVerifC01(t *testing.T) {
	r := vr.Start("C01", "agreement", 140*time.Second, 22*time.Minute)
	defer r.Finish()
	r.Rule = "explicit-state search over global states of 3 real consensus.State nodes + 1 Byzantine key (4 validators, power 1 each, or powers 2,1,1,1), one height, rounds 0..R; " +
		"per configuration (which round the Byzantine validator proposes in, its voting strategy, its proposing strategy) every execution with at most k deviations " +
		"from the canonical schedule is explored (deviation = deliver another message first, fire a timeout early, hold back / release a delivery, stale timeout, free-form Byzantine delivery); " +
		"states are deduplicated by canonical key (canonical local states + pending/held deliveries); every state counted is distinct"
	r.Assume("network adversary delivers/loses/reorders; duplicates are not re-delivered (handlers are idempotent on duplicates: VoteSet/PartSet/Proposal reject them)")
	r.Assume("tmtime.Now is pinned through an injected clock seam so that signatures and hashes are byte-identical across replays")
	r.Assume("validator sets larger than 4 are not explored in this part; unequal powers only as 2,1,1,1 (total 5, so that the +2/3 rounding matters)")
	var rc c01Case
	if rep, skip := r.ReplayCase(&rc); skip {
		return
	} else if rep {
		r.Eval()
		if ks, ws := c01Replay(r, rc); len(ks) > 0 {
			r.Violation(ks[0], ws[0], rc)
		}
		return
	}
	cfgs := c01Configs()
	workers := runtime.GOMAXPROCS(0)
	minCompleted := 99
	for ci, c := range cfgs {
		if !r.Mine(ci) {
			continue
		}
		if r.Deadline("C01 configurations") {
			break
		}
		s := c01Build(r, c)
		g0 := s.e.initial(s.pend0)
		outcomes := map[string]bool{}
		var omtx sync.Mutex
		note := func(ls []*dsLocal, terminal bool) {
			ds := []string{}
			for _, l := range ls {
				switch {
				case l.decided != "":
					ds = append(ds, fmt.Sprintf("n%d:%s", l.node, l.decided))
				case l.halted != "":
					ds = append(ds, fmt.Sprintf("n%d:HALT", l.node))
				case terminal:
					ds = append(ds, fmt.Sprintf("n%d:r%d", l.node, l.round))
				}
			}
			if len(ds) > 0 {
				sort.Strings(ds)
				k := fmt.Sprint(ds)
				if terminal {
					k = "end" + k
				}
				omtx.Lock()
				if !outcomes[k] {
					outcomes[k] = true
					r.Outcome(k)
				}
				omtx.Unlock()
			}
		}
		var viols []dsViolation
		if c.Mode == "bfs" {
			viols = s.e.bfs(g0, workers, 0, func(id int32, g *dsGlobal, ls []*dsLocal) { note(ls, false) })
		} else {
			var completed int
			viols, completed = s.e.search(g0, c.MaxDev, workers, func(id int32, g *dsGlobal, ls []*dsLocal, terminal bool) { note(ls, terminal) })
			if completed < minCompleted {
				minCompleted = completed
			}
		}
		n := int64(s.e.nStates())
		r.NTCount(n)
		r.EvalN(n)
		halted := 0
		for _, l := range s.e.locals {
			if l.halted != "" {
				halted++
				r.Note(fmt.Sprintf("a correct node halted (CONSENSUS FAILURE) in config %+v: %s", c, l.halted))
			}
		}
		r.Add("halted_local_states", int64(halted))
		r.Add("configurations", 1)
		if n > 5 {
			r.Sample(map[string]interface{}{"config": c, "states": n, "trace_to_last_state": s.e.describe(s.e.trace(int32(n - 1)))})
		}
		for _, v := range viols {
			cs := s.toCase(c, s.e.trace(v.State))
			for i := 0; i < 3; i++ {
				ks, _ := c01Replay(r, cs)
				found := false
				for _, k := range ks {
					found = found || k == v.Key
				}
				if !found {
					panic(fmt.Sprintf("C01: violation %s does not reproduce from its replay trace (got %v): harness fault", v.Key, ks))
				}
			}
			r.Violation(v.Key, v.What, cs)
		}
	}
	if minCompleted != 99 {
		r.Bound = fmt.Sprintf("all executions with <= %d deviations in every configuration of this shard", minCompleted)
	}
}
