package consensus

// C02 part 2 — the lock rule across crashes. The statement quantifies over histories; a history of a real validator
// includes its restarts. The node of the C04 kit (real receive routine, WAL, FilePV, stores on the journalled file
// system) runs a schedule in which it locks a block in round 0 and is then offered other proposals in later rounds;
// every journal entry is a crash point, the unsynced WAL tail is kept or dropped, the node restarts (WAL catch-up)
// and the schedule is delivered again. The judge works on one timeline across all incarnations: the prevotes handed
// to the node and the signatures its key released, in order.
//   - a precommit for a block needs prevotes for it in that round from > 2/3 (handed over before, own one included);
//   - after a precommit for B in round r, a prevote for anything else in a round r' > r needs a prevote quorum for
//     something else (nil included) in a round r'' with r < r'' <= r', handed over before that prevote.

import (
	"fmt"
	"sort"
	"testing"
	"time"

	"github.com/tendermint/tendermint/internal/verif/vr"
)

func c02rJudge(tl []rtSigned) (key, what string) {
	type rb struct {
		r int32
		b string
	}
	prevotes := map[rb]map[string]bool{} // (round, block) -> voters ("own" or the stub's key number)
	quorum := func(x rb) bool { return len(prevotes[x]) >= 3 } // 4 validators of power 1
	lockR, lockB := int32(-1), ""
	add := func(r int32, b, who string) {
		x := rb{r, b}
		if prevotes[x] == nil {
			prevotes[x] = map[string]bool{}
		}
		prevotes[x][who] = true
	}
	for _, s := range tl {
		if s.H != 1 {
			continue
		}
		switch {
		case s.Kind == "recv":
			add(s.R, s.Block, s.Sig)
		case s.Kind == "vote" && s.Step == 2:
			if lockR >= 0 && s.R > lockR && s.Block != lockB {
				justified := false
				for x := range prevotes {
					if x.r > lockR && x.r <= s.R && x.b != lockB && quorum(x) {
						justified = true
					}
				}
				if !justified {
					return "consensus:prevote-against-own-precommit-without-newer-quorum:across-restart",
						fmt.Sprintf("incarnation %d prevoted %q in round %d after the validator had precommitted %q in round %d; no prevote quorum for anything else in rounds %d..%d had been handed to it", s.Inc, s.Block, s.R, lockB, lockR, lockR+1, s.R)
				}
			}
			add(s.R, s.Block, "own")
		case s.Kind == "vote" && s.Step == 3 && s.Block != "":
			if !quorum(rb{s.R, s.Block}) {
				return "consensus:precommit-without-prevote-quorum:across-restart",
					fmt.Sprintf("incarnation %d precommitted %q in round %d with %d prevotes for it handed over so far", s.Inc, s.Block, s.R, len(prevotes[rb{s.R, s.Block}]))
			}
			if s.R >= lockR {
				lockR, lockB = s.R, s.Block
			}
		}
	}
	return "", ""
}

func TestVerifC02Restart(t *testing.T) {
	r := vr.Start("C02", "restart", 120*time.Second, 20*time.Minute)
	defer r.Finish()
	r.Rule = "schedules lock / lock2 / lock3 (lock in round 0 or, after an empty round 0, in round 1; other proposals in the following rounds) on the real receive routine with WAL, FilePV and stores on the journalled file system; every journal entry is a crash point, " +
		"unsynced WAL tail kept or dropped (thorough: every tail length, and a second crash inside the recovery); the node restarts and the schedule is delivered again (or timeouts first); the timeline of prevotes handed over and signatures released, " +
		"across incarnations, is judged by the lock rule and the precommit rule; a case = (schedule, crash vector, tail, continuation), all distinct; non-trivial = at least one crash"
	r.Assume("4 validators of power 1; the node's view of 'received' is what the driver handed to any of its incarnations before the signature (a crash inside the handling only makes the judge more lenient)")
	var rc c04Case
	run := func(c c04Case) (string, string, c04Result) {
		res := c04Run(c)
		if res.inconcl != "" {
			return "", "", res
		}
		if res.key != "" {
			return res.key, res.what, res // C04's own oracle (equivocation) is clause 1 of C02
		}
		k, w := c02rJudge(res.timeline)
		return k, w, res
	}
	if rep, skip := r.ReplayCase(&rc); skip {
		return
	} else if rep {
		r.Eval()
		if k, w, _ := run(rc); k != "" {
			r.Violation(k, w, rc)
		}
		return
	}
	try := func(c c04Case) c04Result {
		r.Eval()
		if len(c.Crashes) > 0 {
			r.NTCount(1)
		}
		k, w, res := run(c)
		if res.inconcl != "" {
			r.Add("inconclusive", 1)
			return res
		}
		if k != "" {
			if k2, _, _ := run(c); k2 != k {
				r.Cap("a violation did not reproduce on re-execution; it was not reported")
				return res
			}
			r.Outcome(k)
			r.Violation(k, w, c)
		} else {
			r.Outcome(fmt.Sprintf("ok-%d-signatures", res.signedN))
		}
		return res
	}
	n := 0
	for _, sc := range []string{"lock3", "lock2", "lock"} {
		refCase := c04Case{Scenario: sc, Tail: -1, After: "same"}
		var ref c04Result
		if r.Mine(0) {
			ref = try(refCase) // the crash-free run is a case of its own, counted once
		} else {
			_, _, ref = run(refCase)
		}
		if ref.key != "" || len(ref.journals) == 0 {
			continue
		}
		n0 := ref.journals[0]
		r.Set("journal_"+sc, n0)
		for cp := ref.prep + 1; cp < n0; cp++ {
			for _, after := range []string{"same", "timeouts"} {
				n++
				if !r.Mine(n) {
					continue
				}
				if r.Deadline("C02 restart crash points") {
					goto done
				}
				res := try(c04Case{Scenario: sc, Crashes: []int{cp}, Tail: -1, After: after})
				if len(res.tails) > 0 {
					try(c04Case{Scenario: sc, Crashes: []int{cp}, Tail: 0, After: after})
				}
				if vr.Thorough() {
					var paths []string
					for p := range res.tails {
						paths = append(paths, p)
					}
					sort.Strings(paths)
					for _, p := range paths {
						for tl := 1; tl < res.tails[p][1]-res.tails[p][0]; tl++ {
							try(c04Case{Scenario: sc, Crashes: []int{cp}, Tail: tl, After: after})
						}
					}
					if len(res.journals) >= 2 && after == "same" {
						for cp2 := 1; cp2 < res.journals[1]; cp2 += 3 {
							if r.Deadline("C02 restart nested crash points") {
								goto done
							}
							try(c04Case{Scenario: sc, Crashes: []int{cp, cp2}, Tail: -1, After: after})
						}
					}
				}
				if n%29 == 0 {
					r.Sample(c04Case{Scenario: sc, Crashes: []int{cp}, Tail: -1, After: after})
				}
			}
		}
	}
done:
	r.Bound = "k=1 crash at every journal entry x tail kept/dropped x 2 continuations; thorough: every tail length and every third nested crash point"
}
