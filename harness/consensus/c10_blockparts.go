package consensus

// C10 (end-to-end slice) — State.addProposalBlockPart: once the proposal's part set reports complete,
// the node must hold exactly the proposed block (original bytes, original block hash).
//
// A real consensus.State (one validator, so the harness's key is the proposer) receives a correctly
// signed proposal for a real multi-part block (production part size 65536) through the real
// setProposal, then block parts through the real addProposalBlockPart — the two calls handleMsg makes.
// Enumerated: every delivery order of the genuine parts, and every single forged message
// (bytes+leaf hash+aunts of part i, presented with part.Index=j, proof.Index, proof.Total from a grid)
// injected at every point of the in-order genuine delivery; all messages first pass the wire
// validation a BlockPartMessage gets (Part.ToProto -> PartFromProto -> ValidateBasic).
// Between cases the three round fields (Proposal, ProposalBlock, ProposalBlockParts) are reset the
// way enterNewRound resets them; nothing else of the state is touched and the state machine is not
// started (no timeouts, no goroutines of the node run).

import (
	"bytes"
	"fmt"
	"io"
	"os"
	"testing"
	"time"

	"github.com/tendermint/tendermint/crypto/merkle"
	"github.com/tendermint/tendermint/internal/verif/vr"
	"github.com/tendermint/tendermint/types"
)

type c10Case struct {
	NParts int    `json:"n_parts"`
	Order  []int  `json:"order,omitempty"` // genuine delivery order (control family)
	I      int    `json:"bytes_of_part"`   // forged message: bytes/leaf hash/aunts of this part
	J      uint32 `json:"part_index"`      // presented at this position
	PIndex int64  `json:"proof_index"`
	PTotal int64  `json:"proof_total"`
	Q      int    `json:"injected_after"` // number of genuine parts (in order) delivered before the forged message
	Forged bool   `json:"forged"`
}

type c10Env struct {
	cs       *State
	nparts   int
	block    *types.Block
	parts    *types.PartSet
	data     []byte
	proposal *types.Proposal
}

func c10NewEnv(nparts int) *c10Env {
	cs, vss := randState(1)
	e := &c10Env{cs: cs, nparts: nparts}
	block, _ := cs.createProposalBlock()
	if block == nil {
		panic("C10: createProposalBlock returned nil")
	}
	// transactions sized so that the marshalled block needs exactly nparts parts
	payload := (nparts-1)*int(types.BlockPartSizeBytes) + 20000
	txs := []types.Tx{}
	x := uint32(4242)
	for left := payload; left > 0; {
		n := 30000
		if n > left {
			n = left
		}
		tx := make([]byte, n)
		for k := range tx {
			x = x*1664525 + 1013904223
			tx[k] = byte(x >> 24)
		}
		txs = append(txs, tx)
		left -= n
	}
	block.Data = types.Data{Txs: txs}
	block.DataHash = block.Data.Hash()
	e.block = block
	e.parts = block.MakePartSet(types.BlockPartSizeBytes)
	if int(e.parts.Total()) != nparts {
		panic(fmt.Sprintf("C10: block has %d parts, wanted %d", e.parts.Total(), nparts))
	}
	bz, err := io.ReadAll(e.parts.GetReader())
	if err != nil {
		panic(err)
	}
	e.data = bz
	blockID := types.BlockID{Hash: block.Hash(), PartSetHeader: e.parts.Header()}
	e.proposal = types.NewProposal(cs.Height, cs.Round, -1, blockID)
	p := e.proposal.ToProto()
	if err := vss[0].SignProposal(cs.state.ChainID, p); err != nil {
		panic(err)
	}
	e.proposal.Signature = p.Signature
	return e
}

func (e *c10Env) close() {
	if e.cs.eventBus != nil {
		_ = e.cs.eventBus.Stop()
	}
	if e.cs.config != nil && e.cs.config.RootDir != "" {
		os.RemoveAll(e.cs.config.RootDir)
	}
}

func (e *c10Env) genuine(i int) *types.Part {
	p := e.parts.GetPart(i)
	aunts := make([][]byte, len(p.Proof.Aunts))
	for k := range aunts {
		aunts[k] = append([]byte{}, p.Proof.Aunts[k]...)
	}
	return &types.Part{Index: p.Index, Bytes: p.Bytes, // bytes are never written by the code under test
		Proof: merkle.Proof{Total: p.Proof.Total, Index: p.Proof.Index, LeafHash: append([]byte{}, p.Proof.LeafHash...), Aunts: aunts}}
}

// run executes one case; key=="" means no violation. class is the outcome class.
func (e *c10Env) run(r *vr.Report, c c10Case) (key, what, class string) {
	cs := e.cs
	cs.mtx.Lock()
	defer cs.mtx.Unlock()
	// what enterNewRound does to these fields
	cs.Proposal, cs.ProposalBlock, cs.ProposalBlockParts = nil, nil, nil
	prop := *e.proposal
	if err := cs.setProposal(&prop); err != nil || cs.Proposal == nil || cs.ProposalBlockParts == nil {
		panic(fmt.Sprintf("C10: genuine proposal not accepted: %v", err))
	}
	msgs := []*types.Part{}
	forgedAt := -1
	if c.Forged {
		for q := 0; q < e.nparts; q++ {
			if q == c.Q {
				forgedAt = len(msgs)
				f := e.genuine(c.I)
				f.Index, f.Proof.Index, f.Proof.Total = c.J, c.PIndex, c.PTotal
				msgs = append(msgs, f)
			}
			msgs = append(msgs, e.genuine(q))
		}
		if c.Q >= e.nparts {
			forgedAt = len(msgs)
			f := e.genuine(c.I)
			f.Index, f.Proof.Index, f.Proof.Total = c.J, c.PIndex, c.PTotal
			msgs = append(msgs, f)
		}
	} else {
		for _, q := range c.Order {
			msgs = append(msgs, e.genuine(q))
		}
	}
	wrongAdmitted, cause := false, ""
	for k, part := range msgs {
		// wire validation of a BlockPartMessage
		pb, err := part.ToProto()
		if err == nil {
			part, err = types.PartFromProto(pb)
		}
		if err != nil {
			if k == forgedAt {
				class = "forged:rejected-by-wire-validation"
			}
			continue
		}
		var added bool
		panicked := ""
		func() {
			defer func() {
				if x := recover(); x != nil {
					panicked = fmt.Sprint(x)
				}
			}()
			added, err = cs.addProposalBlockPart(&BlockPartMessage{Height: cs.Height, Round: cs.Round, Part: part}, "verif-peer")
		}()
		if panicked != "" {
			// production: receiveRoutine recovers and halts the node ("CONSENSUS FAILURE")
			if cs.ProposalBlockParts.IsComplete() {
				return "consensus/state.go:addProposalBlockPart:complete-part-set-is-not-the-proposed-block:panics-while-reassembling",
					fmt.Sprintf("%d-part block: delivery %d of %d: the part set reports complete and addProposalBlockPart panicked: %s (case %+v)", e.nparts, k+1, len(msgs), panicked, c), "panic"
			}
			r.Add("diag_addProposalBlockPart_panics", 1)
			r.Note(fmt.Sprintf("addProposalBlockPart panicked on an incomplete set: %s (case %+v)", panicked, c))
			continue
		}
		for len(cs.statsMsgQueue) > 0 {
			<-cs.statsMsgQueue
		}
		if k == forgedAt {
			lo := int(part.Index) * int(types.BlockPartSizeBytes)
			hi := lo + int(types.BlockPartSizeBytes)
			if hi > len(e.data) {
				hi = len(e.data)
			}
			right := int(part.Index) < e.nparts && bytes.Equal(part.Bytes, e.data[lo:hi])
			switch {
			case added && !right:
				wrongAdmitted = true
				cause = "proof-index-not-bound"
				if c.PIndex == int64(c.J) {
					cause = "proof-total-not-bound"
					if c.PTotal == int64(e.nparts) {
						cause = "wrong-piece-with-bound-label"
					}
				}
				class = "forged:ADMITTED-WRONG-PIECE:" + cause
			case added:
				class = "forged:admitted-right-piece"
			case err != nil:
				class = "forged:rejected"
			default:
				class = "forged:ignored(slot occupied)"
			}
		} else if !added && err == nil && wrongAdmitted {
			r.Add("diag_genuine_part_ignored_after_poisoning", 1)
		}
		if cs.ProposalBlockParts.IsComplete() {
			var bz []byte
			var rerr error
			func() {
				defer func() {
					if x := recover(); x != nil {
						rerr = fmt.Errorf("panic: %v", x)
					}
				}()
				bz, rerr = io.ReadAll(cs.ProposalBlockParts.GetReader())
			}()
			ok := rerr == nil && bytes.Equal(bz, e.data) && cs.ProposalBlock != nil && cs.ProposalBlock.HashesTo(e.proposal.BlockID.Hash)
			if !ok {
				if cause == "" {
					cause = "unknown-cause"
				}
				return "consensus/state.go:addProposalBlockPart:complete-part-set-is-not-the-proposed-block:" + cause,
					fmt.Sprintf("%d-part block: after delivery %d of %d the proposal part set is complete, but reassembled bytes equal original: %v, ProposalBlock set: %v, hashes to proposal: %v "+
						"(forged message: bytes of part %d as part.Index=%d proof.Index=%d proof.Total=%d injected after %d genuine parts; the genuine part %d is then ignored as a duplicate, the node cannot obtain the block in this round)",
						e.nparts, k+1, len(msgs), rerr == nil && bytes.Equal(bz, e.data), cs.ProposalBlock != nil, cs.ProposalBlock != nil && cs.ProposalBlock.HashesTo(e.proposal.BlockID.Hash),
						c.I, c.J, c.PIndex, c.PTotal, c.Q, c.J), class
			}
			if !c.Forged {
				class = "genuine:complete-and-equal"
			}
		}
	}
	if class == "" {
		class = "genuine:incomplete"
	}
	return "", "", class
}

func TestVerifC10Consensus(t *testing.T) {
	r := vr.Start("C10", "consensus", 90*time.Second, 10*time.Minute)
	defer r.Finish()
	r.Rule = "real State + signed proposal for a real k-part block; (control) every delivery order of the genuine parts; (forged) every message (bytes of part i, part.Index=j, proof.Index, proof.Total on a grid up to 2k+3) " +
		"injected after q in-order genuine parts, q=0..k; every message passes Part wire validation first; non-trivial = any case but in-order genuine delivery"
	r.Assume("the three round fields are reset between cases as enterNewRound does; the state machine is not running (addProposalBlockPart is called under cs.mtx exactly as handleMsg does)")
	var rc c10Case
	if rep, skip := r.ReplayCase(&rc); skip {
		return
	} else if rep {
		e := c10NewEnv(rc.NParts)
		defer e.close()
		r.Eval()
		if k, w, _ := e.run(r, rc); k != "" {
			r.Violation(k, w, rc)
		}
		return
	}
	maxParts := vr.Pick(3, 4)
	k := 0
	stop := false
	for np := 2; np <= maxParts && !stop; np++ {
		e := c10NewEnv(np)
		try := func(c c10Case, trivial bool) {
			k++
			if stop || !r.Mine(k) {
				return
			}
			if k%64 == 0 && r.Deadline(fmt.Sprintf("C10 consensus cases, %d-part block", np)) {
				stop = true
				return
			}
			r.Eval()
			if !trivial {
				r.NTCount(1)
			}
			key, what, class := e.run(r, c)
			if key != "" {
				first := fmt.Errorf("%s", key)
				if !vr.Confirm(3, first, func() error {
					k2, _, _ := e.run(r, c)
					if k2 == "" {
						return nil
					}
					return fmt.Errorf("%s", k2)
				}) {
					panic("C10 consensus harness nondeterministic")
				}
				r.Violation(key, what, c)
			}
			r.Outcome(class)
			if k%400 == 1 || (key != "" && len(r.Samples) < 3) {
				r.Sample(map[string]interface{}{"case": c, "outcome": class})
			}
		}
		// control: all permutations
		perm := make([]int, np)
		for i := range perm {
			perm[i] = i
		}
		var permute func(d int)
		permute = func(d int) {
			if d == np {
				ordered := true
				for q, i := range perm {
					ordered = ordered && q == i
				}
				try(c10Case{NParts: np, Order: append([]int{}, perm...)}, ordered)
				return
			}
			for i := d; i < np; i++ {
				perm[d], perm[i] = perm[i], perm[d]
				permute(d + 1)
				perm[d], perm[i] = perm[i], perm[d]
			}
		}
		permute(0)
		// forged
		T := int64(2*np + 3)
		for i := 0; i < np; i++ {
			for j := 0; j < np; j++ {
				for pt := int64(1); pt <= T; pt++ {
					for pi := int64(0); pi < pt; pi++ {
						if i == j && pi == int64(i) && pt == int64(np) {
							continue // the genuine message
						}
						for q := 0; q <= np; q++ {
							try(c10Case{NParts: np, I: i, J: uint32(j), PIndex: pi, PTotal: pt, Q: q, Forged: true}, false)
						}
					}
				}
			}
		}
		e.close()
		if !stop {
			r.Bound = fmt.Sprintf("blocks of 2..%d parts of %d bytes", np, types.BlockPartSizeBytes)
		}
	}
}
