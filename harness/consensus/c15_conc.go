package consensus

// C15, part "conc": the WAL has one writer (the consensus routine) but its file group is also driven by the group's
// own ticker goroutine (head-size check -> rotation, total-size check -> pruning) and by the periodic flush. Every
// interleaving of the writer with those actors is enumerated under the cooperative scheduler (scheduling points =
// operations on the group's mutex), on the journalled file system. Judged after each execution: every record written
// is returned by a reader over the whole group, in order; every file of the group starts at a record boundary (a
// reader positioned at a file start, which is what the end-height search does, decodes it); the end-height search
// finds every marker that was written, without the option that skips corruption.

import (
	"fmt"
	"io"
	"testing"
	"time"

	"github.com/tendermint/tendermint/internal/verif/gosched"
	"github.com/tendermint/tendermint/internal/verif/vos"
	"github.com/tendermint/tendermint/internal/verif/vr"
)

type c15cCase struct {
	Scenario string `json:"scenario"`
	Choices  []int  `json:"schedule"`
	Trace    string `json:"trace,omitempty"`
}

type c15cRun struct {
	w       *vos.World
	wal     *BaseWAL
	walPath string
	written []int64 // ids in write order (the writer is sequential)
	werr    error
}

var c15cScenarios = []string{"writer+rotate", "writer+rotate+flush", "writer+2rotates", "writer+rotate+prune"}

func c15cBuild(scn string) (*gosched.Sched, *c15cRun) {
	w := vos.NewWorld()
	run := &c15cRun{w: w, walPath: w.Root + "/cs.wal/wal"}
	wal, err := c15Open(run.walPath)
	if err != nil {
		panic(err)
	}
	run.wal = wal
	s := gosched.New()
	wal.group.VerifManage(s)
	write := func(id int64, sync bool) {
		var err error
		if sync {
			err = wal.WriteSync(c15Msg(id))
		} else {
			err = wal.Write(c15Msg(id))
		}
		if err != nil && run.werr == nil {
			run.werr = err
		}
		run.written = append(run.written, id)
	}
	writer := func() {
		write(1, false)
		write(-1, true) // #ENDHEIGHT 1
		write(2, false)
		write(-2, true) // #ENDHEIGHT 2
	}
	s.Go("writer", writer)
	switch scn {
	case "writer+rotate":
		s.Go("ticker", func() { wal.group.RotateFile() })
	case "writer+rotate+flush":
		s.Go("ticker", func() { wal.group.RotateFile() })
		s.Go("flusher", func() { _ = wal.FlushAndSync() })
	case "writer+2rotates":
		s.Go("ticker", func() { wal.group.RotateFile(); wal.group.RotateFile() })
	case "writer+rotate+prune":
		s.Go("ticker", func() { wal.group.RotateFile(); wal.group.VerifCheckTotalSizeLimit() })
	default:
		panic("c15c: unknown scenario " + scn)
	}
	return s, run
}

func (run *c15cRun) close() {
	run.w.Freeze()
	c15Stop(run.wal)
	run.w.Close()
}

func (run *c15cRun) judge(res *gosched.Result) (key, what string) {
	if len(res.Panics) > 0 {
		return "consensus/wal.go:concurrent-rotation-panics", fmt.Sprint(res.Panics)
	}
	if res.Deadlock || res.Overrun {
		return "consensus/wal.go:concurrent-rotation-deadlocks", fmt.Sprintf("deadlock=%v overrun=%v blocked=%v", res.Deadlock, res.Overrun, res.Blocked)
	}
	if run.werr != nil {
		return "consensus/wal:operation-fails-without-crash", run.werr.Error()
	}
	if err := run.wal.FlushAndSync(); err != nil {
		return "consensus/wal:flush-fails", err.Error()
	}
	// 1. a reader over the whole group returns what was written, in order (behind the initial #ENDHEIGHT 0)
	ids, rerr := c15ReadAll(run.wal)
	if rerr != nil {
		return "consensus/wal.go:records-unreadable-after-concurrent-rotation", fmt.Sprintf("read %v then: %v", ids, rerr)
	}
	want := append([]int64{0}, run.written...)
	if fmt.Sprint(ids) != fmt.Sprint(want) {
		return "consensus/wal.go:records-lost-or-reordered-by-concurrent-rotation", fmt.Sprintf("written %v, read back %v", want, ids)
	}
	// 2. every file starts at a record boundary
	g := run.wal.group
	for idx := g.MinIndex(); idx <= g.MaxIndex(); idx++ {
		gr, err := g.NewReader(idx)
		if err != nil {
			return "consensus/wal.go:file-of-the-group-cannot-be-opened", fmt.Sprintf("index %d: %v", idx, err)
		}
		_, derr := NewWALDecoder(gr).Decode()
		gr.Close()
		if derr != nil && derr != io.EOF {
			return "consensus/wal.go:Encode:record-split-across-files-by-rotation", fmt.Sprintf("file %d of the group (%d..%d) does not start with a whole record: %v", idx, g.MinIndex(), g.MaxIndex(), derr)
		}
	}
	// 3. the strict end-height search finds the markers
	for _, h := range []int64{1, 2} {
		gr, found, err := run.wal.SearchForEndHeight(h, &WALSearchOptions{})
		if gr != nil {
			gr.Close()
		}
		if err != nil || !found {
			return "consensus/wal.go:SearchForEndHeight:written-marker-not-found-after-concurrent-rotation", fmt.Sprintf("#ENDHEIGHT %d: found=%v err=%v", h, found, err)
		}
	}
	return "", ""
}

func TestVerifC15Conc(t *testing.T) {
	r := vr.Start("C15", "conc", 60*time.Second, 10*time.Minute)
	defer r.Finish()
	r.Rule = "every schedule (no preemption bound) of the WAL's writer (write, synced end-height marker, write, synced marker) against the group's ticker actions (rotation once or twice, total-size pruning) and a periodic flush, " +
		"scheduling points = operations on the file group's mutex; after each: whole-group read equals what was written, every file starts at a record boundary, strict end-height search finds both markers; a case = (scenario, schedule), all distinct; non-trivial = at least one preemption"
	r.Assume("operations between two operations on the group's mutex are atomic for the other actors (the group's state is only touched under that mutex)")
	var rc c15cCase
	if rep, skip := r.ReplayCase(&rc); skip {
		return
	} else if rep {
		res, sc := gosched.Replay(rc.Choices, func() (*gosched.Sched, interface{}) { s, run := c15cBuild(rc.Scenario); return s, run })
		run := sc.(*c15cRun)
		defer run.close()
		r.Eval()
		if k, w := run.judge(res); k != "" {
			r.Violation(k, w, rc)
		}
		return
	}
	for i, scn := range c15cScenarios {
		if !r.Mine(i) {
			continue
		}
		scn := scn
		reported := map[string]bool{}
		execs, complete := gosched.Explore(1000,
			func() (*gosched.Sched, interface{}) { s, run := c15cBuild(scn); return s, run },
			func(res *gosched.Result, sc interface{}) bool {
				run := sc.(*c15cRun)
				defer run.close()
				r.Eval()
				r.Traces++
				r.Transitions += int64(len(res.Steps))
				if len(res.Steps) > r.MaxDepth {
					r.MaxDepth = len(res.Steps)
				}
				if res.Preempts > 0 {
					r.NTCount(1)
				}
				k, w := run.judge(res)
				if k != "" {
					if !reported[k] {
						reported[k] = true
						cs := c15cCase{Scenario: scn, Choices: res.Choices, Trace: res.String()}
						res2, sc2 := gosched.Replay(cs.Choices, func() (*gosched.Sched, interface{}) { s, run := c15cBuild(scn); return s, run })
						run2 := sc2.(*c15cRun)
						k2, _ := run2.judge(res2)
						run2.close()
						if k2 != k {
							r.Cap("a schedule did not reproduce its violation: " + k)
						} else {
							r.Violation(k, fmt.Sprintf("[%s] %s ; schedule: %s", scn, w, res), cs)
						}
					}
					r.Outcome(scn + ": " + k)
				} else {
					r.Outcome(fmt.Sprintf("%s: files %d..%d", scn, run.wal.group.MinIndex(), run.wal.group.MaxIndex()))
				}
				return !r.Deadline("C15 schedules of " + scn)
			})
		r.Set("schedules["+scn+"]", fmt.Sprintf("%d complete=%v", execs, complete))
		if !complete {
			r.Cap("schedule enumeration of " + scn + " was cut short")
		}
	}
	r.Bound = "all schedules of the four scenarios (no preemption bound)"
}
