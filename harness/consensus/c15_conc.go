package consensus

// C15, part "conc": the WAL has one writer (the consensus routine) but its file group is also driven by the group's
// own ticker goroutine (head-size check -> rotation, total-size check -> pruning) and by the periodic flush. Every
// interleaving of the writer with those actors is enumerated under the cooperative scheduler (scheduling points =
// operations on the group's mutex), on the journalled file system. Judged after each execution: every record written
// is returned by a reader over the whole group, in order; every file of the group starts at a record boundary (a
// reader positioned at a file start, which is what the end-height search does, decodes it); the end-height search
// finds every marker that was written, without the option that skips corruption.

import (
	"strings"
	"errors"
	"fmt"
	"io"
	"testing"
	"time"

	"github.com/tendermint/tendermint/internal/verif/gosched"
	"github.com/tendermint/tendermint/internal/verif/vos"
	"github.com/tendermint/tendermint/internal/verif/vr"
)

type c15cCase struct {
	Scenario string `json:"scenario"`
	Choices  []int  `json:"schedule"`
	Trace    string `json:"trace,omitempty"`
}

type c15cRun struct {
	w       *vos.World
	wal     *BaseWAL
	walPath string
	written []int64 // ids in write order (the writer is sequential)
	werr    error
	// reader scenarios: what a reader opened on the oldest file returned, and what had been written and synced before it was opened
	reading bool
	before  []int64
	read    []int64
	rerr    error
}

var c15cScenarios = []string{"writer+rotate", "writer+rotate+flush", "writer+2rotates", "writer+rotate+prune", "reader+rotate", "reader+rotate+writer", "reader+2rotates"}

func c15cBuild(scn string) (*gosched.Sched, *c15cRun) {
	w := vos.NewWorld()
	run := &c15cRun{w: w, walPath: w.Root + "/cs.wal/wal"}
	wal, err := c15Open(run.walPath)
	if err != nil {
		panic(err)
	}
	run.wal = wal
	s := gosched.New()
	write := func(id int64, sync bool) {
		var err error
		if sync {
			err = wal.WriteSync(c15Msg(id))
		} else {
			err = wal.Write(c15Msg(id))
		}
		if err != nil && run.werr == nil {
			run.werr = err
		}
		run.written = append(run.written, id)
	}
	writer := func() {
		write(1, false)
		write(-1, true) // #ENDHEIGHT 1
		write(2, false)
		write(-2, true) // #ENDHEIGHT 2
	}
	if strings.HasPrefix(scn, "reader") {
		// before any concurrency: two files, everything on disk — wal.000 = [#0, 1, #1], head = [2, #2]
		write(1, false)
		write(-1, true)
		wal.group.RotateFile()
		write(2, false)
		write(-2, true)
		run.reading = true
		run.before = append([]int64{0}, run.written...)
		wal.group.VerifManage(s)
		s.Go("reader", func() {
			gr, err := wal.group.NewReader(0)
			if err != nil {
				run.rerr = err
				return
			}
			defer gr.Close()
			dec := NewWALDecoder(gr)
			for {
				tm, err := dec.Decode()
				if errors.Is(err, io.EOF) {
					return
				}
				if err != nil {
					run.rerr = err
					return
				}
				id, ok := c15ID(tm.Msg)
				if !ok {
					run.rerr = fmt.Errorf("reader returned a record that was never written: %T", tm.Msg)
					return
				}
				run.read = append(run.read, id)
			}
		})
		switch scn {
		case "reader+rotate":
			s.Go("ticker", func() { wal.group.RotateFile() })
		case "reader+rotate+writer":
			s.Go("ticker", func() { wal.group.RotateFile() })
			s.Go("writer", func() { write(3, false); write(-3, true) })
		case "reader+2rotates":
			s.Go("ticker", func() { wal.group.RotateFile(); wal.group.RotateFile() })
		default:
			panic("c15c: unknown scenario " + scn)
		}
		return s, run
	}
	wal.group.VerifManage(s)
	s.Go("writer", writer)
	switch scn {
	case "writer+rotate":
		s.Go("ticker", func() { wal.group.RotateFile() })
	case "writer+rotate+flush":
		s.Go("ticker", func() { wal.group.RotateFile() })
		s.Go("flusher", func() { _ = wal.FlushAndSync() })
	case "writer+2rotates":
		s.Go("ticker", func() { wal.group.RotateFile(); wal.group.RotateFile() })
	case "writer+rotate+prune":
		s.Go("ticker", func() { wal.group.RotateFile(); wal.group.VerifCheckTotalSizeLimit() })
	default:
		panic("c15c: unknown scenario " + scn)
	}
	return s, run
}

func (run *c15cRun) close() {
	run.w.Freeze()
	c15Stop(run.wal)
	run.w.Close()
}

func (run *c15cRun) judge(res *gosched.Result) (key, what string) {
	if len(res.Panics) > 0 {
		return "consensus/wal.go:concurrent-rotation-panics", fmt.Sprint(res.Panics)
	}
	if res.Deadlock || res.Overrun {
		return "consensus/wal.go:concurrent-rotation-deadlocks", fmt.Sprintf("deadlock=%v overrun=%v blocked=%v", res.Deadlock, res.Overrun, res.Blocked)
	}
	if run.werr != nil {
		return "consensus/wal:operation-fails-without-crash", run.werr.Error()
	}
	if err := run.wal.FlushAndSync(); err != nil {
		return "consensus/wal:flush-fails", err.Error()
	}
	if run.reading {
		// 0. the reader that was open during the rotation: everything that was on disk before it was opened, in order,
		// then possibly some of what was written meanwhile, in write order
		if run.rerr != nil {
			return "libs/autofile/group.go:GroupReader:fails-when-the-group-rotates-under-it", fmt.Sprintf("read %v then: %v", run.read, run.rerr)
		}
		// (records written while the reader is open are not "earlier synced writes" for it: it may see any of them, in
		// write order — a reader that reaches the end of the head just before a rotation flushes more into it moves on)
		all := append([]int64{0}, run.written...)
		okPrefix := len(run.read) >= len(run.before)
		for i := 0; okPrefix && i < len(run.before); i++ {
			if run.read[i] != run.before[i] {
				okPrefix = false
			}
		}
		if okPrefix {
			j := len(run.before)
			for _, id := range run.read[len(run.before):] {
				for j < len(all) && all[j] != id {
					j++
				}
				if j == len(all) {
					okPrefix = false
					break
				}
				j++
			}
		}
		if !okPrefix {
			return "libs/autofile/group.go:GroupReader:records-skipped-when-the-group-rotates-under-it", fmt.Sprintf("on disk before the reader was opened %v, written in all %v, the reader returned %v", run.before, all, run.read)
		}
	}
	// 1. a reader over the whole group returns what was written, in order (behind the initial #ENDHEIGHT 0)
	ids, rerr := c15ReadAll(run.wal)
	if rerr != nil {
		return "consensus/wal.go:records-unreadable-after-concurrent-rotation", fmt.Sprintf("read %v then: %v", ids, rerr)
	}
	want := append([]int64{0}, run.written...)
	if fmt.Sprint(ids) != fmt.Sprint(want) {
		return "consensus/wal.go:records-lost-or-reordered-by-concurrent-rotation", fmt.Sprintf("written %v, read back %v", want, ids)
	}
	// 2. every file starts at a record boundary
	g := run.wal.group
	for idx := g.MinIndex(); idx <= g.MaxIndex(); idx++ {
		gr, err := g.NewReader(idx)
		if err != nil {
			return "consensus/wal.go:file-of-the-group-cannot-be-opened", fmt.Sprintf("index %d: %v", idx, err)
		}
		_, derr := NewWALDecoder(gr).Decode()
		gr.Close()
		if derr != nil && derr != io.EOF {
			return "consensus/wal.go:Encode:record-split-across-files-by-rotation", fmt.Sprintf("file %d of the group (%d..%d) does not start with a whole record: %v", idx, g.MinIndex(), g.MaxIndex(), derr)
		}
	}
	// 3. the strict end-height search finds the markers
	for _, h := range []int64{1, 2} {
		gr, found, err := run.wal.SearchForEndHeight(h, &WALSearchOptions{})
		if gr != nil {
			gr.Close()
		}
		if err != nil || !found {
			return "consensus/wal.go:SearchForEndHeight:written-marker-not-found-after-concurrent-rotation", fmt.Sprintf("#ENDHEIGHT %d: found=%v err=%v", h, found, err)
		}
	}
	return "", ""
}

func TestVerifC15Conc(t *testing.T) {
	r := vr.Start("C15", "conc", 60*time.Second, 10*time.Minute)
	defer r.Finish()
	r.Rule = "every schedule (no preemption bound) of the WAL's writer (write, synced end-height marker, write, synced marker) against the group's ticker actions (rotation once or twice, total-size pruning) and a periodic flush, " +
		"scheduling points = operations on the file group's mutex; after each: whole-group read equals what was written, every file starts at a record boundary, strict end-height search finds both markers; a case = (scenario, schedule), all distinct; non-trivial = at least one preemption"
	r.Assume("operations between two operations on the group's mutex are atomic for the other actors (the group's state is only touched under that mutex)")
	var rc c15cCase
	if rep, skip := r.ReplayCase(&rc); skip {
		return
	} else if rep {
		res, sc := gosched.Replay(rc.Choices, func() (*gosched.Sched, interface{}) { s, run := c15cBuild(rc.Scenario); return s, run })
		run := sc.(*c15cRun)
		defer run.close()
		r.Eval()
		if k, w := run.judge(res); k != "" {
			r.Violation(k, w, rc)
		}
		return
	}
	for i, scn := range c15cScenarios {
		if !r.Mine(i) {
			continue
		}
		scn := scn
		reported := map[string]bool{}
		execs, complete := gosched.Explore(1000,
			func() (*gosched.Sched, interface{}) { s, run := c15cBuild(scn); return s, run },
			func(res *gosched.Result, sc interface{}) bool {
				run := sc.(*c15cRun)
				defer run.close()
				r.Eval()
				r.Traces++
				r.Transitions += int64(len(res.Steps))
				if len(res.Steps) > r.MaxDepth {
					r.MaxDepth = len(res.Steps)
				}
				if res.Preempts > 0 {
					r.NTCount(1)
				}
				k, w := run.judge(res)
				if k != "" {
					if !reported[k] {
						reported[k] = true
						cs := c15cCase{Scenario: scn, Choices: res.Choices, Trace: res.String()}
						res2, sc2 := gosched.Replay(cs.Choices, func() (*gosched.Sched, interface{}) { s, run := c15cBuild(scn); return s, run })
						run2 := sc2.(*c15cRun)
						k2, _ := run2.judge(res2)
						run2.close()
						if k2 != k {
							r.Cap("a schedule did not reproduce its violation: " + k)
						} else {
							r.Violation(k, fmt.Sprintf("[%s] %s ; schedule: %s", scn, w, res), cs)
						}
					}
					r.Outcome(scn + ": " + k)
				} else {
					r.Outcome(fmt.Sprintf("%s: files %d..%d", scn, run.wal.group.MinIndex(), run.wal.group.MaxIndex()))
				}
				return !r.Deadline("C15 schedules of " + scn)
			})
		r.Set("schedules["+scn+"]", fmt.Sprintf("%d complete=%v", execs, complete))
		if !complete {
			r.Cap("schedule enumeration of " + scn + " was cut short")
		}
	}
	r.Bound = "all schedules of the four scenarios (no preemption bound)"
}
