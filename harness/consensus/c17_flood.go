package consensus

// C17, part "voteflood": "never makes it buffer more than ... capacity", for the one place where a peer's messages create
// state that outlives them: vote sets for rounds the node is not in. One peer sends a burst of well-formed votes of the
// node's height, each for another far-away round; every pattern of {validly signed by a validator, signature that does not
// verify, signed by a validator under another validator's index} over the burst, prevotes and precommits, in every node
// state. After the state machine has handled the burst the number of those rounds it tracks must not exceed the two
// catch-up rounds a peer is allowed, whatever the votes were (a rejected vote must not leave a round behind).

import (
	"fmt"
	"testing"
	"time"

	"github.com/tendermint/tendermint/internal/verif/vr"
	"github.com/tendermint/tendermint/p2p"
	tmproto "github.com/tendermint/tendermint/proto/tendermint/types"
	"github.com/tendermint/tendermint/types"
)

type c17FCase struct {
	Node    int   `json:"node"`
	VType   int   `json:"vote_type"` // 1 prevote, 2 precommit
	Pattern []int `json:"pattern"`   // per vote of the burst: 0 valid, 1 bad signature, 2 another validator's index
	Peers   int   `json:"peers"`     // the burst is spread round-robin over this many peers
}

const c17FloodBase = 10 // first round of the burst (far above anything the node states reach)

func (e *c17Env) runFlood(c c17FCase) (key, what string) {
	n := e.newNode(c.Node)
	defer n.stop()
	h := n.cs.Height
	typ := tmproto.PrevoteType
	if c.VType == 2 {
		typ = tmproto.PrecommitType
	}
	bid := types.BlockID{Hash: make([]byte, 32), PartSetHeader: types.PartSetHeader{Total: 1, Hash: make([]byte, 32)}}
	for i, kind := range c.Pattern {
		v := n.vote(e.byzIdx, h, int32(c17FloodBase+i), typ, bid)
		switch kind {
		case 1:
			v.Signature = append([]byte{}, v.Signature...)
			v.Signature[0] ^= 0x55
		case 2:
			v.ValidatorIndex = int32((e.byzIdx + 1) % len(e.keys))
		}
		peer := p2p.ID(fmt.Sprintf("c17-flood-peer-%d", i%c.Peers))
		if p := n.handle(msgInfo{&VoteMessage{v}, peer}); p != "" {
			return "consensus:panic-on-vote-burst:" + p, fmt.Sprintf("vote %d of the burst", i)
		}
		if p := n.drainInternal(); p != "" {
			return "consensus:panic-on-vote-burst:" + p, fmt.Sprintf("after vote %d of the burst", i)
		}
	}
	tracked := 0
	for i := range c.Pattern {
		r := int32(c17FloodBase + i)
		if n.cs.Votes.Prevotes(r) != nil || n.cs.Votes.Precommits(r) != nil {
			tracked++
		}
	}
	if tracked > 2*c.Peers {
		return "consensus/types/height_vote_set.go:AddVote:peer-opens-more-than-two-catchup-rounds",
			fmt.Sprintf("%d peer(s) sent %d votes for rounds %d.. of height %d (pattern %v: 0 valid, 1 bad signature, 2 foreign index); the node now keeps vote sets for %d of those rounds (allowed: 2 per peer)",
				c.Peers, len(c.Pattern), c17FloodBase, h, c.Pattern, tracked)
	}
	return "", ""
}

func TestVerifC17VoteFlood(t *testing.T) {
	r := vr.Start("C17", "voteflood", 60*time.Second, 10*time.Minute)
	defer r.Finish()
	r.Rule = "every node state x {prevote, precommit} x every pattern of {valid, bad signature, foreign index} over a burst of L votes for L distinct far rounds of the node's height x {1, 2} sending peers, handled by the real state machine; " +
		"the rounds of the burst that the node tracks afterwards number at most 2 per peer; a case = (state, type, pattern, peers), all distinct; non-trivial = the pattern holds a rejected vote"
	e := newC17Env()
	defer e.cleanup()
	var rc c17FCase
	if rep, skip := r.ReplayCase(&rc); skip {
		return
	} else if rep {
		r.Eval()
		if k, w := e.runFlood(rc); k != "" {
			r.Violation(k, w, rc)
		}
		return
	}
	L := vr.Pick(5, 7)
	states := c17NNodeStatesQuick
	if vr.Thorough() {
		states = c17NNodeStatesAll
	}
	k := 0
	reported := map[string]bool{}
	pat := make([]int, L)
	for node := 0; node < states; node++ {
		for vt := 1; vt <= 2; vt++ {
			for peers := 1; peers <= 2; peers++ {
				for code := 0; ; code++ {
					x, over := code, false
					for i := range pat {
						pat[i] = x % 3
						x /= 3
					}
					if x > 0 {
						over = true
					}
					if over {
						break
					}
					k++
					if !r.Mine(k) {
						continue
					}
					if k%64 == 0 && r.Deadline("C17 vote bursts") {
						return
					}
					c := c17FCase{Node: node, VType: vt, Pattern: append([]int{}, pat...), Peers: peers}
					r.Eval()
					for _, p := range pat {
						if p != 0 {
							r.NTCount(1)
							break
						}
					}
					if key, what := e.runFlood(c); key != "" {
						r.Outcome(key)
						if !reported[key] {
							reported[key] = true
							r.Violation(key, what, c)
						}
					} else {
						r.Outcome("bounded")
					}
				}
			}
		}
	}
	r.Bound = fmt.Sprintf("bursts of %d votes; %d node states; 3^%d patterns; 1-2 peers", L, states, L)
}
