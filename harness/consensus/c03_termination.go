package consensus

// C03 — termination once the network behaves.
// Prefix: every distinct tuple of local node states visited by the C01 exploration (adversarial
// schedules, Byzantine strategies, deviations). Suffix: a deterministic synchronous driver with the
// property's idealised gossip — everything a correct node holds (votes of all rounds, proposal,
// block parts, +2/3 majority claims, a decided node's commit and block) reaches every other correct
// node before any timeout fires — for each suffix behaviour of the Byzantine validator.

import (
	"fmt"
	"os"
	"runtime"
	"sort"
	"sync"
	"sync/atomic"
	"testing"
	"time"

	"github.com/tendermint/tendermint/internal/verif/vr"
	tmproto "github.com/tendermint/tendermint/proto/tendermint/types"
	"github.com/tendermint/tendermint/types"
)

type c03Case struct {
	Cfg    c01Config   `json:"cfg"`
	Hists  [][]dsRepEv `json:"local_histories"` // per correct node: its local input history at the synchrony point
	Suffix string      `json:"suffix"`          // Byzantine behaviour after the synchrony point: silent | echo
	Desc   [][]string  `json:"desc,omitempty"`
}

const c03ExtraRounds = 4 + 2 // n + 2

// held lists what node n would gossip: (key, msgInfo) pairs in canonical order.
type c03Held struct {
	key string
	mi  msgInfo
	// maj23 claim instead of a message
	claim bool
	round int32
	typ   tmproto.SignedMsgType
	bid   types.BlockID
}

func c03PartsOf(h int64, round int32, ps *types.PartSet, tag string, out *[]c03Held) {
	if ps == nil {
		return
	}
	for i := 0; i < int(ps.Total()); i++ {
		if p := ps.GetPart(i); p != nil {
			*out = append(*out, c03Held{key: fmt.Sprintf("part/%X/%d", ps.Header().Hash, i),
				mi: msgInfo{Msg: &BlockPartMessage{Height: h, Round: round, Part: p}}})
		}
	}
	_ = tag
}

func c03HeldBy(n *dsNode) []c03Held {
	var out []c03Held
	cs := n.cs
	h := n.w.Height
	voteSets := func(vs *types.VoteSet, round int32, typ tmproto.SignedMsgType) {
		if vs == nil {
			return
		}
		for i := 0; i < n.w.N; i++ {
			if v := vs.GetByIndex(int32(i)); v != nil {
				out = append(out, c03Held{key: fmt.Sprintf("vote/%d/%d/%d/%X/%X", round, typ, i, v.BlockID.Hash, v.Signature[:4]),
					mi: msgInfo{Msg: &VoteMessage{Vote: v}}})
			}
		}
		if bid, ok := vs.TwoThirdsMajority(); ok {
			out = append(out, c03Held{key: fmt.Sprintf("maj23/%d/%d/%X", round, typ, bid.Hash), claim: true, round: round, typ: typ, bid: bid})
		}
	}
	if cs.Height == h {
		if cs.Proposal != nil {
			out = append(out, c03Held{key: fmt.Sprintf("prop/%d/%X/%d", cs.Proposal.Round, cs.Proposal.BlockID.Hash, cs.Proposal.POLRound),
				mi: msgInfo{Msg: &ProposalMessage{Proposal: cs.Proposal}}})
		}
		c03PartsOf(h, cs.Round, cs.ProposalBlockParts, "p", &out)
		c03PartsOf(h, cs.Round, cs.LockedBlockParts, "l", &out)
		c03PartsOf(h, cs.Round, cs.ValidBlockParts, "v", &out)
		rounds := dsPeek(cs.Votes, "roundVoteSets").MapKeys()
		sort.Slice(rounds, func(i, j int) bool { return rounds[i].Int() < rounds[j].Int() })
		for _, r := range rounds {
			voteSets(cs.Votes.Prevotes(int32(r.Int())), int32(r.Int()), tmproto.PrevoteType)
		}
		for _, r := range rounds {
			voteSets(cs.Votes.Precommits(int32(r.Int())), int32(r.Int()), tmproto.PrecommitType)
		}
	} else if cs.Height == h+1 {
		// a decided node holds the block and the commit of height h
		if meta := n.bstore.LoadBlockMeta(h); meta != nil {
			for i := 0; i < int(meta.BlockID.PartSetHeader.Total); i++ {
				if p := n.bstore.LoadBlockPart(h, i); p != nil {
					out = append(out, c03Held{key: fmt.Sprintf("part/%X/%d", meta.BlockID.PartSetHeader.Hash, i),
						mi: msgInfo{Msg: &BlockPartMessage{Height: h, Round: 0, Part: p}}})
				}
			}
		}
		if cs.LastCommit != nil {
			voteSets(cs.LastCommit, cs.LastCommit.GetRound(), tmproto.PrecommitType)
		}
	}
	return out
}

// c03Suffix drives the nodes synchronously. It returns "" when every correct node decided in time.
func c03Suffix(s *c01Setup, nodes []*dsNode, suffix string, r *vr.Report) (key, what string, roundsNeeded int32) {
	w := s.w
	startRound := int32(0)
	for _, n := range nodes {
		if n.halted != "" {
			return "consensus:correct-node-halted", fmt.Sprintf("node v%d halted before the synchrony point: %s", n.idx, n.halted), 0
		}
		if n.cs.Height == w.Height && n.cs.Round > startRound {
			startRound = n.cs.Round
		}
	}
	got := make([]map[string]bool, len(nodes))
	for i := range got {
		got[i] = map[string]bool{}
	}
	allDecided := func() bool {
		for _, n := range nodes {
			if n.decided == "" {
				return false
			}
		}
		return true
	}
	echo := func(n *dsNode, id int) {
		if suffix != "echo" {
			return
		}
		m := w.msg(id)
		if m.Kind != "vote" {
			return
		}
		v := m.mis[0].Msg.(*VoteMessage).Vote
		bm := w.msg(w.byzVote(s.byz, v.Type, v.Round, v.BlockID))
		if n.halted == "" && n.cs.Height == w.Height {
			n.nEvents++
			n.guarded(func() { n.cs.handleMsg(msgInfo{Msg: bm.mis[0].Msg, PeerID: dsPeerID(s.byz)}) })
			n.afterStep()
		}
	}
	drainOwn := func() bool {
		did := false
		for _, n := range nodes {
			for len(n.ownQ) > 0 && n.halted == "" {
				id := n.own()
				echo(n, id)
				did = true
			}
		}
		return did
	}
	for iter := 0; iter < 2000; iter++ {
		for _, n := range nodes {
			if n.halted != "" {
				return "consensus:correct-node-halted", fmt.Sprintf("node v%d halted after the synchrony point: %s", n.idx, n.halted), 0
			}
		}
		if allDecided() {
			break
		}
		progress := drainOwn()
		// gossip closure
		for changed := true; changed; {
			changed = false
			if suffix == "pester" || suffix == "pester-commit" {
				// the faulty validator keeps proposing: whenever a correct node is in a round it is the proposer of and
				// holds no proposal for that round, it (re)sends its proposal — at any moment, also between gossip passes
				for _, n := range nodes {
					if n.halted != "" || n.cs.Height != w.Height || n.cs.Proposal != nil || w.proposerOf(n.cs.Round) != s.byz {
						continue
					}
					if suffix == "pester-commit" && n.cs.Step != 8 /* RoundStepCommit: a node that knows the decision and waits for the block */ {
						continue
					}
					name := fmt.Sprintf("X1r%d", n.cs.Round)
					w.mtx.Lock()
					_, have := w.blocks[name]
					w.mtx.Unlock()
					var pm *dsMsg
					if !have {
						id, _ := w.byzProposal(s.byz, n.cs.Round, -1, []types.Tx{types.Tx("x1")}, false, name)
						pm = w.msg(id)
					} else {
						blk := w.blocks[name]
						ps := blk.MakePartSet(types.BlockPartSizeBytes)
						pm = w.msg(w.signedProposal(s.byz, n.cs.Round, -1, types.BlockID{Hash: blk.Hash(), PartSetHeader: ps.Header()}, ps))
					}
					mi := msgInfo{Msg: pm.mis[0].Msg, PeerID: dsPeerID(s.byz)} // the proposal message alone
					n.nEvents++
					n.guarded(func() { n.cs.handleMsg(mi) })
					n.afterStep()
					if n.cs.Proposal != nil {
						progress = true
					}
				}
			}
			for i, src := range nodes {
				held := c03HeldBy(src)
				for j, dst := range nodes {
					if i == j || dst.halted != "" || dst.cs.Height != w.Height {
						continue
					}
					for _, hm := range held {
						if hm.claim {
							if got[j][hm.key+dsJSON(src.idx)] {
								continue
							}
							got[j][hm.key+dsJSON(src.idx)] = true
						} else if c03Has(dst, hm.mi.Msg) {
							continue // the destination already holds it (a real peer would not re-send it)
						}
						if hm.claim {
							dst.maj23Claim(src.idx, hm.round, hm.typ, hm.bid)
							changed, progress = true, true
						} else {
							mi := msgInfo{Msg: hm.mi.Msg, PeerID: dsPeerID(src.idx)}
							dst.nEvents++
							dst.guarded(func() { dst.cs.handleMsg(mi) })
							dst.afterStep()
							// accepted iff the destination now holds it (a refused message changes nothing)
							if dst.cs.Height != w.Height || c03Has(dst, hm.mi.Msg) {
								changed, progress = true, true
							}
						}
						if drainOwn() {
							changed, progress = true, true
						}
						if dst.halted != "" || dst.cs.Height != w.Height {
							break
						}
					}
				}
			}
		}
		if allDecided() {
			break
		}
		if progress {
			continue
		}
		// nothing deliverable: every pending timeout fires
		fired := false
		for _, n := range nodes {
			if n.halted == "" && n.decided == "" && n.ticker.armed {
				n.fireTimeout()
				fired = true
			}
		}
		drainOwn()
		if !fired {
			if os.Getenv("C03_DEBUG") != "" {
				for _, n := range nodes {
					fmt.Printf("DEBUG v%d h%d r%d s%d locked=%v proposal=%v pbparts=%v\n", n.idx, n.cs.Height, n.cs.Round, n.cs.Step, n.cs.LockedBlock != nil, n.cs.Proposal != nil, n.cs.ProposalBlockParts != nil)
					if n.cs.Height == w.Height {
						fmt.Printf("  votes: %s\n", n.cs.Votes.StringIndented("  "))
						for _, vs := range []*types.VoteSet{n.cs.Votes.Prevotes(0), n.cs.Votes.Precommits(0)} {
							for i := 0; i < 4; i++ {
								if v := vs.GetByIndex(int32(i)); v != nil {
									_, val := w.state0.Validators.GetByIndex(int32(i))
									fmt.Printf("    slot %d type %d block %X sig-valid=%v\n", i, v.Type, v.BlockID.Hash, v.Verify(w.ChainID, val.PubKey) == nil)
								}
							}
						}
					} else {
						fmt.Printf("  lastcommit: %v\n", n.cs.LastCommit)
						for _, hm := range c03HeldBy(n) {
							fmt.Printf("  held %s claim=%v\n", hm.key, hm.claim)
						}
					}
				}
			}
			return "consensus:stuck-after-synchrony", fmt.Sprintf("no message deliverable and no timeout pending, undecided nodes remain (rounds %v)", c03Rounds(nodes)), 0
		}
		for _, n := range nodes {
			if n.decided == "" && n.cs.Round > startRound+c03ExtraRounds {
				return "consensus:no-decision-within-round-bound", fmt.Sprintf("node v%d reached round %d without deciding; synchrony began at round %d (bound +%d)", n.idx, n.cs.Round, startRound, c03ExtraRounds), 0
			}
		}
	}
	if !allDecided() {
		return "consensus:no-decision-within-round-bound", fmt.Sprintf("iteration cap reached; rounds %v", c03Rounds(nodes)), 0
	}
	d := ""
	for _, n := range nodes {
		if d != "" && n.decided != d {
			return "consensus:disagreement", fmt.Sprintf("correct nodes decided %s and %s", d, n.decided), 0
		}
		d = n.decided
		if sc := n.bstore.LoadSeenCommit(w.Height); sc != nil && sc.Round-startRound > roundsNeeded {
			roundsNeeded = sc.Round - startRound
		}
	}
	return "", "", roundsNeeded
}

// c03Has says whether the node already holds the message (what peers learn from HasVote /
// NewValidBlock / proposal bit arrays, and use to decide what to (re)send).
func c03Has(n *dsNode, msg Message) bool {
	cs := n.cs
	switch m := msg.(type) {
	case *VoteMessage:
		v := m.Vote
		if v.Height != cs.Height {
			return cs.LastCommit != nil && v.Height+1 == cs.Height && cs.LastCommit.GetByIndex(v.ValidatorIndex) != nil
		}
		vs := cs.Votes.Prevotes(v.Round)
		if v.Type == tmproto.PrecommitType {
			vs = cs.Votes.Precommits(v.Round)
		}
		if vs == nil {
			return false
		}
		if ex := vs.GetByIndex(v.ValidatorIndex); ex != nil && ex.BlockID.Equals(v.BlockID) {
			return true
		}
		if ba := vs.BitArrayByBlockID(v.BlockID); ba != nil && ba.GetIndex(int(v.ValidatorIndex)) {
			return true
		}
		return false
	case *ProposalMessage:
		return cs.Proposal != nil && cs.Proposal.Round == m.Proposal.Round && cs.Proposal.BlockID.Equals(m.Proposal.BlockID)
	case *BlockPartMessage:
		ps := cs.ProposalBlockParts
		return ps != nil && ps.GetPart(int(m.Part.Index)) != nil && string(ps.GetPart(int(m.Part.Index)).Proof.LeafHash) == string(m.Part.Proof.LeafHash)
	}
	return false
}

func c03Rounds(nodes []*dsNode) []string {
	var out []string
	for _, n := range nodes {
		out = append(out, fmt.Sprintf("v%d:h%d/r%d/s%d", n.idx, n.cs.Height, n.cs.Round, n.cs.Step))
	}
	return out
}

func c03RunCase(r *vr.Report, cs c03Case) (key, what string, rounds int32) {
	s := c01Build(r, cs.Cfg)
	nodes := make([]*dsNode, len(s.correct))
	// local histories are replayed node by node; messages a node receives must exist, so replay in rounds:
	// interleave by repeatedly advancing any node whose next message is already known.
	for i, vi := range s.correct {
		nodes[i] = s.w.newNode(vi)
	}
	pos := make([]int, len(nodes))
	for progress := true; progress; {
		progress = false
		for i := range nodes {
			for pos[i] < len(cs.Hists[i]) {
				re := cs.Hists[i][pos[i]]
				ev := dsEv{K: re.K, N: uint8(i)}
				if re.K == dsDeliver {
					id, ok := dsResolve(s.w, re)
					if !ok {
						break // produced later by another node
					}
					ev.M = int32(id)
				}
				for _, m := range s.e.apply(nodes[i], ev) {
					if s.e.onPublish != nil {
						s.e.onPublish(s.w.msg(int(m)), i) // creates what the publication makes available (echo votes, forged votes for the block)
					}
				}
				pos[i]++
				progress = true
			}
		}
	}
	for i := range nodes {
		if pos[i] < len(cs.Hists[i]) {
			panic(fmt.Sprintf("c03: local history cannot be replayed (message never produced): %s cfg=%+v node=%d hist=%v all=%v", cs.Hists[i][pos[i]].Key, cs.Cfg, i, cs.Desc[i], cs.Desc))
		}
	}
	return c03Suffix(s, nodes, cs.Suffix, r)
}

func TestVerifC03(t *testing.T) {
	r := vr.Start("C03", "termination", 140*time.Second, 22*time.Minute)
	defer r.Finish()
	r.Rule = "prefix = every distinct tuple of local states of the 3 correct nodes visited by the C01 exploration (all executions with <= k deviations, per Byzantine configuration); " +
		"suffix = synchronous driver with idealised gossip, for each Byzantine suffix behaviour {silent, echo, pester (keeps re-sending its proposal for the node's round), pester-commit (does so only to nodes that wait for a decided block)}; a case is one (prefix tuple, suffix behaviour); " +
		"every case is distinct; non-trivial = the prefix is not the initial state"
	r.Assume("idealised gossip as the property states it (everything a correct node holds reaches every other correct node, +2/3 majority claims included), not the reactor's vote-picking rules")
	r.Assume("liveness is decided bounded: every correct node must decide within (round at synchrony point) + n + 2 rounds, n = 4")
	r.Assume("clocks are pinned; timeouts fire only when nothing is deliverable")
	var rc c03Case
	if rep, skip := r.ReplayCase(&rc); skip {
		return
	} else if rep {
		r.Eval()
		if k, w, _ := c03RunCase(r, rc); k != "" {
			r.Violation(k, w, rc)
		}
		return
	}
	cfgs := c01Configs()
	dev := vr.Pick(1, 2)
	workers := runtime.GOMAXPROCS(0)
	for ci, c := range cfgs {
		if !r.Mine(ci) || c.Mode != "dev" {
			continue
		}
		if r.Deadline("C03 configurations") {
			break
		}
		c.MaxDev = dev
		s := c01Build(r, c)
		s.e.localCheck, s.e.globalCheck = nil, nil
		g0 := s.e.initial(s.pend0)
		tuples := map[string][]int32{}
		var tmtx sync.Mutex
		s.e.search(g0, c.MaxDev, workers, func(id int32, g *dsGlobal, ls []*dsLocal, terminal bool) {
			k := fmt.Sprint(g.L)
			tmtx.Lock()
			if _, ok := tuples[k]; !ok {
				tuples[k] = append([]int32{}, g.L...)
			}
			tmtx.Unlock()
		})
		keys := make([]string, 0, len(tuples))
		for k := range tuples {
			keys = append(keys, k)
		}
		sort.Strings(keys)
		r.Add("prefix_states", int64(s.e.nStates()))
		r.Add("prefix_tuples", int64(len(keys)))
		var cursor int64
		var wg sync.WaitGroup
		var stop int32
		for wkr := 0; wkr < workers; wkr++ {
			wg.Add(1)
			go func() {
				defer wg.Done()
				for atomic.LoadInt32(&stop) == 0 {
					k := int(atomic.AddInt64(&cursor, 1)) - 1
					if k >= len(keys) {
						return
					}
					if k%16 == 0 && r.Deadline("C03 suffix runs") {
						atomic.StoreInt32(&stop, 1)
						return
					}
					ls := tuples[keys[k]]
					cs := c03Case{Cfg: c}
					for i, lid := range ls {
						l := s.e.local(lid)
						var h []dsRepEv
						for _, ev := range l.hist {
							re := dsRepOf(s.w, ev)
							re.N = uint8(i)
							h = append(h, re)
						}
						cs.Hists = append(cs.Hists, h)
						cs.Desc = append(cs.Desc, s.e.describe(l.hist))
					}
					for _, sfx := range []string{"silent", "echo", "pester", "pester-commit"} {
						cs.Suffix = sfx
						r.Eval()
						r.NTCount(1)
						key, what, rounds := c03RunCase(r, cs)
						if key != "" {
							k2, _, _ := c03RunCase(r, cs)
							k3, _, _ := c03RunCase(r, cs)
							if k2 != key || k3 != key {
								panic("C03: violation does not reproduce: harness fault")
							}
							r.Violation(key, what, cs)
						} else {
							r.Outcome(fmt.Sprintf("decided-after-%d-rounds", rounds))
						}
					}
					if k%5000 == 1 {
						r.Sample(map[string]interface{}{"config": c, "local_histories": cs.Desc, "suffixes": []string{"silent", "echo", "pester", "pester-commit"}})
					}
				}
			}()
		}
		wg.Wait()
	}
	r.Bound = fmt.Sprintf("prefixes: all C01 executions with <= %d deviations; suffix horizon: +%d rounds", dev, c03ExtraRounds)
}
