package ed25519

// Memoisation of the two pure ed25519 operations, injected by /verif (go build -overlay); not part of
// the repository. The original methods are renamed (sign→signReal, VerifySignature→verifySignatureReal)
// by a textual rewrite of the current ed25519.go and are what the wrappers call on a miss. Signing is
// deterministic (RFC 8032) and verification is a pure predicate, so caching preserves behaviour; it is
// switched on only by harnesses that replay the same histories many times.

import (
	"crypto/sha256"
	"sync"
)

var (
	verifMemoOn  bool
	verifMemoMtx sync.RWMutex
	verifSigs    = map[[32]byte][]byte{}
	verifOKs     = map[[32]byte]bool{}
)

// SetVerifMemo switches memoisation on or off (off by default).
func SetVerifMemo(on bool) { verifMemoMtx.Lock(); verifMemoOn = on; verifMemoMtx.Unlock() }

func verifKey(tag byte, a, b, c []byte) [32]byte {
	h := sha256.New()
	h.Write([]byte{tag, byte(len(a)), byte(len(a) >> 8), byte(len(b)), byte(len(b) >> 8), byte(len(b) >> 16)})
	h.Write(a)
	h.Write(b)
	h.Write(c)
	var k [32]byte
	copy(k[:], h.Sum(nil))
	return k
}

func (privKey PrivKey) Sign(msg []byte) ([]byte, error) {
	verifMemoMtx.RLock()
	on := verifMemoOn
	verifMemoMtx.RUnlock()
	if !on {
		return privKey.signReal(msg)
	}
	k := verifKey('s', privKey, msg, nil)
	verifMemoMtx.RLock()
	sig, ok := verifSigs[k]
	verifMemoMtx.RUnlock()
	if ok {
		return append([]byte{}, sig...), nil
	}
	sig, err := privKey.signReal(msg)
	if err == nil {
		verifMemoMtx.Lock()
		verifSigs[k] = append([]byte{}, sig...)
		verifMemoMtx.Unlock()
	}
	return sig, err
}

func (pubKey PubKey) VerifySignature(msg []byte, sig []byte) bool {
	verifMemoMtx.RLock()
	on := verifMemoOn
	verifMemoMtx.RUnlock()
	if !on {
		return pubKey.verifySignatureReal(msg, sig)
	}
	k := verifKey('v', pubKey, msg, sig)
	verifMemoMtx.RLock()
	ok, hit := verifOKs[k]
	verifMemoMtx.RUnlock()
	if hit {
		return ok
	}
	ok = pubKey.verifySignatureReal(msg, sig)
	verifMemoMtx.Lock()
	verifOKs[k] = ok
	verifMemoMtx.Unlock()
	return ok
}
